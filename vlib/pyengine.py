"""Engine 2: Hypothesis suites (python3-vt) for the command-line tools and scripts.

A suite is a module py/<name>.py run as a subprocess:
    python3-vt -m py.<name> --tier quick|thorough --seed N --out RESULT.json [--replay SCENARIO.json]
It writes RESULT.json:
  {"evaluations": int, "distinct_nontrivial": int, "classes": {..}, "samples": [..],
   "findings": [{"signature": str, "reason": str, "scenario": <json>}], "inconclusive": {..}, "exhaustive": bool?}
Shrunk failing scenarios are stored by this engine as build/artifacts/<ID>/<name>__<hash>.json and
replayed with --replay (which calls the suite's oracle directly, bypassing Hypothesis).
Environment given to suites: VERIF_CLI_DIR (cli build tree with xz, xzdec, lzmadec, lzmainfo, xzgrep, xzdiff ...),
VERIF_SCRATCH (private scratch directory, removed afterwards), VERIF_SHIM_DIR, VERIF_REPO, VERIF_KNOWN."""
import hashlib
import json
import os
import shutil
import subprocess
import sys
import time

from . import build, core

VERIF = build.VERIF
PY = shutil.which("python3-vt") or "/usr/local/bin/python3-vt"


def _env(prop, known_sigs, scratch):
    env = dict(os.environ)
    env["VERIF_CLI_DIR"] = build.lib_dir("cli")
    env["VERIF_ASAN_DIR"] = build.lib_dir("asan")
    env["VERIF_SCRATCH"] = scratch
    env["VERIF_SHIM_DIR"] = os.path.join(build.BUILD, "bin")
    env["VERIF_REPO"] = build.REPO
    env["VERIF_KNOWN"] = ",".join(known_sigs)
    env["PYTHONDONTWRITEBYTECODE"] = "1"
    env["PYTHONPATH"] = VERIF
    env.pop("LD_PRELOAD", None)
    return env


def setup(prop, spec):
    build.build_lib("cli")
    for s in spec.get("shims", ()):
        build.build_shim(s)
    for t in spec.get("helpers", ()):
        build.build_target(t["name"], t.get("variant", "asan"), fuzzer=False, src=t.get("src"))


def _run_suite(prop, suite, tier, seed, known_sigs, replay=None):
    scratch = os.path.join(build.BUILD, "scratch", f"{prop}-{suite['module']}-{os.getpid()}")
    shutil.rmtree(scratch, ignore_errors=True)
    os.makedirs(scratch)
    out = os.path.join(scratch, "result.json")
    cmd = [PY, "-m", "py." + suite["module"], "--tier", tier, "--seed", str(seed), "--out", out]
    if replay:
        cmd += ["--replay", replay]
    try:
        p = subprocess.run(cmd, cwd=VERIF, env=_env(prop, known_sigs, scratch), stdout=subprocess.PIPE, stderr=subprocess.STDOUT)
        text = p.stdout.decode(errors="replace")
        res = None
        if os.path.exists(out):
            with open(out) as f:
                res = json.load(f)
        return p.returncode, res, text
    finally:
        # scratch may contain files with odd modes/owners
        subprocess.run(["chmod", "-R", "u+rwx", scratch], stderr=subprocess.DEVNULL)
        shutil.rmtree(scratch, ignore_errors=True)


def run(prop, spec, tier, seed):
    t0 = time.time()
    try:
        setup(prop, spec)
    except build.BuildError as e:
        print(f"BUILD-ERROR {prop}: {e}", file=sys.stderr)
        return None
    findings_known, _ = core.load_known(prop)
    known_sigs = [e["signature"] for e in findings_known]
    tot = {"evaluations": 0, "distinct_nontrivial": 0, "classes": {}, "samples": [], "inconclusive": {}, "per_suite": {}}
    findings, broken = [], []
    exhaustive = None
    # replay tier: committed regression scenarios (corpus/<ID>/*.json), oracle called directly
    import glob
    replayed = 0
    for path in sorted(glob.glob(os.path.join(VERIF, "corpus", prop, "*.json"))):
        with open(path) as fh:
            j = json.load(fh)
        suite = next((s for s in spec["suites"] if s["module"] == j.get("suite")), spec["suites"][0])
        rc, res, text = _run_suite(prop, suite, "quick", seed, known_sigs, replay=path)
        replayed += 1
        if res is None:
            broken.append(f"replay of {path} produced no result: {text[-800:]}")
            continue
        for f in res.get("findings", []):
            f["suite"] = suite["module"]
            findings.append(f)
    tot["evaluations"] += replayed
    tot["replayed_corpus_files"] = replayed
    for suite in spec["suites"]:
        if tier == "quick" and suite.get("thorough_only"):
            continue
        rc, res, text = _run_suite(prop, suite, tier, seed, known_sigs)
        if res is None:
            broken.append(f"suite {suite['module']} produced no result (rc={rc}): {text[-1500:]}")
            continue
        tot["evaluations"] += res.get("evaluations", 0)
        tot["distinct_nontrivial"] += res.get("distinct_nontrivial", 0)
        tot["per_suite"][suite["module"]] = {k: res.get(k) for k in ("evaluations", "distinct_nontrivial")}
        for k, v in res.get("classes", {}).items():
            tot["classes"][k] = tot["classes"].get(k, 0) + v
        tot["samples"] += res.get("samples", [])[:6]
        for k, v in res.get("inconclusive", {}).items():
            tot["inconclusive"][k] = tot["inconclusive"].get(k, 0) + v
        if "exhaustive" in res:
            exhaustive = res["exhaustive"] if exhaustive is None else (exhaustive and res["exhaustive"])
        for f in res.get("findings", []):
            f["suite"] = suite["module"]
            findings.append(f)
        if res.get("broken"):
            broken.append(f"suite {suite['module']}: {res['broken']}")
        minimum = suite.get("min_nontrivial_quick", 2) if tier == "quick" else suite.get("min_nontrivial_thorough", suite.get("min_nontrivial_quick", 2))
        if res.get("distinct_nontrivial", 0) < minimum and not res.get("findings"):
            broken.append(f"suite {suite['module']} starved: {res.get('distinct_nontrivial', 0)} < {minimum}")
    art = os.path.join(build.BUILD, "artifacts", prop)
    os.makedirs(art, exist_ok=True)
    violations = []
    excluded = {k: v for k, v in tot["classes"].items() if k.startswith("excluded_known:")}
    seen = set()
    for f in findings:
        if f["signature"] in known_sigs or f["signature"] in seen:
            continue
        seen.add(f["signature"])
        blob = json.dumps({"suite": f["suite"], "signature": f["signature"], "scenario": f["scenario"]}, sort_keys=True)
        path = os.path.join(art, f"{f['suite']}__{hashlib.sha1(blob.encode()).hexdigest()[:16]}.json")
        with open(path, "w") as fh:
            fh.write(blob + "\n")
        f["path"] = path
        violations.append(f)
    coverage = {
        "evaluations": tot["evaluations"], "distinct_nontrivial": tot["distinct_nontrivial"], "rule": spec["rule"],
        "samples": tot["samples"][:10], "classes": tot["classes"], "per_suite": tot["per_suite"],
        "excluded_known_findings": excluded, "inconclusive": tot["inconclusive"],
    }
    if exhaustive is not None:
        coverage["exhaustive"] = bool(exhaustive)
        if spec.get("exhaustive_note"):
            coverage["exhaustive_what"] = spec["exhaustive_note"]
    lines = []
    for e in findings_known:
        n = excluded.get("excluded_known:" + e["signature"], 0)
        lines.append(f"KNOWN-FINDING: property={prop} {e['what']} (signature {e['signature']}; met {n} times in this run and excluded)")
    for f in violations:
        lines.append(f"# violation signature={f['signature']} suite={f['suite']}")
        lines.append(f"#   reason: {str(f.get('reason'))[:1500]}")
        lines.append(f"#   scenario: {json.dumps(f['scenario'])[:1500]}")
        lines.append(f"VIOLATION property={prop} replay={f['path']}")
    return {"coverage": coverage, "violations": len(violations), "lines": lines, "broken": broken[0][:1500] if broken else None, "wall": time.time() - t0}


def replay(prop, spec, path):
    setup(prop, spec)
    with open(path) as f:
        j = json.load(f)
    suite = next((s for s in spec["suites"] if s["module"] == j.get("suite")), spec["suites"][0])
    rc, res, text = _run_suite(prop, suite, "quick", 1, (), replay=path)
    sys.stdout.write(text[-4000:])
    if res and res.get("findings"):
        for f in res["findings"]:
            print(f"#   reason: {str(f.get('reason'))[:1500]}")
        print(f"VIOLATION property={prop} replay={path}")
        return 1
    if res is None:
        print(f"CHECK-BROKEN {prop}: replay produced no result", file=sys.stderr)
        return 2
    return 0
