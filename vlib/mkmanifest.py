"""Regenerate MANIFEST.json from props.py (run: python3 -m vlib.mkmanifest)."""
import json
import os
import subprocess

from . import build, props

PENDING_REASON = "check not built yet in this session; planned in DESIGN.md section 4 (nothing is claimed for it)"


def main():
    ids = [json.loads(l)["id"] for l in open(os.path.join(build.VERIF, "properties.jsonl"))]
    checks = []
    for pid in ids:
        spec = props.PROPS.get(pid)
        if not spec:
            continue
        c = {
            "property_id": pid,
            "quick_cmd": f"./check {pid} --tier quick",
            "thorough_cmd": f"./check {pid} --tier thorough",
            "evidence_file": f"evidence/{pid}.json",
            "replay_cmd_template": f"./check {pid} --replay {{path}}",
            "engine": {"fuzz": "libfuzzer-structured", "py": "hypothesis-cli", "fuzz+py": "libfuzzer-structured + hypothesis-cli"}[spec["engine"]],
            "level_claimed": {"category": spec["level"], "text": spec["level_text"], "design_ref": f"DESIGN.md section 4, {pid}"},
            "level_note": spec["level_note"],
            "technique": spec["technique"],
        }
        checks.append(c)
    na = [{"property_id": pid, "reason": props.NOT_APPLICABLE.get(pid, PENDING_REASON)} for pid in ids if pid not in props.PROPS]
    try:
        commits = subprocess.run(["git", "-C", "/repo", "log", "--format=%h %s", "--grep=^verif hook"], capture_output=True, text=True).stdout.strip().splitlines()
    except Exception:
        commits = []
    m = {
        "version": 1,
        "setup_cmd": "./check --setup",
        "hooks": {
            "guard": "TUKAANI_PROJECT_XZ_VERIF",
            "enable": "vlib/build.py configures out-of-tree CMake builds of /repo's working tree with -DTUKAANI_PROJECT_XZ_VERIF in CMAKE_C_FLAGS (clang, ASan+UBSan, Debug); the cli variant (gcc, project defaults) is built with the guard off",
            "baseline_off_cmd": "cmake --build /repo/_build && ctest --test-dir /repo/_build -j8 --timeout 900",
            "source_commits": [c.split()[0] for c in commits],
            "add_only": True,
        },
        "engines": [
            {"name": "libfuzzer-structured", "path": "harness/", "serves_properties": [p for p in ids if "fuzz" in props.PROPS.get(p, {}).get("engine", "")],
             "kind_free_text": "libFuzzer targets (clang 14, ASan+UBSan, asserts on) with a structure-aware case decoder and custom mutator (vgen.h, vmut.cc); seeded generation + coverage guidance; own shrinker keeps the signature"},
            {"name": "hypothesis-cli", "path": "py/", "serves_properties": [p for p in ids if "py" in props.PROPS.get(p, {}).get("engine", "")],
             "kind_free_text": "Hypothesis (python3-vt) scenarios driving the built xz/xzdec/lzmadec/scripts through subprocess, LD_PRELOAD fault shim"},
        ],
        "checks": checks,
        "not_applicable": na,
        "notes": "Technique family: property-based testing and fuzzing. Every check rebuilds the needed liblzma variant from /repo's working tree (incremental) before running. VERIF_SEED seeds all generation. exit 2 = check broken/starved (never a VIOLATION). known_findings.json lists fixed defects (suppress nothing) and recorded findings.",
    }
    with open(os.path.join(build.VERIF, "MANIFEST.json"), "w") as f:
        json.dump(m, f, indent=1)
        f.write("\n")
    print("wrote MANIFEST.json:", len(checks), "checks,", len(na), "not_applicable")


if __name__ == "__main__":
    main()
