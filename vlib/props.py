"""Per-property check specifications (engine, targets, budgets, evidence texts)."""

BASE_ASSUME = [
    "sanitizers (ASan+UBSan, asserts enabled: Debug build without -DNDEBUG) report every memory error / UB they are designed to see",
    "a case is a pure function of its bytes (all random choices come from the case decoder / a PRNG seeded from the case)",
    "held on everything explored; generated-input search never establishes absence",
]

NOT_APPLICABLE = {}

PROPS = {
    "C01": dict(
        engine="fuzz", level="exploration",
        technique="coverage-guided structured fuzzing (libFuzzer): round-trip oracle over generated inputs x by-construction-valid encoder configurations",
        level_text="Generated-input search over (input recipe, encoder entry point, filter chain/options/preset, check, slicing): each case must encode and decode back through the matching liblzma decoder to exactly the input; MicroLZMA to exactly the reported prefix within its limit. Sampled; the guarded match-finder bias hook makes position-counter normalisation reachable without 4 GiB of input.",
        level_note="Oracle decoder is liblzma itself (a symmetric encoder/decoder deviation is C02/C03's job, which use the independent ref/ decoder). Configurations are constructed from the ranges documented in lzma12.h/filter.h/container.h.",
        targets=[dict(name="t_c01", quick_runs=12000, quick_workers=8, thorough_runs=800000, max_len=128, min_nontrivial_quick=4000, min_nontrivial_thorough=100000)],
        rule=("case = input recipe (random/constant/short and long period around the dictionary size/text/zero runs/copy-with-edits/mixed; 0..3 MiB on a log scale) x entry point "
              "(easy, stream, stream_mt, alone, raw, block, microlzma and the single-call easy/stream/block/raw buffer encoders) x preset 0-9[e] or explicit chain (0-3 of delta/8 BCJ + LZMA2|LZMA1|LZMA1EXT; "
              "dict 4 KiB..16 MiB, all lc/lp/pb with lc+lp<=4, mode, nice_len 2..273, all 5 match finders, depth, preset dictionary) x check x encoder and decoder slicing x normalisation hook. "
              "Non-trivial: input length >= 1 and the round trip executed; distinct = hash(config, recipe, schedules)."),
        assumptions=BASE_ASSUME + ["lzma_verif_mf_offset_bias hook only changes *when* normalize() runs, not what it computes (DESIGN.md 2.3)"],
    ),
    "C02": dict(
        engine="fuzz", level="exploration",
        technique="structured fuzzing (libFuzzer) with a differential oracle: an independent spec-derived parser/decoder (harness/ref) must accept every encoder output, recover the input and find every stored field truthful; bound() clause by construction",
        level_text="Generated-input search over encoder configurations and input lengths concentrated at LZMA2 chunk / Block boundaries; every produced stream is parsed field by field by ref/xzparse.h (no liblzma code) and decoded by ref/lzma_dec.h; single-call encoders get exactly bound() bytes of output space. Sampled.",
        level_note="Trusted base: harness/ref (written from doc/xz-file-format.txt, doc/lzma-file-format.txt, the LZMA specification; validated on all tests/files by harness/reftest.cc: 77 files, 0 disagreements with liblzma). The de-facto LZMA2 chunk grammar (7-Zip/XZ Embedded) is trusted. BCJ chains are checked through ref/bcj.h.",
        targets=[dict(name="t_c02", quick_runs=4000, quick_workers=8, thorough_runs=300000, max_len=128, min_nontrivial_quick=1500, min_nontrivial_thorough=50000)],
        rule=("case = encoder configuration (as C01, dictionaries <= 1 MiB) x input recipe with length from {log scale 0..1.5 MiB, k*65536+{-2..2}, 2^21+{-2..2}, multiples of small block sizes} x encoder slicing. "
              "Oracle: .xz: reference parser accepts, exactly one Stream, size % 4 == 0, Stream Flags == configured check, Block Header/size fields/padding/Check/Index/Backward Size/footer verified by recomputation, no empty Block, no match distance beyond the declared LZMA2 dictionary, threaded encoder writes size fields; "
              ".lzma: 13-byte header with configured lc/lp/pb, unknown-size field + end marker, plausible dictionary field >= every distance; raw LZMA1/LZMA1EXT/LZMA2 (with preset dictionary) and MicroLZMA decode under the reference to the input (prefix for MicroLZMA); Block encoder: header/struct sizes/padding/Check truthful; "
              "single-call easy/stream/block encoders never return BUF_ERROR with out_size == bound(in_size). Non-trivial: input >= 1 byte and the reference ran; distinct = hash(config, recipe, schedule)."),
        assumptions=BASE_ASSUME + ["harness/ref is correct (see level_note); a reference that lacks a filter makes the case inconclusive (counted), never a verdict"],
    ),
    "C04": dict(
        engine="fuzz", level="exploration",
        technique="coverage-guided structured fuzzing (libFuzzer + custom mutator with CRC32 / lzip-footer repair) of all 22 decoding and parsing entry points behind one case decoder; ASan+UBSan+asserts, capped counting allocator, exact-size per-call input/output windows, documented-return-code tables, starvation probe",
        level_text="Generated-input search seeded with every file of tests/files: hundreds of thousands of byte strings per run x entry point x decoder flags x slicing schedule x memory-limit mode (1, tiny, memusage-1 then raised, huge). Memory safety comes from the sanitizers; the semantic side conditions (documented status codes per function, bounded calls, BUF_ERROR when starved, post-conditions of failed calls, allocator balance) are checked exactly on every call. Sampled, not exhaustive.",
        level_note="Trusted: the C04 driver (c04_drv.h) is the drv.h protocol with fresh exact-size heap blocks per call; return-code sets are transcribed from api/lzma/*.h. Uninitialised reads are only visible through the allocator's 0xA5 poisoning and UBSan (no MSan/valgrind pass in this tier). Over-reads that need adversarially trained LZMA probabilities (LZMA_IN_REQUIRED-type off-by-n) are out of reach of this generator.",
        targets=[dict(name="t_c04", quick_runs=400000, quick_workers=8, thorough_runs=6000000, max_len=1208, min_nontrivial_quick=30000, min_nontrivial_thorough=400000)],
        rule=("case = 8 parameter bytes (entry point, decoder flags incl. unsupported bits, memlimit mode, slicing seed, threads / Check ID / Block version / raw chain / MicroLZMA sizes / output cap / final action / file-info chunking) + input bytes; entries: stream, stream_mt (1-3 native threads), auto, alone, lzip, microlzma, raw (0-3 delta/BCJ + LZMA1/LZMA1EXT/LZMA2, preset dictionary, invalid chains), block, index, index_buffer_decode, file_info (virtual file, seeks serviced), "
              "block_header_decode, stream_header/footer_decode, filter_flags_decode, properties_decode, vli_decode (single + multi call, vs the format rule), str_to_filters, str_list_filters/str_from_filters, stream/block/raw_buffer_decode. "
              "Oracle: sanitizers/asserts; allocator balanced, no double/unknown free; every return value in the documented set of its function (never PROG_ERROR / internal codes, info codes only with their flag, MEMLIMIT only with a limit, SEEK_NEEDED only from file-info with seek_pos <= size); call bound; output cap reached => avail_out=0 calls must end in BUF_ERROR/STREAM_END/error within 3 idle calls; input unmodified, windows exact; documented post-conditions of failures; decoded index <= memlimit and self-consistent; lzma_stream_buffer_decode: truncated => DATA_ERROR, small output => BUF_ERROR. "
              "Non-trivial: input got past the first header check of its entry point; distinct = hash(entry, bytes)."),
        assumptions=BASE_ASSUME + ["LZMA_MEM_ERROR from the 256 MiB allocator cap / ASan allocation limit is environment (counted)",
            "libFuzzer -timeout artifacts are noise unless they reproduce (deadlock / unbounded loop clause)",
            "lzma_filter_flags_decode moving *in_pos on failure (filter.h says it does not) is counted as a note, not asserted",
            "seed corpus corpus/C04 = output of VERIF_C04_MAKE_SEEDS=<dir> build/bin/t_c04 (191 cases from tests/files) + regression inputs"],
    ),
    "C05": dict(
        engine="fuzz", level="fault_enumeration",
        technique="fault enumeration inside a libFuzzer target: for each generated small valid file EVERY single-bit flip, EVERY truncation length and every byte of every CRC32-protected structure (x4 value changes, CRC32 recomputed) is applied, plus case-chosen overwrite/insert/delete/duplicate; decoders: single-threaded with/without CONCATENATED, auto, threaded; oracle from the property's three clauses with the field layout taken from the independent parser",
        level_text="Per generated base file the single-bit-flip, truncation and CRC-consistent-field-damage spaces are enumerated completely (a 300-byte file: 2400 flips + 300 truncations + ~200 CRC-fixed edits, each through 2-4 decoder settings); base files themselves (container, check, Blocks, Streams, padding, size fields, .lzma/.lz variants, plaintext) are sampled by the generator.",
        level_note="Trusted: ref/xzparse.h only for (a) the field layout of the UNDAMAGED file (payload vs non-payload byte ranges, Stream ends) and (b) deciding whether a multi-byte / CRC-consistent edit left a still-valid file; clause 1 and 3 need no reference. Random payload corruption passing CRC32 and the range-coder end state has probability ~2^-64 and is ignored. .lzma carries no integrity check: only the truncation clause is applied to it, and for known-size-without-marker files (no terminator in the format) only clause 1.",
        targets=[dict(name="t_c05", quick_runs=640, quick_workers=8, thorough_runs=40000, max_len=64, min_nontrivial_quick=100, min_nontrivial_thorough=5000)],
        rule=("base file = .xz (1-2 Streams x 1-3 Blocks, check CRC32/CRC64/SHA-256/None, with or without Block size fields, optional delta, Stream Padding between/after), .lz (version 0/1, 1-2 members, built by hand around a raw LZMA1 stream) or .lzma (unknown size + marker, known size with/without marker); plaintext 0..4 KiB so files are ~30..700 bytes. "
              "Faults: every single-bit flip; every truncation length; for .xz every byte of Stream Flags / Block Headers / Index / footer fields changed 4 ways with the CRC32 recomputed; 4-32 case-chosen multi-byte overwrites, insertions, deletions, duplications. "
              "Oracle: (1) LZMA_STREAM_END => bytes == plaintext of a whole number of leading Streams/members [files with a Check, .lz]; (2) .xz damage wholly outside the compressed payload => error; (3) a cut inside a Stream/member is never LZMA_STREAM_END (cuts at Stream boundaries / in padding at multiples of 4 / < 4 bytes after a .lz member are valid shorter files); "
              "CRC-consistent edits: reference parser rejects => decoder must fail, accepts => decoder must succeed with the same bytes. Non-trivial: every (file, fault) pair whose bytes differ from the original (counted in bulk: coverage.nontrivial); distinct_nontrivial counts distinct base files."),
        assumptions=BASE_ASSUME + ["the threaded decoder is run for every truncation and CRC-consistent edit and for 2 of the 8 bit flips of each byte (thread start-up cost)",
                                   "unsupported Check IDs are not generated (their Check field is unverifiable by design)"],
        exhaustive_note="exhaustive per generated base file: all single-bit flips, all truncation lengths, all bytes of all CRC32-protected .xz structures x 4 value changes with the CRC32 recomputed",
    ),
    "C06": dict(
        engine="fuzz", level="exploration",
        technique="coverage-guided structured fuzzing (libFuzzer) with a metamorphic oracle: any slicing == one shot; encoder determinism differential",
        level_text="Generated-input search: thousands of (coder, input, slicing schedule) triples per run compared against the one-shot run of the same coder; sampled, not exhaustive. Right level because the quantifier (all partitions of all inputs) is unbounded and the oracle is exact and cheap.",
        level_note="Trusted: the shared driver drv.h follows the documented lzma_code protocol; reference = the same coder run in one shot (a bug that affects every slicing identically is C01/C03's job).",
        targets=[dict(name="t_c06", quick_runs=16000, quick_workers=8, thorough_runs=1600000, max_len=200, min_nontrivial_quick=3000, min_nontrivial_thorough=100000)],
        rule=("case = coder (stream/auto/alone/lzip decoders on tests/files incl. blind mutations; matching decoder on streams made by every encoder entry point; "
              "index decoder; every multi-call encoder; threaded encoder with other thread count/timeout; chain as struct vs lzma_str_from_filters->lzma_str_to_filters text) "
              "x input recipe x slicing schedule (1-byte, fixed small, explicit lists with empty calls, independent output windows). Oracle: bytes, final status, total_in, "
              "informational codes equal the one-shot run (bytes exempt for rejected input behind BCJ). Non-trivial: schedule really splits input into >=2 non-empty pieces or "
              "output into >=2 windows and the coder consumed more than its header; distinct = hash(input/config, schedule)."),
        assumptions=BASE_ASSUME + ["thread schedules of the threaded encoder are the OS's in this target (controlled schedules: C08 target)"],
    ),
    "C07": dict(
        engine="fuzz", level="exploration",
        technique="controlled-schedule property-based testing: liblzma's pthread calls are redirected to a scheduler (sched/vsched.cc) that serialises threads and takes every scheduling decision from the case bytes (libFuzzer generates/mutates/shrinks schedules together with files and settings); differential oracle = single-threaded decoder; deadlock/livelock detectors; plus the same cases natively under ThreadSanitizer",
        level_text="Generated-input search over (multi-Block file, damage, threads, memory limits, timeout, flags, slicing, life-cycle events, thread schedule). Every synchronisation operation liblzma performs is a scheduling point owned by the harness, so any interleaving can be generated and replayed and lost wake-ups show up as detected deadlocks; schedules are sampled, not exhausted. Data races between plain accesses are the TSan build's job and it only sees the OS's schedules.",
        level_note="Trusted: the scheduler model of mutex/condvar/timed-wait semantics (POSIX: any waiter may be woken, spurious wake-ups and early time-outs allowed); the single-threaded decoder as reference (itself judged by C03/C05/C06); virtual time (time passes only when nobody can run or when the schedule says so).",
        targets=[dict(name="t_c07", variant="sched", extra_src=("sched/vsched.cc",), quick_runs=24000, quick_workers=8, thorough_runs=2000000, max_len=400, min_nontrivial_quick=2500, min_nontrivial_thorough=200000),
                 dict(name="t_c07", variant="tsan", quick_runs=4000, quick_workers=4, thorough_runs=200000, max_len=300, min_nontrivial_quick=500, min_nontrivial_thorough=20000)],
        rule=("case = 1-3 Streams x 1-12 Blocks (0..64 KiB each; Blocks with size fields from the threaded encoder or without from the single-threaded one; optional delta/BCJ; all checks; optional Stream Padding) x blind damage/truncation "
              "x lzma_mt{threads 1-6, memlimit_threading 1..huge, memlimit_stop below need (then raised) or huge, timeout 0/1/300 (virtual), flags CONCATENATED/TELL_*/IGNORE_CHECK/FAIL_FAST} x slicing schedule x life-cycle (early lzma_end after call j, re-init on the same handle, get_progress between calls) "
              "x scheduling strategy (mostly-stay random walk, eager switching, PCT-like priorities, run-until-blocked) x schedule bytes. Oracle: bytes and final status equal lzma_stream_decoder (behind BCJ on rejected input: status and length; FAIL_FAST: error whenever ST errors and bytes a prefix); no deadlock, no livelock, bounded calls, all threads joined by lzma_end, allocator balanced, progress monotone and <= totals, == totals at STREAM_END. "
              "Non-trivial: >= 2 worker threads alive at some moment, or >= 1 worker alive with an error / early end; distinct = hash(file, settings, decision path actually taken, slicing)."),
        assumptions=BASE_ASSUME + ["thread schedules are sampled: the number of interleavings is astronomically larger than what is explored",
                                   "a serialising scheduler cannot see data races between two plain memory accesses without a synchronisation operation in between: covered only by the TSan-native target under OS scheduling",
                                   "allocation requests above the 192 MiB cap make the case environment (dropped, counted)"],
    ),
    "C08": dict(
        engine="fuzz", level="exploration",
        technique="controlled-schedule property-based testing (sched/vsched.cc owns every pthread operation of liblzma; schedules come from the case bytes) of action sequences on the threaded encoder; oracles: independent .xz parser (Block boundaries, chains), prefix decode at every FULL_FLUSH, progress accounting, deadlock/livelock detectors; plus the same cases natively under ThreadSanitizer",
        level_text="Generated-input search over (input, lzma_mt settings, RUN/FULL_FLUSH/FULL_BARRIER/filters_update/progress/FINISH sequences, output slicing, early end and re-initialisation, thread schedule). Any interleaving of synchronisation operations can be generated, replayed and shrunk; schedules are sampled, not exhausted.",
        level_note="Trusted: scheduler model of POSIX mutex/condvar/timed-wait semantics with virtual time; harness/ref parser+decoder for the produced Stream; single-threaded liblzma decoder for the flush prefix test.",
        targets=[dict(name="t_c08", variant="sched", extra_src=("sched/vsched.cc",), quick_runs=60000, quick_workers=8, thorough_runs=3000000, max_len=400, min_nontrivial_quick=2000, min_nontrivial_thorough=200000),
                 dict(name="t_c08", variant="tsan", quick_runs=4000, quick_workers=4, thorough_runs=200000, max_len=300, min_nontrivial_quick=500, min_nontrivial_thorough=20000)],
        rule=("case = input recipe (0..256 KiB, mostly < 32 KiB) x lzma_mt{threads 1-6, block_size 1000..65536, timeout 0/1/300 (virtual), preset 0 or explicit chain (LZMA2 with varied lc/lp/pb/mf, optional delta), check} x up to 15 ops "
              "(feed n incl. 0 and exact multiples of block_size, FULL_FLUSH, FULL_BARRIER, lzma_filters_update to another chain, get_progress) + FINISH x output windows (0, 1..16, 64 KiB) x life-cycle (early lzma_end after call j, re-init with the same or another thread count and encode again) x strategy x schedule bytes. "
              "Oracle: reference parser accepts exactly one Stream that decodes to the input; Block uncompressed sizes == cut points implied by block_size and every flush/barrier with pending input (no empty Block); at each FULL_FLUSH completion the output so far decodes (single-threaded decoder, LZMA_RUN only) to exactly the input so far; "
              "FULL_BARRIER completes with all input consumed; lzma_filters_update accepted exactly between Blocks and the later Block Headers/LZMA2 props show the new chain; progress monotone, progress_in <= total_in, progress_out <= final size, both == totals at the end; no deadlock/livelock, every thread joined by lzma_end, allocator balanced. "
              "Non-trivial: >= 2 Blocks with >= 2 worker threads alive, or an early end with a live worker; distinct = hash(recipe, settings, ops, decision path)."),
        assumptions=BASE_ASSUME + ["thread schedules are sampled", "plain data races are only visible to the TSan-native target under OS scheduling"],
    ),
    "C09": dict(
        engine="fuzz+py", level="exploration",
        technique="structured fuzzing (libFuzzer, structure-aware case decoder) with a counting lzma_allocator: by-construction .xz/.lzma/.lz files whose headers declare dictionary sizes 4 KiB..4 GiB-1 over tiny payloads x decoder kind x limit around the need the decoder itself reports x restart policy x slicing; threaded decoder x memlimit_threading/memlimit_stop x 1-8 threads; *_memusage() estimates against the measured peak of the really run coder; Hypothesis suite running xz under an LD_PRELOAD heap-accounting shim",
        level_text="Generated-input search: tens of thousands of (file, decoder, limit, policy, slicing) and (options, entry point) cases per run, each decided by exact comparisons (peak live bytes vs limit + fixed allowance, needs equal across runs, result equal to the unlimited run, estimate >= peak). Sampled, not exhaustive: declared sizes above 80 MiB are really allocated only in ~1.5 % of the limit cases (ASan cost), otherwise only the refusal path is exercised.",
        level_note="Trusted: va::Alloc (counts every byte liblzma obtains), ref/crc.h for the patched Block Header CRC32, the shared drv.h loop. The fixed allowance A = 64 KiB (+2 KiB per thread) is not proportional to anything the input controls; measured maximum slack on the unchanged tree: 2.1 KiB (single-threaded decoders), 2.4 KiB (threaded, memlimit_stop), 9 KiB (index decoders). A threaded run above a limit is repeated three times: reproduced >= 2/3 => deterministic signature, otherwise the recorded scheduling race C09:mt-threading-limit-cache-race. py: B = 1 MiB fixed, measured slack <= 256 KiB.",
        targets=[dict(name="t_c09", quick_runs=48000, quick_workers=8, thorough_runs=1500000, max_len=256, min_nontrivial_quick=8000, min_nontrivial_thorough=300000)],
        suites=[dict(module="c09_cli", min_nontrivial_quick=60, min_nontrivial_thorough=600)],
        shims=["memcount"],
        rule=("limit: case = file (xz: 1-3 Streams x 0-10 Blocks x chain of 1-4 filters x declared LZMA2 dictionary byte 0..40 x sizes in header or not; .lzma: any 32-bit dictionary field; .lz: 1-3 members, 4 KiB..512 MiB) x decoder {stream, auto, alone, lzip} x flags x limit in {1, 0, need/2, need-1, need, need+1, 2*need, max} around one of the needs x policy {stop, raise to need, need+1, 2*need, max} x slicing. "
              "Oracle: discovery run (limit 1, raised to exactly each reported need) == unlimited run; at every LZMA_MEMLIMIT_ERROR: peak <= limit + A, memlimit_get == limit, memusage == the need the discovery run saw > limit, memlimit_set(need-1), set(need/2) refused and nothing changes, raise accepted; a limit below some need never finishes without the error; result after restarts == unlimited run, output before a stop is a prefix; lowering the limit below the usage while decoding is refused. "
              "mt: the same through lzma_stream_decoder_mt (memlimit_stop) plus peak <= memlimit_threading + A whenever the largest single-Block need (learnt through the single-threaded decoder) fits. index: lzma_index_decoder / lzma_index_buffer_decode (*memlimit in/out) / lzma_file_info_decoder with the same limit protocol, lzma_index_memusage >= lzma_index_memused >= live bytes of the decoded index. "
              "est: lzma_raw/easy_encoder_memusage, lzma_stream_encoder_mt_memusage, lzma_raw/easy_decoder_memusage >= peak live bytes of the initialised and run coder; UINT64_MAX => initialisation fails (13 kinds of invalid options). "
              "Non-trivial: limit within [need/2, 2*need] or a restart happened (limit/index), >= 2 Blocks with a finite threading limit or a stop hit (mt), every estimate case; distinct = hash(file, decoder, limit, policy, slicing). "
              "py: scenario = mode {compress, decompress, test} x -T {1,2,4,0} x preset / --lzma2=preset=,dict= x {--memlimit-compress, --memlimit-decompress, --memlimit-mt-decompress, -M, --memory} x limit around the need xz announces x --no-adjust; exit 0 => peak heap <= limit + 1 MiB and output round-trips, --no-adjust never changes the dictionary byte; exit 1 => limit really below the need and a memory-limit message; no other exit status."),
        assumptions=BASE_ASSUME + ["requests above the 2 GiB allocator cap are refused and counted as environment (declared dictionaries >= 2 GiB exercise only the refusal/limit path)",
            "the 576 bytes of 2*LZ_DICT_REPEAT_MAX (and any error below LZMA_MEMUSAGE_BASE = 32 KiB) in a decoder estimate are not observable through the public estimate functions",
            "thread stacks and kernel mappings are not heap and are not counted by va::Alloc or the shim",
            "the scheduling race C09:mt-threading-limit-cache-race can only be observed, not provoked, by native threads"],
    ),
    "C10": dict(
        engine="fuzz", level="fault_enumeration",
        technique="systematic allocation-fault injection (libFuzzer case decoder picks a scenario = short program over the public API; the target enumerates every allocation index) with an instrumented lzma_allocator (live-block table, fail k-th / fail from k / masks) under ASan+UBSan, differential against the fault-free transcript of the same scenario",
        level_text="Per scenario exhaustive: the fault-free run counts K allocations, then for every k in 1..K both 'only the k-th fails' and 'the k-th and all later fail' are executed (K <= 400; observed K <= 200, mean 14), plus two case-chosen masks; scenarios themselves are sampled (six families, ~90000 distinct (scenario,k,mode) triples per 5000 cases).",
        level_note="Trusted: va::Alloc (thread-safe live table: double free, unknown pointer, leak), drv.h, the per-API table of what a memory error looks like (LZMA_MEM_ERROR / NULL / non-NULL message). Reports are matched to delivered failures by count, not order, because a failure that hit a worker thread may surface at a later lzma_code.",
        targets=[dict(name="t_c10", quick_runs=4000, quick_workers=8, thorough_runs=60000, max_len=200, min_nontrivial_quick=1200, min_nontrivial_thorough=40000)],
        rule=("scenario families: coder (every lzma_*_encoder/_decoder init + coding loop incl. stream_encoder_mt/stream_decoder_mt with 2 threads, microlzma, index encoder/decoder, file-info decoder; after a failure: lzma_end or not, then re-initialise and compare), reuse (2-4 coders on one lzma_stream without lzma_end, init only / half / full coding), buffer (9 single-call *_buffer_* functions incl. header-decoded chains), index (init/append/stream_flags/padding/dup/cat/encoder->decoder on one handle/cat), filters (lzma_filters_copy, lzma_str_to_filters/from/list, lzma_properties_decode, lzma_filter_flags_decode, lzma_block_header_decode), update (lzma_filters_update after FULL_FLUSH / FULL_BARRIER / SYNC_FLUSH in stream, stream_mt, raw encoders; optionally carry on with the old chain after a refused update). "
              "Oracle: reported memory errors <= delivered failures; caller-owned chains byte-identical, indexes identical through all getters + iteration, destination arrays untouched, positions not advanced; failed init leaves exactly the foreign live bytes; handle ended or re-initialised gives the fault-free result; no report => result equals the fault-free transcript; no double/unknown free; balanced() at the end; stream round-trips after a refused update. "
              "Non-trivial: scenario with K >= 1; distinct = (scenario hash, k, mode) of runs in which a failure was delivered."),
        assumptions=BASE_ASSUME + ["which later lzma_code of a threaded coder reports a worker's failure is not asserted", "pthread/mutex creation failures are not injected (only allocator failures)", "scenarios use small inputs (<= 13 KiB) and 4 KiB dictionaries so that K stays small"],
        exhaustive_note="exhaustive per scenario: every allocation index k = 1..K of the fault-free run, in both modes 'fail only k' and 'fail k and all later' (K <= 400; no scenario exceeded the cap)",
    ),
    "C11": dict(
        engine="fuzz", level="exploration",
        technique="model-based stateful fuzzing (libFuzzer): histories of legal and illegal lzma_code() calls on every public coder, judged call by call against a reference state machine written from api/lzma/base.h; guard-byte / exact-heap-block buffer instrumentation; end-to-end round trip / one-shot differential when a history reaches the end of the stream",
        level_text="Generated-input search over (handle kind, workload, history of <= 64 steps + protocol-correct completion); every call is compared with the set of outcomes the documented protocol allows and with exact accounting of next/avail/total; sampled, not exhaustive. Right level because the quantifier (all call sequences on all handles) is unbounded while the model is tiny and exact.",
        level_note="Trusted: the model's reading of base.h/container.h/filter.h/block.h/index.h (supported-action table, fatal vs non-fatal codes); where the documents leave the outcome open (state after a refused call, END + invalid arguments, reserved members, idle LZMA_OK of timed threaded coders, decoders given LZMA_FINISH early or mutated input, MicroLZMA without input) every documented continuation is accepted. Thread schedules are the OS's; a 60 s watchdog turns hangs of threaded coders into violations.",
        targets=[dict(name="t_c11", quick_runs=40000, quick_workers=8, thorough_runs=800000, max_len=600, min_nontrivial_quick=8000, min_nontrivial_thorough=250000)],
        rule=("case = handle kind (easy/stream/stream_mt/alone/raw/block/index/MicroLZMA encoder; stream/stream_mt/auto/alone/lzip/raw/block/index/file_info/MicroLZMA decoder, decoder flags drawn, ~1/7 of decoder workloads mutated) "
              "x history: legal calls with drawn in/out pieces, flush/finish starts, supply-nothing, out-of-range or unsupported action, action or avail_in changed inside a flush/finish, NULL buffer with non-zero length, reserved member set, "
              "calls before init / after lzma_end / after END / after a fatal error, lzma_end, re-init without lzma_end, application-modified totals, legal NULL+0 buffers; then completion to END. "
              "Oracle: model NOT_INIT/RUN/IN_ACTION/END/ERROR => allowed return codes + post-state; refused calls change no member of lzma_stream; BUF_ERROR only on the second consecutive idle call, never two idle LZMA_OK, not fatal; "
              "fatal code => every later call PROG_ERROR; per-call accounting; input and guard bytes untouched; at END encoders round-trip to the consumed input, decoders equal the one-shot output and total_in. "
              "Non-trivial: >= 1 illegal step or >= 1 BUF_ERROR and >= 3 legal coding calls; distinct = hash(kind, workload, history)."),
        assumptions=BASE_ASSUME + ["thread schedules of the threaded coders are the OS's in this target",
                                   "allocation requests above the 96 MiB cap make the case environment (LZMA_MEM_ERROR counted, not judged)",
                                   "reads outside the input window are only visible in the cases that use exactly sized heap blocks (ASan), writes also through guard bytes"],
    ),
    "C12": dict(
        engine="fuzz", level="exploration",
        technique="model-based stateful fuzzing (libFuzzer) of encoder action sequences: flush-point decodability checked with a fresh liblzma decoder, final stream checked with the liblzma decoder and the independent .xz parser (Block layout, Block Header filters, LZMA2 chunk properties) against a model of cut points and options in effect",
        level_text="Generated-input search over (encoder, three filter chains, op sequence of feeds / SYNC_FLUSH / FULL_FLUSH / FULL_BARRIER / lzma_filters_update / FINISH, output slicing); each completed flush and the finished stream are judged against the model; sampled, not exhaustive.",
        level_note="Trusted: liblzma's decoders for the flush-point check (themselves judged by C01/C03/C05/C06), ref/xzparse.h for the layout, the reading of filter.h for when an update must be accepted or refused. Open by design: updates at undocumented moments (either outcome, effect unmodelled if accepted inside a Block), SYNC_FLUSH on a non-flushable chain with nothing to flush, side effects of a refused update on lc/lp/pb (liblzma applies them before comparing Filter IDs), FULL_BARRIER on the threaded encoder only has to leave a decodable prefix.",
        targets=[dict(name="t_c12", quick_runs=56000, quick_workers=8, thorough_runs=1200000, max_len=400, min_nontrivial_quick=4000, min_nontrivial_thorough=200000)],
        rule=("case = encoder (stream, stream_mt with threads/block_size/timeout, raw, block) x chains (LZMA2 | delta+LZMA2 | BCJ+LZMA2 in any order as initial + two alternatives; LZMA1 for raw) x ops: feed(n) n in {0..3, < nice_len, <= 600, <= 8 KiB, 4-40 KiB > window}, "
              "SYNC_FLUSH/FULL_FLUSH/FULL_BARRIER with or without new input, back-to-back, as first call, lzma_filters_update(new lc/lp/pb | chain with other IDs | 6 invalid chains), FINISH x 4 output slicings. "
              "Oracle: completed flush => output so far decodes (LZMA_RUN only) to exactly the input so far and wants more; final stream round-trips (liblzma + ref parser); Blocks exactly at the flush offsets with new input (threaded: also every block_size), no empty Block; "
              "SYNC_FLUSH on BCJ/LZMA1 chains with data => OPTIONS_ERROR and a decodable prefix, honoured by LZMA2 and delta+LZMA2, PROG_ERROR on the threaded encoder; update accepted at the documented moments, refused for invalid chains and changed IDs inside a Block/raw stream, "
              "accepted chain visible in the next Block Header and accepted lc/lp/pb in every later LZMA2 chunk. Non-trivial: >= 1 completed flush with input before and after it and the stream finished; distinct = hash(encoder, config, ops, slicing)."),
        assumptions=BASE_ASSUME + ["thread schedules of the threaded encoder are the OS's in this target",
                                   "total input per case <= 160 KiB, threaded cases <= ~64 Blocks",
                                   "allocation requests above the 256 MiB cap make the case environment"],
    ),
    "C13": dict(
        engine="fuzz+py", level="exploration",
        technique="model-based stateful fuzzing (libFuzzer, structure-aware case decoder) of lzma_index_* histories against an independent list-of-records model; by-construction multi-Stream .xz files x chunking x seek behaviour for lzma_file_info_decoder with Block decoding at the reported offsets; Hypothesis differential of `xz --list --robot -vv` against a Python container parser",
        level_text="Generated-input search: tens of thousands of API histories (up to ~60 ops on 4 live indexes, sizes over the whole VLI range incl. limit-crossing values, >512 Records per Stream) and constructed files (1-6 Streams, 0-1300 Blocks, padding 0-20 KB, 12 malformed kinds) per run, each compared field by field with the model; sampled, not exhaustive. Right level because the quantifier (all finite op sequences x all files x all read patterns) is unbounded while the oracle (a small model with 128-bit arithmetic) is exact and cheap.",
        level_note="Trusted: ref/index_model.h (written from doc/xz-file-format.txt and api/lzma/index.h, no liblzma code); the file-info loop in t_c13.cc follows the documented LZMA_SEEK_NEEDED protocol; lzma_index_memusage() values are compared only with liblzma's own function; 'no seek with the whole file' is asserted only for the call that received the whole file.",
        targets=[dict(name="t_c13", quick_runs=120000, quick_workers=8, thorough_runs=3000000, max_len=300, min_nontrivial_quick=10000, min_nontrivial_thorough=200000)],
        suites=[dict(module="c13_list", min_nontrivial_quick=150, min_nontrivial_thorough=1500)],
        rule=("Mode A: case = history of init/append/append_many/stream_flags/stream_padding/cat/dup/encode/decode/decode_mutated/iter_init/iter_next(4 modes)/iter_rewind/iter_locate/iter_copy/end on <=4 indexes; after every op all getters == model, "
              "failed ops return the documented code and change nothing; full iteration in 4 modes + locate probes after cat/dup/decode/at the end; encoded bytes == spec encoding; decode accepts exactly what the spec parser accepts, memlimit semantics exact. "
              "Non-trivial: >=3 ops and >=1 cat/dup/encode-decode/locate on an index with >=2 records; distinct = hash(op list). "
              "Mode B: case = file layout (streams x blocks x checks x padding, real or dummy payload) x malformed kind x chunk size x short reads x FINISH use x memlimit; valid => STREAM_END, index == concatenated model, seek_pos <= size, Blocks decode to the plaintext range; "
              "malformed => error. Non-trivial: >=2 Streams or >=2 Blocks; distinct = hash(layout, malformation, chunking). "
              "py: scenario = 1-3 files x 1-4 Streams (len, check, block size, threads, chain, padding) x verbosity; all robot-mode columns == model; non-trivial: >=2 Streams or >=2 Blocks."),
        assumptions=BASE_ASSUME + ["the 2^34-byte Index limit and 2^32 Streams limit are modelled but not reachable in a test",
            "allocation refusals of the 64 MiB capped allocator on garbage Record counts are counted as environment",
            "xz --list memory-usage columns are only checked for internal consistency (summary == max of block lines)"],
    ),
    "C14": dict(
        engine="fuzz", level="exploration",
        technique="differential testing against independent reference implementations (bit-at-a-time CRC32/CRC64 from the spec polynomials, SHA-256 from FIPS 180-4): exhaustive small grid + structured fuzzing (libFuzzer), one binary per liblzma build variant",
        level_text="Exhaustive over length 0..640 x alignment 0..63 for lzma_crc32/lzma_crc64 (every size class and tail of the CLMUL and slice-by-8 code, both with initial value 0 and one arbitrary initial value) on every run and every variant; beyond that generated-input search over content, lengths up to 1 MiB, initial values, split points and the Check-field paths of the Block/Stream coders. Sampled, not exhaustive, outside the grid.",
        level_note="Trusted: ref/crc.h and ref/sha256.h (no liblzma code; vectors verified against hashlib). The integrity-check interface is only reachable through the public Block/Stream coders (lzma_check_* is not exported). Build variants make the table-driven (gen), runtime-dispatched CLMUL (asan), unconditional CLMUL (clmul) and size-optimised (small) code paths execute on this x86-64 machine; they agree bit for bit transitively through the same oracle.",
        targets=[dict(name="t_c14", variant=v, quick_runs=30000, quick_workers=2, thorough_runs=1200000, thorough_workers=4, max_len=128, min_nontrivial_quick=40000, min_nontrivial_thorough=400000) for v in ("asan", "gen", "small", "clmul")],
        rule=("every process first runs the grid (len 0..640 x align 0..63, buffer ends at the end of its allocation so ASan sees over-reads): lzma_crc32/lzma_crc64 == bitwise definition for init 0 and an arbitrary init. "
              "Generated cases: (direct) content kind {random, 0x00, 0xFF, single set bit, counting} x length <= 1 MiB (mostly <= 700) x alignment 0..63 x initial value (0 or any) x 1..5 cut points: one-piece value and value computed in pieces both equal the definition; "
              "(check) lzma_block_buffer_encode / lzma_block_uncomp_encode / lzma_stream_buffer_encode / multi-call lzma_stream_encoder fed in generated slices, with CRC32, CRC64, SHA-256: the Check field (and lzma_block.raw_check) equals the reference check of the input; the matching decoder accepts it and returns the input; one flipped bit of the Check field => LZMA_DATA_ERROR. "
              "Non-trivial: length >= 1; distinct = hash(variant, length, alignment, content, init/cuts or check/path/schedules). Each process contributes 40960 non-trivial grid evaluations (same keys in every process)."),
        assumptions=BASE_ASSUME + ["ARM64 CRC32 instructions, LoongArch, 32-bit x86 assembly and big-endian table code cannot execute on this machine and are not covered",
                                   "SHA-256 message lengths >= 2^29 bytes (bit-length carry) are out of reach",
                                   "inputs > 8 KiB are compared with a byte-table CRC derived from the same bitwise definition"],
        exhaustive_note="exhaustive: lzma_crc32 and lzma_crc64 over length 0..640 x start alignment 0..63 x {init 0, one arbitrary init} with PRNG content, per variant, on every run",
    ),
    "C15": dict(
        engine="fuzz", level="exploration",
        technique="differential testing against independent reference BCJ/delta converters (ref/bcj.h) + round-trip + metamorphic slicing oracle, structured fuzzing (libFuzzer) with instruction-dense generators; released liblzma 5.4.1 as a second opinion",
        level_text="Generated-input search: tens of thousands of (filter, start offset / distance, data, direction, two slicing schedules) cases per run; the transform liblzma applies is observed through the public API ([F,LZMA2] vs [LZMA2] raw chains and the one-shot lzma_bcj_* functions) and compared byte for byte with the reference algorithm. Sampled, not exhaustive: the quantifier ranges over all byte strings.",
        level_note="Trusted: ref/bcj.h, written from the format digest / LZMA SDK reference algorithms (x86 in the newer prevMask formulation) and, for ARM64/RISC-V, from the prose in simple/arm64.c and simple/riscv.c - structurally different from liblzma; cross-checked on the unchanged tree, on real ARM64 code and delta-coded data from tests/files, and against liblzma 5.4.1 (all filters but RISC-V, which 5.4.1 lacks). The LZMA2 layer used to reach the filters is assumed to round-trip (C01/C03).",
        targets=[dict(name="t_c15", quick_runs=120000, quick_workers=8, thorough_runs=4000000, max_len=160, min_nontrivial_quick=20000, min_nontrivial_thorough=500000)],
        rule=("case = filter {x86, powerpc, ia64, arm, armthumb, arm64, sparc, riscv, delta} x start_offset (0 / NULL options, small, just below 2^32 so that the position wraps inside the buffer, random; multiples of the alignment) or delta distance 1..256 "
              "x data (per-architecture instruction-dense recipes incl. x86 E8/E9 runs that drive the previous-candidate mask, ARM64 ADRP on both sides of the +/-512 MiB gate, RISC-V JAL / AUIPC pairs / special packed forms, IA-64 bundles with every template; or generic recipes), length 0..64 KiB (mostly 16..600) "
              "x first direction x slicing schedules for both filtering coders. Oracle: (1) F(x) == reference for the first direction and again for the opposite direction on the result, (2) the opposite direction returns x, (3) equal lengths, "
              "(4) any slicing == whole-buffer reference; lzma_bcj_{x86,arm64,riscv}_{encode,decode} give the reference bytes and processed count (tail <= 4/3/7); misaligned start_offset and delta distance 0 / > 256 => LZMA_OPTIONS_ERROR from both initialisers; "
              "(5) on ~13 % of the cases liblzma 5.4.1 (dlopen) gives the same bytes. Once per process: good-1-arm64-lzma2-{1,2}.xz, good-1-delta-lzma2.tiff.xz, good-1-3delta-lzma2.xz decoded by liblzma == LZMA2 layer alone + reference filters. "
              "Non-trivial: the reference changed >= 1 byte; distinct = hash(filter, offset/distance, data, direction)."),
        assumptions=BASE_ASSUME + ["the 5.4.1 comparison needs /usr/lib/x86_64-linux-gnu/liblzma.so.5 (VERIF_SYSLZMA overrides; absence is counted, not an error) and cannot cover RISC-V",
                                   "no RISC-V golden file exists in tests/files; RISC-V is pinned by the reference written from the specification comment only"],
    ),
    "C16": dict(
        engine="fuzz+py", level="exploration",
        technique="by-construction synthesis of .lzma / .lz / .xz files (headers and footers written by the harness, payloads from liblzma's raw encoders) judged by independent format models (ref/containers.h, ref/lzip.h, ref/xzparse.h) + differential auto-vs-specific decoder; Hypothesis differential of xz/xzdec/lzmadec/lzmainfo against a direct library decode (libdec)",
        level_text="Generated-input search: every header/footer field family of .lzma and .lz (incl. all 256 dictionary size bytes, versions 0/1/2+, sizes around 2^38, wrong CRC/data size/member size), 1-3 members or Streams, trailing data with 0-4 magic bytes, Stream Padding 0-13, x decoder x flags x RUN-only/FINISH x slicing at magic and member boundaries; each result compared with the model (accept exactly, same bytes, same stop position, FORMAT_ERROR where documented). Sampled.",
        level_note="Trusted: ref::lzma1_decode/alone_decode/lzip_decode/xz_decode (no liblzma code; validated against tests/files); the plausibility test is ref::alone_header_plausible. Only the error class of rejected files is compared (exact code only for FORMAT_ERROR and for .lzma+trailing under auto|CONCATENATED = DATA_ERROR). For .lz members + trailing data under CONCATENATED with LZMA_RUN only, both STREAM_END and BUF_ERROR are accepted (lzip doc vs flag doc). CLI suite: the oracle is liblzma itself through libdec with the tool's documented flags.",
        targets=[dict(name="t_c16", quick_runs=120000, quick_workers=8, thorough_runs=2000000, max_len=300, min_nontrivial_quick=12000, min_nontrivial_thorough=150000)],
        suites=[dict(module="c16_cli", min_nontrivial_quick=500, min_nontrivial_thorough=5000)],
        helpers=[dict(name="libdec")],
        rule=("fuzz: case = file kind (.lzma: props/dict/size field variants, marker or not, trailing; .lz: 1-3 members x version x dict byte x footer variant, trailing with 0-4 magic bytes; .xz: 1-3 Streams x check (also unsupported IDs) x padding 0-13 x garbage; garbage) x truncation/bit flip x decoder (alone, lzip, stream, stream_mt, auto, also cross-format) x flags x final action x slicing. "
              "Oracle: model accepts <=> STREAM_END with equal bytes and total_in; unrecognised => LZMA_FORMAT_ERROR; CONCATENATED without FINISH never ends; .lzma+bytes under auto|CONCATENATED => DATA_ERROR; informational codes as documented; auto == specific decoder on the same schedule. Non-trivial: file passes the header stage of the xz, lz or lzma model; distinct = hash(file, flags, action). "
              "py: scenario = synthesised file (xz --format=lzma output or tests/files .lzma/.lz with header/footer rewritten in Python, xz Streams with padding) x 1-4 runs of xz -dc --format=auto|lzma|lzip|xz [--single-stream], lzmadec, xzdec, lzmainfo; tool exit 0 + identical bytes <=> libdec STREAM_END (lzmadec: and nothing after the stream); lzmainfo output == header fields. Non-trivial: file has a valid xz/lz/lzma header; distinct = hash(scenario)."),
        assumptions=BASE_ASSUME + ["LZMA_MEM_ERROR from the 600 MiB allocator cap (dictionary sizes >= 1 GiB, UINT32_MAX) is environment: such headers are only checked up to the header stage",
            "the cli build has the CMake default feature set (lzip decoder enabled) and libdec links liblzma of the same working tree",
            "bytes and input position of rejected files are not compared (C05/C06 cover them)"],
    ),
    "C17": dict(
        engine="py", level="fault_enumeration",
        technique="LD_PRELOAD syscall fault injection (shim/faultio.so) into the dynamically linked cli xz; per Hypothesis scenario one fault-free traced run gives the K fault points, then every k in 1..K (a seeded sample of the bulk read/write calls for K > 64 on the quick tier) is run for each drawn fault kind (errno EIO/ENOSPC, EINTR, EAGAIN, short count, SIGINT/TERM/HUP/PIPE before the call, signal+errno, SIGKILL before / after the call); the end state of the directory is judged after the process is gone, validity of targets by the direct library decoder libdec, plus a syscall-order invariant on every trace",
        level_text="Enumeration of injected faults, signals and process deaths at every intercepted system call of generated xz invocations; per scenario the enumeration over k is complete on the thorough tier and for traces up to 64 calls on the quick tier; the scenarios themselves (options, sizes 0..200 KiB, contents, damaged inputs) are sampled by Hypothesis.",
        level_note="Trusted: the interposer only sees calls xz makes through the PLT; durability itself is unobservable, the order and results of fsync/close/unlink are checked instead; libdec (liblzma of the same tree) judges target validity.",
        shims=["faultio"], helpers=[dict(name="libdec")],
        suites=[dict(module="c17", min_nontrivial_quick=400, min_nontrivial_thorough=8000)],
        rule="scenario = mode (compress/decompress, xz/lzma, -c to pipe/file/O_APPEND, -k, -f, pre-existing target, 1-2 files, --files, --no-sync, -T1/-T4, damaged input) x content 0..200 KiB x fault kinds; per scenario every fault point k of the fault-free trace is injected (sampled for long traces on quick). Non-trivial and distinct: (scenario hash, k, fault kind) where the fault is delivered while a target file exists and its source has not been unlinked yet (for -c: output has begun and the source is still open)",
        assumptions=[
            "only system calls xz makes through the PLT are fault points (open, close, read, write, lseek, fsync, unlink, fchmod, fchown, futimens, fcntl F_SETFL, poll, posix_fadvise); libc-internal stdio and stat/lstat/fstat are not injected",
            "one fault per run; a signal is sent process-directed from inside the interposed call, so it is handled at call boundaries of the main thread",
            "durability itself is not observable: the order and results of fsync(target), fsync(directory), close(target) and unlink(source) are checked instead",
            "failure of close() on the read-only source or on the directory descriptor, of fchown/fchmod/futimens/posix_fadvise/fcntl, EINTR/EAGAIN and short counts may end as success or as clean failure; only inconsistent end states are violations",
            "a signal may legitimately be followed by completion of the file if at most 4 further data reads/writes happen",
            "watchdog timeouts (30 s per xz run) are counted as inconclusive, never as a verdict",
            "regular files in one directory on the build file system, run as the invoking user"],
        exhaustive_note="exhaustive=true means: in every generated scenario of the run, every applicable fault point k in 1..K of the fault-free trace was injected for each of the scenario's fault kinds (short counts only on read/write, EPIPE only on write)",
    ),
    "C18": dict(
        engine="py", level="exploration",
        technique="Hypothesis differential test: xz -dc/-d/-t, xzdec, lzmadec on generated valid/corrupt/truncated/concatenated .xz/.lzma/.lz files with 8 KiB-aligned zero runs, across pipe / new file / redirect at offset 0, ==size, !=size / O_APPEND / --no-sparse sinks, -T values and options, against a direct liblzma decode (libdec); plus xz option-grammar round trips with Block-size model",
        level_text="Random exploration of inputs x tools x sinks x options; tool output, sink content and exact size, file creation and exit status compared with the library decode configured as the tool documents. Sampled.",
        level_note="Oracle is the one-shot library decode of the same bytes (liblzma itself is judged by C03/C16); bytes before an error are not compared when a BCJ filter is in the chain (the property C06 leaves them unspecified) nor status for headerless files in xz's documented stricter .lzma sniffing zone.",
        helpers=[dict(name="libdec")],
        suites=[dict(module="c18", min_nontrivial_quick=300, min_nontrivial_thorough=4000)],
        rule="scenario = input (1-3 Stream .xz from the tree's xz with --block-size/-C/-T, .lzma, tests/files incl. .lz, pass-through data; plaintext segments of zeros/data sized 8192*m+delta; corruption by region) x 1-3 runs (tool, sink kind, -T, options); or an option-grammar round trip. A run is non-trivial if the expected output contains at least one full all-zero 8 KiB buffer or the library does not report clean success on the input; distinct = hash(inputs recipe, run)",
        assumptions=[
            "the cli build has the CMake default feature set and libdec links liblzma of the same working tree",
            "tool -> library configuration as documented in xz.1/xzdec.1 (CONCATENATED unless --single-stream, TELL_UNSUPPORTED_CHECK unless --ignore-check, trailing data allowed only for .lz and --single-stream, exit 2 only for the unverifiable-check warning without -Q)",
            "scratch directory is on a filesystem where content and st_size are exact; holes are only counted (st_blocks), never required",
            "timeouts are inconclusive, never a verdict"],
    ),
    "C20": dict(
        engine="py", level="exploration",
        technique="Hypothesis: random file sets (plain/.xz/.lzma/.lz/.txz/.tlz/.gz/.bz2, intact, truncated, missing) with hostile names, patterns and option sets; xzgrep/xzegrep/xzfgrep/xzdiff/xzcmp from the cli build run in a scratch directory and are compared with system grep/diff/cmp run on the decompressed contents; injection canary (directory listing + arithmetic marker); label by grep --label and by the sed fallback (GREP=wrapper rejecting --label)",
        level_text="Exploration: 1600 (quick) / 16000 (thorough) random scenarios per run, each compared with GNU grep/diff/cmp on the decompressed contents; no exhaustiveness claim.",
        level_note="Oracle = GNU grep/diff/cmp of the sandbox run per file on the original contents; what a missing/undecodable operand itself prints is left free.",
        suites=[dict(module="c20", min_nontrivial_quick=600, min_nontrivial_thorough=6000)],
        rule="scenario = program x 0..4 files (format, state ok/truncated/missing, hostile name stems) x patterns/options/label method; non-trivial = a file name or pattern contains a shell/sed metacharacter, newline, control/8-bit byte or leading dash, or >= 2 operands with different outcomes (match / no match / error); distinct = hash of the scenario",
        assumptions=[
            "system GNU grep/diff/cmp (LC_ALL=C) define the expected behaviour; xz on PATH is the cli build's xz (checked at start-up)",
            "xzgrep runs grep once per file: cross-file context separators are not demanded; under the sed fallback every line grep prints gets 'name:' (context lines too)",
            "only status 2 and the intact, ordered output of the other operands are demanded for missing/undecodable operands; with -q, match plus error may be 0 or 2",
            "kept out of the domain and counted: -h with -H, -l with -L, -E with -F, -H/-l/-L when reading stdin, -m0, names '.', '..', '-', plain names that claim a gzip/bzip2/lzop/zstd/lz4 suffix; never generated: -r -R -d -z -Z --include/--exclude*",
            ".lz inputs are the upstream tests/files/good-*.lz (no lzip encoder); gz/bz2 only if gzip/bzip2 are on PATH",
            "timeouts are inconclusive; stderr is not compared"],
    ),
    "C19": dict(
        engine="py", level="exploration",
        technique="property-based testing (Hypothesis) of the xz command line against a branching model of a directory written from xz.1: name mapping incl. compress->decompress round trip, lstat before/after comparison of contents and metadata, runs as root and as user nobody",
        level_text="Generated-input search: thousands of (file names, kinds, modes, owners, timestamps, pre-existing targets) x (format, -S suffix, -k -f -c -Q -q, argument style, uid) scenarios per run, each executed with the real tool in a scratch directory and compared with the model; sampled, not exhaustive. Right level because the quantifier (all byte names x modes x flag combinations) is unbounded while each evaluation is an exact, cheap end-to-end observation.",
        level_note="Trusted: the model of xz.1 in py/c19.py (where the manual does not decide - order of several refusal reasons, a name that is exactly a suffix, built-in suffixes with --format=raw, status of a failed group copy - every documented-compatible outcome is accepted); Linux/ext4 semantics of lstat, O_EXCL, relatime; Python's lzma module and the tool's own stdin->stdout path as content references.",
        suites=[dict(module="c19", min_nontrivial_quick=800, min_nontrivial_thorough=10000)],
        rule=("scenario = 1..3 files (byte names biased to suffixes, their prefixes, names equal to a suffix, leading '-'/'.', control and non-UTF-8 bytes, up to 255 bytes; regular / hard-linked / symlink / dangling / FIFO / directory / missing; mode 0000..7777; owner and group "
              "root/nobody/other; ns timestamps; optional pre-existing target: file, symlink, directory) x one xz invocation (compress or decompress; xz, lzma, raw, auto; -S dotted/dot-less/equal to/ending in a built-in/invalid; -k -f -c -Q -q; names after --, as ./name, absolute, "
              "--files0; uid root or nobody), compress runs mostly followed by the decompressing invocation (round trip). Oracle: names, contents, mode/owner/group/atime/mtime of targets, untouched sources and bystanders (inode, content, mode, mtime, ctime, link count), removal "
              "of sources, exit status 0/1/2 (--no-warn), stdout. Non-trivial: a name ends in (a >=2 byte prefix of) a recognised suffix or equals one, or a file is not a plain 0644 regular file, or a target pre-exists; distinct = hash(scenario)."),
        assumptions=[
            "every random choice comes from Hypothesis seeded with VERIF_SEED; a tool timeout (20 s watchdog) is counted as inconclusive, never as a verdict",
            "a custom suffix equal to a built-in suffix is that built-in suffix (-S .txz => .tar); with --format=raw only the -S suffix is certain",
            "when the group cannot be copied only 'never broader' is asserted for the mode and exit status 0 or 2 are both accepted",
            "scratch file system is ext4 with ns timestamps and relatime; the suite runs as root and user 'nobody' exists",
            "FIFO sources are not combined with --stdout; a pre-existing directory target is not combined with --force",
            "held on everything explored; generated-input search never establishes absence"],
    ),
}
