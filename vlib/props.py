"""Per-property check specifications (engine, targets, budgets, evidence texts)."""

BASE_ASSUME = [
    "sanitizers (ASan+UBSan, asserts enabled: Debug build without -DNDEBUG) report every memory error / UB they are designed to see",
    "a case is a pure function of its bytes (all random choices come from the case decoder / a PRNG seeded from the case)",
    "held on everything explored; generated-input search never establishes absence",
]

NOT_APPLICABLE = {}

PROPS = {
    "C01": dict(
        engine="fuzz", level="exploration",
        technique="coverage-guided structured fuzzing (libFuzzer): round-trip oracle over generated inputs x by-construction-valid encoder configurations",
        level_text="Generated-input search over (input recipe, encoder entry point, filter chain/options/preset, check, slicing): each case must encode and decode back through the matching liblzma decoder to exactly the input; MicroLZMA to exactly the reported prefix within its limit. Sampled; the guarded match-finder bias hook makes position-counter normalisation reachable without 4 GiB of input.",
        level_note="Oracle decoder is liblzma itself (a symmetric encoder/decoder deviation is C02/C03's job, which use the independent ref/ decoder). Configurations are constructed from the ranges documented in lzma12.h/filter.h/container.h.",
        targets=[dict(name="t_c01", quick_runs=12000, quick_workers=8, thorough_runs=800000, max_len=128, min_nontrivial_quick=4000, min_nontrivial_thorough=100000)],
        rule=("case = input recipe (random/constant/short and long period around the dictionary size/text/zero runs/copy-with-edits/mixed; 0..3 MiB on a log scale) x entry point "
              "(easy, stream, stream_mt, alone, raw, block, microlzma and the single-call easy/stream/block/raw buffer encoders) x preset 0-9[e] or explicit chain (0-3 of delta/8 BCJ + LZMA2|LZMA1|LZMA1EXT; "
              "dict 4 KiB..16 MiB, all lc/lp/pb with lc+lp<=4, mode, nice_len 2..273, all 5 match finders, depth, preset dictionary) x check x encoder and decoder slicing x normalisation hook. "
              "Non-trivial: input length >= 1 and the round trip executed; distinct = hash(config, recipe, schedules)."),
        assumptions=BASE_ASSUME + ["lzma_verif_mf_offset_bias hook only changes *when* normalize() runs, not what it computes (DESIGN.md 2.3)"],
    ),
    "C02": dict(
        engine="fuzz", level="exploration",
        technique="structured fuzzing (libFuzzer) with a differential oracle: an independent spec-derived parser/decoder (harness/ref) must accept every encoder output, recover the input and find every stored field truthful; bound() clause by construction",
        level_text="Generated-input search over encoder configurations and input lengths concentrated at LZMA2 chunk / Block boundaries; every produced stream is parsed field by field by ref/xzparse.h (no liblzma code) and decoded by ref/lzma_dec.h; single-call encoders get exactly bound() bytes of output space. Sampled.",
        level_note="Trusted base: harness/ref (written from doc/xz-file-format.txt, doc/lzma-file-format.txt, the LZMA specification; validated on all tests/files by harness/reftest.cc: 77 files, 0 disagreements with liblzma). The de-facto LZMA2 chunk grammar (7-Zip/XZ Embedded) is trusted. BCJ chains are checked through ref/bcj.h.",
        targets=[dict(name="t_c02", quick_runs=4000, quick_workers=8, thorough_runs=300000, max_len=128, min_nontrivial_quick=1500, min_nontrivial_thorough=50000)],
        rule=("case = encoder configuration (as C01, dictionaries <= 1 MiB) x input recipe with length from {log scale 0..1.5 MiB, k*65536+{-2..2}, 2^21+{-2..2}, multiples of small block sizes} x encoder slicing. "
              "Oracle: .xz: reference parser accepts, exactly one Stream, size % 4 == 0, Stream Flags == configured check, Block Header/size fields/padding/Check/Index/Backward Size/footer verified by recomputation, no empty Block, no match distance beyond the declared LZMA2 dictionary, threaded encoder writes size fields; "
              ".lzma: 13-byte header with configured lc/lp/pb, unknown-size field + end marker, plausible dictionary field >= every distance; raw LZMA1/LZMA1EXT/LZMA2 (with preset dictionary) and MicroLZMA decode under the reference to the input (prefix for MicroLZMA); Block encoder: header/struct sizes/padding/Check truthful; "
              "single-call easy/stream/block encoders never return BUF_ERROR with out_size == bound(in_size). Non-trivial: input >= 1 byte and the reference ran; distinct = hash(config, recipe, schedule)."),
        assumptions=BASE_ASSUME + ["harness/ref is correct (see level_note); a reference that lacks a filter makes the case inconclusive (counted), never a verdict"],
    ),
    "C06": dict(
        engine="fuzz", level="exploration",
        technique="coverage-guided structured fuzzing (libFuzzer) with a metamorphic oracle: any slicing == one shot; encoder determinism differential",
        level_text="Generated-input search: thousands of (coder, input, slicing schedule) triples per run compared against the one-shot run of the same coder; sampled, not exhaustive. Right level because the quantifier (all partitions of all inputs) is unbounded and the oracle is exact and cheap.",
        level_note="Trusted: the shared driver drv.h follows the documented lzma_code protocol; reference = the same coder run in one shot (a bug that affects every slicing identically is C01/C03's job).",
        targets=[dict(name="t_c06", quick_runs=16000, quick_workers=8, thorough_runs=1600000, max_len=200, min_nontrivial_quick=3000, min_nontrivial_thorough=100000)],
        rule=("case = coder (stream/auto/alone/lzip decoders on tests/files incl. blind mutations; matching decoder on streams made by every encoder entry point; "
              "index decoder; every multi-call encoder; threaded encoder with other thread count/timeout; chain as struct vs lzma_str_from_filters->lzma_str_to_filters text) "
              "x input recipe x slicing schedule (1-byte, fixed small, explicit lists with empty calls, independent output windows). Oracle: bytes, final status, total_in, "
              "informational codes equal the one-shot run (bytes exempt for rejected input behind BCJ). Non-trivial: schedule really splits input into >=2 non-empty pieces or "
              "output into >=2 windows and the coder consumed more than its header; distinct = hash(input/config, schedule)."),
        assumptions=BASE_ASSUME + ["thread schedules of the threaded encoder are the OS's in this target (controlled schedules: C08 target)"],
    ),
    "C13": dict(
        engine="fuzz+py", level="exploration",
        technique="model-based stateful fuzzing (libFuzzer, structure-aware case decoder) of lzma_index_* histories against an independent list-of-records model; by-construction multi-Stream .xz files x chunking x seek behaviour for lzma_file_info_decoder with Block decoding at the reported offsets; Hypothesis differential of `xz --list --robot -vv` against a Python container parser",
        level_text="Generated-input search: tens of thousands of API histories (up to ~60 ops on 4 live indexes, sizes over the whole VLI range incl. limit-crossing values, >512 Records per Stream) and constructed files (1-6 Streams, 0-1300 Blocks, padding 0-20 KB, 12 malformed kinds) per run, each compared field by field with the model; sampled, not exhaustive. Right level because the quantifier (all finite op sequences x all files x all read patterns) is unbounded while the oracle (a small model with 128-bit arithmetic) is exact and cheap.",
        level_note="Trusted: ref/index_model.h (written from doc/xz-file-format.txt and api/lzma/index.h, no liblzma code); the file-info loop in t_c13.cc follows the documented LZMA_SEEK_NEEDED protocol; lzma_index_memusage() values are compared only with liblzma's own function; 'no seek with the whole file' is asserted only for the call that received the whole file.",
        targets=[dict(name="t_c13", quick_runs=120000, quick_workers=8, thorough_runs=3000000, max_len=300, min_nontrivial_quick=10000, min_nontrivial_thorough=200000)],
        suites=[dict(module="c13_list", min_nontrivial_quick=150, min_nontrivial_thorough=1500)],
        rule=("Mode A: case = history of init/append/append_many/stream_flags/stream_padding/cat/dup/encode/decode/decode_mutated/iter_init/iter_next(4 modes)/iter_rewind/iter_locate/iter_copy/end on <=4 indexes; after every op all getters == model, "
              "failed ops return the documented code and change nothing; full iteration in 4 modes + locate probes after cat/dup/decode/at the end; encoded bytes == spec encoding; decode accepts exactly what the spec parser accepts, memlimit semantics exact. "
              "Non-trivial: >=3 ops and >=1 cat/dup/encode-decode/locate on an index with >=2 records; distinct = hash(op list). "
              "Mode B: case = file layout (streams x blocks x checks x padding, real or dummy payload) x malformed kind x chunk size x short reads x FINISH use x memlimit; valid => STREAM_END, index == concatenated model, seek_pos <= size, Blocks decode to the plaintext range; "
              "malformed => error. Non-trivial: >=2 Streams or >=2 Blocks; distinct = hash(layout, malformation, chunking). "
              "py: scenario = 1-3 files x 1-4 Streams (len, check, block size, threads, chain, padding) x verbosity; all robot-mode columns == model; non-trivial: >=2 Streams or >=2 Blocks."),
        assumptions=BASE_ASSUME + ["the 2^34-byte Index limit and 2^32 Streams limit are modelled but not reachable in a test",
            "allocation refusals of the 64 MiB capped allocator on garbage Record counts are counted as environment",
            "xz --list memory-usage columns are only checked for internal consistency (summary == max of block lines)"],
    ),
    "C14": dict(
        engine="fuzz", level="exploration",
        technique="differential testing against independent reference implementations (bit-at-a-time CRC32/CRC64 from the spec polynomials, SHA-256 from FIPS 180-4): exhaustive small grid + structured fuzzing (libFuzzer), one binary per liblzma build variant",
        level_text="Exhaustive over length 0..640 x alignment 0..63 for lzma_crc32/lzma_crc64 (every size class and tail of the CLMUL and slice-by-8 code, both with initial value 0 and one arbitrary initial value) on every run and every variant; beyond that generated-input search over content, lengths up to 1 MiB, initial values, split points and the Check-field paths of the Block/Stream coders. Sampled, not exhaustive, outside the grid.",
        level_note="Trusted: ref/crc.h and ref/sha256.h (no liblzma code; vectors verified against hashlib). The integrity-check interface is only reachable through the public Block/Stream coders (lzma_check_* is not exported). Build variants make the table-driven (gen), runtime-dispatched CLMUL (asan), unconditional CLMUL (clmul) and size-optimised (small) code paths execute on this x86-64 machine; they agree bit for bit transitively through the same oracle.",
        targets=[dict(name="t_c14", variant=v, quick_runs=30000, quick_workers=2, thorough_runs=1200000, thorough_workers=4, max_len=128, min_nontrivial_quick=40000, min_nontrivial_thorough=400000) for v in ("asan", "gen", "small", "clmul")],
        rule=("every process first runs the grid (len 0..640 x align 0..63, buffer ends at the end of its allocation so ASan sees over-reads): lzma_crc32/lzma_crc64 == bitwise definition for init 0 and an arbitrary init. "
              "Generated cases: (direct) content kind {random, 0x00, 0xFF, single set bit, counting} x length <= 1 MiB (mostly <= 700) x alignment 0..63 x initial value (0 or any) x 1..5 cut points: one-piece value and value computed in pieces both equal the definition; "
              "(check) lzma_block_buffer_encode / lzma_block_uncomp_encode / lzma_stream_buffer_encode / multi-call lzma_stream_encoder fed in generated slices, with CRC32, CRC64, SHA-256: the Check field (and lzma_block.raw_check) equals the reference check of the input; the matching decoder accepts it and returns the input; one flipped bit of the Check field => LZMA_DATA_ERROR. "
              "Non-trivial: length >= 1; distinct = hash(variant, length, alignment, content, init/cuts or check/path/schedules). Each process contributes 40960 non-trivial grid evaluations (same keys in every process)."),
        assumptions=BASE_ASSUME + ["ARM64 CRC32 instructions, LoongArch, 32-bit x86 assembly and big-endian table code cannot execute on this machine and are not covered",
                                   "SHA-256 message lengths >= 2^29 bytes (bit-length carry) are out of reach",
                                   "inputs > 8 KiB are compared with a byte-table CRC derived from the same bitwise definition"],
        exhaustive_note="exhaustive: lzma_crc32 and lzma_crc64 over length 0..640 x start alignment 0..63 x {init 0, one arbitrary init} with PRNG content, per variant, on every run",
    ),
    "C15": dict(
        engine="fuzz", level="exploration",
        technique="differential testing against independent reference BCJ/delta converters (ref/bcj.h) + round-trip + metamorphic slicing oracle, structured fuzzing (libFuzzer) with instruction-dense generators; released liblzma 5.4.1 as a second opinion",
        level_text="Generated-input search: tens of thousands of (filter, start offset / distance, data, direction, two slicing schedules) cases per run; the transform liblzma applies is observed through the public API ([F,LZMA2] vs [LZMA2] raw chains and the one-shot lzma_bcj_* functions) and compared byte for byte with the reference algorithm. Sampled, not exhaustive: the quantifier ranges over all byte strings.",
        level_note="Trusted: ref/bcj.h, written from the format digest / LZMA SDK reference algorithms (x86 in the newer prevMask formulation) and, for ARM64/RISC-V, from the prose in simple/arm64.c and simple/riscv.c - structurally different from liblzma; cross-checked on the unchanged tree, on real ARM64 code and delta-coded data from tests/files, and against liblzma 5.4.1 (all filters but RISC-V, which 5.4.1 lacks). The LZMA2 layer used to reach the filters is assumed to round-trip (C01/C03).",
        targets=[dict(name="t_c15", quick_runs=120000, quick_workers=8, thorough_runs=4000000, max_len=160, min_nontrivial_quick=20000, min_nontrivial_thorough=500000)],
        rule=("case = filter {x86, powerpc, ia64, arm, armthumb, arm64, sparc, riscv, delta} x start_offset (0 / NULL options, small, just below 2^32 so that the position wraps inside the buffer, random; multiples of the alignment) or delta distance 1..256 "
              "x data (per-architecture instruction-dense recipes incl. x86 E8/E9 runs that drive the previous-candidate mask, ARM64 ADRP on both sides of the +/-512 MiB gate, RISC-V JAL / AUIPC pairs / special packed forms, IA-64 bundles with every template; or generic recipes), length 0..64 KiB (mostly 16..600) "
              "x first direction x slicing schedules for both filtering coders. Oracle: (1) F(x) == reference for the first direction and again for the opposite direction on the result, (2) the opposite direction returns x, (3) equal lengths, "
              "(4) any slicing == whole-buffer reference; lzma_bcj_{x86,arm64,riscv}_{encode,decode} give the reference bytes and processed count (tail <= 4/3/7); misaligned start_offset and delta distance 0 / > 256 => LZMA_OPTIONS_ERROR from both initialisers; "
              "(5) on ~13 % of the cases liblzma 5.4.1 (dlopen) gives the same bytes. Once per process: good-1-arm64-lzma2-{1,2}.xz, good-1-delta-lzma2.tiff.xz, good-1-3delta-lzma2.xz decoded by liblzma == LZMA2 layer alone + reference filters. "
              "Non-trivial: the reference changed >= 1 byte; distinct = hash(filter, offset/distance, data, direction)."),
        assumptions=BASE_ASSUME + ["the 5.4.1 comparison needs /usr/lib/x86_64-linux-gnu/liblzma.so.5 (VERIF_SYSLZMA overrides; absence is counted, not an error) and cannot cover RISC-V",
                                   "no RISC-V golden file exists in tests/files; RISC-V is pinned by the reference written from the specification comment only"],
    ),
    "C17": dict(
        engine="py", level="fault_enumeration",
        technique="LD_PRELOAD syscall fault injection (shim/faultio.so) into the dynamically linked cli xz; per Hypothesis scenario one fault-free traced run gives the K fault points, then every k in 1..K (a seeded sample of the bulk read/write calls for K > 64 on the quick tier) is run for each drawn fault kind (errno EIO/ENOSPC, EINTR, EAGAIN, short count, SIGINT/TERM/HUP/PIPE before the call, signal+errno, SIGKILL before / after the call); the end state of the directory is judged after the process is gone, validity of targets by the direct library decoder libdec, plus a syscall-order invariant on every trace",
        level_text="Enumeration of injected faults, signals and process deaths at every intercepted system call of generated xz invocations; per scenario the enumeration over k is complete on the thorough tier and for traces up to 64 calls on the quick tier; the scenarios themselves (options, sizes 0..200 KiB, contents, damaged inputs) are sampled by Hypothesis.",
        level_note="Trusted: the interposer only sees calls xz makes through the PLT; durability itself is unobservable, the order and results of fsync/close/unlink are checked instead; libdec (liblzma of the same tree) judges target validity.",
        shims=["faultio"], helpers=[dict(name="libdec")],
        suites=[dict(module="c17", min_nontrivial_quick=400, min_nontrivial_thorough=8000)],
        rule="scenario = mode (compress/decompress, xz/lzma, -c to pipe/file/O_APPEND, -k, -f, pre-existing target, 1-2 files, --files, --no-sync, -T1/-T4, damaged input) x content 0..200 KiB x fault kinds; per scenario every fault point k of the fault-free trace is injected (sampled for long traces on quick). Non-trivial and distinct: (scenario hash, k, fault kind) where the fault is delivered while a target file exists and its source has not been unlinked yet (for -c: output has begun and the source is still open)",
        assumptions=[
            "only system calls xz makes through the PLT are fault points (open, close, read, write, lseek, fsync, unlink, fchmod, fchown, futimens, fcntl F_SETFL, poll, posix_fadvise); libc-internal stdio and stat/lstat/fstat are not injected",
            "one fault per run; a signal is sent process-directed from inside the interposed call, so it is handled at call boundaries of the main thread",
            "durability itself is not observable: the order and results of fsync(target), fsync(directory), close(target) and unlink(source) are checked instead",
            "failure of close() on the read-only source or on the directory descriptor, of fchown/fchmod/futimens/posix_fadvise/fcntl, EINTR/EAGAIN and short counts may end as success or as clean failure; only inconsistent end states are violations",
            "a signal may legitimately be followed by completion of the file if at most 4 further data reads/writes happen",
            "watchdog timeouts (30 s per xz run) are counted as inconclusive, never as a verdict",
            "regular files in one directory on the build file system, run as the invoking user"],
        exhaustive_note="exhaustive=true means: in every generated scenario of the run, every applicable fault point k in 1..K of the fault-free trace was injected for each of the scenario's fault kinds (short counts only on read/write, EPIPE only on write)",
    ),
    "C18": dict(
        engine="py", level="exploration",
        technique="Hypothesis differential test: xz -dc/-d/-t, xzdec, lzmadec on generated valid/corrupt/truncated/concatenated .xz/.lzma/.lz files with 8 KiB-aligned zero runs, across pipe / new file / redirect at offset 0, ==size, !=size / O_APPEND / --no-sparse sinks, -T values and options, against a direct liblzma decode (libdec); plus xz option-grammar round trips with Block-size model",
        level_text="Random exploration of inputs x tools x sinks x options; tool output, sink content and exact size, file creation and exit status compared with the library decode configured as the tool documents. Sampled.",
        level_note="Oracle is the one-shot library decode of the same bytes (liblzma itself is judged by C03/C16); bytes before an error are not compared when a BCJ filter is in the chain (the property C06 leaves them unspecified) nor status for headerless files in xz's documented stricter .lzma sniffing zone.",
        helpers=[dict(name="libdec")],
        suites=[dict(module="c18", min_nontrivial_quick=300, min_nontrivial_thorough=4000)],
        rule="scenario = input (1-3 Stream .xz from the tree's xz with --block-size/-C/-T, .lzma, tests/files incl. .lz, pass-through data; plaintext segments of zeros/data sized 8192*m+delta; corruption by region) x 1-3 runs (tool, sink kind, -T, options); or an option-grammar round trip. A run is non-trivial if the expected output contains at least one full all-zero 8 KiB buffer or the library does not report clean success on the input; distinct = hash(inputs recipe, run)",
        assumptions=[
            "the cli build has the CMake default feature set and libdec links liblzma of the same working tree",
            "tool -> library configuration as documented in xz.1/xzdec.1 (CONCATENATED unless --single-stream, TELL_UNSUPPORTED_CHECK unless --ignore-check, trailing data allowed only for .lz and --single-stream, exit 2 only for the unverifiable-check warning without -Q)",
            "scratch directory is on a filesystem where content and st_size are exact; holes are only counted (st_blocks), never required",
            "timeouts are inconclusive, never a verdict"],
    ),
    "C20": dict(
        engine="py", level="exploration",
        technique="Hypothesis: random file sets (plain/.xz/.lzma/.lz/.txz/.tlz/.gz/.bz2, intact, truncated, missing) with hostile names, patterns and option sets; xzgrep/xzegrep/xzfgrep/xzdiff/xzcmp from the cli build run in a scratch directory and are compared with system grep/diff/cmp run on the decompressed contents; injection canary (directory listing + arithmetic marker); label by grep --label and by the sed fallback (GREP=wrapper rejecting --label)",
        level_text="Exploration: 1600 (quick) / 16000 (thorough) random scenarios per run, each compared with GNU grep/diff/cmp on the decompressed contents; no exhaustiveness claim.",
        level_note="Oracle = GNU grep/diff/cmp of the sandbox run per file on the original contents; what a missing/undecodable operand itself prints is left free.",
        suites=[dict(module="c20", min_nontrivial_quick=600, min_nontrivial_thorough=6000)],
        rule="scenario = program x 0..4 files (format, state ok/truncated/missing, hostile name stems) x patterns/options/label method; non-trivial = a file name or pattern contains a shell/sed metacharacter, newline, control/8-bit byte or leading dash, or >= 2 operands with different outcomes (match / no match / error); distinct = hash of the scenario",
        assumptions=[
            "system GNU grep/diff/cmp (LC_ALL=C) define the expected behaviour; xz on PATH is the cli build's xz (checked at start-up)",
            "xzgrep runs grep once per file: cross-file context separators are not demanded; under the sed fallback every line grep prints gets 'name:' (context lines too)",
            "only status 2 and the intact, ordered output of the other operands are demanded for missing/undecodable operands; with -q, match plus error may be 0 or 2",
            "kept out of the domain and counted: -h with -H, -l with -L, -E with -F, -H/-l/-L when reading stdin, -m0, names '.', '..', '-', plain names that claim a gzip/bzip2/lzop/zstd/lz4 suffix; never generated: -r -R -d -z -Z --include/--exclude*",
            ".lz inputs are the upstream tests/files/good-*.lz (no lzip encoder); gz/bz2 only if gzip/bzip2 are on PATH",
            "timeouts are inconclusive; stderr is not compared"],
    ),
    "C19": dict(
        engine="py", level="exploration",
        technique="property-based testing (Hypothesis) of the xz command line against a branching model of a directory written from xz.1: name mapping incl. compress->decompress round trip, lstat before/after comparison of contents and metadata, runs as root and as user nobody",
        level_text="Generated-input search: thousands of (file names, kinds, modes, owners, timestamps, pre-existing targets) x (format, -S suffix, -k -f -c -Q -q, argument style, uid) scenarios per run, each executed with the real tool in a scratch directory and compared with the model; sampled, not exhaustive. Right level because the quantifier (all byte names x modes x flag combinations) is unbounded while each evaluation is an exact, cheap end-to-end observation.",
        level_note="Trusted: the model of xz.1 in py/c19.py (where the manual does not decide - order of several refusal reasons, a name that is exactly a suffix, built-in suffixes with --format=raw, status of a failed group copy - every documented-compatible outcome is accepted); Linux/ext4 semantics of lstat, O_EXCL, relatime; Python's lzma module and the tool's own stdin->stdout path as content references.",
        suites=[dict(module="c19", min_nontrivial_quick=800, min_nontrivial_thorough=10000)],
        rule=("scenario = 1..3 files (byte names biased to suffixes, their prefixes, names equal to a suffix, leading '-'/'.', control and non-UTF-8 bytes, up to 255 bytes; regular / hard-linked / symlink / dangling / FIFO / directory / missing; mode 0000..7777; owner and group "
              "root/nobody/other; ns timestamps; optional pre-existing target: file, symlink, directory) x one xz invocation (compress or decompress; xz, lzma, raw, auto; -S dotted/dot-less/equal to/ending in a built-in/invalid; -k -f -c -Q -q; names after --, as ./name, absolute, "
              "--files0; uid root or nobody), compress runs mostly followed by the decompressing invocation (round trip). Oracle: names, contents, mode/owner/group/atime/mtime of targets, untouched sources and bystanders (inode, content, mode, mtime, ctime, link count), removal "
              "of sources, exit status 0/1/2 (--no-warn), stdout. Non-trivial: a name ends in (a >=2 byte prefix of) a recognised suffix or equals one, or a file is not a plain 0644 regular file, or a target pre-exists; distinct = hash(scenario)."),
        assumptions=[
            "every random choice comes from Hypothesis seeded with VERIF_SEED; a tool timeout (20 s watchdog) is counted as inconclusive, never as a verdict",
            "a custom suffix equal to a built-in suffix is that built-in suffix (-S .txz => .tar); with --format=raw only the -S suffix is certain",
            "when the group cannot be copied only 'never broader' is asserted for the mode and exit status 0 or 2 are both accepted",
            "scratch file system is ext4 with ns timestamps and relatime; the suite runs as root and user 'nobody' exists",
            "FIFO sources are not combined with --stdout; a pre-existing directory target is not combined with --force",
            "held on everything explored; generated-input search never establishes absence"],
    ),
}
