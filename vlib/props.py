"""Per-property check specifications (engine, targets, budgets, evidence texts)."""

BASE_ASSUME = [
    "sanitizers (ASan+UBSan, asserts enabled: Debug build without -DNDEBUG) report every memory error / UB they are designed to see",
    "a case is a pure function of its bytes (all random choices come from the case decoder / a PRNG seeded from the case)",
    "held on everything explored; generated-input search never establishes absence",
]

NOT_APPLICABLE = {}

PROPS = {
    "C06": dict(
        engine="fuzz", level="exploration",
        technique="coverage-guided structured fuzzing (libFuzzer) with a metamorphic oracle: any slicing == one shot; encoder determinism differential",
        level_text="Generated-input search: thousands of (coder, input, slicing schedule) triples per run compared against the one-shot run of the same coder; sampled, not exhaustive. Right level because the quantifier (all partitions of all inputs) is unbounded and the oracle is exact and cheap.",
        level_note="Trusted: the shared driver drv.h follows the documented lzma_code protocol; reference = the same coder run in one shot (a bug that affects every slicing identically is C01/C03's job).",
        targets=[dict(name="t_c06", quick_runs=16000, quick_workers=8, thorough_runs=1600000, max_len=200, min_nontrivial_quick=3000, min_nontrivial_thorough=100000)],
        rule=("case = coder (stream/auto/alone/lzip decoders on tests/files incl. blind mutations; matching decoder on streams made by every encoder entry point; "
              "index decoder; every multi-call encoder; threaded encoder with other thread count/timeout; chain as struct vs lzma_str_from_filters->lzma_str_to_filters text) "
              "x input recipe x slicing schedule (1-byte, fixed small, explicit lists with empty calls, independent output windows). Oracle: bytes, final status, total_in, "
              "informational codes equal the one-shot run (bytes exempt for rejected input behind BCJ). Non-trivial: schedule really splits input into >=2 non-empty pieces or "
              "output into >=2 windows and the coder consumed more than its header; distinct = hash(input/config, schedule)."),
        assumptions=BASE_ASSUME + ["thread schedules of the threaded encoder are the OS's in this target (controlled schedules: C08 target)"],
    ),
}
