"""Engine 1: libFuzzer targets with a structure-aware case decoder.
Runs replay + seeded generation, merges per-process stats, confirms/shrinks/classifies
crashes, and returns a result dict for the evidence writer."""
import glob
import hashlib
import json
import os
import re
import shutil
import subprocess
import sys
import time
from concurrent.futures import ThreadPoolExecutor

from . import build

VERIF = build.VERIF
BUILD = build.BUILD

ASAN_OPTIONS = "detect_leaks=1:allocator_may_return_null=1:abort_on_error=1:handle_abort=1:symbolize=1:max_allocation_size_mb=3500"
UBSAN_OPTIONS = "print_stacktrace=1:halt_on_error=1"
TSAN_OPTIONS = "halt_on_error=1:abort_on_error=1:second_deadlock_stack=1"

SIG_RE = re.compile(r"=== VERIF-VIOLATION property=(\S+) signature=(\S+)")
REASON_RE = re.compile(r"=== reason: (.*)")
CASE_RE = re.compile(r"=== case: (.*)")
SUMMARY_RE = re.compile(r"SUMMARY: (\w+): ([\w-]+)(?: \S+ in (\S+))?")


def base_env(known_sigs=(), extra=None):
    env = dict(os.environ)
    env["ASAN_OPTIONS"] = ASAN_OPTIONS
    env["UBSAN_OPTIONS"] = UBSAN_OPTIONS
    env["TSAN_OPTIONS"] = TSAN_OPTIONS
    env["VERIF_REPO"] = build.REPO
    env["VERIF_KNOWN"] = ",".join(known_sigs)
    env.pop("VERIF_STATS", None)
    if extra:
        env.update(extra)
    return env


HANG_SIG = "hang:case-did-not-return-within-time-limit"
HANG_REASON = "the case did not return within 60 s in 3 of 3 separate replays and not within 300 s in a fourth (deadlock / lost wake-up / unbounded loop); cases of this target normally take milliseconds"


def classify_output(text):
    """-> (kind, signature, reason, case)   kind in violation|sanitizer|harness|timeout|oom|none"""
    m = SIG_RE.search(text)
    if m:
        r = REASON_RE.search(text)
        c = CASE_RE.search(text)
        return "violation", m.group(2), r.group(1) if r else "", c.group(1) if c else ""
    if "VERIF-HARNESS-BUG" in text:
        return "harness", "harness-bug", text[text.find("VERIF-HARNESS-BUG"):][:400], ""
    c = CASE_RE.search(text)
    case = c.group(1) if c else ""
    tm = re.search(r"SUMMARY: ThreadSanitizer: ([\w -]+?) (\S+) in (\S+)", text)
    if tm:
        return "sanitizer", "ThreadSanitizer:" + tm.group(1).strip().replace(" ", "-") + ":" + tm.group(3), tm.group(0), case
    m = SUMMARY_RE.search(text)
    hm = re.search(r"SUMMARY: \w+: [\w-]+ (%s/(?:harness|sched)/\S+)" % re.escape(VERIF), text)
    if hm and "AddressSanitizer" not in hm.group(0):
        # UB located in the harness' own source: the check is wrong, not the code under test
        return "harness", "harness-ub", "undefined behaviour inside the harness at " + hm.group(1), case
    if m:
        tool, what, where = m.group(1), m.group(2), m.group(3) or ""
        if tool == "libFuzzer" and what in ("timeout", "out-of-memory"):
            return ("timeout" if what == "timeout" else "oom"), what, text[-300:], case
        if tool == "libFuzzer" and what == "deadly":
            return "sanitizer", "signal", "deadly signal (assert/abort/trap without VERIF line)", case
        # find the innermost frame inside the repository or the harness
        fm = re.search(r"#\d+ \S+ in (\S+) (?:/repo|%s)\S*/([\w.]+):(\d+)" % re.escape(build.REPO), text)
        loc = f"{fm.group(1)}" if fm else where
        am = re.search(r"Assertion `(.*?)' failed", text)
        if am:
            return "sanitizer", "assert:" + am.group(1)[:60].replace(" ", ""), "assertion failed: " + am.group(1), case
        return "sanitizer", f"{tool}:{what}:{loc}", m.group(0), case
    am = re.search(r"Assertion `(.*?)' failed", text)
    if am:
        return "sanitizer", "assert:" + am.group(1)[:60].replace(" ", ""), "assertion failed: " + am.group(1), case
    return "none", "", "", case


def run_file(binary, path, env, timeout=120, unit_timeout=60):
    """Run the target on one saved input. -> (returncode, classification)"""
    try:
        p = subprocess.run([binary, f"-timeout={unit_timeout}", "-rss_limit_mb=6000", path], env=env, stdout=subprocess.PIPE, stderr=subprocess.STDOUT, timeout=timeout)
        text = p.stdout.decode(errors="replace")
        rc = p.returncode
    except subprocess.TimeoutExpired as e:
        text = (e.stdout or b"").decode(errors="replace") + "\nSUMMARY: libFuzzer: timeout"
        rc = -9
    return rc, classify_output(text), text


def merge_stats(path):
    """Last line per pid wins; union of distinct hashes."""
    per = {}
    bad_files = 0
    for fn in glob.glob(path + ".*"):
        if fn.endswith(".tmp"):
            continue
        try:
            with open(fn, errors="replace") as f:
                j = json.loads(f.read())
            per[j["pid"]] = j
        except (json.JSONDecodeError, OSError, KeyError):
            bad_files += 1
            continue
    tot = {"evals": 0, "nontrivial": 0, "classes": {}, "samples": [], "distinct": set(), "unparsable_stats_files": bad_files}
    for j in per.values():
        tot["evals"] += j["evals"]
        tot["nontrivial"] += j["nontrivial"]
        for k, v in j["classes"].items():
            tot["classes"][k] = tot["classes"].get(k, 0) + v
        if j.get("distinct"):
            tot["distinct"].update(j["distinct"])
        else:
            # process died between periodic flushes: only the count survived; count them as distinct among themselves
            tot["distinct"].update(f"{j['pid']}:{i}" for i in range(j.get("distinct_count", 0)))
        for s in j["samples"]:
            if len(tot["samples"]) < 8:
                tot["samples"].append(s)
    return tot


def shrink(binary, path, env, want_sig, out_path, budget=250, time_budget=90):
    """Delta debugging on the case bytes: delete blocks, then zero bytes; keep a candidate
    only if the *same signature* reproduces."""
    data = open(path, "rb").read()
    tmp = out_path + ".cand"
    runs = 0
    t0 = time.time()

    def ok(cand):
        nonlocal runs
        runs += 1
        with open(tmp, "wb") as f:
            f.write(cand)
        rc, (kind, sig, _, _), _ = run_file(binary, tmp, env, timeout=90)
        return kind in ("violation", "sanitizer") and sig == want_sig

    n = max(1, len(data) // 2)
    while n >= 1 and runs < budget and time.time() - t0 < time_budget:
        i = 0
        changed = False
        while i < len(data) and runs < budget and time.time() - t0 < time_budget:
            cand = data[:i] + data[i + n:]
            if cand != data and ok(cand):
                data = cand
                changed = True
            else:
                i += n
        if not changed or n == 1:
            n //= 2
    for i in range(len(data)):
        if runs >= budget or time.time() - t0 >= time_budget:
            break
        if data[i] != 0:
            cand = data[:i] + b"\0" + data[i + 1:]
            if ok(cand):
                data = cand
    with open(out_path, "wb") as f:
        f.write(data)
    if os.path.exists(tmp):
        os.unlink(tmp)
    return out_path


class FuzzResult:
    def __init__(self):
        self.stats = {"evals": 0, "nontrivial": 0, "classes": {}, "samples": [], "distinct": set()}
        self.findings = []      # dicts: kind, signature, reason, case, path
        self.noise = []         # timeouts, ooms, flaky
        self.harness_errors = []
        self.replayed = 0


def run_target(prop, binary, tier, seed, runs, workers, max_len, known_sigs=(), corpus_dirs=(), extra_env=None, use_corpus=True, per_input_timeout=60, label=None, runs_floor=0):
    """Replay corpus, then `workers` seeded generation processes with runs/workers cases each."""
    label = label or os.path.basename(binary)
    res = FuzzResult()
    art = os.path.join(BUILD, "artifacts", prop)
    os.makedirs(art, exist_ok=True)
    scratch = os.path.join(BUILD, "scratch", f"{prop}-{label}-{os.getpid()}")
    shutil.rmtree(scratch, ignore_errors=True)
    os.makedirs(scratch)
    stats_path = os.path.join(scratch, "stats.jsonl")
    env = base_env(known_sigs, extra_env)
    env["VERIF_STATS"] = stats_path
    crash_prefix = os.path.join(scratch, "art-")
    try:
        # 1. replay tier: committed regression inputs
        files = []
        for d in corpus_dirs:
            files += sorted(p for p in glob.glob(os.path.join(d, "*")) if os.path.isfile(p))
        for p in files:
            rc, (kind, sig, reason, case), text = run_file(binary, p, env)
            res.replayed += 1
            if kind in ("violation", "sanitizer"):
                res.findings.append({"kind": kind, "signature": sig, "reason": reason, "case": case, "path": p, "from": "corpus"})
            elif kind == "harness":
                res.harness_errors.append(reason)
            elif kind == "timeout":
                res.findings.append({"kind": "hang", "signature": HANG_SIG, "reason": HANG_REASON, "case": case, "path": p, "from": "corpus"})
            elif kind == "oom":
                res.noise.append({"kind": kind, "path": p})
        # 2. generation
        procs = []
        per = max(1, runs // max(1, workers))
        for w in range(workers):
            cdir = os.path.join(scratch, f"corpus{w}")
            os.makedirs(cdir)
            if use_corpus:
                for p in files:
                    shutil.copy(p, os.path.join(cdir, "seed-" + os.path.basename(p)))
            wseed = (seed * 1000003 + w * 7919 + 1) & 0x7fffffff
            cmd = [binary, f"-runs={per}", f"-seed={wseed or 1}", f"-max_len={max_len}", f"-artifact_prefix={crash_prefix}{w}-",
                   f"-timeout={per_input_timeout}", "-rss_limit_mb=6000", "-malloc_limit_mb=4000", "-print_final_stats=1", "-verbosity=0", "-reduce_inputs=0", cdir]
            logf = open(os.path.join(scratch, f"log{w}.txt"), "wb")
            procs.append((subprocess.Popen(cmd, env=env, stdout=logf, stderr=subprocess.STDOUT), logf, w))
        # safety net: a worker that neither finishes nor dies (hang outside the per-case watchdogs) is killed and counted as inconclusive
        deadline = time.time() + 5400 + per * 0.1
        for p, logf, w in procs:
            try:
                p.wait(timeout=max(1, deadline - time.time()))
            except subprocess.TimeoutExpired:
                p.kill()
                p.wait()
                res.noise.append({"kind": "worker-killed-by-orchestrator-watchdog", "path": f"worker {w}"})
            logf.close()
        # 3. artifacts
        for p, logf, w in procs:
            text = open(os.path.join(scratch, f"log{w}.txt"), errors="replace").read()
            kind, sig, reason, case = classify_output(text)
            arts = glob.glob(f"{crash_prefix}{w}-*")
            if p.returncode == 97 or kind == "harness":
                res.harness_errors.append(reason or text[-500:])
                continue
            if p.returncode != 0 and not arts and kind == "none":
                res.harness_errors.append(f"worker {w} exited {p.returncode} without artifact: " + text[-400:])
                continue
            for a in arts:
                base = os.path.basename(a)
                if "-crash-" in base or "-leak-" in base:
                    keep = os.path.join(art, label + "__raw-" + hashlib.sha1(open(a, "rb").read()).hexdigest()[:16])
                    shutil.copy(a, keep)
                    with open(keep + ".log", "w") as lf:  # what the worker printed when it died (triage of flaky crashes)
                        lf.write(text[-20000:])
                    res.findings.append({"kind": kind if kind in ("violation", "sanitizer") else "sanitizer", "signature": sig, "reason": reason, "case": case, "path": keep, "from": "generated"})
                elif "-timeout-" in base:
                    # a candidate hang: only believed if it reproduces 3/3 in confirm_and_shrink (one process at a time)
                    keep = os.path.join(art, label + "__raw-" + hashlib.sha1(open(a, "rb").read()).hexdigest()[:16])
                    shutil.copy(a, keep)
                    res.findings.append({"kind": "hang", "signature": HANG_SIG, "reason": HANG_REASON, "case": case, "path": keep, "from": "generated"})
                else:
                    res.noise.append({"kind": base.split("-")[2] if base.count("-") > 2 else "other", "path": a})
        res.stats = merge_stats(stats_path)
    finally:
        if os.environ.get("VERIF_KEEP"):
            print("kept scratch:", scratch, file=sys.stderr)
        else:
            shutil.rmtree(scratch, ignore_errors=True)
    return res


def confirm_and_shrink(prop, binary, findings, known_sigs=(), extra_env=None, do_shrink=True):
    """Re-run each finding 3x; reproducing ones are shrunk and returned (dedup by signature)."""
    env = base_env(known_sigs, extra_env)
    art = os.path.join(BUILD, "artifacts", prop)
    os.makedirs(art, exist_ok=True)
    out, flaky = [], []
    seen = set()
    for f in findings:
        reps = 0
        last = None
        hangs = 0
        if f.get("kind") == "hang" and HANG_SIG in seen:
            continue            # one confirmed hang is enough (each confirmation costs 3 x 60 s)
        for _ in range(3):
            rc, (kind, sig, reason, case), text = run_file(binary, f["path"], env)
            if kind in ("violation", "sanitizer"):
                reps += 1
                last = (kind, sig, reason, case)
            elif kind == "timeout":
                hangs += 1
        if reps == 0 and hangs == 3:
            # three replays exceeded 60 s.  A case that is merely slow returns when given five times as long; only one that does
            # not is reported as a hang (a long case is a cost problem of the check, never a verdict about the code)
            rc, (kind, sig, reason, case), text = run_file(binary, f["path"], env, timeout=340, unit_timeout=300)
            if kind == "timeout":
                reps = 3
                last = ("hang", HANG_SIG, HANG_REASON, f.get("case", ""))
            elif kind in ("violation", "sanitizer"):
                reps = 1
                last = (kind, sig, reason, case)
            else:
                f = dict(f, kind="slow")
        if reps == 0:
            flaky.append(f)
            continue
        kind, sig, reason, case = last
        if sig in seen:
            continue
        seen.add(sig)
        final = f["path"]
        if do_shrink and f.get("from") != "corpus" and kind != "hang":
            dst = os.path.join(art, os.path.basename(binary) + "__min-" + hashlib.sha1((sig + open(f["path"], "rb").read().hex()).encode()).hexdigest()[:16])
            try:
                final = shrink(binary, f["path"], env, sig, dst)
                rc, (k2, s2, r2, c2), _ = run_file(binary, final, env)
                if k2 in ("violation", "sanitizer") and s2 == sig:
                    reason, case = r2 or reason, c2 or case
                else:
                    final = f["path"]
            except Exception:
                final = f["path"]
        out.append({"kind": kind, "signature": sig, "reason": reason, "case": case, "path": final, "reproduced": reps})
    return out, flaky
