"""Build management: liblzma variants from $VERIF_REPO's working tree (CMake + Ninja, out of tree)
and the harness binaries.  Every check starts with an incremental rebuild."""
import fcntl
import os
import subprocess
import sys
import time
import zlib

VERIF = os.path.dirname(os.path.dirname(os.path.abspath(__file__)))
BUILD = os.path.join(VERIF, "build")
REPO = os.environ.get("VERIF_REPO") or "/repo"
GUARD = "-DTUKAANI_PROJECT_XZ_VERIF"

# coverage feedback without trace-cmp: libFuzzer's cmp callbacks made the LZMA encoder ~20x slower
COV = "-fsanitize-coverage=inline-8bit-counters,pc-table"
SAN = f"-O1 -g -fno-omit-frame-pointer -fsanitize=address,undefined {COV} -fno-sanitize-recover=undefined"
COMMON = ["-DBUILD_SHARED_LIBS=OFF", "-DXZ_NLS=OFF", "-DXZ_DOC=OFF", "-DCMAKE_BUILD_TYPE=Debug", "-DCMAKE_C_FLAGS_DEBUG=-g"]

SCHED_INC = os.path.join(VERIF, "sched", "vsched_rename.h")

VARIANTS = {
    # name: (compiler, cflags, extra cmake args, targets)
    "asan": ("clang", f"{SAN} {GUARD}", ["-DXZ_SANDBOX=no"], ["liblzma"]),
    "sched": ("clang", f"{SAN} {GUARD} -include {SCHED_INC}", ["-DXZ_SANDBOX=no"], ["liblzma"]),
    "tsan": ("clang", f"-O1 -g -fno-omit-frame-pointer -fsanitize=thread {GUARD}", ["-DXZ_SANDBOX=no"], ["liblzma"]),
    # no sanitizers: for valgrind memcheck (uninitialised reads incl. the x86-64 inline-asm range decoder, which MSan cannot see)
    "vg": ("clang", f"-O1 -gdwarf-4 -fno-omit-frame-pointer {GUARD}", ["-DXZ_SANDBOX=no"], ["liblzma"]),
    "gen": ("clang", f"{SAN} {GUARD}", ["-DXZ_SANDBOX=no", "-DXZ_CLMUL_CRC=OFF"], ["liblzma"]),
    "small": ("clang", f"{SAN} {GUARD}", ["-DXZ_SANDBOX=no", "-DXZ_SMALL=ON"], ["liblzma"]),
    "clmul": ("clang", f"{SAN} {GUARD} -mssse3 -msse4.1 -mpclmul", ["-DXZ_SANDBOX=no"], ["liblzma"]),
    # the tools as shipped: gcc, project defaults (sandbox auto), guard off
    "cli": ("gcc", "-O2 -g", ["-DCMAKE_BUILD_TYPE=RelWithDebInfo"], ["xz", "xzdec", "lzmadec", "lzmainfo", "liblzma"]),
}


class BuildError(Exception):
    pass


def _run(cmd, log, **kw):
    with open(log, "ab") as f:
        f.write(("\n$ " + " ".join(cmd) + "\n").encode())
        f.flush()
        p = subprocess.run(cmd, stdout=f, stderr=subprocess.STDOUT, **kw)
    return p.returncode


class _Lock:
    def __init__(self, name):
        os.makedirs(BUILD, exist_ok=True)
        self.path = os.path.join(BUILD, f".lock-{name}")

    def __enter__(self):
        self.f = open(self.path, "w")
        fcntl.flock(self.f, fcntl.LOCK_EX)
        return self

    def __exit__(self, *a):
        fcntl.flock(self.f, fcntl.LOCK_UN)
        self.f.close()


def lib_dir(variant):
    tag = "" if REPO == "/repo" else "-" + format(zlib.crc32(REPO.encode()) & 0xffffff, "x")
    return os.path.join(BUILD, f"lib-{variant}{tag}")


def build_lib(variant):
    """Configure (first time) and incrementally build a variant from REPO's working tree."""
    cc, cflags, extra, targets = VARIANTS[variant]
    d = lib_dir(variant)
    log = os.path.join(BUILD, f"build-{variant}.log")
    with _Lock(f"lib-{variant}"):
        cache = os.path.join(d, "CMakeCache.txt")
        need_cfg = not os.path.exists(os.path.join(d, "build.ninja"))
        if os.path.exists(cache) and not need_cfg:
            # a cache that points to a different source tree must be redone
            with open(cache, errors="replace") as f:
                txt = f.read()
            if f"CMAKE_HOME_DIRECTORY:INTERNAL={REPO}\n" not in txt or f"CMAKE_C_FLAGS:STRING={cflags}\n" not in txt:
                need_cfg = True
                subprocess.run(["rm", "-rf", d])
        if need_cfg:
            os.makedirs(d, exist_ok=True)
            if os.path.exists(log):
                os.unlink(log)
            cmd = ["cmake", "-S", REPO, "-B", d, "-G", "Ninja", f"-DCMAKE_C_COMPILER={cc}", f"-DCMAKE_C_FLAGS={cflags}"]
            if "-DCMAKE_BUILD_TYPE=RelWithDebInfo" in extra:
                cmd += ["-DBUILD_SHARED_LIBS=OFF", "-DXZ_NLS=OFF", "-DXZ_DOC=OFF"] + extra
            else:
                cmd += COMMON + extra
            # clang 14 crashes on one of the CMake feature probes (__builtin_assume_aligned("", 1)) and drops a crash reproducer into
            # TMPDIR each time: keep those inside the build directory instead of /tmp
            tmpd = os.path.join(d, "tmp")
            os.makedirs(tmpd, exist_ok=True)
            if _run(cmd, log, env=dict(os.environ, TMPDIR=tmpd)) != 0:
                raise BuildError(f"cmake configure failed for {variant}; see {log}")
        cmd = ["cmake", "--build", d, "--target"] + targets
        if _run(cmd, log) != 0:
            raise BuildError(f"build failed for variant {variant}; see {log}")
    return d


def _newest(paths):
    m = 0
    for p in paths:
        try:
            m = max(m, os.stat(p).st_mtime)
        except FileNotFoundError:
            pass
    return m


def harness_sources():
    hd = os.path.join(VERIF, "harness")
    out = []
    for root, _, files in os.walk(hd):
        for f in files:
            if f.endswith((".h", ".cc", ".c")):
                out.append(os.path.join(root, f))
    sd = os.path.join(VERIF, "sched")
    if os.path.isdir(sd):
        out += [os.path.join(sd, f) for f in os.listdir(sd)]
    return out


def build_target(name, variant="asan", src=None, extra_flags=(), fuzzer=True, out_name=None, extra_src=()):
    """Compile harness/<src or name>.cc against the given lib variant -> build/bin/<out_name>."""
    d = build_lib(variant)
    lib = os.path.join(d, "liblzma.a")
    if variant in ("tsan", "vg"):
        # no coverage counters under TSan (their non-atomic increments are data races): plain driver instead of libFuzzer
        fuzzer = False
        extra_src = tuple(extra_src) + ("harness/minidrv.cc",)
    bind = os.path.join(BUILD, "bin" if REPO == "/repo" else "bin-" + os.path.basename(d))
    os.makedirs(bind, exist_ok=True)
    out = os.path.join(bind, out_name or (name if variant == "asan" else f"{name}-{variant}"))
    srcs = [os.path.join(VERIF, "harness", (src or name) + ".cc")] + [os.path.join(VERIF, s) for s in extra_src]
    with _Lock("bin-" + os.path.basename(out)):
        deps = harness_sources() + [lib]
        if os.path.exists(out) and os.stat(out).st_mtime >= _newest(deps):
            return out
        if variant == "vg":
            san = "-DVERIF_NO_SANITIZER=1 -gdwarf-4"  # valgrind 3.19 cannot read DWARF 5
        elif variant == "tsan":
            san = "-fsanitize=thread" + (",fuzzer" if fuzzer else "")
        else:
            san = "-fsanitize=address,undefined" + (",fuzzer" if fuzzer else "") + " -fno-sanitize-recover=undefined"
        cmd = ["clang++", "-std=gnu++17", "-g", "-O1", "-fno-omit-frame-pointer", "-Wall", "-Wno-unused-function", "-Wno-misleading-indentation"] + san.split() + [
            f"-I{REPO}/src/liblzma/api", f"-I{VERIF}/harness", f"-I{VERIF}/sched", f"-DVARIANT_{variant.upper()}=1"] + ["-fno-sanitize-coverage=trace-cmp"] + list(extra_flags) + srcs
        if fuzzer:
            cmd.append(os.path.join(VERIF, "harness", "vmut.cc"))
        cmd += [lib, "-lpthread", "-o", out + ".tmp"]
        log = os.path.join(BUILD, f"build-bin-{os.path.basename(out)}.log")
        if os.path.exists(log):
            os.unlink(log)
        if _run(cmd, log) != 0:
            raise BuildError(f"compiling {name} failed; see {log}\n" + open(log, errors="replace").read()[-3000:])
        os.replace(out + ".tmp", out)
    return out


def build_shim(name):
    """LD_PRELOAD shims for the CLI checks."""
    src = os.path.join(VERIF, "shim", name + ".c")
    out = os.path.join(BUILD, "bin", name + ".so")
    os.makedirs(os.path.dirname(out), exist_ok=True)
    with _Lock("shim-" + name):
        if os.path.exists(out) and os.stat(out).st_mtime >= os.stat(src).st_mtime:
            return out
        log = os.path.join(BUILD, f"build-shim-{name}.log")
        if _run(["gcc", "-O1", "-g", "-shared", "-fPIC", "-o", out, src, "-ldl"], log) != 0:
            raise BuildError(f"shim {name} failed; see {log}")
    return out
