"""Orchestrator core: tiers, known findings, evidence, exit codes."""
import json
import os
import sys
import time
import traceback

from . import build, fuzz

VERIF = build.VERIF
KNOWN_PATH = os.path.join(VERIF, "known_findings.json")


def load_known(prop):
    """-> (finding_entries, fixed_entries) for this property.  Read-only at run time."""
    try:
        with open(KNOWN_PATH) as f:
            entries = json.load(f)
    except FileNotFoundError:
        entries = []
    mine = [e for e in entries if e.get("property") == prop]
    return [e for e in mine if e.get("status") == "finding"], [e for e in mine if e.get("status") == "fixed"]


# keys of coverage that EVIDENCE.schema.json reserves with a fixed type (a file that does not validate counts as no evidence)
_RESERVED = {"evaluations": int, "distinct_nontrivial": int, "rule": str, "samples": list, "states": int, "transitions": int, "traces_validated_against_impl": int,
             "obligations": int, "discharged": int, "checker_cmd": str, "trusted_base": list, "programs": int, "disagreements_checked": int, "explanation": str, "exhaustive": bool}


def check_evidence_shape(ev):
    """Own guard against schema drift: reserved coverage keys must have the schema's type; full validation with jsonschema when available."""
    cov = ev.get("coverage", {})
    for k, t in _RESERVED.items():
        if k in cov and (not isinstance(cov[k], t) or (t is int and isinstance(cov[k], bool))):
            raise RuntimeError(f"evidence: coverage.{k} must be {t.__name__}, got {type(cov[k]).__name__}")
    for k in ("evaluations", "distinct_nontrivial", "rule", "samples"):
        if k not in cov:
            raise RuntimeError(f"evidence: coverage.{k} missing")
    if not cov["samples"]:
        raise RuntimeError("evidence: coverage.samples is empty")
    try:
        import jsonschema
        with open("/root/.vp/EVIDENCE.schema.json") as f:
            jsonschema.validate(ev, json.load(f))
    except ImportError:
        pass
    except OSError:
        pass


def validate_with_schema(path):
    """Full validation against /root/.vp/EVIDENCE.schema.json with the tooling interpreter (the system python has no jsonschema)."""
    import shutil
    import subprocess
    vt = shutil.which("python3-vt")
    if not vt or not os.path.exists("/root/.vp/EVIDENCE.schema.json"):
        return
    code = "import json,sys,jsonschema; jsonschema.validate(json.load(open(sys.argv[1])), json.load(open('/root/.vp/EVIDENCE.schema.json')))"
    p = subprocess.run([vt, "-c", code, path], stdout=subprocess.PIPE, stderr=subprocess.STDOUT, text=True)
    if p.returncode != 0:
        raise RuntimeError("evidence file does not validate against EVIDENCE.schema.json: " + p.stdout[-600:])


def write_evidence(prop, tier, seed, level, coverage, assumptions, wall_s, violations):
    evdir = os.path.join(VERIF, "evidence") if build.REPO == "/repo" else os.path.join(build.BUILD, "evidence-" + os.path.basename(build.lib_dir("x")))  # sensitivity runs on scratch copies never touch the committed evidence
    os.makedirs(evdir, exist_ok=True)
    ev = {
        "property_id": prop, "tier": tier, "seed": seed, "level": level,
        "coverage": coverage, "assumptions": assumptions, "wall_s": round(wall_s, 2), "violations": violations,
    }
    check_evidence_shape(ev)
    path = os.path.join(evdir, f"{prop}.json")
    tmp = path + ".tmp"
    with open(tmp, "w") as f:
        json.dump(ev, f, indent=1, sort_keys=True)
        f.write("\n")
    os.replace(tmp, path)
    validate_with_schema(path)
    return path


def parse_samples(samples):
    out = []
    for s in samples:
        if isinstance(s, str):
            try:
                out.append(json.loads(s))
            except Exception:
                out.append(s)
        else:
            out.append(s)
    return out


def run_fuzz_property(prop, spec, tier, seed):
    """Run all libFuzzer targets of a property. -> (exit_code)"""
    t0 = time.time()
    findings_known, fixed = load_known(prop)
    known_sigs = [e["signature"] for e in findings_known]
    total = {"evals": 0, "nontrivial": 0, "classes": {}, "samples": [], "distinct": 0}
    per_target = {}
    all_findings, noise, harness_errors = [], [], []
    starved = []
    for t in spec["targets"]:
        if tier == "quick" and t.get("thorough_only"):
            continue
        try:
            binary = build.build_target(t["name"], t.get("variant", "asan"), src=t.get("src"), extra_flags=t.get("flags", ()), extra_src=t.get("extra_src", ()))
        except build.BuildError as e:
            print(f"BUILD-ERROR {prop}: {e}", file=sys.stderr)
            return None
        label = os.path.basename(binary)
        runs = t["quick_runs"] if tier == "quick" else t["thorough_runs"]
        workers = t.get("quick_workers", 4) if tier == "quick" else t.get("thorough_workers", 16)
        corpus_dirs = [os.path.join(VERIF, "corpus", prop)] + [os.path.join(VERIF, "corpus", prop, label)]
        env = dict(t.get("env", {}))
        res = fuzz.run_target(prop, binary, tier, seed, runs, workers, t.get("max_len", 256), known_sigs=known_sigs,
                              corpus_dirs=[d for d in corpus_dirs if os.path.isdir(d)], extra_env=env,
                              per_input_timeout=t.get("timeout", 60), label=label)
        st = res.stats
        per_target[label] = {"evaluations": st["evals"], "nontrivial": st["nontrivial"], "distinct_nontrivial": len(st["distinct"]), "replayed_corpus_files": res.replayed}
        total["evals"] += st["evals"] + res.replayed
        total["nontrivial"] += st["nontrivial"]
        total["distinct"] += len(st["distinct"])
        for k, v in st["classes"].items():
            total["classes"][f"{k}"] = total["classes"].get(k, 0) + v
        for s in st["samples"]:
            if len(total["samples"]) < 10:
                total["samples"].append(s)
        confirmed, flaky = fuzz.confirm_and_shrink(prop, binary, res.findings, known_sigs=known_sigs, extra_env=env)
        for c in confirmed:
            c["target"] = label
        all_findings += confirmed
        noise += res.noise + [{"kind": "flaky", "path": f["path"]} for f in flaky]
        harness_errors += res.harness_errors
        if st.get("unparsable_stats_files"):
            harness_errors.append(f"{st['unparsable_stats_files']} per-process stats file(s) of {label} were not valid JSON (a case description is malformed)")
        minimum = t.get("min_nontrivial_quick", 1) if tier == "quick" else t.get("min_nontrivial_thorough", t.get("min_nontrivial_quick", 1))
        if len(st["distinct"]) < minimum and not confirmed:
            starved.append(f"{label}: {len(st['distinct'])} distinct non-trivial cases < minimum {minimum}")
    # extra whole programs (thorough tier): e.g. the natural > 4 GiB round trip of C01
    import subprocess
    prog_results = []
    progs = [p for p in spec.get("programs", []) if tier == "thorough" or not p.get("thorough_only")]
    running = []
    for pr in progs:
        try:
            binary = build.build_target(pr["name"], pr.get("variant", "asan"), fuzzer=False)
        except build.BuildError as e:
            print(f"BUILD-ERROR {prop}: {e}", file=sys.stderr)
            return None
        args = pr.get("thorough_args" if tier == "thorough" and "thorough_args" in pr else "args", [])
        art = os.path.join(build.BUILD, "artifacts", prop)
        os.makedirs(art, exist_ok=True)
        args = [str(a).replace("{seed}", str(seed)).replace("{verif}", VERIF).replace("{art}", art) for a in args]
        pr = dict(pr, args=args)
        cmd = [binary] + args
        if pr.get("valgrind"):
            # uninitialised reads / invalid accesses as seen by memcheck on a sanitizer-free build; the first error ends the
            # process, which leaves minidrv's crash-current-<pid> file (the input being executed) behind as the reproducer
            cmd = ["valgrind", "-q", "--vgdb=no", "--error-exitcode=1", "--exit-on-first-error=yes", "--leak-check=no"] + cmd
        running.append((pr, binary, subprocess.Popen(cmd, cwd=VERIF, stdout=subprocess.PIPE, stderr=subprocess.STDOUT, env=fuzz.base_env(known_sigs))))
    for pr, binary, pp in running:
        out = pp.communicate()[0].decode(errors="replace")
        line = out.strip().splitlines()[-1] if out.strip() else ""
        try:
            info = json.loads(line)
        except Exception:
            info = {"raw": out[-400:]}
        prog_results.append({"program": pr["name"], "args": pr.get("args", []), "exit": pp.returncode, "result": info})
        total["evals"] += 1
        if pr.get("valgrind"):
            m = __import__("re").search(r"Done (\d+) runs", out)
            total["evals"] += int(m.group(1)) if m else 0
            info = {"valgrind_exit": pp.returncode, "tail": out[-600:] if pp.returncode else ""}
            prog_results[-1]["result"] = info
        if pp.returncode == 1:
            art = os.path.join(build.BUILD, "artifacts", prop)
            os.makedirs(art, exist_ok=True)
            cur = sorted(__import__("glob").glob(os.path.join(art, "vg-crash-current-*")))
            if pr.get("valgrind") and cur:
                path = os.path.join(art, f"{pr['name']}-vg__raw-valgrind")
                os.replace(cur[-1], path)
                with open(path + ".log", "w") as f:
                    f.write(out[-6000:])
            else:
                path = os.path.join(art, f"{pr['name']}__" + "_".join(os.path.basename(str(a)) for a in pr.get("args", []))[:80] + ".txt")
                with open(path, "w") as f:
                    f.write(" ".join([binary] + [str(a) for a in pr.get("args", [])]) + "\n" + out[-2000:])
            all_findings.append({"kind": "violation", "signature": (f"{prop}:valgrind-memcheck" if pr.get("valgrind") else f"{prop}:{pr['name']}"), "reason": (out[-700:] if pr.get("valgrind") else str(info)[:400]), "case": "", "path": path, "target": pr["name"], "reproduced": 1})
        elif pp.returncode != 0:
            harness_errors.append(f"program {pr['name']} exited {pp.returncode}: {out[-300:]}")
    wall = time.time() - t0
    excluded = {k: v for k, v in total["classes"].items() if k.startswith("excluded_known:")}
    coverage = {
        "evaluations": total["evals"], "distinct_nontrivial": total["distinct"], "nontrivial": total["nontrivial"],
        "rule": spec["rule"], "samples": parse_samples(total["samples"]), "classes": total["classes"],
        "per_target": per_target, "extra_programs": prog_results, "excluded_known_findings": excluded,
        "inconclusive": {"noise_artifacts": len(noise), "details": [n.get("kind") for n in noise][:20]},
    }
    if spec.get("exhaustive_note"):
        coverage["exhaustive"] = True
        coverage["exhaustive_what"] = spec["exhaustive_note"]
    violations = [f for f in all_findings if f["signature"] not in known_sigs]
    lines = []
    for e in findings_known:
        n = excluded.get("excluded_known:" + e["signature"], 0)
        lines.append(f"KNOWN-FINDING: property={prop} {e['what']} (signature {e['signature']}; met {n} times in this run and excluded)")
    for f in violations:
        lines.append(f"# violation signature={f['signature']} target={f.get('target')} reproduced={f.get('reproduced')}/3")
        lines.append(f"#   reason: {f['reason']}")
        if f.get("case"):
            lines.append(f"#   case: {f['case'][:1500]}")
        lines.append(f"VIOLATION property={prop} replay={f['path']}")
    broken = None
    if harness_errors:
        broken = f"harness error: {harness_errors[0][:600]}"
    elif starved:
        broken = f"starved: {'; '.join(starved)}"
    return {"coverage": coverage, "violations": len(violations), "lines": lines, "broken": broken, "wall": wall}


def finish(prop, spec, tier, seed, parts, t0):
    """Merge the results of one or more engines, write the evidence file, print, return the exit code."""
    cov = None
    nviol = 0
    lines, broken = [], None
    for r in parts:
        if r is None:
            return 2
        nviol += r["violations"]
        lines += r["lines"]
        broken = broken or r["broken"]
        c = r["coverage"]
        if cov is None:
            cov = c
        else:
            cov["evaluations"] += c["evaluations"]
            cov["distinct_nontrivial"] += c["distinct_nontrivial"]
            cov["samples"] = (cov["samples"][:6] + c["samples"][:6])
            for k, v in c.get("classes", {}).items():
                cov["classes"][k] = cov["classes"].get(k, 0) + v
            for k in ("per_target", "per_suite"):
                if k in c:
                    cov[k] = c[k]
            for k, v in c.get("excluded_known_findings", {}).items():
                cov.setdefault("excluded_known_findings", {})[k] = v
            for k, v in c.get("inconclusive", {}).items():
                cov.setdefault("inconclusive", {})[f"py_{k}"] = v
    seen = set()
    out = []
    for l in lines:  # a KNOWN-FINDING line is printed once even if two engines list it
        if l.startswith("KNOWN-FINDING") and l.split(" (signature")[0] in seen:
            continue
        seen.add(l.split(" (signature")[0])
        out.append(l)
    wall = time.time() - t0
    if not cov.get("samples"):
        # every worker stopped at its very first case (a change that breaks the coder outright): the reported lines are the sample
        cov["samples"] = [l for l in out if l.startswith("#") or l.startswith("VIOLATION")][:4] or ["no case ran to completion"]
    if nviol:
        # a case on which a violation was observed is an evaluated, non-trivial case by definition (the target trapped before it could
        # count itself): the distinct replay files enter the counts, so that a run cut short by a change that breaks every case at
        # once still describes what it did
        vcases = {l.split("replay=", 1)[1] for l in out if l.startswith("VIOLATION") and "replay=" in l}
        cov["violating_cases"] = len(vcases)
        cov["evaluations"] = max(cov["evaluations"], len(vcases))
        cov["distinct_nontrivial"] = max(cov["distinct_nontrivial"], len(vcases))
    try:
        write_evidence(prop, tier, seed, spec["level"], cov, spec.get("assumptions", []), wall, nviol)
    except RuntimeError as e:
        # never lose the verdict lines over the evidence file: print them, then report the evidence problem
        for l in out:
            print(l)
        if nviol:
            print(f"# note: evidence/{prop}.json holds the true counts of a run that stopped at violations almost at once; they are below the "
                  "minimum counts of EVIDENCE.schema.json")
            return 1
        print(f"CHECK-BROKEN {prop}: {e}")
        return 2
    for l in out:
        print(l)
    if nviol:
        return 1
    if broken:
        print(f"CHECK-BROKEN {prop}: {broken}", file=sys.stderr)
        return 2
    print(f"OK {prop} tier={tier} seed={seed} evaluations={cov['evaluations']} distinct_nontrivial={cov['distinct_nontrivial']} wall={wall:.1f}s")
    return 0


def replay_fuzz(prop, spec, path):
    findings_known, _ = load_known(prop)
    known_sigs = [e["signature"] for e in findings_known]
    rc_all = 0
    base = os.path.basename(path)
    for t in spec["targets"]:
        binary = build.build_target(t["name"], t.get("variant", "asan"), src=t.get("src"), extra_flags=t.get("flags", ()), extra_src=t.get("extra_src", ()))
        label = os.path.basename(binary)
        if "__" in base and not base.startswith(label + "__") and len(spec["targets"]) > 1:
            continue
        env = fuzz.base_env((), t.get("env"))  # no exclusions while replaying
        rc, (kind, sig, reason, case), text = fuzz.run_file(binary, path, env)
        sys.stdout.write(text[-4000:])
        if kind in ("violation", "sanitizer", "timeout"):   # timeout: the saved input of a hang finding (60 s limit)
            print(f"VIOLATION property={prop} replay={path}")
            rc_all = 1
    return rc_all
