/* vsched.c - controlled scheduler for liblzma's threaded coders.
 *
 * liblzma sources of the `sched` build variant are compiled with -include vsched_rename.h, so every
 * pthread_* / clock_gettime call that src/common/mythread.h makes lands here.  Threads are real pthreads,
 * but exactly one of them runs at any time: every thread has a private semaphore and the running thread
 * hands control over at *scheduling points* (before lock, after unlock, after signal, after create, and
 * whenever it blocks).  Which runnable thread continues is decided by the schedule bytes of the case
 * (then by a PRNG seeded from the case), so a schedule can be generated, replayed and shrunk.
 *
 * Mutexes and condition variables are modelled here (owner, waiters), so enabledness is known:
 *   - deadlock  = nobody runnable, no timed waiter, somebody not finished  -> reported
 *   - timed waits use a virtual clock: a timed waiter wakes by time-out when the schedule says so
 *     (rarely) and always when nobody else can run (time passes only when nobody can run, which keeps
 *     lost wake-ups visible);
 *   - cond_signal wakes one waiter chosen by the schedule; spurious wake-ups are injected rarely.
 * Misuse checks: unlock by non-owner, destroy of a locked mutex / of a condvar with waiters, use after destroy,
 * thread exit while holding a mutex, threads not joined at vsched_end().
 */
#ifndef _GNU_SOURCE
#define _GNU_SOURCE
#endif
#include <pthread.h>
#include <semaphore.h>
#include <errno.h>
#include <stdio.h>
#include <stdlib.h>
#include <string.h>
#include <time.h>
#include <stdint.h>
#include "vsched.h"

#define MAXT 64
#define MAGIC_M 0x564d5458u /* live mutex */
#define MAGIC_C 0x56434e44u /* live cond */
#define MAGIC_DEAD 0xdeadbeefu

typedef struct { uint32_t magic; int32_t owner; uint32_t id; } vmutex;   /* overlaid on pthread_mutex_t storage */
typedef struct { uint32_t magic; uint32_t id; } vcond;                     /* overlaid on pthread_cond_t storage */

enum { T_UNUSED = 0, T_RUNNABLE, T_BLOCK_MUTEX, T_BLOCK_COND, T_BLOCK_JOIN, T_FINISHED };

typedef struct {
	int state;
	sem_t sem;
	pthread_t real;
	void *(*fn)(void *); void *arg; void *ret;
	void *wait_obj;            /* mutex / cond / (thread index + 1) */
	vmutex *cond_mutex;        /* mutex to re-acquire after a cond wait */
	int timed; uint64_t deadline; int timed_out; int joined;
	int prio;                  /* PCT strategy */
	const char *where;
} vthread;

static vthread T[MAXT];
static int g_n;                 /* threads in table */
static int g_cur;               /* running thread */
static int g_active;
static __thread int t_self = -1;
static const uint8_t *g_sched; static size_t g_len, g_pos; static uint64_t g_rng; static int g_strategy;
static uint64_t g_vclock;
static uint32_t g_next_id;
static struct vsched_stats g_st;
static vsched_report_fn g_report;
static uint32_t g_pct_points[4]; static int g_pct_n;

static uint64_t rng64(void) { g_rng += 0x9E3779B97F4A7C15ull; uint64_t z = g_rng; z = (z ^ (z >> 30)) * 0xBF58476D1CE4E5B9ull; z = (z ^ (z >> 27)) * 0x94D049BB133111EBull; return z ^ (z >> 31); }
static unsigned next_byte(void) { if (g_pos < g_len) { ++g_st.bytes_used; return g_sched[g_pos++]; } return (unsigned)(rng64() & 0xff); }

static void describe(char *buf, size_t n) {
	size_t o = 0;
	for (int i = 0; i < g_n && o + 96 < n; ++i) {
		static const char *names[] = {"unused", "runnable", "blocked-mutex", "blocked-cond", "blocked-join", "finished"};
		o += (size_t)snprintf(buf + o, n - o, "[t%d %s%s at %s obj=%p] ", i, names[T[i].state], T[i].timed ? "(timed)" : "", T[i].where ? T[i].where : "-", T[i].wait_obj);
	}
}
static void report(const char *kind) {
	char d[4096]; describe(d, sizeof d);
	if (g_report) g_report(kind, d);
	fprintf(stderr, "VSCHED %s: %s\n", kind, d);
	abort();
}

void vsched_set_reporter(vsched_report_fn fn) { g_report = fn; }
int vsched_active(void) { return g_active; }

static void count_runnable(void) {
	uint32_t r = 0, live = 0;
	for (int i = 1; i < g_n; ++i) { if (T[i].state == T_RUNNABLE) ++r; if (T[i].state != T_FINISHED && T[i].state != T_UNUSED) ++live; }
	if (r > g_st.max_runnable_workers) g_st.max_runnable_workers = r;
	if (live > g_st.max_live_workers) g_st.max_live_workers = live;
}

/* Pick the thread that runs next.  `self_ok`: the caller can continue itself. */
static int pick_next(int self, int self_ok) {
	for (;;) {
		int cand[MAXT], nc = 0;
		for (int i = 0; i < g_n; ++i) if (T[i].state == T_RUNNABLE && (i != self || self_ok)) cand[nc++] = i;
		count_runnable();
		if (nc > 0) {
			if (++g_st.decisions > 3000000) report("livelock: more than 3000000 scheduling decisions in one case");
			unsigned b = next_byte();
			/* rare events allowed by POSIX: spurious wake-up of a cond waiter, early expiry of a timed wait */
			if (b == 255) {
				int w[MAXT], nw = 0; for (int i = 0; i < g_n; ++i) if (T[i].state == T_BLOCK_COND) w[nw++] = i;
				if (nw) { int k = w[next_byte() % nw]; T[k].state = T_RUNNABLE; T[k].timed_out = 0; ++g_st.spurious; continue; }
			} else if (b == 254) {
				int best = -1; for (int i = 0; i < g_n; ++i) if (T[i].state == T_BLOCK_COND && T[i].timed && (best < 0 || T[i].deadline < T[best].deadline)) best = i;
				if (best >= 0) { if (g_vclock < T[best].deadline) g_vclock = T[best].deadline; T[best].state = T_RUNNABLE; T[best].timed_out = 1; ++g_st.timeouts_forced; continue; }
			}
			int choice;
			int self_is_cand = self_ok && T[self].state == T_RUNNABLE;
			switch (g_strategy) {
			case 1: choice = cand[b % nc]; break;                                   /* switch eagerly */
			case 2: { /* PCT-like: highest priority runnable thread; priorities change at chosen decision points */
				for (int k = 0; k < g_pct_n; ++k) if (g_st.decisions == g_pct_points[k] && self >= 0) T[self].prio = -(int)(k + 1);
				choice = cand[0]; for (int k = 1; k < nc; ++k) if (T[cand[k]].prio > T[choice].prio) choice = cand[k];
				break; }
			case 3: choice = self_is_cand ? self : cand[b % nc]; break;              /* run until blocked */
			default: choice = (self_is_cand && b < 170) ? self : cand[b % nc]; break; /* mostly stay */
			}
			g_st.path_hash = (g_st.path_hash ^ (uint64_t)(choice + 1)) * 0x100000001b3ull;
			return choice;
		}
		/* nobody can run: let virtual time pass to the earliest timed waiter */
		int best = -1;
		for (int i = 0; i < g_n; ++i) if (T[i].state == T_BLOCK_COND && T[i].timed && (best < 0 || T[i].deadline < T[best].deadline)) best = i;
		if (best >= 0) { if (g_vclock < T[best].deadline) g_vclock = T[best].deadline; T[best].state = T_RUNNABLE; T[best].timed_out = 1; ++g_st.timeouts_idle; continue; }
		report("deadlock");
	}
}

/* Give the processor to `next` and sleep until somebody schedules us again. */
static void switch_to(int self, int next) {
	if (next == self) return;
	++g_st.switches;
	g_cur = next;
	sem_post(&T[next].sem);
	while (sem_wait(&T[self].sem) != 0 && errno == EINTR) {}
}
static int g_trace = -1;
static void sched_point(const char *where) {
	int self = t_self; T[self].where = where;
	if (g_trace < 0) g_trace = getenv("VSCHED_TRACE") != NULL;
	if (g_trace) fprintf(stderr, "[vs] t%d %s (decision %llu)\n", self, where, (unsigned long long)g_st.decisions);
	switch_to(self, pick_next(self, 1));
}
static void block_and_switch(int self) { switch_to(self, pick_next(self, 0)); }

static void wake_mutex_waiters(vmutex *m) { for (int i = 0; i < g_n; ++i) if (T[i].state == T_BLOCK_MUTEX && T[i].wait_obj == m) T[i].state = T_RUNNABLE; }

static void acquire(vmutex *m, const char *where) {
	int self = t_self;
	while (m->owner != -1) {
		if (m->owner == self) report("relock of a mutex by its owner (self-deadlock)");
		T[self].state = T_BLOCK_MUTEX; T[self].wait_obj = m; T[self].where = where;
		block_and_switch(self);
	}
	T[self].state = T_RUNNABLE; T[self].wait_obj = NULL;
	m->owner = self;
}

/* ------------------------------------------------------------------ harness interface */
void vsched_begin(const uint8_t *sched, size_t len, uint64_t seed, int strategy) {
	if (g_active) report("vsched_begin while active");
	memset(T, 0, sizeof T); memset(&g_st, 0, sizeof g_st);
	g_n = 1; g_cur = 0; t_self = 0; T[0].state = T_RUNNABLE; T[0].real = pthread_self(); sem_init(&T[0].sem, 0, 0); T[0].prio = 1000;
	g_sched = sched; g_len = len; g_pos = 0; g_rng = seed * 2654435761u + 12345; g_strategy = strategy; g_vclock = 1000000000ull; g_next_id = 1;
	g_st.path_hash = 0xcbf29ce484222325ull;
	g_pct_n = 3; for (int k = 0; k < g_pct_n; ++k) g_pct_points[k] = 1 + (uint32_t)(rng64() % 400);
	g_active = 1;
}
int vsched_end(void) {
	int bad = 0;
	if (!g_active) return 0;
	for (int i = 1; i < g_n; ++i) if (T[i].state != T_FINISHED || !T[i].joined) bad = 1;
	if (bad) report("threads still alive or not joined at the end of the case");
	for (int i = 0; i < g_n; ++i) sem_destroy(&T[i].sem);
	g_st.vclock_ns = g_vclock;
	g_active = 0; t_self = -1;
	return bad;
}
void vsched_get_stats(struct vsched_stats *st) { *st = g_st; st->vclock_ns = g_vclock; }
int vsched_others_runnable(void) { int r = 0; for (int i = 0; i < g_n; ++i) if (i != t_self && T[i].state == T_RUNNABLE) ++r; return r; }
int vsched_live_workers(void) { int r = 0; for (int i = 1; i < g_n; ++i) if (T[i].state != T_FINISHED && T[i].state != T_UNUSED) ++r; return r; }

/* ------------------------------------------------------------------ intercepted calls */
extern "C" {
int vsched_pthread_create(pthread_t *t, const pthread_attr_t *a, void *(*fn)(void *), void *arg);
int vsched_pthread_join(pthread_t t, void **ret);
int vsched_mutex_init(pthread_mutex_t *m, const pthread_mutexattr_t *a);
int vsched_mutex_destroy(pthread_mutex_t *m);
int vsched_mutex_lock(pthread_mutex_t *m);
int vsched_mutex_unlock(pthread_mutex_t *m);
int vsched_cond_init(pthread_cond_t *c, const pthread_condattr_t *a);
int vsched_cond_destroy(pthread_cond_t *c);
int vsched_cond_signal(pthread_cond_t *c);
int vsched_cond_wait(pthread_cond_t *c, pthread_mutex_t *m);
int vsched_cond_timedwait(pthread_cond_t *c, pthread_mutex_t *m, const struct timespec *abstime);
int vsched_clock_gettime(clockid_t clk, struct timespec *ts);
}
static void *trampoline(void *p) {
	int self = (int)(intptr_t)p;
	t_self = self;
	while (sem_wait(&T[self].sem) != 0 && errno == EINTR) {}
	T[self].where = "thread body";
	void *r = T[self].fn(T[self].arg);
	/* exit: must not hold a mutex (cannot know all, but check waiters' owners lazily), wake joiners, hand over */
	T[self].ret = r; T[self].state = T_FINISHED; T[self].where = "finished";
	for (int i = 0; i < g_n; ++i) if (T[i].state == T_BLOCK_JOIN && T[i].wait_obj == (void *)(intptr_t)(self + 1)) T[i].state = T_RUNNABLE;
	int next = pick_next(self, 0);
	g_cur = next; ++g_st.switches;
	sem_post(&T[next].sem);
	return r;
}

int vsched_pthread_create(pthread_t *t, const pthread_attr_t *a, void *(*fn)(void *), void *arg) {
	if (!g_active) return pthread_create(t, a, fn, arg);
	if (g_n >= MAXT) return EAGAIN;
	int id = g_n;
	T[id].state = T_RUNNABLE; T[id].fn = fn; T[id].arg = arg; T[id].prio = 500 - id; T[id].where = "created"; T[id].joined = 0;
	sem_init(&T[id].sem, 0, 0);
	int r = pthread_create(&T[id].real, a, trampoline, (void *)(intptr_t)id);
	if (r != 0) { T[id].state = T_UNUSED; sem_destroy(&T[id].sem); return r; }
	++g_n; ++g_st.threads_created;
	*t = T[id].real;
	sched_point("after pthread_create");
	return 0;
}
int vsched_pthread_join(pthread_t t, void **ret) {
	if (!g_active) return pthread_join(t, ret);
	int self = t_self, id = -1;
	for (int i = 1; i < g_n; ++i) if (T[i].state != T_UNUSED && !T[i].joined && pthread_equal(T[i].real, t)) { id = i; break; }
	if (id < 0) report("join of an unknown or already joined thread");
	while (T[id].state != T_FINISHED) { T[self].state = T_BLOCK_JOIN; T[self].wait_obj = (void *)(intptr_t)(id + 1); T[self].where = "pthread_join"; block_and_switch(self); }
	T[self].state = T_RUNNABLE; T[self].wait_obj = NULL;
	T[id].joined = 1;
	int r = pthread_join(t, NULL); /* the real thread has posted its successor and is returning */
	if (ret) *ret = T[id].ret;
	return r;
}
int vsched_mutex_init(pthread_mutex_t *pm, const pthread_mutexattr_t *a) {
	if (!g_active) return pthread_mutex_init(pm, a);
	vmutex *m = (vmutex *)pm; m->magic = MAGIC_M; m->owner = -1; m->id = g_next_id++; return 0;
}
int vsched_mutex_destroy(pthread_mutex_t *pm) {
	if (!g_active) return pthread_mutex_destroy(pm);
	vmutex *m = (vmutex *)pm;
	if (m->magic != MAGIC_M) report("destroy of a mutex that is not live");
	if (m->owner != -1) report("destroy of a locked mutex");
	for (int i = 0; i < g_n; ++i) if ((T[i].state == T_BLOCK_MUTEX && T[i].wait_obj == m) || (T[i].state == T_BLOCK_COND && T[i].cond_mutex == m)) report("destroy of a mutex that a thread is waiting for");
	m->magic = MAGIC_DEAD; return 0;
}
int vsched_mutex_lock(pthread_mutex_t *pm) {
	if (!g_active) return pthread_mutex_lock(pm);
	vmutex *m = (vmutex *)pm;
	if (m->magic != MAGIC_M) report("lock of a mutex that is not live (never initialised or destroyed)");
	sched_point("before mutex_lock");
	acquire(m, "mutex_lock");
	return 0;
}
int vsched_mutex_unlock(pthread_mutex_t *pm) {
	if (!g_active) return pthread_mutex_unlock(pm);
	vmutex *m = (vmutex *)pm;
	if (m->magic != MAGIC_M) report("unlock of a mutex that is not live");
	if (m->owner != t_self) report("unlock of a mutex by a thread that does not own it");
	m->owner = -1; wake_mutex_waiters(m);
	sched_point("after mutex_unlock");
	return 0;
}
int vsched_cond_init(pthread_cond_t *pc, const pthread_condattr_t *a) {
	if (!g_active) return pthread_cond_init(pc, a);
	vcond *c = (vcond *)pc; c->magic = MAGIC_C; c->id = g_next_id++; return 0;
}
int vsched_cond_destroy(pthread_cond_t *pc) {
	if (!g_active) return pthread_cond_destroy(pc);
	vcond *c = (vcond *)pc;
	if (c->magic != MAGIC_C) report("destroy of a condition variable that is not live");
	for (int i = 0; i < g_n; ++i) if (T[i].state == T_BLOCK_COND && T[i].wait_obj == c) report("destroy of a condition variable with waiters");
	c->magic = MAGIC_DEAD; return 0;
}
int vsched_cond_signal(pthread_cond_t *pc) {
	if (!g_active) return pthread_cond_signal(pc);
	vcond *c = (vcond *)pc;
	if (c->magic != MAGIC_C) report("signal of a condition variable that is not live");
	int w[MAXT], nw = 0;
	for (int i = 0; i < g_n; ++i) if (T[i].state == T_BLOCK_COND && T[i].wait_obj == c) w[nw++] = i;
	if (nw) { int k = w[nw > 1 ? next_byte() % nw : 0]; T[k].state = T_RUNNABLE; T[k].timed_out = 0; }
	sched_point("after cond_signal");
	return 0;
}
static int cond_wait_common(vcond *c, vmutex *m, int timed, uint64_t deadline) {
	int self = t_self;
	if (c->magic != MAGIC_C) report("wait on a condition variable that is not live");
	if (m->magic != MAGIC_M || m->owner != self) report("cond wait with a mutex that the caller does not own");
	/* atomically: release the mutex and start waiting */
	m->owner = -1; wake_mutex_waiters(m);
	T[self].state = T_BLOCK_COND; T[self].wait_obj = c; T[self].cond_mutex = m; T[self].timed = timed; T[self].deadline = deadline; T[self].timed_out = 0;
	T[self].where = timed ? "cond_timedwait" : "cond_wait";
	if (timed && deadline <= g_vclock) { T[self].state = T_RUNNABLE; T[self].timed_out = 1; } /* already expired */
	block_and_switch(self);
	int to = T[self].timed_out;
	T[self].timed = 0; T[self].cond_mutex = NULL; T[self].wait_obj = NULL;
	acquire(m, "re-acquire after cond wait");
	return to ? ETIMEDOUT : 0;
}
int vsched_cond_wait(pthread_cond_t *pc, pthread_mutex_t *pm) {
	if (!g_active) return pthread_cond_wait(pc, pm);
	return cond_wait_common((vcond *)pc, (vmutex *)pm, 0, 0);
}
int vsched_cond_timedwait(pthread_cond_t *pc, pthread_mutex_t *pm, const struct timespec *abstime) {
	if (!g_active) return pthread_cond_timedwait(pc, pm, abstime);
	uint64_t d = (uint64_t)abstime->tv_sec * 1000000000ull + (uint64_t)abstime->tv_nsec;
	return cond_wait_common((vcond *)pc, (vmutex *)pm, 1, d);
}
int vsched_clock_gettime(clockid_t clk, struct timespec *ts) {
	if (!g_active) return clock_gettime(clk, ts);
	g_vclock += 1000; /* a microsecond per look at the clock: time is monotone and strictly increasing */
	ts->tv_sec = (time_t)(g_vclock / 1000000000ull); ts->tv_nsec = (long)(g_vclock % 1000000000ull);
	return 0;
}
