/* vsched_rename.h - force-included (-include) into every liblzma translation unit of the `sched`
 * build variant.  Redirects the pthread / clock calls that src/common/mythread.h makes to the
 * controlled scheduler in sched/vsched.c.  Guarded by TUKLIB_SYMBOL_PREFIX (defined only for
 * liblzma's own sources) so that CMake's feature probes still see the real functions. */
#ifdef TUKLIB_SYMBOL_PREFIX
#ifndef VSCHED_RENAME_H
#define VSCHED_RENAME_H
#include <pthread.h>
#include <time.h>
#include <signal.h>
int vsched_pthread_create(pthread_t *t, const pthread_attr_t *a, void *(*fn)(void *), void *arg);
int vsched_pthread_join(pthread_t t, void **ret);
int vsched_mutex_init(pthread_mutex_t *m, const pthread_mutexattr_t *a);
int vsched_mutex_destroy(pthread_mutex_t *m);
int vsched_mutex_lock(pthread_mutex_t *m);
int vsched_mutex_unlock(pthread_mutex_t *m);
int vsched_cond_init(pthread_cond_t *c, const pthread_condattr_t *a);
int vsched_cond_destroy(pthread_cond_t *c);
int vsched_cond_signal(pthread_cond_t *c);
int vsched_cond_wait(pthread_cond_t *c, pthread_mutex_t *m);
int vsched_cond_timedwait(pthread_cond_t *c, pthread_mutex_t *m, const struct timespec *abstime);
int vsched_clock_gettime(clockid_t clk, struct timespec *ts);
#define pthread_create vsched_pthread_create
#define pthread_join vsched_pthread_join
#define pthread_mutex_init vsched_mutex_init
#define pthread_mutex_destroy vsched_mutex_destroy
#define pthread_mutex_lock vsched_mutex_lock
#define pthread_mutex_unlock vsched_mutex_unlock
#define pthread_cond_init vsched_cond_init
#define pthread_cond_destroy vsched_cond_destroy
#define pthread_cond_signal vsched_cond_signal
#define pthread_cond_wait vsched_cond_wait
#define pthread_cond_timedwait vsched_cond_timedwait
#define clock_gettime vsched_clock_gettime
#endif
#endif
