/* vsched.h - controlled scheduler: harness-side interface. */
#ifndef VSCHED_H
#define VSCHED_H
#include <stddef.h>
#include <stdint.h>
#ifdef __cplusplus
extern "C" {
#endif

/* Start a controlled section on the calling thread (becomes thread 0).  Every scheduling decision is
 * taken from `sched[0..len)`; when the bytes run out a PRNG seeded with `seed` continues.
 * strategy: 0 = mostly-stay random walk, 1 = switch at every point, 2 = PCT-like priorities with `seed`-chosen
 * change points, 3 = run the current thread until it blocks. */
void vsched_begin(const uint8_t *sched, size_t len, uint64_t seed, int strategy);
/* End the section: all created threads must be finished and joined.  Returns 0 if clean. */
int vsched_end(void);
/* Called on deadlock / misuse.  The harness installs a handler that turns it into a violation (must not return). */
typedef void (*vsched_report_fn)(const char *kind, const char *details);
void vsched_set_reporter(vsched_report_fn fn);

/* Observability */
struct vsched_stats {
	uint64_t decisions, switches, bytes_used, spurious, timeouts_forced, timeouts_idle, threads_created;
	uint32_t max_runnable_workers;   /* max number of non-main threads simultaneously runnable */
	uint32_t max_live_workers;
	uint64_t path_hash;              /* hash of the decision sequence actually taken */
	uint64_t vclock_ns;
};
void vsched_get_stats(struct vsched_stats *st);
int vsched_others_runnable(void);     /* number of runnable threads other than the caller */
int vsched_live_workers(void);        /* created and not yet finished */
int vsched_active(void);

#ifdef __cplusplus
}
#endif
#endif
