"""C09 (command-line part) - xz run with a user-specified memory usage limit either stays within it (by lowering the number of
threads or the dictionary size when that is allowed) or fails with an error.

scenario = mode (compress / decompress / test) x -T {1, 2, 4, 0} x preset or --lzma2=preset=P,dict=N x which limit option
           (--memlimit-compress / --memlimit-decompress / --memlimit-mt-decompress / -M) x limit chosen around the need that
           `xz -vv` itself announces for the unadjusted settings x --no-adjust on/off x a small input.
Every measured run happens under shim/memcount.so (LD_PRELOAD heap accounting, peak written at exit).

Oracle
  compress: need_MiB = the "N MiB of memory is required" line of an unlimited `xz -vv` run with the same settings (xz rounds up to
  MiB, so need <= need_MiB MiB and need > (need_MiB - 1) MiB); decompress/test: need = the exact memory usage `xz --robot --list -vv`
  reports for the file.
  * exit status 0  => peak heap <= limit + B (B = 1 MiB fixed: process baseline, stdio and I/O buffers; measured slack is reported in
    the classes), the output decodes to the input (compress) / equals the input (decompress);
    with --no-adjust the dictionary size in the first Block Header is the one an unlimited run writes (never shrunk);
    with a limit >= need_MiB MiB nothing is adjusted at all.
  * exit status 1  => the limit really was below the announced need and stderr says so ("emory usage limit");
    with --no-adjust, a limit below the single-threaded need, and -T1, the run must fail.
  * any other exit status is a violation; --memlimit-mt-decompress alone never makes xz fail.
Not asserted: how many threads xz ends up with, the exact adjusted dictionary size (only: <= requested and the run fits), memory the
kernel maps for thread stacks (not heap), behaviour with the default (RAM derived) limits.
"""
import hashlib
import os
import re

from hypothesis import strategies as st

from . import base

MIB = 1 << 20
B_ALLOW = 1 * MIB
SHIM = os.path.join(base.SHIM_DIR, "memcount.so")
PRESET_DICT = {0: 256 << 10, 1: 1 << 20, 2: 2 << 20, 3: 4 << 20, 4: 4 << 20, 5: 8 << 20, 6: 8 << 20, 7: 16 << 20, 8: 32 << 20, 9: 64 << 20}

_vclasses = {}


def fail(sig, reason):
    cls = _vclasses.get(sig)
    if cls is None:
        cls = _vclasses[sig] = type("Violation_" + "".join(c if c.isalnum() else "_" for c in sig), (base.Violation,), {})
    raise cls(sig, reason)


class Inconclusive(Exception):
    pass


def plain(inp):
    kind, n, seed = inp["kind"], inp["len"], inp["seed"]
    if kind == "z":
        return bytes(n)
    if kind == "d":
        unit = bytes(((j * 7 + seed) % 251) + 1 for j in range(199))
        return (unit * (n // 199 + 1))[:n]
    return hashlib.shake_128(b"c09-%d" % seed).digest(n)


def config_args(cfg):
    if "dict_kib" in cfg:
        a = ["--lzma2=preset=%d,dict=%dKiB" % (cfg["preset"], cfg["dict_kib"])]
    else:
        a = ["-%d%s" % (cfg["preset"], "e" if cfg.get("extreme") else "")]
    if cfg.get("filters1_dict_mib"):
        # a second filter chain with a bigger dictionary, used from the second Block on: the limit applies to every chain
        a += ["--filters1=lzma2:dict=%dMiB" % cfg["filters1_dict_mib"], "--block-list=32KiB,1:0"]
    return a


def thread_args(scn):
    a = ["-T%d" % scn["threads"]]
    if scn.get("block_kib"):
        a.append("--block-size=%dKiB" % scn["block_kib"])
    return a


def run_xz(args, stdin, d, measured):
    env = base.clean_env()
    out_path = os.path.join(d, "memcount.txt")
    if measured:
        if os.path.exists(out_path):
            os.unlink(out_path)
        env["LD_PRELOAD"] = SHIM
        env["MEMCOUNT_OUT"] = out_path
    rc, out, err = base.run_cmd([base.tool("xz")] + args, stdin=stdin, env=env, cwd=d, timeout=300)
    if rc is None:
        raise Inconclusive("timeout")
    peak = None
    if measured:
        try:
            with open(out_path) as f:
                m = re.search(r"peak=(\d+)", f.read())
            peak = int(m.group(1)) if m else None
        except OSError:
            peak = None
    return rc, out, err.decode(errors="replace"), peak


def first_block_dict_byte(xz):
    """LZMA2 dictionary-size byte of the first Block Header of a .xz file, None if there is no Block."""
    if len(xz) < 14 or xz[12] == 0:
        return None
    hs = (xz[12] + 1) * 4
    h = xz[12:12 + hs]
    p = 2
    flags = h[1]

    def skipvli(p):
        while p < len(h) and h[p] & 0x80:
            p += 1
        return p + 1
    if flags & 0x40:
        p = skipvli(p)
    if flags & 0x80:
        p = skipvli(p)
    for _ in range((flags & 3) + 1):
        fid, sz = h[p], h[p + 1]
        p += 2
        if fid == 0x21:
            return h[p]
        p += sz
    return None


def dict_of(b):
    return 0xFFFFFFFF if b >= 40 else (2 | (b & 1)) << (b // 2 + 11)


NEED_RE = re.compile(r"([\d,]+) MiB of memory is required")
DNEED_RE = re.compile(r"Decompression will need ([\d,]+) MiB of memory")
ADJ_RE = re.compile(r"Adjusted LZMA\d dictionary size|Reduced the number of threads|Switching to single-threaded mode")


def mib(s):
    return int(s.replace(",", ""))


def limit_value(sel, need, step=MIB):
    """need in bytes; step = granularity of the knowledge about it (MiB for what xz -vv prints, 1 for exact values)"""
    v = {"need": need, "need-1MiB": need - step, "need/2": need // 2, "need*3/4": need * 3 // 4, "need*2": need * 2, "need+1MiB": need + MIB,
         "tiny": 700 << 10, "quarter": need // 4, "huge": 1 << 44}[sel]
    return max(1, v)


def limit_args(opt, L):
    return ["-M", str(L)] if opt == "-M" else ["%s=%d" % (opt, L)]


def oracle_compress(scn, S, d):
    data = plain(scn["input"])
    cfg, targs = config_args(scn["config"]), thread_args(scn)
    # what xz itself announces for the unadjusted settings (run on one byte: the requirement does not depend on the input)
    rc, out0, err0, _ = run_xz(["-vv", "-z", "-c"] + targs + cfg, b"x", d, False)
    m = NEED_RE.search(err0)
    if rc != 0 or not m:
        raise Inconclusive("no requirement line from xz -vv")
    need_mib = mib(m.group(1))
    ref_byte = first_block_dict_byte(out0)
    # single-threaded requirement (what is left when every thread but one is dropped / single-threaded mode is used)
    rc1, _o1, err1, _ = run_xz(["-vv", "-z", "-c", "-T1"] + cfg, b"x", d, False)
    m1 = NEED_RE.search(err1)
    need1_mib = mib(m1.group(1)) if rc1 == 0 and m1 else need_mib
    L = limit_value(scn["limit_sel"], (need_mib if scn.get("around") != "single" else need1_mib) * MIB)
    opt = scn["limit_opt"]
    args = ["-z", "-c"] + targs + cfg + limit_args(opt, L) + (["--no-adjust"] if scn["no_adjust"] else [])
    rc, out, err, peak = run_xz(args, data, d, True)
    sufficient = L >= need_mib * MIB
    S.count("compress_T%d" % scn["threads"]); S.count("limit_" + scn["limit_sel"]); S.count("exit_%s" % rc)
    if scn["config"].get("filters1_dict_mib"):
        S.count("second_filter_chain_with_bigger_dictionary")
    if rc == 0:
        if peak is None:
            raise Inconclusive("no peak from the shim")
        slack = peak - L
        S.count("slack_le0" if slack <= 0 else "slack_le256K" if slack <= (256 << 10) else "slack_le1M" if slack <= MIB else "slack_gt1M")
        if peak > L + B_ALLOW:
            fail("C09:cli-compress-peak-above-limit", "xz %s exited 0 with peak heap %d > limit %d + %d (xz announced %d MiB for the unadjusted settings); stderr: %s" % (" ".join(args), peak, L, B_ALLOW, need_mib, err.strip()[-300:]))
        rcd, back, errd, _ = run_xz(["-dc"], out, d, False)
        if rcd != 0 or back != data:
            fail("C09:cli-output-not-decodable", "output of xz %s does not decode to the input (xz -dc: %s, %d bytes vs %d)" % (" ".join(args), rcd, len(back), len(data)))
        b = first_block_dict_byte(out)
        adjusted = bool(ADJ_RE.search(err))
        if adjusted:
            S.count("adjusted")
        if b is not None and ref_byte is not None:
            if scn["no_adjust"] and b != ref_byte:
                fail("C09:cli-no-adjust-changed-dictionary", "xz %s: dictionary byte in the Block Header is %d, unlimited run writes %d (--no-adjust must never shrink it)" % (" ".join(args), b, ref_byte))
            if dict_of(b) > dict_of(ref_byte):
                fail("C09:cli-dictionary-grew", "xz %s: dictionary %d > requested %d" % (" ".join(args), dict_of(b), dict_of(ref_byte)))
            if sufficient and b != ref_byte:
                fail("C09:cli-adjusted-although-sufficient", "xz %s: limit %d >= announced need %d MiB but the dictionary was changed (%d -> %d)" % (" ".join(args), L, need_mib, dict_of(ref_byte), dict_of(b)))
            if b != ref_byte:
                S.count("dictionary_lowered")
        if sufficient and adjusted:
            fail("C09:cli-adjusted-although-sufficient", "xz %s: limit %d >= announced need %d MiB but xz adjusted: %s" % (" ".join(args), L, need_mib, err.strip()[-200:]))
    elif rc == 1:
        if "emory usage limit" not in err:
            fail("C09:cli-failure-without-memlimit-message", "xz %s exited 1 without a memory-limit message: %s" % (" ".join(args), err.strip()[-300:]))
        if sufficient:
            fail("C09:cli-failed-although-limit-sufficient", "xz %s exited 1 although the limit %d >= announced need %d MiB: %s" % (" ".join(args), L, need_mib, err.strip()[-300:]))
        S.count("failed_with_memlimit_error")
    else:
        fail("C09:cli-unexpected-exit-status", "xz %s exited %s: %s" % (" ".join(args), rc, err.strip()[-300:]))
    if scn["no_adjust"] and scn["threads"] == 1 and L < (need1_mib - 1) * MIB and rc == 0:
        fail("C09:cli-no-adjust-did-not-fail", "xz %s: limit %d is below the announced single-threaded need (%d MiB) and --no-adjust forbids shrinking, yet exit 0" % (" ".join(args), L, need1_mib))
    if need_mib * MIB // 4 <= L <= need_mib * MIB * 2 or (rc == 0 and ADJ_RE.search(err)):
        S.nontrivial(["compress", scn["threads"], scn["config"], scn["limit_sel"], scn["limit_opt"], scn["no_adjust"], scn.get("around")], sample=scn)


def oracle_decompress(scn, S, d):
    data = plain(scn["input"])
    cfg = config_args(scn["config"])
    enc_threads = ["-T2", "--block-size=%dKiB" % scn["block_kib"]] if scn.get("block_kib") else ["-T1"]
    rc, xzfile, err0, _ = run_xz(["-vv", "-z", "-c"] + enc_threads + cfg, data, d, False)
    if rc != 0:
        raise Inconclusive("could not create the input file")
    path = os.path.join(d, "f.xz")
    with open(path, "wb") as f:
        f.write(xzfile)
    # the exact single-threaded requirement of this file as xz --list reports it (bytes; the "Decompression will need" line of the
    # compressing run is about the requested, not the stored (rounded up) dictionary size)
    rcl, outl, _el, _ = run_xz(["--robot", "--list", "-vv", "f.xz"], None, d, False)
    ml = re.search(r"^summary\t(\d+)\t", outl.decode(errors="replace"), re.M)
    if rcl != 0 or not ml:
        raise Inconclusive("no memory usage in xz --robot --list -vv")
    need = int(ml.group(1))
    has_blocks = first_block_dict_byte(xzfile) is not None
    L = limit_value(scn["limit_sel"], need, 1)
    opt = scn["limit_opt"]
    mode = ["-t"] if scn["mode"] == "test" else ["-dc"]
    args = mode + ["-T%d" % scn["threads"]] + limit_args(opt, L) + (["--no-adjust"] if scn["no_adjust"] else []) + ["f.xz"]
    rc, out, err, peak = run_xz(args, None, d, True)
    soft_only = opt == "--memlimit-mt-decompress"
    sufficient = L >= need
    S.count("%s_T%d" % (scn["mode"], scn["threads"])); S.count("limit_" + scn["limit_sel"]); S.count("exit_%s" % rc); S.count("opt_" + opt)
    if rc == 0:
        if peak is None:
            raise Inconclusive("no peak from the shim")
        if scn["mode"] != "test" and out != data:
            fail("C09:cli-decompress-output", "xz %s exited 0 but the output differs from the input (%d vs %d bytes)" % (" ".join(args), len(out), len(data)))
        if (not soft_only) or sufficient:
            slack = peak - L
            S.count("slack_le0" if slack <= 0 else "slack_le256K" if slack <= (256 << 10) else "slack_le1M" if slack <= MIB else "slack_gt1M")
            if peak > L + B_ALLOW:
                fail("C09:cli-decompress-peak-above-limit", "xz %s exited 0 with peak heap %d > limit %d + %d (file needs %d bytes single-threaded); stderr: %s" % (" ".join(args), peak, L, B_ALLOW, need, err.strip()[-300:]))
        if not soft_only and has_blocks and L < need:
            fail("C09:cli-decompress-limit-not-enforced", "xz %s exited 0 although the limit %d is below what xz --list says the file needs (%d bytes)" % (" ".join(args), L, need))
    elif rc == 1:
        if soft_only:
            fail("C09:cli-soft-limit-made-xz-fail", "xz %s exited 1: --memlimit-mt-decompress must only reduce threads: %s" % (" ".join(args), err.strip()[-300:]))
        if "emory usage limit" not in err:
            fail("C09:cli-failure-without-memlimit-message", "xz %s exited 1 without a memory-limit message: %s" % (" ".join(args), err.strip()[-300:]))
        if sufficient:
            fail("C09:cli-failed-although-limit-sufficient", "xz %s exited 1 although the limit %d >= the %d bytes the file needs: %s" % (" ".join(args), L, need, err.strip()[-300:]))
        if scn["mode"] != "test" and out and not data.startswith(out):
            fail("C09:cli-decompress-output", "xz %s: output before the failure is not a prefix of the input" % " ".join(args))
        S.count("failed_with_memlimit_error")
    else:
        fail("C09:cli-unexpected-exit-status", "xz %s exited %s: %s" % (" ".join(args), rc, err.strip()[-300:]))
    if need // 4 <= L <= need * 2 and has_blocks:
        S.nontrivial([scn["mode"], scn["threads"], scn["config"], scn["limit_sel"], opt, bool(scn.get("block_kib"))], sample=scn)


_many = {}


def many_blocks_xz(n):
    """A valid .xz Stream of n one-byte Blocks (Check None), built by hand: its Index costs about 16 bytes per Block in memory."""
    if n in _many:
        return _many[n]
    import struct
    import zlib

    def crc(b):
        return struct.pack("<I", zlib.crc32(b))
    hdr_body = b"\x02\x00\x21\x01\x00\x00\x00\x00"            # header size 12, no optional fields, LZMA2 with a 4 KiB dictionary, padding
    block = hdr_body + crc(hdr_body) + b"\x01\x00\x00x\x00" + b"\x00" * 3     # uncompressed chunk "x", end marker, Block Padding
    unpadded, uncompressed = 12 + 5, 1
    rec = bytes([unpadded, uncompressed])

    def vli(v):
        out = bytearray()
        while v >= 0x80:
            out.append((v & 0x7F) | 0x80)
            v >>= 7
        out.append(v)
        return bytes(out)
    index = b"\x00" + vli(n) + rec * n
    index += b"\x00" * (-len(index) % 4)
    index += crc(index)
    flags = b"\x00\x00"
    head = b"\xfd7zXZ\x00" + flags + crc(flags)
    back = struct.pack("<I", len(index) // 4 - 1) + flags
    data = head + block * n + index + crc(back) + back + b"YZ"
    _many.clear()
    _many[n] = data
    return data


def oracle_list(scn, S, d):
    """xz --list under --memlimit-decompress / -M: the limit applies to the memory the Index takes."""
    n = scn["list_blocks"]
    path = os.path.join(d, "many.xz")
    with open(path, "wb") as f:
        f.write(many_blocks_xz(n))
    rc0, _o, err0, peak0 = run_xz(["--list", "many.xz"], None, d, True)
    if rc0 != 0 or peak0 is None:
        raise Inconclusive("xz --list of the many-Block file failed without a limit: %s" % err0[-200:])
    L = {"quarter": peak0 // 4, "half": peak0 // 2, "tiny": 64 << 10, "double": peak0 * 2, "huge": 1 << 44}[scn["list_limit"]]
    opt = scn["limit_opt"]
    args = ["--list"] + (["--robot"] if scn.get("robot") else []) + limit_args(opt, L) + ["many.xz"]
    rc, out, err, peak = run_xz(args, None, d, True)
    S.count("list_blocks_%d" % n); S.count("list_limit_" + scn["list_limit"]); S.count("exit_%s" % rc)
    if rc == 0:
        if peak is None:
            raise Inconclusive("no peak from the shim")
        if peak > L + B_ALLOW:
            fail("C09:cli-list-peak-above-limit", "xz %s exited 0 with peak heap %d > limit %d + %d (%d Blocks; unlimited run peaks at %d)" % (" ".join(args), peak, L, B_ALLOW, n, peak0))
    elif rc == 1:
        if "emory usage limit" not in err:
            fail("C09:cli-failure-without-memlimit-message", "xz %s exited 1 without a memory-limit message: %s" % (" ".join(args), err.strip()[-300:]))
        if L >= peak0:
            fail("C09:cli-failed-although-limit-sufficient", "xz %s exited 1 although the limit %d >= the %d bytes the unlimited run used at its peak: %s" % (" ".join(args), L, peak0, err.strip()[-300:]))
        S.count("failed_with_memlimit_error")
    else:
        fail("C09:cli-unexpected-exit-status", "xz %s exited %s: %s" % (" ".join(args), rc, err.strip()[-300:]))
    S.nontrivial(["list", n, scn["list_limit"], opt, bool(scn.get("robot"))], sample=scn)


def oracle(scn, S):
    d = S.fresh_dir()
    try:
        if scn["mode"] == "list":
            oracle_list(scn, S, d)
        elif scn["mode"] == "compress":
            oracle_compress(scn, S, d)
        else:
            oracle_decompress(scn, S, d)
    except Inconclusive as e:
        S.inconclusive_count(str(e))
    finally:
        S.rm_dir(d)


@st.composite
def scenarios(draw):
    mode = draw(st.sampled_from(["compress", "compress", "compress", "decompress", "decompress", "test", "compress", "decompress", "list"]))
    if mode == "list":
        return {"mode": "list", "list_blocks": draw(st.sampled_from([200000, 300000])), "list_limit": draw(st.sampled_from(["quarter", "half", "tiny", "double", "huge"])),
                "limit_opt": draw(st.sampled_from(["--memlimit-decompress", "-M", "--memory"])), "robot": draw(st.booleans())}
    threads = draw(st.sampled_from([1, 1, 2, 4, 0]))
    if draw(st.integers(0, 2)) == 0:
        cfg = {"preset": draw(st.sampled_from([0, 1, 2, 6])), "dict_kib": draw(st.sampled_from([64, 300, 1024, 1536, 4096, 5000, 12288, 16384, 24576, 40000]))}
    else:
        cfg = {"preset": draw(st.sampled_from([0, 0, 1, 1, 2, 3, 4, 5, 6, 6, 7, 9])), "extreme": draw(st.integers(0, 5)) == 0}
    inp = {"kind": draw(st.sampled_from(["r", "d", "z"])), "len": draw(st.sampled_from([0, 1, 1000, 70000, 300000])), "seed": draw(st.integers(0, 50))}
    if mode == "compress" and threads in (1, 2) and draw(st.integers(0, 4)) == 0:
        cfg = {"preset": draw(st.sampled_from([0, 1, 2])), "filters1_dict_mib": draw(st.sampled_from([8, 16, 32]))}
        inp["len"] = draw(st.sampled_from([70000, 300000]))
    scn = {"mode": mode, "threads": threads, "config": cfg, "input": inp, "no_adjust": draw(st.booleans()),
           "limit_sel": draw(st.sampled_from(["need", "need-1MiB", "need-1MiB", "need/2", "need*3/4", "need*3/4", "need*2", "need+1MiB", "tiny", "quarter", "huge"]))}
    if mode == "compress":
        scn["limit_opt"] = draw(st.sampled_from(["--memlimit-compress", "--memlimit-compress", "-M", "--memory"]))
        if threads != 1:
            scn["block_kib"] = draw(st.sampled_from([0, 64, 256]))
            scn["around"] = draw(st.sampled_from(["mt", "single", "single"]))
    else:
        scn["limit_opt"] = draw(st.sampled_from(["--memlimit-decompress", "--memlimit-decompress", "-M", "--memlimit-mt-decompress"]))
        scn["block_kib"] = draw(st.sampled_from([0, 64, 64]))
    return scn


if __name__ == "__main__":
    raise SystemExit(base.main("c09_cli", scenarios, oracle, budgets={"quick": 500, "thorough": 5000}))
