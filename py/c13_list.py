"""C13 (CLI part): `xz --list --robot [-v[-v]]` reports exactly the figures of the files it is given.

Scenario: 1-3 files, each the concatenation of 1-4 Streams made by the built xz (own check type, --block-size, thread count,
filter chain, empty inputs) with Stream Padding (multiples of 4) after each Stream.
Model: (a) by construction: number of Streams, plaintext length and check of every Stream, uncompressed size and check value of
every Block (block size given => Blocks are block_size long), padding; (b) by parsing the file in Python from doc/xz-file-format.txt
(Stream Footer -> Backward Size -> Index Records -> Stream Header; Block Header size/flags) for the compressed-side figures.
(a) and (b) must agree with each other (else the check itself is broken or the encoder broke C02, reported as C13:list-model).
Oracle: every documented column of the name/file/stream/block/summary/totals lines (xz.1 "ROBOT MODE") equals the model."""
import hashlib
import random
import struct
import zlib

from hypothesis import strategies as st

from . import base

NAME = "c13_list"
CHECK_IDS = {"none": 0, "crc32": 1, "crc64": 4, "sha256": 10}
CHECK_NAMES = {0: "None", 1: "CRC32", 4: "CRC64", 10: "SHA-256"}
CHECK_SIZE = [0, 4, 4, 4, 8, 8, 8, 16, 16, 16, 32, 32, 32, 64, 64, 64]
HEADER_MAGIC = b"\xfd7zXZ\x00"
FOOTER_MAGIC = b"YZ"

_CRC64_TAB = []
for _i in range(256):
    _c = _i
    for _ in range(8):
        _c = (_c >> 1) ^ 0xC96C5795D7870F42 if _c & 1 else _c >> 1
    _CRC64_TAB.append(_c)


def crc64(data):
    c = 0xFFFFFFFFFFFFFFFF
    for b in data:
        c = _CRC64_TAB[(c ^ b) & 0xFF] ^ (c >> 8)
    return c ^ 0xFFFFFFFFFFFFFFFF


def check_hex(check_id, data):
    """Value of the Check in hex: CRC32/CRC64 as numbers, SHA-256 as its bytes; '---' when there is no check."""
    if check_id == 0:
        return "---"
    if check_id == 1:
        return "%08x" % (zlib.crc32(data) & 0xFFFFFFFF)
    if check_id == 4:
        return "%016x" % crc64(data)
    if check_id == 10:
        return hashlib.sha256(data).hexdigest()
    raise ValueError(check_id)


def content(kind, length, seed):
    r = random.Random(seed)
    if kind == "zeros":
        return bytes(length)
    if kind == "random":
        return r.randbytes(length)
    words = [b"the ", b"quick ", b"brown ", b"fox\n", b"lzma ", b"xz ", b"0123456789 "]
    out = bytearray()
    while len(out) < length:
        out += r.choice(words)
    return bytes(out[:length])


# ------------------------------------------------------------------ .xz container parser (format spec, sections 1.2, 2, 3.1, 4)
class ParseError(Exception):
    pass


def vli(buf, pos):
    v = 0
    for i in range(9):
        if pos >= len(buf):
            raise ParseError("VLI runs past the buffer")
        b = buf[pos]
        pos += 1
        v |= (b & 0x7F) << (7 * i)
        if not b & 0x80:
            if b == 0 and i > 0:
                raise ParseError("VLI not minimal")
            return v, pos
    raise ParseError("VLI longer than 9 bytes")


def ceil4(n):
    return (n + 3) & ~3


def parse_xz(data):
    """-> list of streams (file order): dict(offset, size, padding, check, blocks=[dict(offset(in file), unpadded, uncompressed,
    header_size, has_c, has_u)])."""
    streams = []
    end = len(data)
    if end % 4:
        raise ParseError("file size not a multiple of 4")
    while end > 0:
        pad = 0
        while end - pad > 0 and data[end - pad - 1] == 0:
            pad += 1
        if pad % 4:
            raise ParseError("stream padding not a multiple of 4")
        fend = end - pad
        if fend < 24:
            raise ParseError("no room for a stream")
        foot = data[fend - 12:fend]
        if foot[10:12] != FOOTER_MAGIC:
            raise ParseError("footer magic")
        if struct.unpack("<I", foot[0:4])[0] != zlib.crc32(foot[4:10]) & 0xFFFFFFFF:
            raise ParseError("footer crc")
        bsize = (struct.unpack("<I", foot[4:8])[0] + 1) * 4
        if foot[8] != 0 or foot[9] & 0xF0:
            raise ParseError("footer flags")
        check = foot[9] & 0x0F
        istart = fend - 12 - bsize
        if istart < 12:
            raise ParseError("backward size")
        idx = data[istart:fend - 12]
        if struct.unpack("<I", idx[-4:])[0] != zlib.crc32(idx[:-4]) & 0xFFFFFFFF:
            raise ParseError("index crc")
        if idx[0] != 0:
            raise ParseError("index indicator")
        count, p = vli(idx, 1)
        recs = []
        for _ in range(count):
            unp, p = vli(idx, p)
            unc, p = vli(idx, p)
            if unp < 5:
                raise ParseError("unpadded size")
            recs.append((unp, unc))
        while p % 4:
            if idx[p] != 0:
                raise ParseError("index padding")
            p += 1
        if p + 4 != len(idx):
            raise ParseError("index size != backward size")
        blocks_size = sum(ceil4(u) for u, _ in recs)
        sstart = istart - blocks_size - 12
        if sstart < 0:
            raise ParseError("index describes more data than there is")
        head = data[sstart:sstart + 12]
        if head[0:6] != HEADER_MAGIC:
            raise ParseError("header magic")
        if struct.unpack("<I", head[8:12])[0] != zlib.crc32(head[6:8]) & 0xFFFFFFFF:
            raise ParseError("header crc")
        if head[6:8] != foot[8:10]:
            raise ParseError("header/footer flags differ")
        blocks = []
        off = sstart + 12
        for unp, unc in recs:
            hs = (data[off] + 1) * 4
            if data[off] == 0:
                raise ParseError("block header size byte is zero")
            hdr = data[off:off + hs]
            if struct.unpack("<I", hdr[-4:])[0] != zlib.crc32(hdr[:-4]) & 0xFFFFFFFF:
                raise ParseError("block header crc")
            flags = hdr[1]
            blocks.append(dict(offset=off, unpadded=unp, uncompressed=unc, header_size=hs, has_c=bool(flags & 0x40), has_u=bool(flags & 0x80)))
            off += ceil4(unp)
        streams.append(dict(offset=sstart, size=fend - sstart, padding=pad, check=check, blocks=blocks))
        end = sstart
    streams.reverse()
    return streams


# ------------------------------------------------------------------ scenarios
def _stream():
    length = st.one_of(st.just(0), st.integers(1, 64), st.integers(1, 5000), st.integers(1, 150000))
    return st.fixed_dictionaries({
        "len": length,
        "kind": st.sampled_from(["text", "zeros", "random"]),
        "seed": st.integers(0, 2 ** 16),
        "check": st.sampled_from(["none", "crc32", "crc64", "sha256"]),
        "block_size": st.one_of(st.just(0), st.sampled_from([4096, 5000, 16384, 65536]), st.integers(4096, 40000)),
        "threads": st.sampled_from([1, 1, 2, 3]),
        "chain": st.sampled_from(["-0", "-0", "-1", "--lzma2=preset=0,dict=64KiB", "--delta=dist=3 --lzma2=preset=0", "--x86 --lzma2=preset=0,dict=1MiB"]),
        "pad": st.sampled_from([0, 0, 0, 4, 8, 12, 16, 32, 64]),
    })


def scenarios():
    f = st.fixed_dictionaries({"streams": st.lists(_stream(), min_size=1, max_size=4)})
    return st.fixed_dictionaries({"files": st.lists(f, min_size=1, max_size=3), "verbose": st.sampled_from([2, 2, 2, 1, 0])})


def ratio(c, u):
    if u == 0:
        return "---"
    r = c / u
    return "---" if r > 9.999 else "%.3f" % r


def names_of(mask):
    return ",".join(CHECK_NAMES[i] for i in sorted(CHECK_NAMES) if mask & (1 << i)) or "None"


def expect(cond, sig, msg):
    if not cond:
        raise base.Violation(sig, msg)


def cols_eq(sig, what, got, want):
    """got/want: lists of column strings (want may contain None = not compared)."""
    if len(got) != len(want):
        raise base.Violation(sig, f"{what}: {len(got)} columns {got!r}, expected {len(want)}")
    for i, (g, w) in enumerate(zip(got, want)):
        if w is not None and g != str(w):
            raise base.Violation(sig, f"{what}: column {i + 2} is {g!r}, model says {str(w)!r}   (line: {got!r})")


def oracle(scn, S):
    d = S.fresh_dir()
    try:
        _oracle(scn, S, d)
    finally:
        S.rm_dir(d)


def _oracle(scn, S, d):
    import os
    xz = base.tool("xz")
    env = base.clean_env()
    models = []   # per file: dict(name, data, streams=[model stream])
    for fi, f in enumerate(scn["files"]):
        blob = bytearray()
        mstreams = []
        for si, s in enumerate(f["streams"]):
            plain = content(s["kind"], s["len"], s["seed"])
            src = os.path.join(d, f"in{fi}_{si}")
            with open(src, "wb") as fh:
                fh.write(plain)
            cmd = [xz, "-c", "-q", "-C", s["check"], f"-T{s['threads']}"] + s["chain"].split()
            if s["block_size"]:
                cmd.append(f"--block-size={s['block_size']}")
            rc, out, err = base.run_cmd(cmd + [src], env=env)
            if rc is None:
                S.inconclusive_count("timeout")
                return
            if rc != 0:
                raise RuntimeError(f"xz failed to compress: {cmd} rc={rc} {err[:300]!r}")
            bs = s["block_size"]
            if s["len"] == 0:
                usizes = []
            elif bs:
                usizes = [bs] * (s["len"] // bs) + ([s["len"] % bs] if s["len"] % bs else [])
            else:
                usizes = [s["len"]]
            mstreams.append(dict(plain=plain, check=CHECK_IDS[s["check"]], usizes=usizes, pad=s["pad"], csize=len(out)))
            blob += out + bytes(s["pad"])
        name = os.path.join(d, f"f{fi}.xz")
        with open(name, "wb") as fh:
            fh.write(blob)
        # parse the container ourselves and tie it to the construction
        try:
            parsed = parse_xz(bytes(blob))
        except ParseError as e:
            raise base.Violation("C13:list-model", f"file made by xz does not parse under the format specification: {e}")
        if len(parsed) != len(mstreams):
            raise base.Violation("C13:list-model", f"{len(parsed)} streams parsed, {len(mstreams)} made")
        upos = 0
        for ps, ms in zip(parsed, mstreams):
            ok = (ps["size"] == ms["csize"] and ps["padding"] == ms["pad"] and ps["check"] == ms["check"]
                  and [b["uncompressed"] for b in ps["blocks"]] == ms["usizes"])
            if not ok:
                raise base.Violation("C13:list-model", f"stream layout by construction {dict(csize=ms['csize'], pad=ms['pad'], check=ms['check'], usizes=ms['usizes'][:8])} "
                                     f"!= parsed {dict(size=ps['size'], padding=ps['padding'], check=ps['check'], usizes=[b['uncompressed'] for b in ps['blocks']][:8])}")
            ps["uoffset"] = upos
            ps["plain"] = ms["plain"]
            upos += len(ms["plain"])
        models.append(dict(name=name, size=len(blob), streams=parsed, usize=upos))

    v = scn["verbose"]
    cmd = [xz, "--list", "--robot"] + ["-v"] * v + [m["name"] for m in models]
    rc, out, err = base.run_cmd(cmd, env=env)
    if rc is None:
        S.inconclusive_count("timeout")
        return
    expect(rc == 0, "C13:list-format", f"xz --list exit status {rc}, stderr {err[:300]!r}")
    expect(err == b"", "C13:list-format", f"xz --list wrote to stderr: {err[:300]!r}")
    lines = [ln.split("\t") for ln in out.decode("utf-8", "surrogateescape").split("\n") if ln != ""]
    expect(out.endswith(b"\n"), "C13:list-format", "output does not end with a newline")
    pos = 0

    def take(kind):
        nonlocal pos
        expect(pos < len(lines), "C13:list-format", f"output ends where a '{kind}' line is expected")
        ln = lines[pos]
        expect(ln[0] == kind, "C13:list-format", f"line {pos + 1} is '{ln[0]}', expected '{kind}': {ln!r}")
        pos += 1
        return ln[1:]

    tot = dict(streams=0, blocks=0, csize=0, usize=0, checks=0, pad=0, files=0, mem=0, sizes=True)
    for m in models:
        cols_eq("C13:list-format", "name line", take("name"), [m["name"]])
        nblocks = sum(len(s["blocks"]) for s in m["streams"])
        mask = 0
        for s in m["streams"]:
            mask |= 1 << s["check"]
        pad = sum(s["padding"] for s in m["streams"])
        cols_eq("C13:list-file", f"file line of {m['name']}", take("file"),
                [len(m["streams"]), nblocks, m["size"], m["usize"], ratio(m["size"], m["usize"]), names_of(mask), pad])
        all_sizes = True
        memmax = 0
        if v >= 1:
            for k, s in enumerate(m["streams"]):
                us = len(s["plain"])
                cols_eq("C13:list-stream", f"stream line {k + 1}", take("stream"),
                        [k + 1, len(s["blocks"]), s["offset"], s["uoffset"], s["size"], us, ratio(s["size"], us), CHECK_NAMES[s["check"]], s["padding"]])
            nfile = 0
            for k, s in enumerate(m["streams"]):
                uo = s["uoffset"]
                for j, b in enumerate(s["blocks"]):
                    nfile += 1
                    total = ceil4(b["unpadded"])
                    want = [k + 1, j + 1, nfile, b["offset"], uo, total, b["uncompressed"], ratio(total, b["uncompressed"]), CHECK_NAMES[s["check"]]]
                    got = take("block")
                    if v >= 2:
                        piece = s["plain"][uo - s["uoffset"]:uo - s["uoffset"] + b["uncompressed"]]
                        flags = ("c" if b["has_c"] else "-") + ("u" if b["has_u"] else "-")
                        want += [check_hex(s["check"], piece), b["header_size"], flags, b["unpadded"] - b["header_size"] - CHECK_SIZE[s["check"]], None, None]
                        all_sizes = all_sizes and b["has_c"] and b["has_u"]
                    cols_eq("C13:list-block-offsets" if got[3:5] != [str(x) for x in want[3:5]] else "C13:list-block", f"block line {nfile}", got, want)
                    if v >= 2:
                        expect(got[13].isdigit() and int(got[13]) > 0, "C13:list-block", f"block line {nfile}: memory usage column {got[13]!r}")
                        expect(got[14].startswith("--") and "lzma2" in got[14], "C13:list-block", f"block line {nfile}: filter chain column {got[14]!r}")
                        memmax = max(memmax, int(got[13]))
                    uo += b["uncompressed"]
        if v >= 2:
            got = take("summary")
            # memory: at least what the Blocks need (a file without Blocks still reports a positive figure)
            cols_eq("C13:list-summary", "summary line", got, [None, "yes" if all_sizes else "no", "50000002"])
            expect(got[0].isdigit() and int(got[0]) >= memmax and (nblocks == 0 or int(got[0]) == memmax), "C13:list-summary", f"summary memory {got[0]!r}, maximum over block lines {memmax}")
            tot["mem"] = max(tot["mem"], int(got[0]))
            tot["sizes"] = tot["sizes"] and all_sizes
        tot["streams"] += len(m["streams"]); tot["blocks"] += nblocks; tot["csize"] += m["size"]; tot["usize"] += m["usize"]
        tot["checks"] |= mask; tot["pad"] += pad; tot["files"] += 1
    want = [tot["streams"], tot["blocks"], tot["csize"], tot["usize"], ratio(tot["csize"], tot["usize"]), names_of(tot["checks"]), tot["pad"], tot["files"]]
    if v >= 2:
        want += [tot["mem"], "yes" if tot["sizes"] else "no", "50000002"]
    cols_eq("C13:list-totals", "totals line", take("totals"), want)
    expect(pos == len(lines), "C13:list-format", f"{len(lines) - pos} unexpected lines after the totals line: {lines[pos:pos + 2]!r}")

    # the human-readable listing reports the same figures: the Blocks table of `xz -lvv` (first file), column by column
    if v >= 2 and models and sum(len(st_["blocks"]) for st_ in models[0]["streams"]) > 0:
        m = models[0]
        rc, out, err = base.run_cmd([xz, "--list", "-vv", m["name"]], env=env)
        if rc is None:
            S.inconclusive_count("timeout")
            return
        expect(rc == 0 and err == b"", "C13:list-format", f"xz --list -vv exit status {rc}, stderr {err[:300]!r}")
        text = out.decode("utf-8", "surrogateescape").split("\n")
        try:
            at = next(i for i, ln in enumerate(text) if ln.strip() == "Blocks:")
        except StopIteration:
            raise base.Violation("C13:list-format", "no 'Blocks:' table in the output of xz --list -vv")
        rows = []
        for ln in text[at + 2:]:
            t = ln.split()
            if len(t) < 12 or not t[0].isdigit():
                break
            rows.append(t)
        want_rows = []
        for k, s_ in enumerate(m["streams"]):
            uo = s_["uoffset"]
            for j, b in enumerate(s_["blocks"]):
                want_rows.append([k + 1, j + 1, b["offset"], uo, ceil4(b["unpadded"]), b["uncompressed"], b["header_size"], b["unpadded"] - b["header_size"] - CHECK_SIZE[s_["check"]]])
                uo += b["uncompressed"]
        expect(len(rows) == len(want_rows), "C13:list-human", f"xz --list -vv shows {len(rows)} Block rows, the file has {len(want_rows)}")
        for t, w in zip(rows, want_rows):
            num = lambda x: int(x.replace(",", "").replace("'", ""))  # noqa: E731
            got = [num(t[0]), num(t[1]), num(t[2]), num(t[3]), num(t[4]), num(t[5]), num(t[9]), num(t[11])]
            if got != w:
                raise base.Violation("C13:list-human", f"xz --list -vv Block row {t[:12]!r}: [stream, block, CompOffset, UncompOffset, TotalSize, UncompSize, Header, CompSize] = {got}, the file has {w}")
        S.count("human_readable_blocks_table_compared")

    nstreams, nblocks = tot["streams"], tot["blocks"]
    S.count(f"verbose_{v}")
    S.count("files_%d" % len(models))
    S.count("streams_1" if nstreams == 1 else "streams_2-4" if nstreams <= 4 else "streams_5+")
    S.count("blocks_0" if nblocks == 0 else "blocks_1" if nblocks == 1 else "blocks_2-9" if nblocks < 10 else "blocks_10+")
    if tot["pad"]:
        S.count("with_stream_padding")
    if any(len(s["plain"]) == 0 for m in models for s in m["streams"]):
        S.count("with_empty_stream")
    if bin(tot["checks"]).count("1") > 1:
        S.count("mixed_checks")
    if not tot["sizes"]:
        S.count("block_headers_without_sizes")
    if nstreams >= 2 or nblocks >= 2:
        key = [[(s["len"], s["check"], s["block_size"], s["pad"], s["threads"], s["chain"]) for s in f["streams"]] for f in scn["files"]] + [v]
        S.nontrivial(key, sample={"files": [[{"len": s["len"], "check": s["check"], "block_size": s["block_size"], "pad": s["pad"]} for s in f["streams"]] for f in scn["files"]], "verbose": v})


if __name__ == "__main__":
    base.main(NAME, scenarios, oracle, budgets={"quick": 600, "thorough": 6000})
