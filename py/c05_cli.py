"""C05 (command-line part) - the tools never report success for a damaged file while having delivered different data.

The library part (harness/t_c05.cc) enumerates the damage; this suite looks at what a *user of the tools* sees: the exit status of
xz / xzdec for a damaged .xz / .lzma file next to everything else that can influence that status in one invocation - other
operands that only produce warnings (a directory, a file with an unknown suffix in -d mode), the -q / -Q options, the position of
the damaged file among the operands, --single-stream, -t versus -dc.

Scenario: plaintext x container (.xz with crc32/crc64/sha256, 1-2 Streams, optional small Blocks; .lzma for truncation only) x
damage (bit flip, truncation, overwrite, deletion, insertion) x tool (xz -dc, xz -t, xz -d to a file, xzdec) x options x 0-2 extra
operands before/after.
Oracle (C05's first and third clause, seen through the exit status):
  * the bytes the tool wrote for the damaged operand differ from the original (or, for -t / a truncated file, the file is cut
    inside a Stream) and the exit status is 0  => violation;
  * exit status 0 is fine whenever the delivered bytes equal the original (harmless damage does not exist for .xz, but equality
    is what the property is about).
Non-trivial: the damaged operand was processed (the tool ran) and its bytes differ from the undamaged file.
"""
import hashlib
import os

from hypothesis import strategies as st

from . import base

_cache = {}


def plain_bytes(p):
    kind, n, seed = p
    if kind == "zero":
        return bytes(n)
    if kind == "text":
        words = [b"alpha ", b"beta ", b"gamma\n", b"xz ", b"0123456789 ", b"the quick brown fox "]
        out = bytearray()
        i = seed
        while len(out) < n:
            out += words[i % len(words)]
            i = i * 7 + 5
        return bytes(out[:n])
    return hashlib.shake_128(b"c05-%d" % seed).digest(n)


def make_file(spec, S):
    key = repr(sorted(spec.items()))
    if key in _cache:
        return _cache[key]
    data = plain_bytes(tuple(spec["plain"]))
    if spec["fmt"] == "lzma":
        args = ["-zc", "--format=lzma", "-%d" % spec["preset"]]
        pieces = [data]
    else:
        args = ["-zc", "--check=" + spec["check"], "-%d" % spec["preset"]]
        if spec.get("block"):
            args.append("--block-size=%d" % spec["block"])
        pieces = [data[: len(data) // 2], data[len(data) // 2:]] if spec.get("two_streams") else [data]
    out = b""
    bounds = []          # (file offset, plaintext offset) after each complete Stream but the last: a file cut there is a valid shorter file
    done = 0
    for piece in pieces:
        rc, o, err = base.run_cmd([base.tool("xz").encode()] + [a.encode() for a in args], stdin=piece, env=base.clean_env())
        if rc != 0:
            return None
        out += o
        done += len(piece)
        bounds.append((len(out), done))
    bounds.pop()
    if len(_cache) > 500:
        _cache.clear()
    _cache[key] = (out, data, bounds)
    return out, data, bounds


def damage(z, d):
    n = len(z)
    k = d["kind"]
    if n == 0:
        return z
    pos = d["pos"] % n
    if k == "flip":
        b = bytearray(z)
        b[pos] ^= 1 << d["bit"]
        return bytes(b)
    if k == "truncate":
        return z[:max(1, pos)]
    if k == "overwrite":
        b = bytearray(z)
        fill = hashlib.shake_128(b"ow-%d" % d["seed"]).digest(1 + d["len"])
        b[pos:pos + len(fill)] = fill[: max(0, n - pos)]
        return bytes(b[:n])
    if k == "delete":
        return z[:pos] + z[pos + 1 + d["len"]:]
    return z[:pos] + hashlib.shake_128(b"in-%d" % d["seed"]).digest(1 + d["len"]) + z[pos:]


def oracle(scn, S):
    made = make_file(scn["file"], S)
    if made is None:
        S.inconclusive_count("could-not-create-file")
        return
    good, data, bounds = made
    bad = damage(good, scn["damage"])
    if bad == good:
        S.count("damage-was-a-no-op")
        return
    d = S.fresh_dir()
    try:
        suffix = ".lzma" if scn["file"]["fmt"] == "lzma" else ".xz"
        name = "victim" + suffix
        with open(os.path.join(d, name), "wb") as f:
            f.write(bad)
        os.mkdir(os.path.join(d, "adir"))
        with open(os.path.join(d, "plain.txt"), "wb") as f:
            f.write(b"not compressed\n")
        extras = {"dir": "adir", "unknown-suffix": "plain.txt"}
        tool = scn["tool"]
        ops_before = [extras[e] for e in scn["before"]]
        ops_after = [extras[e] for e in scn["after"]]
        if tool == "xzdec":
            argv = [base.tool("xzdec")] + [name]          # xzdec takes no such options and treats every problem as an error
            ops_before = ops_after = []
        else:
            mode = {"xz-dc": ["-dc"], "xz-t": ["-t"], "xz-d": ["-dk"]}[tool]
            argv = [base.tool("xz")] + mode + list(scn["opts"]) + ops_before + [name] + ops_after
        env = base.clean_env({scn["env"][0]: scn["env"][1]} if scn.get("env") and tool != "xzdec" else None)
        if scn.get("env") and tool != "xzdec":
            S.count("env:" + scn["env"][0])
        rc, out, err = base.run_cmd([a.encode() for a in argv], stdin=b"", env=env, cwd=d)
        if rc is None:
            S.inconclusive_count("timeout")
            return
        S.count("tool:" + tool)
        S.count("exit:%s" % rc)
        S.count("damage:" + scn["damage"]["kind"])
        for o in scn["opts"]:
            S.count("opt:" + o)
        if ops_before or ops_after:
            S.count("with-warning-only-operands")
        if tool in ("xz-dc", "xzdec"):
            delivered = out
        elif tool == "xz-d":
            p = os.path.join(d, "victim")
            delivered = open(p, "rb").read() if os.path.exists(p) else None
        else:
            delivered = None
        what = " ".join(os.path.basename(a) if i == 0 else a for i, a in enumerate(argv))
        # a file cut exactly after a complete Stream is a valid shorter file: its plaintext is the expected output
        expect = data
        truncated_inside = scn["damage"]["kind"] == "truncate"
        for fo, po in bounds:
            if bad == good[:fo]:
                expect, truncated_inside = data[:po], False
                S.count("cut-at-a-stream-boundary-is-a-valid-file")
        if expect is not data and rc == 0 and (delivered is None or delivered == expect):
            return
        differs = delivered is not None and delivered != expect
        if rc == 0:
            if differs:
                raise base.Violation("C05:cli-success-with-different-data", "%s exits 0 but delivered %d bytes that are not the original %d bytes (damage %r); stderr %r"
                                     % (what, len(delivered), len(data), scn["damage"], err[-300:]))
            if tool == "xz-t" or truncated_inside or delivered is None:
                # nothing delivered to compare: -t, or xz -d removed the target.  A damaged .xz that tests fine does not exist; for a
                # file cut inside a Stream the third clause applies directly.
                if truncated_inside or scn["file"]["fmt"] == "xz":
                    raise base.Violation("C05:cli-damaged-file-reported-fine", "%s exits 0 for a damaged file (damage %r); stderr %r" % (what, scn["damage"], err[-300:]))
        if tool == "xz-d" and rc != 0 and delivered is not None and delivered != data:
            # C17 territory (incomplete target kept); counted here, judged there
            S.count("note:target-kept-after-failure")
        S.nontrivial([scn["file"], scn["damage"], tool, scn["opts"], scn.get("env"), scn["before"], scn["after"]],
                     sample={"argv": what, "damage": scn["damage"], "exit": rc, "delivered": None if delivered is None else len(delivered), "original": len(data)})
    finally:
        S.rm_dir(d)


@st.composite
def scenarios(draw):
    fmt = draw(st.sampled_from(["xz", "xz", "xz", "lzma"]))
    n = draw(st.one_of(st.integers(1, 200), st.integers(1, 20000)))
    f = {"fmt": fmt, "plain": [draw(st.sampled_from(["text", "zero", "random"])), n, draw(st.integers(0, 200))], "preset": draw(st.sampled_from([0, 1, 6]))}
    if fmt == "xz":
        f["check"] = draw(st.sampled_from(["crc32", "crc64", "sha256"]))
        f["two_streams"] = draw(st.booleans())
        f["block"] = draw(st.sampled_from([0, 0, 4096]))
        kinds = ["flip", "flip", "truncate", "overwrite", "delete", "insert"]
    else:
        kinds = ["truncate"]          # .lzma carries no integrity check: only the "ends inside a stream" clause applies
    dmg = {"kind": draw(st.sampled_from(kinds)), "pos": draw(st.integers(0, 1 << 20)), "bit": draw(st.integers(0, 7)), "len": draw(st.integers(0, 40)), "seed": draw(st.integers(0, 1000))}
    tool = draw(st.sampled_from(["xz-dc", "xz-dc", "xz-t", "xz-d", "xzdec"])) if fmt == "xz" else draw(st.sampled_from(["xz-dc", "xz-t", "xz-d"]))
    # options that must not change the verdict on a damaged file (compression-only settings are legal and ignored when decoding)
    opts = draw(st.lists(st.sampled_from(OPTION_POOL), max_size=3, unique=True))
    envopt = draw(st.sampled_from([None, None, None, None, ["XZ_OPT", "--check=crc32"], ["XZ_DEFAULTS", "--check=sha256 -T2"], ["XZ_OPT", "-q -Q"]]))
    extra = st.lists(st.sampled_from(["dir", "unknown-suffix"]), max_size=2, unique=True)
    return {"file": f, "damage": dmg, "tool": tool, "opts": opts, "env": envopt, "before": draw(extra), "after": draw(extra)}


OPTION_POOL = ["-q", "-Q", "-qq", "-v", "--no-warn", "--quiet", "--check=crc32", "--check=sha256", "-Ccrc64", "--check=none", "-T2", "-T0", "-6e",
               "--no-sparse", "--format=auto", "--lzma2=dict=1MiB", "--block-size=65536"]
ENV_POOL = [["XZ_OPT", "--check=crc32"], ["XZ_DEFAULTS", "--check=sha256 -T2"], ["XZ_OPT", "-q -Q"], ["XZ_DEFAULTS", "-Ccrc64"], ["XZ_OPT", "-T0 --no-sparse"]]


def fixed_scenarios(S, tier, seed):
    """Always-run: damage that only the integrity check can see (a bit inside a stored LZMA2 chunk; a bit of the Check field) x every option of
    the pool on its own, on the command line or through XZ_OPT / XZ_DEFAULTS x xz -dc / -t / -d (and xzdec without options)."""
    checks = ["crc32", "crc64", "sha256"]
    k = 0
    for oi, opt in enumerate([None] + OPTION_POOL + ENV_POOL):
        for tool in ("xz-dc", "xz-t", "xz-d", "xzdec"):
            if tool == "xzdec" and opt is not None:
                continue
            f = {"fmt": "xz", "plain": ["random", 3000, 7], "preset": 0, "check": checks[k % 3], "two_streams": False, "block": 0}
            k += 1
            made = make_file(f, S)
            if made is None:
                S.inconclusive_count("could-not-create-file")
                continue
            z = made[0]
            index_size = (int.from_bytes(z[-8:-4], "little") + 1) * 4
            for pos in (len(z) // 2, len(z) - 12 - index_size - 1):
                scn = {"file": f, "damage": {"kind": "flip", "pos": pos, "bit": (oi + pos) % 8, "len": 0, "seed": 0}, "tool": tool,
                       "opts": [opt] if isinstance(opt, str) else [], "env": opt if isinstance(opt, list) else None, "before": [], "after": []}
                S.evaluations += 1
                S.count("fixed_check-only-damage_x_option")
                try:
                    oracle(scn, S)
                except base.Violation as v:
                    v.scenario = scn
                    raise


if __name__ == "__main__":
    raise SystemExit(base.main("c05_cli", scenarios, oracle, budgets={"quick": 700, "thorough": 8000}, extra_runs=fixed_scenarios))
