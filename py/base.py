"""Shared runtime for the Hypothesis suites (run under python3-vt).

A suite module defines
    scenarios()            -> a Hypothesis strategy producing a JSON-able *scenario* (dict)
    oracle(scn, S)         -> runs the tools on the scenario and raises base.Violation(signature, reason)
                              when the property is broken; uses S (a Suite) for counters / non-trivial marks
and ends with   if __name__ == "__main__": base.main(NAME, scenarios, oracle, budgets={"quick": N, "thorough": M})

Rules kept here: every random choice comes from Hypothesis (seeded with VERIF_SEED through @seed), no wall clock
verdicts, database=None, deadline=None, shrunk failure -> scenario JSON -> replay calls oracle() directly."""
import argparse
import hashlib
import json
import os
import shutil
import subprocess
import sys
import tempfile
import traceback

# The tools honour inherited signal dispositions (xz keeps ignoring a signal that was ignored when it started, as POSIX shells
# arrange for INT/QUIT of background jobs).  A verdict must not depend on how the check itself was launched ("./check ... &",
# nohup, a CI runner), so every child starts from the default dispositions.
import signal as _signal
for _s in (_signal.SIGINT, _signal.SIGQUIT, _signal.SIGTERM, _signal.SIGHUP, _signal.SIGALRM, _signal.SIGUSR1, _signal.SIGUSR2):
    try:
        if _signal.getsignal(_s) == _signal.SIG_IGN:
            _signal.signal(_s, _signal.SIG_DFL)
    except (OSError, ValueError):
        pass
try:
    _signal.pthread_sigmask(_signal.SIG_SETMASK, set())      # and from an empty signal mask
except (OSError, ValueError):
    pass

CLI_DIR = os.environ.get("VERIF_CLI_DIR", "/verif/build/lib-cli")
SCRATCH = os.environ.get("VERIF_SCRATCH") or tempfile.mkdtemp(prefix="verif-py-", dir="/verif/build")


def _others_can_reach(path):
    p = os.path.abspath(path)
    while True:
        try:
            if not (os.stat(p).st_mode & 0o001):
                return False
        except OSError:
            return False
        if p == "/":
            return True
        p = os.path.dirname(p)


# Some scenarios run the tools as an unprivileged user (nobody).  If the checkout lives below a directory that other users cannot
# traverse (e.g. a snapshot under /root), the scratch area moves to a private directory under /tmp for the duration of the run.
if not _others_can_reach(SCRATCH):
    import atexit as _atexit
    SCRATCH = tempfile.mkdtemp(prefix="verif-py-scratch-", dir="/tmp")
    os.chmod(SCRATCH, 0o755)
    _atexit.register(shutil.rmtree, SCRATCH, ignore_errors=True)
if not _others_can_reach(CLI_DIR):
    # the same for the tools themselves (statically linked; scripts): an unprivileged user must be able to execute them
    _bin = os.path.join(SCRATCH, "cli-bin")
    os.makedirs(_bin, exist_ok=True)
    for _n in os.listdir(CLI_DIR):
        _p = os.path.join(CLI_DIR, _n)
        if os.path.isfile(_p) and os.access(_p, os.X_OK):
            shutil.copy2(_p, os.path.join(_bin, _n))
    os.chmod(_bin, 0o755)
    CLI_DIR = _bin
SHIM_DIR = os.environ.get("VERIF_SHIM_DIR", "/verif/build/bin")
REPO = os.environ.get("VERIF_REPO", "/repo")
KNOWN = set(filter(None, os.environ.get("VERIF_KNOWN", "").split(",")))


def tool(name):
    """Path of a built tool or script in the cli variant's build tree."""
    return os.path.join(CLI_DIR, name)


class Violation(Exception):
    def __init__(self, signature, reason):
        super().__init__(f"{signature}: {reason}")
        self.signature = signature
        self.reason = reason


class Suite:
    def __init__(self, name):
        self.name = name
        self.evaluations = 0
        self.classes = {}
        self.distinct = set()
        self.samples = []
        self.findings = []
        self.inconclusive = {}
        self.exhaustive = None
        self._dir_seq = 0

    def count(self, cls, n=1):
        self.classes[cls] = self.classes.get(cls, 0) + n

    def nontrivial(self, key, sample=None):
        """Mark the current scenario non-trivial; key = anything hashable/JSON-able that defines distinctness."""
        h = hashlib.sha1(json.dumps(key, sort_keys=True, default=repr).encode()).hexdigest()[:16]
        new = h not in self.distinct
        self.distinct.add(h)
        if new and sample is not None and len(self.samples) < 8:
            self.samples.append(sample)

    def known(self, signature):
        """True if the signature is a recorded known finding: count it and carry on (excluded by construction)."""
        if signature in KNOWN:
            self.count("excluded_known:" + signature)
            return True
        return False

    def inconclusive_count(self, what, n=1):
        self.inconclusive[what] = self.inconclusive.get(what, 0) + n

    def fresh_dir(self):
        """A new empty scratch directory for one scenario (caller removes it with rm_dir)."""
        self._dir_seq += 1
        d = os.path.join(SCRATCH, f"{self.name}-{os.getpid()}-{self._dir_seq}")
        os.makedirs(d)
        return d

    @staticmethod
    def rm_dir(d):
        subprocess.run(["chmod", "-R", "u+rwx", d], stderr=subprocess.DEVNULL)
        shutil.rmtree(d, ignore_errors=True)

    def result(self):
        r = {"evaluations": self.evaluations, "distinct_nontrivial": len(self.distinct), "classes": self.classes,
             "samples": self.samples, "findings": self.findings, "inconclusive": self.inconclusive}
        if self.exhaustive is not None:
            r["exhaustive"] = self.exhaustive
        return r


def run_cmd(argv, stdin=None, env=None, cwd=None, timeout=120, preexec_fn=None):
    """subprocess wrapper -> (returncode, stdout bytes, stderr bytes).  A timeout is *inconclusive*, never a verdict:
    returns (None, out, err)."""
    import errno
    import time
    for attempt in range(6):
        try:
            p = subprocess.run(argv, input=stdin, stdout=subprocess.PIPE, stderr=subprocess.PIPE, env=env, cwd=cwd, timeout=timeout, preexec_fn=preexec_fn)
            return p.returncode, p.stdout, p.stderr
        except subprocess.TimeoutExpired as e:
            return None, e.stdout or b"", e.stderr or b""
        except OSError as e:
            # the machine, not the tool: fork/exec refused for lack of memory or process slots, or a binary being relinked right now
            if e.errno in (errno.EAGAIN, errno.ENOMEM, errno.ETXTBSY, errno.EMFILE, errno.ENFILE) and attempt < 5:
                time.sleep(1 + 2 * attempt)
                continue
            raise
    raise RuntimeError("unreachable")


def clean_env(extra=None):
    env = {"PATH": CLI_DIR + ":/usr/bin:/bin", "LC_ALL": "C", "HOME": SCRATCH, "TZ": "UTC"}
    if extra:
        env.update(extra)
    return env


def main(name, scenarios, oracle, budgets, extra_runs=None):
    """extra_runs: optional callable(S, tier, seed) executed before Hypothesis (e.g. exhaustive enumerations)."""
    ap = argparse.ArgumentParser()
    ap.add_argument("--tier", default="quick")
    ap.add_argument("--seed", type=int, default=1)
    ap.add_argument("--out", required=True)
    ap.add_argument("--replay")
    a = ap.parse_args()
    S = Suite(name)
    os.makedirs(SCRATCH, exist_ok=True)

    def finish():
        with open(a.out, "w") as f:
            json.dump(S.result(), f, default=repr)

    if a.replay:
        with open(a.replay) as f:
            j = json.load(f)
        scn = j.get("scenario", j)
        S.evaluations = 1
        try:
            oracle(scn, S)
            print("replay: scenario passes")
        except Violation as v:
            print(f"replay: VIOLATION {v.signature}: {v.reason}")
            S.findings.append({"signature": v.signature, "reason": v.reason, "scenario": scn})
        finish()
        return 0

    from hypothesis import HealthCheck, Phase, given, seed, settings

    last = {}
    try:
        if extra_runs:
            try:
                extra_runs(S, a.tier, a.seed)
            except Violation as v:
                S.findings.append({"signature": v.signature, "reason": v.reason, "scenario": getattr(v, "scenario", None)})

        @seed(a.seed)
        @settings(max_examples=budgets[a.tier], database=None, deadline=None, report_multiple_bugs=False,
                  suppress_health_check=list(HealthCheck), phases=[Phase.generate, Phase.shrink], derandomize=False, print_blob=False)
        @given(scenarios())
        def test(scn):
            S.evaluations += 1
            try:
                oracle(scn, S)
            except Violation as v:
                last["scn"], last["v"] = scn, v
                raise

        if not S.findings:
            try:
                test()
            except Violation as v:
                scn = last.get("scn")
                vv = last.get("v", v)
                S.findings.append({"signature": vv.signature, "reason": vv.reason, "scenario": scn})
    except Exception:  # noqa: BLE001 - a crash of the suite is a broken check, not a violation
        r = S.result()
        r["broken"] = traceback.format_exc()[-3000:]
        with open(a.out, "w") as f:
            json.dump(r, f, default=repr)
        traceback.print_exc()
        return 0
    finish()
    return 0
