"""C19 - xz naming, overwrite protection and metadata handling are safe and invertible.

One scenario = one scratch directory with 1..3 files (any byte names; regular / hard-linked / symlinked / dangling /
FIFO / directory / missing; modes 0000..7777; several owners; explicit ns timestamps; optional pre-existing target) and
one `xz` invocation over them (compress or decompress; xz / lzma / raw / auto; optional -S; -k -f -c -Q -q; names given
as plain arguments after `--`, as ./name, as absolute paths or through --files0), run as root or as user `nobody`.
Compress scenarios are usually followed by a second invocation that decompresses whatever the first produced (round
trip).

Oracle: a small model of a directory (names -> inodes) written from xz.1 and the property text is stepped over the
arguments; where the documentation does not decide between two outcomes (order of several refusal reasons, a name that
is exactly a suffix, built-in suffixes with --format=raw, ...) the model branches and *any* branch may match.  The
directory is scanned with lstat before and after and compared with the model: names, contents, mode, owner, group,
timestamps, link counts, exit status, stdout.

No wall-clock verdicts; a tool timeout is counted as inconclusive."""
import copy
import hashlib
import lzma
import os
import pwd
import shutil
import stat
import subprocess

from hypothesis import strategies as st

from . import base

_NOBODY = pwd.getpwnam("nobody")
N_UID, N_GID = _NOBODY.pw_uid, _NOBODY.pw_gid
X_UID, X_GID = 4242, 4343              # ids without passwd entries ("somebody else")
NAME_MAX = 255
TOOL_TIMEOUT = 20                       # watchdog only (a run takes milliseconds); hitting it is "inconclusive"
AUX = b"\x01aux"                        # reserved name prefix of helper objects (symlink pointees, victims)
RAW_FILTER = "--lzma2=dict=64KiB"       # explicit chain in raw mode (a preset there prints a notice on stderr)
RAW_PY_FILTERS = [{"id": lzma.FILTER_LZMA2, "dict_size": 65536}]

# Signature of the one deviation of the unchanged tree from the property text that this suite knows about: a custom
# suffix that *ends in* a shorter built-in suffix (-S .foo.xz) is appended when compressing but only the built-in
# part is removed when decompressing.  When it is recorded as a known finding the model follows xz and goes on.
SIG_SHADOW = "C19:custom-suffix-shadowed-by-builtin"

BUILTIN_DEC = [(b".xz", b""), (b".txz", b".tar"), (b".lzma", b""), (b".tlz", b".tar"), (b".lz", b"")]
FORMAT_SUF = {"xz": [b".xz", b".txz"], "lzma": [b".lzma", b".tlz"], "raw": []}
DEFAULT_SUF = {"xz": b".xz", "lzma": b".lzma"}

CONTENTS = [
    b"",
    b"x",
    b"hello, world\n" * 5,
    bytes(range(256)) * 8,
    b"\0" * 5000,
    b"".join(b"The quick brown fox %d\n" % i for i in range(120)),
]


def _b(s):
    return s.encode("latin-1")


def _s(b):
    return b.decode("latin-1")


# ----------------------------------------------------------------------------------------------------------------
# reference encodings / decodings through the tool's own stdin -> stdout path (no names involved there)
# ----------------------------------------------------------------------------------------------------------------

_enc_cache = {}
_dec_cache = {}


class Inconclusive(Exception):
    pass


def _fmt_args(fmt):
    a = []
    if fmt:
        a.append("--format=" + fmt)
    if fmt == "raw":
        a.append(RAW_FILTER)
    return a


def enc_ref(data, fmt):
    key = (hashlib.sha1(data).hexdigest(), fmt)
    if key not in _enc_cache:
        rc, out, err = base.run_cmd([base.tool("xz"), "-c"] + _fmt_args(fmt), stdin=data, env=base.clean_env(), timeout=TOOL_TIMEOUT)
        if rc is None:
            raise Inconclusive("timeout:enc_ref")
        if rc != 0:
            raise RuntimeError(f"reference encoding failed rc={rc} {err[:200]!r}")
        _enc_cache[key] = out
    return _enc_cache[key]


def dec_ref(data, fmt, passthru):
    """(ok, output) of `xz -dc [--format] [-f] < data`."""
    key = (hashlib.sha1(data).hexdigest(), fmt, passthru)
    if key not in _dec_cache:
        argv = [base.tool("xz"), "-dc"] + _fmt_args(fmt) + (["-f"] if passthru else [])
        rc, out, err = base.run_cmd(argv, stdin=data, env=base.clean_env(), timeout=TOOL_TIMEOUT)
        if rc is None:
            raise Inconclusive("timeout:dec_ref")
        _dec_cache[key] = (rc == 0, out)
    return _dec_cache[key]


_lz_cache = []


def lz_payload():
    if not _lz_cache:
        p = os.path.join(base.REPO, "tests", "files", "good-1-v1.lz")
        try:
            with open(p, "rb") as f:
                _lz_cache.append(f.read())
        except OSError:
            _lz_cache.append(None)
    return _lz_cache[0]


def payload_bytes(kind, ci):
    plain = CONTENTS[ci % len(CONTENTS)]
    if kind in ("xz", "lzma", "raw"):
        return enc_ref(plain, kind)
    if kind == "lz":
        return lz_payload() or enc_ref(plain, "xz")
    if kind == "plain":
        return b"this is not compressed data\n" + plain[:100]
    if kind == "empty":
        return b""
    if kind == "trunc":
        e = enc_ref(CONTENTS[3], "xz")
        return e[:len(e) - 9]
    if kind == "corrupt":
        e = bytearray(enc_ref(CONTENTS[3], "xz"))
        e[len(e) // 2] ^= 0x55
        return bytes(e)
    raise ValueError(kind)


def py_decode_streams(fmt, data):
    """Independent decoder (Python's lzma): list of the plain texts of the concatenated streams in data."""
    outs = []
    guard = 0
    while data:
        guard += 1
        if guard > 50:
            raise lzma.LZMAError("too many streams")
        if fmt == "xz":
            d = lzma.LZMADecompressor(lzma.FORMAT_XZ)
        elif fmt == "lzma":
            d = lzma.LZMADecompressor(lzma.FORMAT_ALONE)
        else:
            d = lzma.LZMADecompressor(lzma.FORMAT_RAW, filters=RAW_PY_FILTERS)
        o = d.decompress(data)
        if not d.eof:
            raise lzma.LZMAError("truncated stream")
        outs.append(o)
        data = d.unused_data
    return outs


# ----------------------------------------------------------------------------------------------------------------
# name model (from xz.1 + the property text)
# ----------------------------------------------------------------------------------------------------------------

def has_suffix(n, s):
    """n carries suffix s: ends in it and at least one more character remains."""
    return len(n) > len(s) and n.endswith(s)


def comp_name_alts(n, fmt, custom):
    """Compressing: list of (target name or None for 'skipped with a warning', finding)."""
    sufs = list(FORMAT_SUF[fmt]) + ([custom] if custom else [])
    if any(has_suffix(n, s) for s in sufs):
        return [(None, None)]
    app = custom if custom else DEFAULT_SUF[fmt]
    alts = [(n + app, None)]
    if any(n == s for s in sufs):
        # a name that *is* a suffix: xz.1 does not say whether that counts as "already has the suffix"
        alts.append((None, None))
    return alts


def _strip_candidates(n, fmt_is_raw, custom):
    b = None
    for suf, repl in BUILTIN_DEC:
        if has_suffix(n, suf):
            b = (len(suf), n[:len(n) - len(suf)] + repl)
            break
    c = None
    if custom and has_suffix(n, custom):
        c = (len(custom), n[:len(n) - len(custom)])
    return b, c


def dec_name_alts(n, fmt, custom):
    """Decompressing: list of (target name or None, finding)."""
    b, c = _strip_candidates(n, fmt == "raw", custom)
    if b and c:
        longest = b if b[0] >= c[0] else c      # equal length => identical strings => the built-in meaning
    else:
        longest = b or c
    if fmt == "raw":
        # "there is no default suffix for raw streams": only -S is certain; a built-in suffix that also matches is
        # accepted under the longest-match rule as a second possibility.
        prim = c[1] if c else None
        alts = [(prim, None)]
        if longest and longest[1] != prim:
            alts.append((longest[1], None))
        return alts
    if not b and not c:
        return [(None, None)]
    alts = [(longest[1], None)]
    if b and c and c[0] > b[0] and b[1] != c[1]:
        alts.append((b[1], SIG_SHADOW))
    return alts


def would_be_targets(n, P):
    cs = P["suffix"]
    if P["mode"] == "c":
        r = []
        if cs:
            r.append(n + cs)
        if P["fmt"] in DEFAULT_SUF:
            r.append(n + DEFAULT_SUF[P["fmt"]])
        return r
    r = []
    for suf, repl in BUILTIN_DEC:
        if n.endswith(suf):
            r.append(n[:len(n) - len(suf)] + repl)
    if cs and n.endswith(cs):
        r.append(n[:len(n) - len(cs)])
    return r


# ----------------------------------------------------------------------------------------------------------------
# directory model
# ----------------------------------------------------------------------------------------------------------------

class Ino:
    __slots__ = ("kind", "data", "mode", "uid", "gid", "atime", "mtime", "ctime", "ino", "link", "role", "created",
                 "read", "touched", "lenient", "atime_check", "plain", "fmt")

    def __init__(self, kind):
        self.kind = kind
        self.data = None
        self.mode = self.uid = self.gid = self.atime = self.mtime = self.ctime = self.ino = None
        self.link = None
        self.role = "src"
        self.created = False
        self.read = False          # xz opened it earlier in the same invocation (atime may have moved)
        self.touched = False       # a link to it was removed (ctime / nlink change expected)
        self.lenient = False       # group could not be copied: only the "never broader" rules apply to the mode
        self.atime_check = True
        self.plain = None          # created by compression: the plain text it must decode to
        self.fmt = None


class State:
    def __init__(self):
        self.names = {}
        self.inos = {}
        self.seq = 0
        self.stdout = []
        self.stdout_known = True
        self.abandon = None

    def clone(self):
        s = State()
        s.names = dict(self.names)
        s.inos = {k: copy.copy(v) for k, v in self.inos.items()}
        s.seq = self.seq
        s.stdout = list(self.stdout)
        s.stdout_known = self.stdout_known
        s.abandon = self.abandon
        return s

    def add(self, ino):
        self.seq += 1
        self.inos[self.seq] = ino
        return self.seq

    def nlink(self, iid):
        return sum(1 for v in self.names.values() if v == iid)

    def unlink(self, name):
        iid = self.names.pop(name)
        self.inos[iid].touched = True
        if self.nlink(iid) == 0:
            del self.inos[iid]


def state_from_obs(obs, data=None, roles=None):
    st_ = State()
    by_ino = {}
    for name in sorted(obs):
        o = obs[name]
        if o["ino"] in by_ino and o["kind"] == "reg":
            st_.names[name] = by_ino[o["ino"]]
            continue
        i = Ino(o["kind"])
        i.mode, i.uid, i.gid = o["mode"], o["uid"], o["gid"]
        i.atime, i.mtime, i.ctime, i.ino = o["atime"], o["mtime"], o["ctime"], o["ino"]
        i.link = o.get("link")
        if o["kind"] == "reg":
            i.data = data[name] if data is not None else o["data"]
        if roles:
            i.role = roles.get(name, "src")
        iid = st_.add(i)
        by_ino[o["ino"]] = iid
        st_.names[name] = iid
    return st_


def scan(wdir, read):
    obs = {}
    for name in os.listdir(wdir):
        p = os.path.join(wdir, name)
        s = os.lstat(p)
        if stat.S_ISREG(s.st_mode):
            kind = "reg"
        elif stat.S_ISLNK(s.st_mode):
            kind = "lnk"
        elif stat.S_ISDIR(s.st_mode):
            kind = "dir"
        elif stat.S_ISFIFO(s.st_mode):
            kind = "fifo"
        else:
            kind = "other"
        o = {"kind": kind, "ino": s.st_ino, "mode": stat.S_IMODE(s.st_mode), "uid": s.st_uid, "gid": s.st_gid,
             "nlink": s.st_nlink, "size": s.st_size, "atime": s.st_atime_ns, "mtime": s.st_mtime_ns, "ctime": s.st_ctime_ns}
        if kind == "lnk":
            o["link"] = os.readlink(p)
        obs[name] = o
    if read:
        # second pass so that reading (which may move atime) never precedes an lstat of the same inode
        for name, o in obs.items():
            if o["kind"] == "reg":
                with open(os.path.join(wdir, name), "rb") as f:
                    o["data"] = f.read()
    return obs


def readable_by_nobody(i):
    if i.uid == N_UID:
        return bool(i.mode & 0o400)
    if i.gid == N_GID:
        return bool(i.mode & 0o040)
    return bool(i.mode & 0o004)


def _distinct_events(reasons):
    seen, out = set(), []
    for ev, why in reasons:
        if ev not in seen:
            seen.add(ev)
            out.append((ev, why))
    return out


def step(st_, n, P):
    """All documented-acceptable results of processing argument n: list of (state, outcome)."""
    def refused(ev, why, tname=None, finding=None, state=None):
        return (state or st_.clone(), {"n": n, "ev": ev, "why": why, "tname": tname, "finding": finding, "ok": False})

    follow = P["c"] or P["f"] or P["k"]
    if n not in st_.names:
        return [refused("E", "missing")]
    ino = st_.inos[st_.names[n]]
    src_iid = st_.names[n]
    if ino.kind == "lnk":
        if not follow:
            return [refused("W", "symlink")]
        if ino.link not in st_.names:
            return [refused("E", "dangling"), refused("W", "dangling")]
        src_iid = st_.names[ino.link]
        ino = st_.inos[src_iid]
        if ino.kind == "lnk":
            return [refused("E", "chain"), refused("W", "chain")]
    if ino.kind == "dir":
        return [refused("W", "notreg"), refused("E", "notreg")] if P["c"] else [refused("W", "notreg")]
    if ino.kind != "reg":
        return [refused("W", "notreg")]

    if ino.created and ino.lenient:
        # a target whose exact mode the model does not know is processed again in the same invocation: give up
        a = st_.clone()
        a.abandon = "chain-through-lenient-target"
        return [refused("W", "abandon", state=a)]

    reasons = []
    unreadable = P["runas"] == "nobody" and not readable_by_nobody(ino)
    if unreadable:
        reasons.append(("E", "eacces"))
    if not follow:
        if ino.mode & 0o7000:
            reasons.append(("W", "special"))
        if st_.nlink(src_iid) > 1:
            reasons.append(("W", "hardlink"))
    if unreadable:
        return [refused(ev, why) for ev, why in _distinct_events(reasons)]

    dec = None
    if P["mode"] == "d":
        dec = dec_ref(ino.data, P["fmt"], P["c"] and P["f"])

    if P["c"]:
        a = st_.clone()
        a.inos[src_iid].read = True
        if P["mode"] == "c":
            a.stdout.append(("enc", ino.data))
            return [(a, {"n": n, "ev": "ok", "why": "stdout", "tname": None, "finding": None, "ok": True})]
        if dec[0]:
            a.stdout.append(("raw", dec[1]))
            return [(a, {"n": n, "ev": "ok", "why": "stdout", "tname": None, "finding": None, "ok": True})]
        a.stdout_known = False
        return [refused("E", "decode", state=a)]

    alts = comp_name_alts(n, P["fmt"], P["suffix"]) if P["mode"] == "c" else dec_name_alts(n, P["fmt"], P["suffix"])
    results = []
    for tname, finding in alts:
        rs = list(reasons)
        if dec is not None and not dec[0]:
            rs.append(("E", "decode"))
        if tname is None:
            rs.append(("W", "name"))
        else:
            if len(tname) > NAME_MAX:
                rs.append(("E", "nametoolong"))
            elif tname in (b".", b".."):
                rs.append(("E", "exists-dir"))         # the target name is the directory itself
            elif tname in st_.names:
                if not P["f"]:
                    rs.append(("E", "exists"))
                elif st_.inos[st_.names[tname]].kind == "dir":
                    rs.append(("E", "exists-dir"))
        if rs:
            for ev, why in _distinct_events(rs):
                a = st_.clone()
                a.inos[src_iid].read = True
                results.append(refused(ev, why, tname, finding, a))
            if [w for _, w in rs] == ["decode"] and tname in st_.names and P["f"]:
                # the failure may be found only after --force has removed the old target
                a = st_.clone()
                a.inos[src_iid].read = True
                a.unlink(tname)
                results.append(refused("E", "decode-late", tname, finding, a))
            continue
        # success
        a = st_.clone()
        src = a.inos[src_iid]
        if tname in a.names:
            a.unlink(tname)
        t = Ino("reg")
        t.created = True
        t.role = "created"
        t.atime_check = not src.read and src.atime_check
        src.read = True
        t.atime, t.mtime = src.atime, src.mtime
        t.mode = src.mode & 0o777
        if P["runas"] == "root":
            t.uid, t.gid = src.uid, src.gid
        else:
            t.uid, t.gid = N_UID, N_GID
            if src.gid != N_GID:
                t.lenient = True
                t.mode = (src.mode & 0o700, ((src.mode >> 3) & src.mode & 0o007))   # (owner bits, max for group/other)
        if P["mode"] == "c":
            t.plain, t.fmt = src.data, P["fmt"]
        else:
            t.data = dec[1]
        a.names[tname] = a.add(t)
        if not P["k"]:
            a.unlink(n)
        results.append((a, {"n": n, "ev": "ok", "why": "done", "tname": tname, "finding": finding, "ok": True,
                            "lenient": t.lenient}))
    return results


def simulate(st0, args, P, limit=96):
    combos = [(st0, [])]
    for n in args:
        nxt = []
        for s, outs in combos:
            for s2, o in step(s, n, P):
                nxt.append((s2, outs + [o]))
                if len(nxt) >= limit:
                    break
            if len(nxt) >= limit:
                break
        combos = nxt
    combos.sort(key=lambda c: sum(1 for o in c[1] if o["finding"]))   # stable: primary alternatives first
    return combos


# ----------------------------------------------------------------------------------------------------------------
# comparison of a model branch with what is on disk
# ----------------------------------------------------------------------------------------------------------------

def _nm(b):
    return repr(b)[1:]


def check_target(m, o, name, P):
    D = []
    if o["kind"] != "reg":
        return [("C19:target-not-regular", f"target {_nm(name)} is a {o['kind']}")]
    if o["nlink"] != 1:
        D.append(("C19:target-not-regular", f"target {_nm(name)} has {o['nlink']} links"))
    if m.plain is not None:
        try:
            got = py_decode_streams(m.fmt, o["data"])
            if got != [m.plain]:
                D.append(("C19:target-content", f"target {_nm(name)} does not decode to its source ({len(o['data'])} bytes)"))
        except (lzma.LZMAError, EOFError, ValueError) as e:
            D.append(("C19:target-content", f"target {_nm(name)} is not a valid {m.fmt} file: {e}"))
    elif o["data"] != m.data:
        D.append(("C19:target-content", f"target {_nm(name)} has {len(o['data'])} bytes, expected {len(m.data)} decoded bytes"))
    if o["mode"] & 0o7000:
        D.append(("C19:mode-special-bits", f"target {_nm(name)} mode {o['mode']:04o} carries setuid/setgid/sticky"))
    if m.lenient:
        ubits, gomax = m.mode
        om = o["mode"] & 0o777
        if (om & 0o700) & ~ubits or ((om >> 3) & 7) & ~gomax or (om & 7) & ~gomax:
            D.append(("C19:mode-broader", f"target {_nm(name)} mode {om:04o} is broader than allowed "
                      f"(owner<={ubits:04o}, group/other<={gomax:o}) when the group cannot be copied"))
    else:
        om = o["mode"] & 0o777
        if om != m.mode:
            sig = "C19:mode-broader" if om & ~m.mode else "C19:mode-not-copied"
            D.append((sig, f"target {_nm(name)} mode {om:04o}, source mode & 0777 = {m.mode:04o}"))
    if o["uid"] != m.uid:
        D.append(("C19:owner-not-copied", f"target {_nm(name)} uid {o['uid']}, expected {m.uid}"))
    if o["gid"] != m.gid:
        D.append(("C19:group-not-copied", f"target {_nm(name)} gid {o['gid']}, expected {m.gid}"))
    if o["mtime"] != m.mtime:
        D.append(("C19:mtime-not-copied", f"target {_nm(name)} mtime {o['mtime']} ns, source {m.mtime} ns"))
    if m.atime_check and not m.read and o["atime"] != m.atime:      # (xz itself re-reading the target later may move it)
        D.append(("C19:atime-not-copied", f"target {_nm(name)} atime {o['atime']} ns, source {m.atime} ns"))
    return D


def check_untouched(m, o, name, nlink, P, outs):
    diffs = []
    if o["kind"] != m.kind:
        diffs.append(f"kind {m.kind}->{o['kind']}")
    elif o["ino"] != m.ino:
        diffs.append("replaced by another inode")
    elif m.kind == "lnk":
        if o["link"] != m.link:
            diffs.append("link text changed")
    elif m.kind == "reg":
        if o["data"] != m.data:
            diffs.append(f"content changed ({len(m.data)} -> {len(o['data'])} bytes)")
        if o["mode"] != m.mode:
            diffs.append(f"mode {m.mode:04o}->{o['mode']:04o}")
        if (o["uid"], o["gid"]) != (m.uid, m.gid):
            diffs.append("owner/group changed")
        if o["mtime"] != m.mtime:
            diffs.append("mtime changed")
        if o["nlink"] != nlink:
            diffs.append(f"link count {o['nlink']} != {nlink}")
        if not m.touched and o["ctime"] != m.ctime:
            diffs.append("ctime changed (inode was modified)")
    if not diffs:
        return []
    is_target_of = [x for x in outs if x.get("tname") == name]
    if m.role in ("pre", "victim") or is_target_of:
        sig = "C19:overwrite-without-force" if not P["f"] else "C19:existing-target-damaged"
    elif any(x["n"] == name and not x["ok"] for x in outs):
        sig = "C19:skipped-file-modified"
    else:
        sig = "C19:bystander-modified"
    return [(sig, f"{_nm(name)} should be untouched: " + ", ".join(diffs))]


def compare(st_, outs, obs, snap, P, rc, out, err, fatal):
    D = []
    Dx = []     # unexpected names, reported before the rest when they can be attributed to a refused argument
    extra = sorted(n for n in obs if n not in st_.names)
    for name in sorted(st_.names):
        iid = st_.names[name]
        m = st_.inos[iid]
        o = obs.get(name)
        if o is None:
            if m.created:
                sig = "C19:roundtrip-name" if P.get("roundtrip") else "C19:target-name"
                D.append((sig, f"expected target {_nm(name)} does not exist; new/unexpected names: {[_nm(x) for x in extra]}"))
            else:
                mine = [x for x in outs if x["n"] == name]
                if mine and (P["k"] or P["c"]):
                    sig = "C19:source-removed-despite-keep"
                elif mine:
                    sig = "C19:source-removed"
                elif any(x.get("tname") == name for x in outs):
                    sig = "C19:overwrite-without-force" if not P["f"] else "C19:existing-target-damaged"
                else:
                    sig = "C19:bystander-removed"
                D.append((sig, f"{_nm(name)} ({m.kind}) disappeared; outcomes {[(x['ev'], x['why']) for x in mine]}"))
            continue
        if m.created:
            D += check_target(m, o, name, P)
        else:
            D += check_untouched(m, o, name, st_.nlink(iid), P, outs)
    for name in extra:
        o = obs[name]
        if name in snap and snap[name]["ino"] == o["ino"]:
            D.append(("C19:source-not-removed", f"{_nm(name)} still exists after successful processing without --keep/--stdout"))
            continue
        sig = "C19:unexpected-file"
        for x in outs:
            if x["ok"] or name not in would_be_targets(x["n"], P):
                continue
            if x["why"] in ("symlink", "hardlink", "special"):
                sig = "C19:processed-link-or-special"
            elif x["why"] in ("notreg", "dangling"):
                sig = "C19:wrote-from-non-regular"
            elif x["why"] == "name":
                sig = "C19:processed-skipped-name"
            break
        if fatal:
            sig = "C19:invalid-suffix-accepted"
        (D if sig == "C19:unexpected-file" else Dx).append((sig, f"unexpected new {o['kind']} {_nm(name)}"))
    D = Dx + D

    # exit status
    evs = [x["ev"] for x in outs]
    base_rc = 1 if "E" in evs else (2 if "W" in evs else 0)
    allowed = {base_rc}
    if base_rc == 0 and any(x.get("lenient") for x in outs):
        allowed.add(2)      # "Cannot set the file group" is a warning in xz; xz.1 does not say so
    if P["Q"]:
        allowed = {0 if a == 2 else a for a in allowed}
    if rc not in allowed:
        sig = "C19:invalid-suffix-accepted" if fatal and rc != 1 else "C19:exit-status"
        D.append((sig, f"exit status {rc}, expected {sorted(allowed)}; events {[(x['ev'], x['why']) for x in outs]}; stderr {err[:300]!r}"))
    if P["q"] == 0 and not fatal:
        lenient = any(x.get("lenient") for x in outs)
        if base_rc == 0 and not lenient and err:
            D.append(("C19:spurious-diagnostic", f"nothing worth a warning expected but stderr has {err[:300]!r}"))
        if base_rc != 0 and not err:
            D.append(("C19:missing-diagnostic", f"a file was skipped/failed without any message; events {evs}"))
    # stdout
    if not P["c"] or fatal:
        if out:
            D.append(("C19:unexpected-stdout", f"{len(out)} bytes on stdout without --stdout"))
    elif st_.stdout_known:
        if P["mode"] == "c":
            want = [d for _, d in st_.stdout]
            try:
                got = py_decode_streams(P["fmt"], out)
                if got != want:
                    D.append(("C19:stdout-content", f"stdout decodes to {len(got)} streams, expected {len(want)} with the sources' contents"))
            except (lzma.LZMAError, EOFError, ValueError) as e:
                D.append(("C19:stdout-content", f"stdout is not valid {P['fmt']} data: {e}"))
        elif out != b"".join(d for _, d in st_.stdout):
            D.append(("C19:stdout-content", f"stdout has {len(out)} bytes, expected {sum(len(d) for _, d in st_.stdout)}"))
    D.sort(key=lambda d: _PRIORITY.index(d[0]) if d[0] in _PRIORITY else len(_PRIORITY))      # stable
    return D


# which discrepancy names the failure when one misbehaviour shows up in several ways
_PRIORITY = ["C19:invalid-suffix-accepted", "C19:overwrite-without-force", "C19:processed-link-or-special",
             "C19:wrote-from-non-regular", "C19:processed-skipped-name", "C19:source-removed-despite-keep"]


# ----------------------------------------------------------------------------------------------------------------
# building the directory and running the tool
# ----------------------------------------------------------------------------------------------------------------

def _uid(c):
    return {"0": 0, "N": N_UID, "X": X_UID}[c]


def _gid(c):
    return {"0": 0, "N": N_GID, "X": X_GID}[c]


def _write(p, data):
    with open(p, "wb") as f:
        f.write(data)


def _setattrs(p, f):
    os.chown(p, _uid(f["uid"]), _gid(f["gid"]))
    os.chmod(p, f["mode"])
    os.utime(p, ns=(f["at"], f["mt"]))


def build(wdir, scn, P):
    """Create the files; returns (data by name, role by name, set of created pre-existing targets)."""
    data, roles, pres = {}, {}, set()
    used = set()
    for i, f in enumerate(scn["files"]):
        n = _b(f["name"])
        p = os.path.join(wdir, n)
        kind = f["kind"]
        content = CONTENTS[f["ci"] % len(CONTENTS)] if P["mode"] == "c" else payload_bytes(f["payload"], f["ci"])
        used.add(n)
        if kind in ("reg", "hardlink"):
            _write(p, content)
            data[n] = content
            if kind == "hardlink":
                n2 = _b(f["name2"])
                os.link(p, os.path.join(wdir, n2))
                data[n2] = content
                used.add(n2)
            _setattrs(p, f)
        elif kind == "symlink":
            aux = AUX + b"%d" % i
            _write(os.path.join(wdir, aux), content)
            _setattrs(os.path.join(wdir, aux), f)
            data[aux] = content
            roles[aux] = "aux"
            os.symlink(aux, p)
        elif kind == "dangling":
            os.symlink(AUX + b"none%d" % i, p)
        elif kind == "symdir":
            aux = AUX + b"dir%d" % i
            os.mkdir(os.path.join(wdir, aux))
            roles[aux] = "aux"
            os.symlink(aux, p)
        elif kind == "fifo":
            os.mkfifo(p, 0o666)
            os.chmod(p, 0o666)
        elif kind == "dir":
            os.mkdir(p)
        elif kind == "missing":
            used.discard(n)
    for i, f in enumerate(scn["files"]):
        if not f.get("pre") or P["c"] or P["fatal"]:
            continue
        n = _b(f["name"])
        alts = comp_name_alts(n, P["fmt"], P["suffix"]) if P["mode"] == "c" else dec_name_alts(n, P["fmt"], P["suffix"])
        t = alts[0][0]
        if t is None or len(t) > NAME_MAX or t in used or os.path.lexists(os.path.join(wdir, t)):
            continue
        tp = os.path.join(wdir, t)
        used.add(t)
        if f["pre"] == "reg":
            d = b"PRE-EXISTING TARGET %d\n" % i * 40
            _write(tp, d)
            os.chmod(tp, 0o644)
            data[t] = d
        elif f["pre"] == "symlink":
            vic = AUX + b"victim%d" % i
            d = b"VICTIM BEHIND A SYMLINK %d\n" % i * 40
            _write(os.path.join(wdir, vic), d)
            data[vic] = d
            roles[vic] = "victim"
            os.symlink(vic, tp)
        elif f["pre"] == "dir":
            if P["f"]:
                used.discard(t)
                continue
            os.mkdir(tp)
        roles[t] = "pre"
        pres.add(t)
    return data, roles, pres


def _demote():
    os.setgroups([])
    os.setgid(N_GID)
    os.setuid(N_UID)


def build_argv(P, args, wdir, long_opts):
    L = long_opts
    argv = [base.tool("xz")]
    if P["mode"] == "d":
        argv.append("--decompress" if L else "-d")
    elif L:
        argv.append("--compress")
    if P["k"]:
        argv.append("--keep" if L else "-k")
    if P["f"]:
        argv.append("--force" if L else "-f")
    if P["c"]:
        argv.append("--stdout" if L else "-c")
    if P["Q"]:
        argv.append("--no-warn" if L else "-Q")
    for _ in range(P["q"]):
        argv.append("--quiet" if L else "-q")
    if P["fmt_arg"]:
        argv += ["--format=" + P["fmt_arg"]] if L else ["-F", P["fmt_arg"]]
        if P["fmt_arg"] == "raw":
            argv.append(RAW_FILTER)
    if P["suffix_arg"] is not None:
        argv += [b"--suffix=" + P["suffix_arg"]] if L else ["-S", P["suffix_arg"]]
    stdin = b""
    style = P["style"]
    if style == "files0":
        argv.append("--files0")
        stdin = b"".join(a + b"\0" for a in args)
    else:
        if style == "plain":
            argv.append("--")
        for a in args:
            if style == "abs":
                argv.append(os.path.join(wdir, a))
            elif style == "dot" or a == b"-":
                argv.append(b"./" + a)
            else:
                argv.append(a)
    return argv, stdin


def run_phase(S, wdir, P, args, st0, snap, long_opts):
    """Run one invocation and match it against the model.  Returns (matched outcomes, observation) or None when
    the scenario was abandoned / inconclusive."""
    fatal = P["fatal"]
    if fatal:
        combos = [(st0, [{"n": b"", "ev": "E", "why": fatal, "tname": None, "finding": None, "ok": False}])]
    else:
        combos = simulate(st0, args, P)
    argv, stdin = build_argv(P, args, wdir, long_opts)
    # A FIFO argument gets a writer (blocked in open() until somebody reads), so that a tool which wrongly reads from
    # it terminates and leaves evidence instead of waiting for ever; the correct tool never reads from it.
    writers = []
    for a in dict.fromkeys(args):
        if a in st0.names and st0.inos[st0.names[a]].kind == "fifo":
            writers.append(subprocess.Popen(["/bin/sh", "-c", 'exec echo C19-FIFO-DATA > "$1"', "sh", os.path.join(wdir, a)],
                                            stdin=subprocess.DEVNULL, stdout=subprocess.DEVNULL, stderr=subprocess.DEVNULL))
    try:
        rc, out, err = base.run_cmd(argv, stdin=stdin, env=base.clean_env(), cwd=wdir, timeout=TOOL_TIMEOUT,
                                    preexec_fn=_demote if P["runas"] == "nobody" else None)
    finally:
        for w in writers:
            w.kill()
            w.wait()
    if rc is None:
        S.inconclusive_count("timeout:xz")
        return None
    if rc < 0:
        raise base.Violation("C19:tool-crashed", f"xz died with signal {-rc}: {argv!r}")
    obs = scan(wdir, read=True)
    first = None
    for st_, outs in combos:
        if st_.abandon:
            S.count("abandoned:" + st_.abandon)
            return None
        D = compare(st_, outs, obs, snap, P, rc, out, err, bool(fatal))
        if not D:
            findings = sorted({o["finding"] for o in outs if o["finding"]})
            for sig in findings:
                if not S.known(sig):
                    x = next(o for o in outs if o["finding"] == sig)
                    raise base.Violation(sig, f"-S {_nm(P['suffix'])}: {_nm(x['n'])} was decompressed to {_nm(x['tname'])}: the built-in "
                                         f"suffix won over the longer custom suffix that xz itself appends when compressing "
                                         f"(argv {argv!r})")
            S.count(f"rc:{rc}")
            for o in outs:
                S.count(f"event:{o['ev']}:{o['why']}")
            return outs, obs
        if first is None:
            first = D[0]
    sig, reason = first
    raise base.Violation(sig, f"{reason} | argv {argv!r} rc={rc} stderr={err[:200]!r} ({len(combos)} model branches tried)")


def _phase(scn, which):
    fl = scn["flags"] if which == 1 else scn["second"]
    suffix = scn["suffix"]
    sb = _b(suffix) if suffix is not None else None
    if which == 1:
        mode, fmt_arg = scn["mode"], scn["format"]
    else:
        mode = "d"
        fmt_arg = None if (scn["second"].get("auto") and scn["format"] != "raw") else scn["format"]
    if mode == "c":
        fmt = fmt_arg or "xz"
    else:
        fmt = fmt_arg
    fatal = None
    if sb is not None and (sb == b"" or b"/" in sb):
        fatal = "invalid-suffix"          # "must be refused"
    elif fmt_arg == "raw" and sb is None and not fl.get("c"):
        fatal = "raw-needs-suffix"        # xz.1: with --format=raw the suffix must always be specified unless --stdout
    return {"fatal": fatal, "mode": mode, "fmt": fmt, "fmt_arg": fmt_arg, "suffix": sb if sb else None, "suffix_arg": sb,
            "k": bool(fl.get("k")), "f": bool(fl.get("f")), "c": bool(fl.get("c")), "Q": bool(fl.get("Q")),
            "q": int(fl.get("q", 0)), "runas": scn["runas"], "style": scn["style"] if which == 1 else fl.get("style", scn["style"]),
            "roundtrip": which == 2}


def _suffix_class(sb):
    if sb is None:
        return "none"
    if sb == b"" or b"/" in sb:
        return "invalid"
    bi = [s for s, _ in BUILTIN_DEC]
    if sb in bi:
        return "equals-builtin"
    if any(sb.endswith(s) for s in bi):
        return "ends-in-builtin"
    if any(s.endswith(sb) for s in bi):
        return "tail-of-builtin"
    return "dotted" if sb.startswith(b".") else "dotless"


def _name_classes(n, sb):
    cl = []
    rec = [s for s, _ in BUILTIN_DEC] + ([sb] if sb else [])
    if n in rec:
        cl.append("equals-suffix")
    if any(has_suffix(n, s) for s, _ in BUILTIN_DEC):
        cl.append("ends-builtin")
    if sb and has_suffix(n, sb):
        cl.append("ends-custom")
    partial = False
    for s in rec:
        for k in range(2, len(s)):
            if n.endswith(s[:k]):
                partial = True
    if partial:
        cl.append("ends-suffix-prefix")
    if n.startswith(b"-"):
        cl.append("leading-dash")
    if n.startswith(b"."):
        cl.append("leading-dot")
    try:
        n.decode("utf-8")
    except UnicodeDecodeError:
        cl.append("non-utf8")
    if any(c < 0x20 or c == 0x7f for c in n):
        cl.append("control-chars")
    if len(n) > 200:
        cl.append("long")
    return cl


def _valid(scn):
    names = []
    for f in scn["files"]:
        n = _b(f["name"])
        names.append(n)
        if f["kind"] == "hardlink":
            names.append(_b(f["name2"]))
    for n in names:
        if not n or len(n) > NAME_MAX or b"\0" in n or b"/" in n or n in (b".", b"..") or n.startswith(b"\x01"):
            return False
    if len(set(names)) != len(names):
        return False
    if scn["suffix"] is not None and "\0" in scn["suffix"]:
        return False
    if scn["flags"].get("c") and any(f["kind"] == "fifo" for f in scn["files"]):
        return False        # would wait for a writer
    return True


def oracle(scn, S):
    os.umask(0o022)
    if not _valid(scn):
        S.count("invalid-scenario")
        return
    P1 = _phase(scn, 1)
    sb = P1["suffix_arg"]
    top = S.fresh_dir()
    try:
        wdir = os.fsencode(os.path.join(top, "w"))
        os.mkdir(wdir)
        if scn["runas"] == "nobody":
            os.chown(wdir, N_UID, N_GID)
        os.chmod(wdir, 0o755)
        try:
            data, roles, pres = build(wdir, scn, P1)
        except Inconclusive as e:
            S.inconclusive_count(str(e))
            return
        # ---- class counters and the non-trivial rule
        S.count("runas:" + scn["runas"])
        S.count("mode:" + ("compress" if P1["mode"] == "c" else "decompress") + ("+roundtrip" if scn.get("second") else ""))
        S.count("format:" + str(P1["fmt_arg"]))
        S.count("suffix:" + _suffix_class(sb))
        S.count("style:" + P1["style"])
        S.count("files:%d" % len(scn["files"]))
        for k in ("k", "f", "c", "Q"):
            if P1[k]:
                S.count("flag:-" + k)
        if P1["q"]:
            S.count("flag:-" + "q" * P1["q"])
        nontrivial = bool(pres)
        for f in scn["files"]:
            S.count("kind:" + f["kind"])
            if P1["mode"] == "d":
                S.count("payload:" + f["payload"])
            cl = _name_classes(_b(f["name"]), sb if sb else None)
            for c in cl:
                S.count("name:" + c)
            if f["kind"] != "reg" or f["mode"] != 0o644:
                nontrivial = True
            if f["mode"] & 0o7000:
                S.count("mode:special-bits")
            if {"equals-suffix", "ends-builtin", "ends-custom", "ends-suffix-prefix"} & set(cl):
                nontrivial = True
            S.count("owner:%s:%s" % (f["uid"], f["gid"]))
        for t in pres:
            S.count("pre-existing-target")
        if nontrivial:
            S.nontrivial(scn, sample=scn)

        # ---- phase 1
        args = []
        for f in scn["files"]:
            args.append(_b(f["name"]))
            if f["kind"] == "hardlink" and f.get("arg2"):
                args.append(_b(f["name2"]))
            if f.get("dup"):
                args.append(_b(f["name"]))
        snap = scan(wdir, read=False)
        st0 = state_from_obs(snap, data=data, roles=roles)
        try:
            r = run_phase(S, wdir, P1, args, st0, snap, bool(scn.get("long")))
        except Inconclusive as e:
            S.inconclusive_count(str(e))
            return
        if r is None or not scn.get("second") or P1["c"]:
            return
        outs, obs = r
        if any(o["why"] in ("invalid-suffix", "raw-needs-suffix") for o in outs):
            return
        # ---- phase 2: decompress what phase 1 produced
        P2 = _phase(scn, 2)
        args2 = [o["tname"] if (o["ok"] and o["tname"]) else o["n"] for o in outs]
        snap2 = scan(wdir, read=False)
        if set(snap2) != set(obs):
            return
        for n, o in snap2.items():
            if o["kind"] == "reg":
                o["data"] = obs[n]["data"]
        st1 = state_from_obs(snap2)
        for iid in st1.names.values():
            st1.inos[iid].role = "bystander"
        S.count("phase2")
        for k in ("k", "f", "Q"):
            if P2[k]:
                S.count("flag2:-" + k)
        try:
            run_phase(S, wdir, P2, args2, st1, snap2, bool(scn.get("long")))
        except Inconclusive as e:
            S.inconclusive_count(str(e))
    finally:
        shutil.rmtree(top, ignore_errors=True)      # enough when running as root; S.rm_dir costs an extra process
        if os.path.lexists(top):
            S.rm_dir(top)


# ----------------------------------------------------------------------------------------------------------------
# generator
# ----------------------------------------------------------------------------------------------------------------

_SUFFIXES = [".foo", "foo", ".x", "x", "z", "xz", "a", "ma", "zma", "lzma", "lz", "txz", "tlz", ".xz", ".txz", ".lzma",
             ".tlz", ".lz", ".foo.xz", "-.xz", "foo.lzma", ".a.tlz", ".xz.foo", ".", "..", "-", "-k", " ", "\n", "\xff",
             ".\xe4", ".tar", "tar.xz"]
_BAD_SUFFIXES = ["", "a/b", "/", ".x/"]
_STEMS = [b"a", b"b", b"foo", b"a.tar", b"-", b"--", b"-k", b"-S", b"-d", b"-dc", b".", b"..", b" ", b"a b", b"\n", b"a\nb",
          b"\xff\xfe", b"\xe4\xf6", b"\xc3\xa4", b"", b"", b"x", b".x", b"-.", b"a.", b"a.x", b"a.l", b"a.lz", b"a.lzm", b"a.t",
          b"a.tx", b"a.tl", b"a.foo", b"*", b"$HOME", b"\\", b"'", b"\x7f", b"a.tar.", b"a.xz", b"a.lzma"]
_TAILS = [b"", b"", b"", b".xz", b".txz", b".lzma", b".tlz", b".lz", b".tar", b".XZ", b".Xz", b".LZMA", b".xz.xz", b".tar.xz",
          b".xz ", b".xzz", b"xz", b"lzma", b"z", b".x", b".lzm", b".tx", b".l", b".tl", b".", b".lz.xz", b".txz.lzma"]
_MODES = [0o644, 0o600, 0o000, 0o444, 0o666, 0o777, 0o755, 0o640, 0o604, 0o064, 0o4755, 0o2755, 0o1644, 0o6755, 0o7777, 0o4000,
          0o2644, 0o1777, 0o400, 0o004, 0o040, 0o1600, 0o1755, 0o1000, 0o2000, 0o4644, 0o2640, 0o660, 0o606, 0o751]


def _clean_name(b):
    b = bytes(c for c in b if c not in (0, 0x2f))[:NAME_MAX]
    if not b:
        b = b"a"
    if b in (b".", b".."):
        b = b + b"."
    if b[:1] == b"\x01":
        b = b"\x02" + b[1:]
    return b


# Strategies are created once (building them per draw dominated the run time); weighted choices are index draws
# into lists, which also shrink towards the first entry.
_INTS = {}


def _int(draw, hi):
    s = _INTS.get(hi)
    if s is None:
        s = _INTS[hi] = st.integers(0, hi)
    return draw(s)


def _pick(draw, seq):
    return seq[_int(draw, len(seq) - 1)]


_BIN_SHORT = st.binary(min_size=1, max_size=10)
_BIN_LONG = st.binary(min_size=236, max_size=252)
_BIN_SUF = st.binary(min_size=1, max_size=6)
_TXT = st.text(alphabet="abcXYZ019 .-_~", min_size=1, max_size=8)
_BUILTINS = [s for s, _ in BUILTIN_DEC]
_KINDS = ["reg"] * 14 + ["hardlink"] * 3 + ["symlink"] * 3 + ["dangling", "symdir", "dir", "missing"]
_PRES = [None] * 8 + ["reg", "reg", "symlink", "dir"]
_PAYLOAD_MATCH = {None: ["xz", "xz", "lzma", "lz"], "xz": ["xz"], "lzma": ["lzma"], "raw": ["raw"]}
_PAYLOAD_ANY = ["xz", "lzma", "raw", "lz", "plain", "empty", "trunc", "corrupt"]


def _name(draw, sb, mode, fmt):
    w = _int(draw, 19)
    if w < 12:
        stem = _pick(draw, _STEMS)
    elif w < 15:
        stem = draw(_BIN_SHORT)
    elif w < 19:
        stem = _b(draw(_TXT))
    else:
        stem = draw(_BIN_LONG)
    tails = _TAILS
    if sb:
        tails = _TAILS + [sb, sb, sb, sb + sb, sb[:-1], sb[1:], sb.upper(), b"." + sb, sb + b".xz"]
    tail = _pick(draw, tails)
    w = _int(draw, 9)
    if mode == "c" and w == 4:
        # a suffix of the target format: must be refused
        tail = _pick(draw, FORMAT_SUF[fmt or "xz"] + ([sb] if sb else []) or [b""])
    if w < 4:
        # keep a good share of names that are processed: no suffix when compressing, a recognised one when decompressing
        if mode == "c":
            tail = b""
        elif fmt == "raw":
            tail = sb or b""
        else:
            tail = _pick(draw, _BUILTINS + ([sb] * 3 if sb else []))
    if _int(draw, 19) >= 18:
        # a name that is exactly a recognised suffix
        return _clean_name(_pick(draw, _BUILTINS + ([sb] * 4 if sb else []))), True
    return _clean_name(stem + tail), False


def _file(draw, mode, sb, fmt, runas, cflag):
    name, is_suffix = _name(draw, sb, mode, fmt)
    kind = _pick(draw, _KINDS if cflag else _KINDS + ["fifo"])
    w = _int(draw, 4)
    fmode = 0o644 if w == 0 else _pick(draw, _MODES) if w <= 2 else _int(draw, 0o777) if w == 3 else _int(draw, 0o7777)
    if is_suffix and _int(draw, 2) > 0:
        kind, fmode = "reg", 0o644       # let the name be the only thing that is special about this file
    if runas == "root":
        uid = _pick(draw, ["0", "0", "N", "X"])
        gid = _pick(draw, ["0", "0", "N", "X"])
    else:
        uid = _pick(draw, ["N", "N", "N", "0", "X"])
        gid = _pick(draw, ["N", "N", "0", "X"])
    f = {"name": _s(name), "kind": kind, "mode": fmode, "uid": uid, "gid": gid,
         "ci": _int(draw, len(CONTENTS) - 1),
         "at": _int(draw, 4_000_000_000) * 1_000_000_000 + _int(draw, 999_999_999),
         "mt": _int(draw, 4_000_000_000) * 1_000_000_000 + _int(draw, 999_999_999),
         "pre": _pick(draw, _PRES),
         "dup": _int(draw, 19) == 19}
    if mode == "d":
        f["payload"] = _pick(draw, _PAYLOAD_MATCH[fmt] * 12 + _PAYLOAD_ANY)
    else:
        f["payload"] = None
    if kind == "hardlink":
        f["name2"] = _s(_name(draw, sb, mode, fmt)[0])
        f["arg2"] = _int(draw, 1) == 1
    return f


def _some_suffix(draw):
    if _int(draw, 2) < 2:
        return _pick(draw, _SUFFIXES)
    return _s(bytes(c for c in draw(_BIN_SUF) if c) or b"s")


@st.composite
def scenarios(draw):
    runas = _pick(draw, ["root", "root", "nobody"])
    mode = _pick(draw, ["c", "c", "d"])
    fmt = _pick(draw, [None, None, "xz", "lzma", "lzma", "raw"])
    if fmt == "raw" and _int(draw, 9) < 8:
        suffix = _some_suffix(draw)
    else:
        w = _int(draw, 29)
        suffix = None if w < 11 else _pick(draw, _BAD_SUFFIXES) if w == 29 else _some_suffix(draw)
    if suffix is not None and suffix not in _BAD_SUFFIXES and "/" in suffix and _int(draw, 3) > 0:
        suffix = suffix.replace("/", "_")
    sb = _b(suffix) if suffix else None
    flags = {"k": _int(draw, 2) == 2, "f": _int(draw, 2) == 2, "c": _int(draw, 6) == 6,
             "Q": _int(draw, 3) == 3, "q": _pick(draw, [0, 0, 0, 1, 2])}
    nfiles = _pick(draw, [1, 1, 2, 2, 3])
    files = []
    seen = set()
    for _ in range(nfiles):
        f = _file(draw, mode, sb, fmt, runas, flags["c"])
        names = [f["name"]] + ([f["name2"]] if f["kind"] == "hardlink" else [])
        if len(set(names)) != len(names) or seen & set(names):
            continue
        seen |= set(names)
        files.append(f)
    if not files:
        f = _file(draw, mode, sb, fmt, runas, flags["c"])
        if f["kind"] == "hardlink" and f["name2"] == f["name"]:
            f["kind"] = "reg"
        files.append(f)
    scn = {"runas": runas, "mode": mode, "format": fmt, "suffix": suffix, "flags": flags,
           "style": _pick(draw, ["plain", "plain", "dot", "abs", "files0"]),
           "long": _int(draw, 1) == 1, "files": files, "second": None}
    if mode == "c" and not flags["c"] and _int(draw, 3) > 0:
        scn["second"] = {"k": _int(draw, 1) == 1, "f": _int(draw, 2) == 2, "Q": _int(draw, 3) == 3,
                         "q": _pick(draw, [0, 0, 0, 1]), "auto": _int(draw, 1) == 1,
                         "style": _pick(draw, ["plain", "dot", "abs", "files0"])}
    return scn


if __name__ == "__main__":
    raise SystemExit(base.main("c19", scenarios, oracle, budgets={"quick": 2500, "thorough": 30000}))
