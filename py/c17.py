"""C17 - xz never loses user data when I/O fails, a signal arrives or the process dies.

Engine: Hypothesis scenario -> (mode, options, file contents, fault kinds).  For every scenario
  1. build a template directory (sources, optional pre-existing target, bystander files, --files list);
  2. run xz once under shim/faultio.so WITHOUT a plan: trace -> K fault points, baseline end state, ORDER invariant;
  3. for each fault kind of the scenario ENUMERATE k in 1..K (all k when K <= ENUM_ALL or on the thorough tier,
     otherwise every non-bulk call + a Hypothesis-drawn sample of the bulk read/write calls), each in a fresh copy of
     the template with FAULT_PLAN="<k>:<action>";
  4. judge the END STATE of the directory after the process is gone (file-system invariant) and the ORDER invariant
     of every trace.
Verdicts never depend on wall clock time: a timeout is counted as inconclusive.  The enumeration is spread over a
fork pool; results are evaluated in the parent in task order, so the outcome is a function of the seed."""
import atexit
import errno
import hashlib
import json
import lzma
import multiprocessing
import os
import random
import shutil
import signal
import subprocess
import sys

from hypothesis import strategies as st

from py import base

SHIM = os.path.join(base.SHIM_DIR, "faultio.so")
LIBDEC = os.path.join(base.SHIM_DIR, "libdec")
ENUM_ALL = 64          # traces up to this length are enumerated completely on the quick tier
SAMPLE_CAP = 64        # quick tier: number of fault points per (scenario, fault kind) for longer traces
RUN_TIMEOUT = int(os.environ.get("C17_TIMEOUT", "30"))      # watchdog only (an xz run takes milliseconds); hitting it => inconclusive
SIGNAL_SLACK = 4       # data calls (read>0 on a source, write>0 on a target/stdout) xz may still make after a signal
DEBUG = bool(os.environ.get("C17_DEBUG"))
TIER = "quick"
for _i, _a in enumerate(sys.argv):
    if _a == "--tier" and _i + 1 < len(sys.argv):
        TIER = sys.argv[_i + 1]
    elif _a.startswith("--tier="):
        TIER = _a.split("=", 1)[1]
JOBS = int(os.environ.get("VERIF_JOBS", "0")) or (min(16, os.cpu_count() or 1) if TIER == "thorough" else min(4, os.cpu_count() or 1))

SIGNUM = {"INT": signal.SIGINT, "TERM": signal.SIGTERM, "HUP": signal.SIGHUP, "PIPE": signal.SIGPIPE}
CRASH_SIGNALS = {signal.SIGSEGV, signal.SIGABRT, signal.SIGBUS, signal.SIGILL, signal.SIGFPE}
NAMES = ["a", "data.bin", "x y.txt", "fü", "log.1", "b", "-dash"]
SUFFIX = {"xz": ".xz", "lzma": ".lzma"}
PRE_TARGET = b"PRE-EXISTING TARGET, NOT A COMPRESSED FILE\n" * 7
BYSTANDER = b"bystander file: must never change\n" * 3
STDOUT_PREFIX = b"earlier content of the output file\n"
CHECKS = {"crc32": lzma.CHECK_CRC32, "crc64": lzma.CHECK_CRC64, "sha256": lzma.CHECK_SHA256}

# Calls whose failure xz must treat as a failure of the file (property text: read, write, seek, sync, close of the
# target; plus open).  Everything else (fchown/fchmod/futimens/posix_fadvise: warning-only or ignored by design,
# close of a read-only source or of the directory descriptor, fcntl, unlink) may end either way, consistently.
MUST_FAIL = {("read", "source"), ("write", "target"), ("write", "stdout"), ("lseek", "target"), ("fsync", "target"),
             ("fsync", "dir"), ("close", "target"), ("open", "source"), ("open", "target"), ("open", "dir")}


# ----------------------------------------------------------------------------------------------- contents and inputs
def make_content(rec):
    kind, size, seed = rec["kind"], rec["size"], rec["seed"]
    rnd = random.Random(seed)
    if size == 0:
        return b""
    if kind == "random":
        return rnd.randbytes(size)
    if kind == "text":
        words = [b"alpha", b"beta", b"gamma", b"delta", b"xz", b"lzma", b"0123456789", b"\n", b" ", b"the quick brown fox"]
        out = bytearray()
        while len(out) < size:
            out += rnd.choice(words) + b" "
        return bytes(out[:size])
    if kind == "sparse-tail":
        # a whole number of 8 KiB I/O buffers whose last ones are all zero: decompression ends with a pending hole that xz
        # materialises at close time by seeking and writing one final zero byte (file_io.c, io_close)
        m = max(2, size // 8192)
        a = rnd.randrange(0, m)
        return rnd.randbytes(8192 * a) + bytes(8192 * (m - a))
    # "sparse": runs of zero bytes (multiples of the 8 KiB I/O buffer and odd ones) between data runs
    out = bytearray()
    zero = rnd.random() < 0.5
    while len(out) < size:
        n = rnd.choice([100, 4096, 8192, 8192, 16384, 24576, 40000])
        out += bytes(n) if zero else rnd.randbytes(min(n, 9000))
        zero = not zero
    return bytes(out[:size])


def sha(b):
    return hashlib.sha1(b).hexdigest()


def scn_hash(scn):
    core = {k: v for k, v in scn.items() if k not in ("faults", "picks")}
    return hashlib.sha1(json.dumps(core, sort_keys=True).encode()).hexdigest()[:12]


def family(scn):
    """Coarse scenario family for the evidence file (K statistics are kept per family)."""
    f = scn["mode"]
    if scn["stdout"]:
        f += "-c"
    if len(scn["contents"]) > 1:
        f += "+2files"
    if scn["damage"]:
        f += "+damaged"
    return f


def options(scn):
    o = ["fmt:" + scn["fmt"], "threads:" + ("default" if not scn["threads"] else "T%d" % scn["threads"])]
    if scn["stdout"]:
        o.append("opt:-c:" + scn["stdout"])
    if scn["via_files"]:
        o.append("opt:--files")
    if scn["pre_target"]:
        o.append("opt:-f+existing-target" if scn["force"] else "existing-target-refused")
    elif scn["force"]:
        o.append("opt:-f")
    if scn["keep"]:
        o.append("opt:-k")
    if scn["nosync"]:
        o.append("opt:--no-sync")
    if scn.get("ignored"):
        o.append("inherited-ignored:" + "+".join(scn["ignored"]))
    if scn.get("warn_operand"):
        o.append("warning-only-operand" + ("+-Q" if scn.get("no_warn") else ""))
    if scn.get("verbose"):
        o.append("opt:-v")
    if scn["abs"]:
        o.append("opt:absolute-paths")
    if scn["damage"]:
        o.append("input:" + scn["damage"]["kind"])
    return o


def compress_input(scn, plain, i):
    """Compressed input for a decompression scenario, made independently of the tree under test (Python's lzma =
    the system liblzma); a multi-Block file with Block sizes for the threaded decoder is made with the xz under test
    and accepted only if the system liblzma decodes it back to the plain text."""
    if scn["fmt"] == "lzma":
        return lzma.compress(plain, format=lzma.FORMAT_ALONE, preset=scn["preset"] % 2)
    if scn["threads"] == 4 and len(plain) > 40000:
        rc, out, _ = base.run_cmd([base.tool("xz"), "-T2", "--block-size=32768", "-0", "-c", "--check=" + scn["check"]], stdin=plain,
                                  env=base.clean_env(), timeout=RUN_TIMEOUT)
        try:
            if rc == 0 and lzma.decompress(out, format=lzma.FORMAT_XZ) == plain:
                return out
        except lzma.LZMAError:
            pass
    return lzma.compress(plain, format=lzma.FORMAT_XZ, check=CHECKS[scn["check"]], preset=scn["preset"] % 2)


def apply_damage(dmg, data):
    if not data:
        return data
    if dmg["kind"] == "truncate":
        return data[:dmg["num"] * len(data) // 10000]
    pos = dmg["num"] * len(data) // 10000
    b = bytearray(data)
    b[pos] ^= 1 << dmg["bit"]
    return bytes(b)


# ------------------------------------------------------------------------------------------------------ plan of a scenario
class Plan:
    """Everything derived deterministically from the scenario: names, bytes, command line, expectations."""

    def __init__(self, scn):
        self.scn = scn
        self.hash = scn_hash(scn)
        self.family = family(scn)
        n = len(scn["contents"])
        self.plains = [make_content(c) for c in scn["contents"]]
        self.names = list(scn["names"][:n])
        suf = SUFFIX[scn["fmt"]]
        self.src_names, self.tgt_names, self.src_bytes = [], [], []
        for i in range(n):
            if scn["mode"] == "compress":
                self.src_names.append(self.names[i])
                self.tgt_names.append(self.names[i] + suf)
                self.src_bytes.append(self.plains[i])
            else:
                data = compress_input(scn, self.plains[i], i)
                if scn["damage"] and i == 0:
                    data = apply_damage(scn["damage"], data)
                self.src_names.append(self.names[i] + suf)
                self.tgt_names.append(self.names[i])
                self.src_bytes.append(data)
        self.src_sha = [sha(b) for b in self.src_bytes]
        self.to_stdout = bool(scn["stdout"])
        # which pairs are expected to be processed successfully in a fault free run
        self.expect_done = [True] * n
        if scn["damage"]:
            self.expect_done[0] = False
        if scn["pre_target"] and not scn["force"] and not self.to_stdout:
            self.expect_done[0] = False
        self.files = {}  # template: name -> bytes
        for i in range(n):
            self.files[self.src_names[i]] = self.src_bytes[i]
        if scn["pre_target"]:
            self.files[self.tgt_names[0]] = PRE_TARGET
        self.files["zz-bystander"] = BYSTANDER
        self.files["zz-bystander.xz"] = BYSTANDER
        if scn["via_files"]:
            self.files["zz-list"] = b"".join(self.arg_name(i).encode() + b"\n" for i in range(n)) + (b"zz-dir\n" if scn.get("warn_operand") else b"")

    def arg_name(self, i, w="@W@"):
        return os.path.join(w, self.src_names[i]) if self.scn["abs"] else self.src_names[i]

    def argv(self, w):
        s = self.scn
        a = [base.tool("xz")]
        if s["mode"] == "decompress":
            a.append("-d")
        else:
            a.append("-%d" % s["preset"])
            if s["fmt"] == "lzma":
                a.append("--format=lzma")
            elif s["check"] != "crc64":
                a.append("--check=" + s["check"])
            if s["threads"] == 4:
                a.append("--block-size=32768")
        if s["keep"]:
            a.append("-k")
        if s["force"]:
            a.append("-f")
        if s["stdout"]:
            a.append("-c")
        if s["nosync"]:
            a.append("--no-sync")
        if s["threads"]:
            a.append("-T%d" % s["threads"])
        if s.get("no_warn"):
            a.append("-Q")
        if s.get("verbose"):
            a.append("-v")
        if s["via_files"]:
            a.append("--files=zz-list")
        else:
            a.append("--")
            a += [self.arg_name(i, w) for i in range(len(self.src_names))]
        if s.get("warn_operand"):
            a.append("zz-dir")          # a directory: xz warns ("Is a directory, skipping") and goes on; status 2, or 0 with -Q
        return a

    def roles(self, w):
        r = []
        for i in range(len(self.src_names)):
            for base_dir in ("", w):
                r.append("source%d=%s" % (i, os.path.join(base_dir, self.src_names[i])))
                r.append("target%d=%s" % (i, os.path.join(base_dir, self.tgt_names[i])))
        r.append("dir=.")
        r.append("dir=" + w)
        return "|".join(r)


# ------------------------------------------------------------------------------------------------------ one run (worker)
def _snapshot(w):
    snap = {}
    for name in sorted(os.listdir(w)):
        p = os.path.join(w, name)
        st_ = os.lstat(p)
        if not os.path.isfile(p) or os.path.islink(p):
            snap[name] = ("special", 0, st_.st_mode)
            continue
        with open(p, "rb") as f:
            data = f.read()
        snap[name] = (sha(data), len(data), st_.st_mode & 0o7777)
    return snap


def run_one(task):
    """Executed in a pool worker (or inline).  task: dict(rundir, tmpl, argv, roles, plan, stdout, known, files_list)."""
    d = task["rundir"]
    w = os.path.join(d, "w")
    os.makedirs(w)
    for name in os.listdir(task["tmpl"]):
        shutil.copy2(os.path.join(task["tmpl"], name), os.path.join(w, name))
    os.mkdir(os.path.join(w, "zz-dir"))
    ignored = [getattr(signal, "SIG" + n) for n in task.get("ignored", [])]

    def pre():          # signals the invoking environment left ignored (a background job: INT/QUIT, nohup: HUP); xz keeps ignoring them
        for sg in ignored:
            signal.signal(sg, signal.SIG_IGN)
    prefn = pre if ignored else None
    if task.get("list_abs"):
        with open(os.path.join(w, "zz-list"), "rb") as f:
            data = f.read()
        with open(os.path.join(w, "zz-list"), "wb") as f:
            f.write(data.replace(b"@W@", w.encode()))
    log = os.path.join(d, "trace.log")
    env = base.clean_env({"LD_PRELOAD": SHIM, "FAULT_LOG": log, "FAULT_ROLES": task["roles"].replace("@W@", w),
                          "ASAN_OPTIONS": "detect_leaks=0"})
    if task["plan"]:
        env["FAULT_PLAN"] = task["plan"]
    argv = [a.replace("@W@", w) for a in task["argv"]]
    before = _snapshot(w)
    outpath = os.path.join(d, "STDOUT")
    so = task["stdout"]
    res = {"plan": task["plan"], "k": task.get("k"), "kind": task.get("kind"), "timeout": False}
    try:
        if so == "pipe":
            p = subprocess.run(argv, stdin=subprocess.DEVNULL, stdout=subprocess.PIPE, stderr=subprocess.PIPE, env=env, cwd=w, timeout=RUN_TIMEOUT, preexec_fn=prefn)
            with open(outpath, "wb") as f:
                f.write(p.stdout)
        elif so in ("file", "append"):
            if so == "append":
                with open(outpath, "wb") as f:
                    f.write(STDOUT_PREFIX)
            fd = os.open(outpath, os.O_WRONLY | os.O_CREAT | (os.O_APPEND if so == "append" else os.O_TRUNC), 0o644)
            try:
                p = subprocess.run(argv, stdin=subprocess.DEVNULL, stdout=fd, stderr=subprocess.PIPE, env=env, cwd=w, timeout=RUN_TIMEOUT, preexec_fn=prefn)
            finally:
                os.close(fd)
        else:
            p = subprocess.run(argv, stdin=subprocess.DEVNULL, stdout=subprocess.PIPE, stderr=subprocess.PIPE, env=env, cwd=w, timeout=RUN_TIMEOUT, preexec_fn=prefn)
            res["stray_stdout"] = len(p.stdout)
        res["rc"] = p.returncode
        res["stderr"] = p.stderr.decode(errors="replace")[-600:]
    except subprocess.TimeoutExpired as e:
        # watchdog only: never a verdict (the caller counts it as inconclusive)
        res["timeout"] = True
        res["rc"] = None
        res["stderr"] = ""
        if so == "pipe":
            with open(outpath, "wb") as f:
                f.write(e.stdout or b"")
        print("C17 watchdog: xz did not finish within %d s: plan=%s argv=%s" % (RUN_TIMEOUT, task["plan"], argv), file=sys.stderr)
    try:
        with open(log, "r", errors="replace") as f:
            res["trace"] = f.read()
    except OSError:
        res["trace"] = ""
    res["before"] = before
    res["after"] = _snapshot(w)
    res["w"] = w
    res["out"] = None
    if so:
        with open(outpath, "rb") as f:
            data = f.read()
        res["out"] = (sha(data), len(data))
    known = task["known"]
    keep = (res["out"] is not None and res["out"][0] not in known)
    for name in task["targets"]:
        e = res["after"].get(name)
        if e is not None and e[0] not in known:
            keep = True
    res["kept"] = keep
    if not keep:
        shutil.rmtree(d, ignore_errors=True)
    return res


_pool = None


def pool():
    global _pool
    if _pool is None and JOBS > 1:
        _pool = multiprocessing.get_context("fork").Pool(JOBS)
        atexit.register(_pool.terminate)
    return _pool


def run_many(tasks):
    if len(tasks) > 1 and pool() is not None:
        return pool().map(run_one, tasks, chunksize=max(1, len(tasks) // (JOBS * 4)))
    return [run_one(t) for t in tasks]


# ------------------------------------------------------------------------------------------------------------- traces
def parse_trace(text):
    by_idx = {}
    for ln in text.splitlines():
        f = ln.split(" ", 7)
        if len(f) < 8:
            continue
        try:
            # the last line per index wins (signal actions write a provisional line before sending the signal)
            by_idx[int(f[0])] = {"i": int(f[0]), "name": f[1], "role": f[2], "arg": int(f[3]), "res": None if f[4] == "?" else int(f[4]),
                                 "err": int(f[5]), "act": f[6], "path": f[7]}
        except ValueError:
            continue
    return [by_idx[i] for i in sorted(by_idx)]


def role_kind(role):
    r = role.rstrip("0123456789")
    return r, (int(role[len(r):]) if len(role) > len(r) else None)


def fmt_trace(tr, around=None, width=14):
    ent = tr
    if around is not None:
        ent = [e for e in tr if abs(e["i"] - around) <= width]
    return " | ".join("%d %s(%s)%s=%s%s%s" % (e["i"], e["name"], e["role"], "" if e["name"] not in ("read", "write", "lseek") else "[%d]" % e["arg"],
                                               "?" if e["res"] is None else e["res"], "" if not e["err"] else "/errno%d" % e["err"],
                                               "" if e["act"] == "-" else " <<" + e["act"][1:] + ">>") for e in ent)


def check_order(tr, scn, ctx):
    """ORDER invariant: unlink(source_i) only after every write(target_i) succeeded, fsync(target_i) and fsync(dir)
    succeeded after the last write / after the target was created (unless --no-sync), fchmod and futimens were
    attempted and close(target_i) returned 0."""
    pairs = {}

    def P(i):
        return pairs.setdefault(i, {"open": False})

    for e in tr:
        kind, idx = role_kind(e["role"])
        ok = e["res"] is not None and e["res"] >= 0
        if kind == "target" and idx is not None:
            p = P(idx)
            n = e["name"]
            if n == "open":
                if ok:
                    pairs[idx] = {"open": True, "closed": False, "wfail": False, "fsync": False, "dsync": False, "sfail": False,
                                  "fchmod": False, "futimens": False, "cfail": False}
            elif not p.get("open"):
                continue
            elif n == "write":
                if e["res"] is not None and e["res"] < 0:
                    if e["err"] not in (errno.EINTR, errno.EAGAIN):
                        p["wfail"] = True
                else:
                    p["fsync"] = False
            elif n == "lseek":
                if not ok:
                    p["wfail"] = True
                else:
                    p["fsync"] = False
            elif n in ("fsync", "fdatasync"):
                if e["res"] == 0:
                    p["fsync"] = True
                else:
                    p["sfail"] = True
            elif n in ("fchmod", "futimens"):
                p[n] = True
            elif n == "close":
                if e["res"] == 0:
                    p["closed"] = True
                else:
                    p["cfail"] = True
            elif n == "unlink" and ok:
                p["open"] = False
        elif kind == "dir" and e["name"] in ("fsync", "fdatasync"):
            for p in pairs.values():
                if p.get("open") and not p.get("closed"):
                    if e["res"] == 0:
                        p["dsync"] = True
                    else:
                        p["sfail"] = True
        elif kind == "source" and idx is not None and e["name"] == "unlink":
            p = P(idx)
            where = "%s; trace around call %d: %s" % (ctx, e["i"], fmt_trace(tr, e["i"]))
            if scn["keep"] or scn["stdout"]:
                raise base.Violation("C17:order-unlink-with-keep", "source unlinked although -k/-c was given; " + where)
            if not p.get("open"):
                raise base.Violation("C17:order-unlink-without-target", "source unlinked while no target exists; " + where)
            if p["wfail"]:
                raise base.Violation("C17:order-unlink-after-failed-write", "source unlinked after a failed write/seek on the target; " + where)
            if p["sfail"]:
                raise base.Violation("C17:order-unlink-after-failed-sync", "source unlinked after a failed fsync of the target or its directory; " + where)
            if p["cfail"] or not p["closed"]:
                raise base.Violation("C17:order-unlink-before-close", "source unlinked before close(target) returned 0; " + where)
            if not scn["nosync"] and not (p["fsync"] and p["dsync"]):
                raise base.Violation("C17:order-missing-fsync", "source unlinked without a successful fsync(target) after the last write and fsync(directory) "
                                     "after creating the target (fsync=%s dir=%s); %s" % (p["fsync"], p["dsync"], where))
            if not (p["fchmod"] and p["futimens"]):
                raise base.Violation("C17:order-missing-metadata", "source unlinked although fchmod/futimens were not attempted on the target; " + where)


# ------------------------------------------------------------------------------------------------------------- validity
class Inconclusive(Exception):
    """A watchdog fired somewhere: the scenario is abandoned and counted, never judged."""


class Judge:
    def __init__(self, plan, S, scratch):
        self.plan, self.S, self.scratch = plan, S, scratch
        self.cache = {}
        self.seq = 0

    def _libdec(self, path, expect):
        fmt = self.plan.scn["fmt"]
        out = os.path.join(self.scratch, "dec-%d.out" % self.seq)
        self.seq += 1
        rc, so, se = base.run_cmd([LIBDEC] + (["alone", "none"] if fmt == "lzma" else ["stream", "concatenated"]) + [path, out],
                                  env=base.clean_env({"ASAN_OPTIONS": "detect_leaks=0"}), timeout=RUN_TIMEOUT)
        if rc is None:
            raise Inconclusive("timeout-libdec")  # watchdog: no verdict
        if rc != 0:
            raise RuntimeError("libdec helper failed (rc=%s): %s scenario=%s" % (rc, (so + se)[-600:], json.dumps(self.plan.scn)))
        ok = False
        try:
            if rc == 0:
                j = json.loads(so.decode().strip().splitlines()[-1])
                if j.get("ret") == 1 and j.get("total_in") == j.get("in_size"):
                    with open(out, "rb") as f:
                        ok = f.read() == expect
        except (ValueError, OSError, IndexError):
            ok = False
        try:
            os.unlink(out)
        except OSError:
            pass
        self.S.count("libdec_calls")
        return ok

    def target_valid(self, i, entry, w):
        """entry = (sha, size, mode) of target i found in run directory w."""
        key = (i, entry[0])
        if key not in self.cache:
            if self.plan.scn["mode"] == "decompress":
                self.cache[key] = entry[0] == sha(self.plan.plains[i]) and entry[1] == len(self.plan.plains[i])
            elif entry[1] == 0 or entry[0] == sha(self.plan.plains[i]):
                # an empty file, or a file identical to the plaintext, is not a compressed file (and its run directory may already be
                # gone: the workers discard directories whose target bytes are "known", which includes the plaintexts)
                self.cache[key] = False
            else:
                self.cache[key] = self._libdec(os.path.join(w, self.plan.tgt_names[i]), self.plan.plains[i])
        return self.cache[key]

    def stdout_valid(self, out, rundir, upto=None):
        """Whole standard output == the expected stream for pairs [0, upto)."""
        n = len(self.plan.plains) if upto is None else upto
        key = ("out", out[0], n)
        if key not in self.cache:
            prefix = STDOUT_PREFIX if self.plan.scn["stdout"] == "append" else b""
            want = b"".join(self.plan.plains[:n])
            path = os.path.join(rundir, "STDOUT")
            if self.plan.scn["mode"] == "decompress":
                self.cache[key] = out[1] == len(prefix) + len(want) and out[0] == sha(prefix + want)
            else:
                ok = False
                try:
                    with open(path, "rb") as f:
                        data = f.read()
                    if data.startswith(prefix) and len(data) > len(prefix):
                        body = os.path.join(self.scratch, "body-%d.bin" % self.seq)
                        self.seq += 1
                        with open(body, "wb") as f:
                            f.write(data[len(prefix):])
                        ok = self._libdec(body, want)
                        os.unlink(body)
                except OSError:
                    ok = False
                self.cache[key] = ok
        return self.cache[key]


# ------------------------------------------------------------------------------------------------------------- verdict
def describe(plan, res, tr, fired):
    return ("family=%s argv=%s plan=%s rc=%s stderr=%r; trace%s: %s" % (
        plan.family, " ".join(plan.argv("W")[1:]), res["plan"], res["rc"], res["stderr"][-300:],
        "" if fired is None else " around the fault (call %d)" % fired["i"], fmt_trace(tr, fired["i"] if fired else None, 12) if (fired or len(tr) < 60) else fmt_trace(tr[-30:])))


def evaluate(plan, judge, S, res, baseline=False):
    """Judge one finished run.  Raises base.Violation."""
    scn = plan.scn
    tr = parse_trace(res["trace"])
    fired = next((e for e in tr if e["act"] != "-"), None)
    kind = res.get("kind") or ""
    rc = res["rc"]
    rundir = os.path.dirname(res["w"])
    is_kill = kind.startswith("kill")
    is_signal = kind.startswith("signal=") or kind.startswith("sigerr=")
    signame = kind.split("=", 1)[1].split(",")[0] if is_signal else None
    if kind.startswith("sigerr=") and signame in scn.get("ignored", []):
        # the signal itself is ignored by inheritance; what remains is a call that failed with the given errno
        kind = "errno=" + (kind.split(",", 1)[1] if "," in kind else "EINTR")
        is_signal, signame = False, None
    why = lambda: describe(plan, res, tr, fired)  # noqa: E731

    check_order(tr, scn, "plan=%s family=%s" % (res["plan"], plan.family))

    before, after = res["before"], res["after"]
    own = set(plan.src_names) | (set() if plan.to_stdout else set(plan.tgt_names))
    # R3: nothing outside {S, T} created or changed
    for name in set(before) | set(after):
        if name in own:
            continue
        if before.get(name) != after.get(name):
            raise base.Violation("C17:foreign-file-changed", "file %r outside {source, target} changed: before=%s after=%s; %s" % (name, before.get(name), after.get(name), why()))
    if plan.to_stdout:
        for name in plan.tgt_names:
            if before.get(name) != after.get(name):
                raise base.Violation("C17:foreign-file-changed", "with -c the file %r was created/changed: before=%s after=%s; %s" % (name, before.get(name), after.get(name), why()))

    n = len(plan.src_names)
    s_state, t_state = [], []
    for i in range(n):
        s = after.get(plan.src_names[i])
        if s is None:
            s_state.append("missing")
        elif s[0] == plan.src_sha[i] and s[1] == len(plan.src_bytes[i]):
            s_state.append("intact")
        else:
            s_state.append("changed")
        if plan.to_stdout:
            t_state.append("n/a")
            continue
        t = after.get(plan.tgt_names[i])
        if t is None:
            t_state.append("absent")
        elif i == 0 and scn["pre_target"] and t[0] == sha(PRE_TARGET):
            t_state.append("pre")
        elif plan.expect_done[i] and judge.target_valid(i, t, res["w"]):
            t_state.append("valid")
        else:
            t_state.append("invalid")
    state = "S=%s T=%s" % (s_state, t_state)

    # R1/R2: the source
    for i in range(n):
        if s_state[i] == "changed":
            raise base.Violation("C17:source-changed", "source %d was modified (%s); %s" % (i, state, why()))
        if s_state[i] == "missing":
            if scn["keep"] or plan.to_stdout:
                raise base.Violation("C17:source-lost", "source %d removed although -k/-c was given (%s); %s" % (i, state, why()))
            if t_state[i] != "valid":
                raise base.Violation("C17:source-lost", "source %d is gone and the target is %s (%s); %s" % (i, t_state[i], state, why()))

    # per pair: done / untouched
    out_valid = None
    if plan.to_stdout:
        out_valid = all(plan.expect_done) and judge.stdout_valid(res["out"], rundir)
        done = [bool(out_valid)] * n
    else:
        done = [t_state[i] == "valid" and (s_state[i] == "missing" or scn["keep"]) for i in range(n)]
    all_done = all(done)

    ignored_signal = bool(fired) and kind.startswith("signal=") and signame in scn.get("ignored", [])
    if ignored_signal:
        S.count("signal_ignored_by_inheritance_must_change_nothing")
    ok_status = (0 if scn.get("no_warn") else 2) if scn.get("warn_operand") else 0
    if baseline or fired is None or ignored_signal:
        # fault free (or a signal that the environment told xz to ignore): the expected outcome exactly
        for i in range(n):
            if plan.to_stdout:
                continue
            if plan.expect_done[i] and not done[i]:
                raise base.Violation("C17:baseline-not-done", "fault free run did not complete pair %d (%s); %s" % (i, state, why()))
            if not plan.expect_done[i] and (s_state[i] != "intact" or t_state[i] not in ("absent", "pre")):
                raise base.Violation("C17:invalid-input-accepted", "pair %d must be refused (damaged input or existing target): %s; %s" % (i, state, why()))
        if all(plan.expect_done):
            if plan.to_stdout and not out_valid:
                raise base.Violation("C17:baseline-not-done", "fault free run with -c did not produce the expected stream; %s" % why())
            if rc != ok_status:
                raise base.Violation("C17:baseline-not-done", "fault free run exits %s (expected %s); %s" % (rc, ok_status, why()))
        elif rc != 1:
            raise base.Violation("C17:status-zero-after-error", "input %s but exit status %s (expected 1); %s" % ("damaged" if scn["damage"] else "refused", rc, why()))
        return tr, fired, "baseline" if not ignored_signal else "signal:ignored-by-inheritance"

    if rc is not None and rc < 0 and -rc in CRASH_SIGNALS:
        raise base.Violation("C17:crash", "xz died by signal %d after the injected fault (%s); %s" % (-rc, state, why()))

    if is_kill:
        # only R1-R3 (checked above); an incomplete target may remain
        return tr, fired, "killed:" + ("done" if all_done else "partial")

    # R4: no incomplete target may be left behind
    for i in range(n):
        if t_state[i] == "invalid" and fired["name"] == "unlink" and fired["role"] == "target%d" % i and fired["res"] is not None and fired["res"] < 0:
            # the injected fault made the removal of the incomplete target itself fail: nothing xz could do but
            # report it (source intact is checked above, a non-zero status below)
            S.count("cleanup-unlink-failed-by-injection")
            continue
        if t_state[i] == "invalid":
            raise base.Violation("C17:incomplete-target-left", "target %d exists but is not a complete valid file (%s); %s" % (i, state, why()))
        if not plan.expect_done[i] and t_state[i] == "valid":
            raise base.Violation("C17:incomplete-target-left", "target %d created from an input that must be refused (%s); %s" % (i, state, why()))

    hk, hidx = role_kind(fired["role"])
    cur = hidx
    if cur is None:
        # the pair being processed = most recently opened source
        for e in tr:
            if e["i"] >= fired["i"]:
                break
            k2, i2 = role_kind(e["role"])
            if k2 == "source" and e["name"] == "open" and i2 is not None:
                cur = i2
    hard_errno = None
    if kind.startswith("errno="):
        hard_errno = kind.split("=", 1)[1]
    elif kind.startswith("sigerr="):
        hard_errno = kind.split(",", 1)[1] if "," in kind else "EINTR"
    must_fail = hard_errno is not None and hard_errno not in ("EINTR", "EAGAIN") and (fired["name"], hk) in MUST_FAIL and cur is not None \
        and fired["res"] is not None and fired["res"] < 0

    if must_fail:
        if not plan.to_stdout:
            if s_state[cur] != "intact" or t_state[cur] not in ("absent", "pre"):
                raise base.Violation("C17:target-kept-after-error", "%s(%s) failed with %s but pair %d ends as %s (source must stay, target must be removed); %s"
                                     % (fired["name"], fired["role"], hard_errno, cur, state, why()))
        if rc == 0:
            raise base.Violation("C17:status-zero-after-error", "%s(%s) failed with %s but xz exits 0 (%s); %s" % (fired["name"], fired["role"], hard_errno, state, why()))

    if is_signal:
        signum = int(SIGNUM[signame])
        if not all_done and rc == 0:
            raise base.Violation("C17:status-zero-after-signal", "SIG%s delivered, work not completed (%s) but exit status 0; %s" % (signame, state, why()))
        if True:     # (also when another pair of the invocation was expected to fail: what counts is that xz went on moving data after the signal)
            later = [e for e in tr if e["i"] >= fired["i"] and e["res"] is not None and e["res"] > 0 and
                     ((e["name"] == "read" and role_kind(e["role"])[0] == "source") or (e["name"] == "write" and role_kind(e["role"])[0] in ("target", "stdout")))]
            if len(later) > SIGNAL_SLACK:
                raise base.Violation("C17:signal-ignored", "SIG%s was delivered before call %d, yet xz made %d further data reads/writes and completed the operation "
                                     "(rc=%s, %s) instead of removing the target and keeping the source; %s" % (signame, fired["i"], len(later), rc, state, why()))
        outcome = "signal:" + ("completed" if all_done else "aborted") + (":died" if rc == -signum else ":status%s" % rc)
        return tr, fired, outcome

    # error kinds (errno / eintr / eagain-once / short)
    if not all_done and rc == 0 and scn.get("no_warn") and fired["name"] == "unlink" and role_kind(fired["role"])[0] == "source" \
            and all(done[i] or (s_state[i] == "intact" and t_state[i] == "valid") for i in range(n)):
        # the only thing that failed is the removal of a source whose complete, valid target exists: xz reports it as a warning
        # ("Cannot remove"), nothing is lost, and -Q (--no-warn) asks for exit status 0 on warnings
        S.count("source-not-removable-is-a-warning-status-0-with--Q")
        return tr, fired, "error:completed-source-kept:status0"
    if not all_done and rc == 0:
        raise base.Violation("C17:status-zero-after-error", "fault %s hit %s(%s), the operation was not completed (%s) but xz exits 0; %s"
                             % (kind, fired["name"], fired["role"], state, why()))
    return tr, fired, "error:" + ("completed" if all_done else "failed-clean") + ":status%s" % rc


# ------------------------------------------------------------------------------------------------------------ oracle
def bulk_split(tr):
    """Indices of 'bulk' calls (data reads/writes except the first and last two of each stream) vs. all others."""
    groups = {}
    for e in tr:
        k, _ = role_kind(e["role"])
        if e["name"] in ("read", "write") and k in ("source", "target", "stdout"):
            groups.setdefault((e["name"], e["role"]), []).append(e["i"])
    bulk = set()
    for lst in groups.values():
        bulk.update(lst[2:-2])
    return bulk


def choose_ks(tr, kind, picks, exhaustive_wanted):
    cand = [e["i"] for e in tr]
    if kind.startswith("short="):
        cand = [e["i"] for e in tr if e["name"] in ("read", "write") and e["arg"] > 1]
    elif kind.startswith("sigerr=PIPE"):
        cand = [e["i"] for e in tr if e["name"] == "write"]
    if exhaustive_wanted or len(cand) <= ENUM_ALL:
        return cand, True
    bulk = bulk_split(tr)
    chosen = [k for k in cand if k not in bulk]
    rest = [k for k in cand if k in bulk]
    room = max(8, SAMPLE_CAP - len(chosen))
    seen = set()
    for p in picks:
        if len(seen) >= room or not rest:
            break
        seen.add(rest[p % len(rest)])
    return sorted(set(chosen) | seen), False


def nontrivial_at(tr, fired, plan):
    """Fault delivered while a target exists and its source has not been unlinked (for -c: output has begun)."""
    if fired is None:
        return False
    topen, sgone, wrote, sopen = set(), set(), False, set()
    for e in tr:
        if e["i"] >= fired["i"]:
            break
        k, i = role_kind(e["role"])
        ok = e["res"] is not None and e["res"] >= 0
        if k == "target" and e["name"] == "open" and ok:
            topen.add(i)
        elif k == "target" and e["name"] == "unlink" and ok:
            topen.discard(i)
        elif k == "source" and e["name"] == "unlink":
            sgone.add(i)
        elif k == "source" and e["name"] == "open" and ok:
            sopen.add(i)
        elif k == "source" and e["name"] == "close":
            sopen.discard(i)
        elif k == "stdout" and e["name"] == "write" and ok and e["res"] > 0:
            wrote = True
    if plan.to_stdout:
        return wrote and bool(sopen)
    return any(i not in sgone for i in topen)


def kbucket(k):
    for lim in (16, 32, 64, 128, 256):
        if k <= lim:
            return "K<=%d" % lim
    return "K>256"


def oracle(scn, S):
    if not os.path.exists(SHIM):
        raise RuntimeError("shim missing: " + SHIM)
    plan = Plan(scn)
    d = S.fresh_dir()
    try:
        return _oracle(scn, S, plan, d)
    except Inconclusive as e:
        S.inconclusive_count(str(e))
    finally:
        S.rm_dir(d)


def _oracle(scn, S, plan, d):
    tmpl = os.path.join(d, "tmpl")
    os.makedirs(tmpl)
    for name, data in plan.files.items():
        with open(os.path.join(tmpl, name), "wb") as f:
            f.write(data)
        os.chmod(os.path.join(tmpl, name), 0o644)
    judge = Judge(plan, S, d)
    known = {sha(PRE_TARGET)} | {sha(p) for p in plan.plains}

    def task(seq, plan_text, k=None, kind=None):
        return {"rundir": os.path.join(d, "r%d" % seq), "tmpl": tmpl, "argv": plan.argv("@W@"), "roles": plan.roles("@W@"), "plan": plan_text, "k": k, "kind": kind,
                "stdout": scn["stdout"], "known": known, "targets": [] if plan.to_stdout else plan.tgt_names, "list_abs": scn["via_files"] and scn["abs"], "ignored": scn.get("ignored", [])}

    S.count("scenarios:" + plan.family)
    for o in options(scn):
        S.count(o)
    base_res = run_one(dict(task(0, None), known=set()))  # keep the baseline directory: libdec reads the target from it
    if base_res["timeout"]:
        S.inconclusive_count("timeout-baseline")
        return
    if not base_res["trace"]:
        raise RuntimeError("no trace from the shim (LD_PRELOAD not effective?) stderr=%r" % base_res["stderr"])
    tr0, _, _ = evaluate(plan, judge, S, base_res, baseline=True)
    K = len(tr0)
    S.count("Ksum:" + plan.family, K)
    S.count(kbucket(K))
    # the baseline's good targets are "known": workers delete run directories whose targets are byte-identical
    if plan.to_stdout:
        if base_res["out"]:
            known.add(base_res["out"][0])
    else:
        for i, name in enumerate(plan.tgt_names):
            e = base_res["after"].get(name)
            if e is not None:
                known.add(e[0])

    tasks = []
    seq = 1
    exhaustive_here = True
    for kind in scn["faults"]:
        ks, full = choose_ks(tr0, kind, scn["picks"], TIER == "thorough")
        exhaustive_here = exhaustive_here and full
        for k in ks:
            tasks.append(task(seq, "%d:%s" % (k, kind), k, kind))
            seq += 1
    if S.exhaustive is None:
        S.exhaustive = True
    S.exhaustive = bool(S.exhaustive and exhaustive_here)
    S.count("scenarios_exhaustive" if exhaustive_here else "scenarios_sampled")

    results = run_many(tasks)
    for res in results:
        if res["timeout"]:
            S.inconclusive_count("timeout-injected")
            print("C17 watchdog: plan=%s scenario=%s" % (res["plan"], json.dumps(scn)), file=sys.stderr)
            continue
        S.count("runs")
        S.evaluations += 1          # one evaluation = one run of xz with one injected fault (plus one per scenario for the fault-free run)
        tr, fired, outcome = evaluate(plan, judge, S, res)
        S.count("kind:" + res["kind"])
        if DEBUG:
            print("C17_DEBUG %s K=%d plan=%s rc=%s hit=%s outcome=%s" % (plan.family, K, res["plan"], res["rc"],
                  None if fired is None else "%s(%s)" % (fired["name"], fired["role"]), outcome), file=sys.stderr)
        if fired is None:
            S.count("not_fired")
            continue
        S.count("hit:%s(%s)" % (fired["name"], role_kind(fired["role"])[0]))
        S.count("outcome:" + outcome)
        if nontrivial_at(tr, fired, plan):
            S.nontrivial((plan.hash, res["k"], res["kind"]),
                         sample={"family": plan.family, "k": res["k"], "K": K, "fault": res["kind"], "hit": "%s(%s)" % (fired["name"], fired["role"]), "rc": res["rc"], "outcome": outcome})


# ---------------------------------------------------------------------------------------------------------- scenarios
ERR_KINDS = ["errno=EIO", "errno=ENOSPC", "eintr", "eagain-once", "short=1", "short=4097"]
SIG_KINDS = ["signal=INT", "signal=TERM", "signal=HUP", "sigerr=INT,EINTR", "sigerr=TERM,EIO"]
PIPE_KINDS = ["signal=PIPE", "sigerr=PIPE,EPIPE"]
KILL_KINDS = ["kill", "kill-after"]
SIZES = [30000, 0, 1, 8192, 8193, 16385, 40000, 50000, 65536, 80000, 100000, 120000, 150000, 180000, 204800]


@st.composite
def _scenario(draw):
    mode = draw(st.sampled_from(["compress", "decompress"]))
    fmt = draw(st.sampled_from(["xz", "xz", "xz", "lzma"]))
    stdout = draw(st.sampled_from([None, None, None, None, None, "pipe", "pipe", "file", "append"]))
    nfiles = draw(st.sampled_from([1, 1, 1, 2]))
    if fmt == "lzma" and stdout:
        nfiles = 1
    via_files = draw(st.sampled_from([False, False, False, True]))
    keep = draw(st.sampled_from([False, False, False, True]))
    force = draw(st.sampled_from([False, False, False, True]))
    pre_target = draw(st.sampled_from([False, False, False, True])) if not stdout else False
    if pre_target and not force and draw(st.booleans()):
        force = True
    nosync = draw(st.sampled_from([False, False, False, True]))
    threads = draw(st.sampled_from([0, 1, 1, 4, 4]))
    names = draw(st.permutations(NAMES))[:nfiles]
    contents = []
    for _ in range(nfiles):
        size = draw(st.sampled_from(SIZES))
        if 8193 < size < 204800:
            size += draw(st.integers(0, 4999))
        contents.append({"kind": draw(st.sampled_from(["random", "text", "sparse", "sparse-tail"])), "size": size, "seed": draw(st.integers(0, 2**31 - 1))})
    damage = None
    if mode == "decompress" and draw(st.sampled_from([False, False, True])):
        if stdout:
            force = False  # documented: "xz -dcf" copies unrecognised input as is (passthru) and succeeds
        # where: mostly inside the compressed data / the trailer (index, footer), sometimes in the headers
        num = min(9999, draw(st.sampled_from([5000, 3000, 7000, 9000, 9900, 9999, 1000, 200, 30, 0])) + draw(st.integers(0, 99)))
        if fmt == "lzma" or draw(st.booleans()):
            damage = {"kind": "truncate", "num": num}
        else:
            damage = {"kind": "flip", "num": num, "bit": draw(st.integers(0, 7))}
    ignored = draw(st.sampled_from([[], [], [], [], ["INT"], ["HUP"], ["INT", "QUIT"]]))
    warn_operand = draw(st.sampled_from([False, False, False, True]))
    no_warn = warn_operand and draw(st.booleans())
    pools = [ERR_KINDS, ERR_KINDS, SIG_KINDS, KILL_KINDS]
    if ignored:
        pools.append(SIG_KINDS)
    if stdout == "pipe":
        pools.append(PIPE_KINDS)
    nf = draw(st.sampled_from([1, 2, 2, 3]))
    faults = []
    for _ in range(nf):
        f = draw(st.sampled_from(draw(st.sampled_from(pools))))
        if f not in faults:
            faults.append(f)
    return {
        "mode": mode, "fmt": fmt, "stdout": stdout, "via_files": via_files, "keep": keep, "force": force, "pre_target": pre_target, "nosync": nosync,
        "ignored": ignored, "warn_operand": warn_operand, "no_warn": no_warn, "verbose": draw(st.sampled_from([False, False, True])),
        "threads": threads, "abs": draw(st.sampled_from([False, False, True])), "names": list(names), "contents": contents, "damage": damage,
        "preset": draw(st.sampled_from([0, 0, 0, 1, 1, 6])), "check": draw(st.sampled_from(["crc64", "crc64", "crc32", "sha256"])),
        "faults": faults, "picks": draw(st.lists(st.integers(0, 99999), min_size=32, max_size=32)),
    }


def scenarios():
    return _scenario()


def fixed_scenarios(S, tier, seed):
    """Always-run scenarios for the multi-file carry-over class (state of one file leaking into the next one): two files in one
    invocation, hard I/O errors at every fault point of the first file while the encoder/decoder still holds data.  Sizes vary
    with the seed; everything else is fixed so that this class never depends on what Hypothesis happens to draw."""
    import random
    r = random.Random(seed * 7919 + 17)
    out = []
    for mode, threads, kinds in (("compress", 1, ["random", "random"]), ("compress", 4, ["random", "text"]), ("decompress", 1, ["random", "text"]), ("compress", 1, ["text", "sparse"]), ("decompress", 1, ["sparse-tail", "text"])):
        contents = [{"kind": k, "size": r.choice([16385, 40000, 50000, 30000]) + r.randrange(0, 3000), "seed": r.randrange(0, 2**31 - 1)} for k in kinds]
        if mode == "compress" and kinds[0] == "random":
            contents[0]["size"] = r.choice([204800, 262144, 180000]) + r.randrange(0, 3000)  # incompressible and long: output fills up while the coder still holds input
        scn = {"mode": mode, "fmt": "xz", "stdout": None, "via_files": False, "keep": False, "force": False, "pre_target": False, "nosync": r.random() < 0.5,
               "threads": threads, "abs": False, "names": ["a", "b"], "contents": contents, "damage": None, "preset": 0, "check": "crc64",
               "faults": ["errno=ENOSPC", "errno=EIO"], "picks": [r.randrange(0, 99999) for _ in range(32)]}
        S.evaluations += 1
        S.count("fixed_multi_file_scenarios")
        try:
            oracle(scn, S)
        except base.Violation as v:
            v.scenario = scn
            raise
    # the invoking environment: signals inherited as ignored (xz must keep ignoring exactly those and still handle the others), and a
    # warning-only operand next to a failing file with -Q (the failure must still decide the exit status)
    for extra in ({"verbose": True, "mode": "decompress", "names": ["a", "b"], "damage": {"kind": "truncate", "num": 30}, "faults": ["signal=TERM", "signal=INT"], "two": True},
                  {"ignored": ["INT"], "faults": ["signal=TERM", "signal=INT", "signal=HUP"]}, {"ignored": ["HUP"], "faults": ["signal=INT", "signal=HUP"]},
                  {"warn_operand": True, "no_warn": True, "faults": ["errno=ENOSPC", "errno=EIO"]}, {"warn_operand": True, "no_warn": False, "faults": ["errno=EIO", "signal=TERM"]}):
        scn = {"mode": r.choice(["compress", "decompress"]), "fmt": "xz", "stdout": None, "via_files": False, "keep": False, "force": False, "pre_target": False, "nosync": True,
               "threads": 1, "abs": False, "names": ["a"], "contents": [{"kind": "text", "size": 40000 + r.randrange(0, 3000), "seed": r.randrange(0, 2**31 - 1)}], "damage": None, "preset": 0, "check": "crc64",
               "ignored": [], "warn_operand": False, "no_warn": False, "picks": [r.randrange(0, 99999) for _ in range(32)]}
        scn.update(extra)
        if scn.pop("two", False):
            scn["contents"] = scn["contents"] + [{"kind": "random", "size": 60000 + r.randrange(0, 3000), "seed": r.randrange(0, 2**31 - 1)}]
        S.evaluations += 1
        S.count("fixed_environment_scenarios")
        try:
            oracle(scn, S)
        except base.Violation as v:
            v.scenario = scn
            raise


if __name__ == "__main__":
    base.main("c17", scenarios, oracle, budgets={"quick": 150, "thorough": 2500}, extra_runs=fixed_scenarios)
