"""C16 (command-line part) - xz -dc --format=auto|lzma|lzip|xz, lzmadec, xzdec and lzmainfo agree with the library's verdict.

A scenario is one synthesised file plus 1-4 tool runs.  Files:
  .lzma  made by the built `xz --format=lzma --lzma1=...` (or the known-size files of tests/files), then the 13-byte header is
         edited in Python: props byte (also invalid ones), dictionary size (2^n, 2^n+2^(n-1), others, 0, 2^32-1), uncompressed
         size (unknown, exact, too small, too large, around 2^38); trailing bytes; truncation.
  .lz    members taken from tests/files/good-1-v0.lz / good-1-v1.lz (xz cannot create .lz), header/footer edited in Python
         (version, dictionary size byte, CRC32 from zlib, data size, member size), 1-3 members, trailing data that begins with
         0-4 bytes of "LZIP"; truncation.
  .xz    1-2 Streams from the built xz (--check varied), zero padding of 0-9 bytes, garbage, truncation.
Oracle: build/bin/libdec (liblzma of the same tree, ASan) decodes the same file with the decoder and flags the tool documents:
  xz --format=auto   -> lzma_auto_decoder, CONCATENATED|TELL_UNSUPPORTED_CHECK (without CONCATENATED under --single-stream)
  xz --format=xz     -> file must start with the .xz magic, then lzma_stream_decoder with the same flags
  xz --format=lzip   -> file must start with "LZIP", then lzma_lzip_decoder
  xz --format=lzma   -> never for files starting with 0xFD / 0x4C (not valid lc/lp/pb), otherwise as --format=auto
  lzmadec            -> lzma_alone_decoder and no byte may follow the stream
  xzdec              -> lzma_stream_decoder, CONCATENATED
  lzmainfo           -> the header fields as written (model in Python)
The tool must succeed (exit 0, stdout == library output) exactly when the library ends with LZMA_STREAM_END; otherwise exit 1.
Left free (counted): files on which xz's own .lzma sniffing and liblzma's differ by design (dictionary size field 0; uncompressed
size exactly 2^38), bytes written before an error, the wording of messages.
"""
import hashlib
import json
import os
import struct
import zlib

from hypothesis import strategies as st

from . import base

FILES_DIR = os.path.join(base.REPO, "tests", "files")
LIBDEC = os.path.join(base.SHIM_DIR, "libdec")
XZ_MAGIC = b"\xfd7zXZ\x00"
LZIP_MAGIC = b"LZIP"
HELLO = b"Hello\nWorld!\n"
_vclasses = {}
_cache = {}


def fail(sig, reason):
    cls = _vclasses.get(sig)
    if cls is None:
        cls = _vclasses[sig] = type("Violation_" + "".join(c if c.isalnum() else "_" for c in sig), (base.Violation,), {})
    raise cls(sig, reason)


def read_repo(name):
    if name not in _cache:
        with open(os.path.join(FILES_DIR, name), "rb") as f:
            _cache[name] = f.read()
    return _cache[name]


# ------------------------------------------------------------------------------------------------ plaintext
def plain_bytes(p):
    kind, n, seed = p
    if kind == "zero":
        return bytes(n)
    if kind == "text":
        words = [b"the ", b"quick ", b"brown ", b"fox ", b"lzma ", b"xz\n", b"0123456789 "]
        out = bytearray()
        i = seed
        while len(out) < n:
            out += words[i % len(words)]
            i = i * 5 + 3
        return bytes(out[:n])
    if kind == "period":
        unit = bytes((seed + 3 * j) % 251 for j in range(1 + seed % 97))
        return (unit * (n // len(unit) + 1))[:n]
    return hashlib.shake_128(b"c16-%d" % seed).digest(n)


plain_st = st.tuples(st.sampled_from(["text", "zero", "period", "random"]), st.one_of(st.integers(0, 64), st.integers(0, 5000)), st.integers(0, 1000))


# ------------------------------------------------------------------------------------------------ file synthesis
def build_lzma(spec, S):
    if spec["base"] == "xz" and spec.get("align"):
        # aimed: the compressed stream is made exactly k * 8192 bytes long (xz's I/O buffer size) by adjusting the length of an
        # incompressible plaintext, so that the stream ends exactly where a full read() ends - what follows it (trailing bytes or
        # nothing) has to be fetched by a further read
        o = spec["opts"]
        data, plain = aligned_lzma(o, spec["align"], spec["plain"][2], S)
        data = bytearray(data)
    elif spec["base"] == "xz":
        o = spec["opts"]
        key = ("lzma", json.dumps(spec["plain"]), json.dumps(o))
        if key not in _cache:
            arg = "--lzma1=preset=0,lc=%d,lp=%d,pb=%d,dict=%d" % (o["lc"], o["lp"], o["pb"], o["dict"])
            rc, out, err = base.run_cmd([base.tool("xz"), "--format=lzma", arg, "-c"], stdin=plain_bytes(spec["plain"]), env=base.clean_env())
            if rc != 0:
                raise RuntimeError("xz --format=lzma failed: %r" % err[-300:])
            _cache[key] = out
        data = bytearray(_cache[key])
        plain = plain_bytes(spec["plain"])
    else:
        data = bytearray(read_repo(spec["base"]))
        plain = HELLO
    e = spec["edit"]
    if e.get("props") is not None:
        data[0] = e["props"]
    if e.get("dict") is not None:
        data[1:5] = struct.pack("<I", e["dict"])
    sz = e.get("size")
    if sz is not None:
        v = {"exact": len(plain), "minus1": max(len(plain) - 1, 0), "plus1": len(plain) + 1, "unknown": 2 ** 64 - 1}.get(sz, sz)
        data[5:13] = struct.pack("<Q", v)
    data += bytes.fromhex(spec.get("trail", ""))
    if spec.get("trunc") is not None:
        data = data[:spec["trunc"] % (len(data) + 1)]
    return bytes(data)


def aligned_lzma(o, k, seed, S):
    key = ("aligned", k, seed, json.dumps(o))
    if key in _cache:
        return _cache[key]
    target = 8192 * k
    arg = "--lzma1=preset=0,lc=%d,lp=%d,pb=%d,dict=%d" % (o["lc"], o["lp"], o["pb"], o["dict"])

    def comp(n):
        plain = plain_bytes(("random", n, seed))
        rc, out, err = base.run_cmd([base.tool("xz"), "--format=lzma", arg, "-c"], stdin=plain, env=base.clean_env())
        if rc != 0:
            raise RuntimeError("xz --format=lzma failed: %r" % err[-300:])
        return out, plain
    n = target - 40
    best = None
    for _ in range(40):
        out, plain = comp(max(n, 1))
        if len(out) == target:
            best = (out, plain)
            break
        step = target - len(out)
        n += step if abs(step) > 1 else (1 if step > 0 else -1)
    if best is None:
        S.count("aligned-lzma:not-reached")
        best = comp(target - 40)
    else:
        S.count("aligned-lzma:stream-ends-at-a-multiple-of-8192")
    _cache[key] = best
    return best


def lz_member(m):
    src = read_repo("good-1-v1.lz" if m["src"] == 1 else "good-1-v0.lz")
    foot = 20 if m["src"] == 1 else 12
    payload = src[6:len(src) - foot]
    version = m["version"]
    head = LZIP_MAGIC + bytes([version & 0xFF, m["dictbyte"] if m["dictbyte"] is not None else src[5]])
    crc = zlib.crc32(HELLO) ^ m.get("crc_xor", 0)
    dsize = (len(HELLO) + m.get("dsize_delta", 0)) % 2 ** 64
    v1foot = (version != 0) if m.get("footer") is None else (m["footer"] == 1)
    body = head + payload + struct.pack("<IQ", crc, dsize)
    if v1foot:
        body += struct.pack("<Q", (len(body) + 8 + m.get("msize_delta", 0)) % 2 ** 64)
    return body


def build_lz(spec, S):
    data = b"".join(lz_member(m) for m in spec["members"])
    data += LZIP_MAGIC[:spec.get("trail_magic", 0)] + bytes.fromhex(spec.get("trail", ""))
    if spec.get("trunc") is not None:
        data = data[:spec["trunc"] % (len(data) + 1)]
    return data


def build_xz(spec, S):
    out = b""
    for s in spec["streams"]:
        key = ("xz", json.dumps(s["plain"]), s["check"])
        if key not in _cache:
            rc, o, err = base.run_cmd([base.tool("xz"), "--format=xz", "-0", "--check=" + s["check"], "-T1", "-c"], stdin=plain_bytes(s["plain"]), env=base.clean_env())
            if rc != 0:
                raise RuntimeError("xz failed: %r" % err[-300:])
            _cache[key] = o
        out += _cache[key] + bytes(s["pad"])
    out += bytes.fromhex(spec.get("trail", ""))
    if spec.get("trunc") is not None:
        out = out[:spec["trunc"] % (len(out) + 1)]
    return out


def build_file(scn, S):
    f = scn["file"]
    if f["kind"] == "lzma":
        return build_lzma(f, S)
    if f["kind"] == "lz":
        return build_lz(f, S)
    if f["kind"] == "xz":
        return build_xz(f, S)
    return bytes.fromhex(f["hex"])


# ------------------------------------------------------------------------------------------------ strategies
hexbytes = st.binary(min_size=0, max_size=6).map(bytes.hex)
trunc_st = st.one_of(st.none(), st.none(), st.none(), st.integers(0, 100000))


@st.composite
def lzma_file(draw):
    base_kind = draw(st.sampled_from(["xz", "xz", "xz", "good-known_size-without_eopm.lzma", "good-known_size-with_eopm.lzma", "good-unknown_size-with_eopm.lzma"]))
    spec = {"kind": "lzma", "base": base_kind, "edit": {}}
    if base_kind == "xz":
        lc = draw(st.integers(0, 4))
        spec["plain"] = list(draw(plain_st))
        spec["opts"] = {"lc": lc, "lp": draw(st.integers(0, 4 - lc)), "pb": draw(st.integers(0, 4)), "dict": draw(st.sampled_from([4096, 4096, 65536, 6144, 1 << 20, 3 << 19, 5000, 1 << 16]))}
    e = spec["edit"]
    w = draw(st.integers(0, 9))
    if w == 0:
        e["props"] = draw(st.sampled_from([225, 255, 0x4C, 13, 8, 21, 0xFD, 230]))
    elif w == 1:
        e["props"] = draw(st.sampled_from([0x5D, 0, 0x5E, 224, 0x66]))
    w = draw(st.integers(0, 11))
    if w == 0:
        k = draw(st.integers(12, 26))
        e["dict"] = draw(st.sampled_from([1 << k, 3 << (k - 1)]))
    elif w == 1:
        e["dict"] = draw(st.sampled_from([4097, 4095, 5000, 65537, (1 << 20) + 4096, 12345678]))
    elif w == 2:
        e["dict"] = draw(st.sampled_from([0, 1, 2, 3, 5, 2 ** 32 - 1, 2 ** 32 - 2]))
    w = draw(st.integers(0, 9))
    if w in (0, 1):
        e["size"] = "exact"
    elif w == 2:
        e["size"] = draw(st.sampled_from(["minus1", "plus1", 0]))
    elif w == 3:
        e["size"] = draw(st.sampled_from([2 ** 38 - 1, 2 ** 38, 2 ** 38 + 1, 2 ** 40, 2 ** 63, 2 ** 64 - 2]))
    elif w == 4:
        e["size"] = "unknown"
    if draw(st.integers(0, 3)) == 0:
        spec["trail"] = draw(st.binary(min_size=1, max_size=6)).hex()
    spec["trunc"] = draw(trunc_st)
    if base_kind == "xz" and draw(st.integers(0, 9)) == 0:
        spec["align"] = draw(st.sampled_from([1, 1, 2]))
        spec["edit"] = {}                       # an untouched header: the interesting part is what follows the stream
        spec["trail"] = draw(st.sampled_from(["", "00", "01", "5d000010", "fd377a585a00", "ffffffffffff"]))
        spec["trunc"] = None
    return spec


@st.composite
def lz_file(draw):
    members = []
    for _ in range(draw(st.sampled_from([1, 1, 1, 2, 2, 3]))):
        src = draw(st.sampled_from([0, 1]))
        m = {"src": src, "version": src, "dictbyte": None}
        w = draw(st.integers(0, 11))
        if w == 0:
            m["version"] = 1 - src          # the other valid version: the footer length follows the version
        elif w == 1:
            m["version"] = draw(st.sampled_from([2, 3, 4, 255]))
        w = draw(st.integers(0, 7))
        if w == 0:
            m["dictbyte"] = draw(st.integers(0, 255))
        elif w == 1:
            m["dictbyte"] = (draw(st.integers(0, 7)) << 5) | draw(st.integers(11, 30))
        w = draw(st.integers(0, 11))
        if w == 0:
            m["crc_xor"] = 1 << draw(st.integers(0, 31))
        elif w == 1:
            m["dsize_delta"] = draw(st.sampled_from([1, -1, 1 << 40]))
        elif w == 2:
            m["msize_delta"] = draw(st.sampled_from([1, -1, 1 << 40]))
        elif w == 3:
            m["footer"] = 1 if m["version"] == 0 else 0      # footer of the other version
        members.append(m)
    spec = {"kind": "lz", "members": members}
    w = draw(st.integers(0, 7))
    if 1 <= w <= 5:
        spec["trail_magic"] = w - 1
        spec["trail"] = draw(hexbytes)
    spec["trunc"] = draw(trunc_st)
    return spec


@st.composite
def xz_file(draw):
    streams = []
    for _ in range(draw(st.sampled_from([1, 1, 2]))):
        streams.append({"plain": list(draw(plain_st)), "check": draw(st.sampled_from(["crc32", "crc64", "none", "sha256"])), "pad": draw(st.sampled_from([0, 0, 4, 8, 1, 2, 3, 5, 6, 9]))})
    spec = {"kind": "xz", "streams": streams}
    if draw(st.integers(0, 4)) == 0:
        spec["trail"] = (b"\x01" + draw(st.binary(min_size=0, max_size=5))).hex()
    spec["trunc"] = draw(trunc_st)
    return spec


garbage_file = st.builds(lambda h, b: {"kind": "garbage", "hex": (h + b).hex()}, st.sampled_from([b"", b"\xfd", b"L", b"LZI", b"LZIP", XZ_MAGIC, b"\x5d\x00\x00"]), st.binary(min_size=0, max_size=20))

run_st = st.one_of(
    st.builds(lambda f, s: {"tool": "xz", "format": f, "single": s}, st.sampled_from(["auto", "auto", "lzma", "lzip", "xz"]), st.sampled_from([False, False, False, True])),
    st.sampled_from([{"tool": "lzmadec"}, {"tool": "xzdec"}, {"tool": "lzmainfo"}]))


@st.composite
def scenario(draw):
    f = draw(st.one_of(lzma_file(), lzma_file(), lz_file(), lz_file(), xz_file(), garbage_file))
    # half of the runs use a tool meant for this kind of file, the rest any tool
    own = {"lzma": [{"tool": "xz", "format": "lzma", "single": False}, {"tool": "lzmadec"}, {"tool": "lzmainfo"}, {"tool": "xz", "format": "auto", "single": False}],
           "lz": [{"tool": "xz", "format": "lzip", "single": False}, {"tool": "xz", "format": "auto", "single": False}, {"tool": "xz", "format": "lzip", "single": True}],
           "xz": [{"tool": "xz", "format": "xz", "single": False}, {"tool": "xzdec"}, {"tool": "xz", "format": "auto", "single": False}, {"tool": "xz", "format": "xz", "single": True}]}.get(f["kind"])
    one = run_st if own is None else st.one_of(st.sampled_from(own), run_st)
    return {"file": f, "runs": draw(st.lists(one, min_size=1, max_size=4))}


def scenarios():
    return scenario()


# ------------------------------------------------------------------------------------------------ oracle
def libdec(decoder, flags, path, d):
    outp = os.path.join(d, "lib.out")
    rc, out, err = base.run_cmd([LIBDEC, decoder, ",".join(flags) or "none", path, outp], env=base.clean_env({"ASAN_OPTIONS": "detect_leaks=0:allocator_may_return_null=1:max_allocation_size_mb=3500"}))
    if rc != 0:
        raise RuntimeError("libdec failed rc=%r: %r" % (rc, err[-400:]))
    j = json.loads(out.decode())
    with open(outp, "rb") as f:
        j["out"] = f.read()
    return j


def lzma_header(data):
    """-> None (no 13-byte header / props byte invalid) or (lc, lp, pb, dict, size)."""
    if len(data) < 13 or data[0] > 224:
        return None
    pb, r = divmod(data[0], 45)
    lp, lc = divmod(r, 9)
    if lc + lp > 4:
        return None
    return lc, lp, pb, struct.unpack("<I", data[1:5])[0], struct.unpack("<Q", data[5:13])[0]


def lzmainfo_model(data):
    h = lzma_header(data)
    if h is None:
        return 1, b""
    lc, lp, pb, dct, size = h
    s = "Uncompressed size:             "
    s += "Unknown" if size == 2 ** 64 - 1 else "%d MB (%d bytes)" % ((size // 1024 + 512) // 1024, size)
    s += "\nDictionary size:               %d MB (2^%d bytes)\n" % ((dct // 1024 + 512) // 1024, max(dct.bit_length() - 1, 0))
    s += "Literal context bits (lc):     %d\nLiteral pos bits (lp):         %d\nNumber of pos bits (pb):       %d\n" % (lc, lp, pb)
    return 0, s.encode()


def expected(run, data, path, d, S):
    """-> (kind, success, out) kind 'lib' | 'free'"""
    if run["tool"] == "lzmadec":
        j = libdec("alone", [], path, d)
        return "lib", j["ret"] == 1 and j["total_in"] == len(data), j
    if run["tool"] == "xzdec":
        j = libdec("stream", ["concatenated"], path, d)
        return "lib", j["ret"] == 1, j
    fmt = run["format"]
    flags = ["tell_unsupported_check"] + ([] if run["single"] else ["concatenated"])
    if fmt == "xz":
        if not data.startswith(XZ_MAGIC):
            return "lib", False, None
        j = libdec("stream", flags, path, d)
    elif fmt == "lzip":
        if not data.startswith(LZIP_MAGIC):
            return "lib", False, None
        j = libdec("lzip", flags, path, d)
    else:
        if fmt == "lzma" and data[:1] in (b"\xfd", b"L"):
            return "lib", False, None
        if fmt == "auto" and (data[:1] == b"\xfd") != data.startswith(XZ_MAGIC):
            return "lib", False, None
        h = lzma_header(data)
        if data[:1] not in (b"\xfd", b"L") and h is not None and (h[3] == 0 or h[4] == 2 ** 38):
            S.count("lzma_sniffing_differs_by_design")
            return "free", None, libdec("alone", [], path, d)
        j = libdec("auto", flags, path, d)
    return "lib", j["ret"] == 1, j


def oracle(scn, S):
    d = S.fresh_dir()
    try:
        data = build_file(scn, S)
        path = os.path.join(d, "input.bin")
        with open(path, "wb") as f:
            f.write(data)
        kind = scn["file"]["kind"]
        S.count("file_" + kind)
        header_ok = data.startswith(XZ_MAGIC) or (data.startswith(LZIP_MAGIC) and len(data) >= 6) or lzma_header(data) is not None
        for run in scn["runs"]:
            name = run["tool"] + ("" if run["tool"] != "xz" else ":" + run["format"] + (":single" if run["single"] else ""))
            S.count("run_" + name)
            if run["tool"] == "lzmainfo":
                rc, out, err = base.run_cmd([base.tool("lzmainfo")], stdin=data, env=base.clean_env())
                erc, eout = lzmainfo_model(data)
                if rc is None:
                    S.inconclusive_count("timeout")
                    continue
                if rc != erc or (erc == 0 and out != eout):
                    fail("C16:lzmainfo-differs-from-header", "lzmainfo exit %r stdout %r; header says exit %d %r (header %s)" % (rc, out[:300], erc, eout[:300], data[:13].hex()))
                S.count("lzmainfo_" + ("fields_match" if erc == 0 else "rejected"))
                continue
            if run["tool"] == "xz":
                argv = [base.tool("xz"), "-dc", "-qQ", "--format=" + run["format"]] + (["--single-stream"] if run["single"] else []) + [path]
            else:
                argv = [base.tool(run["tool"]), path]
            rc, out, err = base.run_cmd(argv, env=base.clean_env())
            if rc is None:
                S.inconclusive_count("timeout")
                continue
            how, ok, j = expected(run, data, path, d, S)
            if j is not None and j.get("ret") == 5:
                S.inconclusive_count("library_mem_error")
                continue
            if how == "free":
                if rc == 0 and out != j["out"]:
                    fail("C16:cli-content", "%s succeeded with %d bytes, lzma_alone_decoder gives %d bytes (%s)" % (name, len(out), len(j["out"]), j["ret_name"]))
                continue
            lib = "library: " + ("format excluded by the option" if j is None else "%s total_in=%d of %d out=%d" % (j["ret_name"], j["total_in"], len(data), len(j["out"])))
            if ok:
                if rc != 0:
                    fail("C16:cli-rejects-valid", "%s exit %d (%r) but the file is valid for the library; %s" % (name, rc, err[-200:], lib))
                if out != j["out"]:
                    fail("C16:cli-content", "%s wrote %d bytes, the library %d; %s" % (name, len(out), len(j["out"]), lib))
                S.count("agree_accept")
                if run["tool"] == "xz" and run["single"] and j is not None and j["total_in"] < len(data):
                    # "decoding stops exactly at the end of the first stream with the input position just past it": on a shared seekable
                    # descriptor the next reader must find exactly the bytes that follow the first stream
                    sh = '{ "$0" -dc -qQ --single-stream --format=' + run["format"] + ' >/dev/null; cat; } < "$1"'
                    rc2, rest, err2 = base.run_cmd(["/bin/sh", "-c", sh, base.tool("xz"), path], env=base.clean_env())
                    if rc2 is None:
                        S.inconclusive_count("timeout")
                    elif rest != data[j["total_in"]:]:
                        fail("C16:single-stream-input-position", "%s on a shared descriptor: the next reader gets %d bytes, the first stream ends at %d of %d (so %d bytes follow it)"
                             % (name, len(rest), j["total_in"], len(data), len(data) - j["total_in"]))
                    else:
                        S.count("single_stream_position_checked")
            else:
                if rc == 0:
                    fail("C16:cli-accepts-invalid", "%s exit 0 (%d bytes) but the library does not accept the file; %s" % (name, len(out), lib))
                if rc != 1:
                    fail("C16:cli-exit-status", "%s exit %d for a rejected file (%r); %s" % (name, rc, err[-200:], lib))
                S.count("agree_reject")
        if header_ok:
            S.nontrivial(scn, sample=scn if len(json.dumps(scn)) < 900 else None)
    finally:
        S.rm_dir(d)


if __name__ == "__main__":
    base.main("c16_cli", scenarios, oracle, budgets={"quick": 1500, "thorough": 15000})
