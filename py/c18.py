"""C18 - the command-line tools deliver exactly the library's decoding, whatever the sink.

Two kinds of scenario (both drawn by Hypothesis, JSON-able, replayable through oracle()):

part "dec":  1-2 generated input files (valid / corrupt / truncated / concatenated .xz, .lzma, files of
             /repo/tests/files, non-compressed data) x 1-3 runs (tool, sink, -T, options).  The oracle is the
             direct library decode done by build/bin/libdec with the decoder and flags the tool documents.
part "rt":   xz <options> then xz -dc gives the original back (and the Block sizes are the requested ones).

Mapping tool -> library (coder.c:862-1016, xzdec.c:169-305, xz.1, xzdec.1):
  xz -dc/-d/-t  auto: .xz magic -> stream decoder, "LZIP" -> lzip decoder, the .lzma plausibility rule -> alone
                decoder (+ "no trailing bytes"), nothing -> "File format not recognized" (exit 1, no output) or, with
                -dfc, the input is copied as is.  flags: CONCATENATED unless --single-stream (then trailing input is
                fine), IGNORE_CHECK with --ignore-check else TELL_UNSUPPORTED_CHECK (a warning: exit 2 unless -Q).
                A headerless file that the alone decoder would take but xz's stricter sniffing (dictionary size /
                uncompressed size heuristics) refuses is "weak": only bytes-if-success is asserted.
  xzdec         stream decoder, CONCATENATED only; exit 0/1; stops at the first bad file.
  lzmadec       alone decoder + "no trailing bytes".
"""
import fcntl
import hashlib
import json
import os
import struct
import zlib

from hypothesis import strategies as st

from . import base

IOBUF = 8192
XZ_MAGIC = b"\xfd7zXZ\x00"
LZIP_MAGIC = b"LZIP"
FILES_DIR = os.path.join(base.REPO, "tests", "files")
LIBDEC = os.path.join(base.SHIM_DIR, "libdec")
LZMA_STREAM_END = 1
LZMA_UNSUPPORTED_CHECK = 3

# Files of the unchanged test suite usable as inputs (.lz can only come from here: xz cannot create them).
try:
    REPO_FILES = sorted(f for f in os.listdir(FILES_DIR) if f.endswith((".xz", ".lzma", ".lz")) and os.path.getsize(os.path.join(FILES_DIR, f)) < 4096)
except OSError:
    REPO_FILES = []
REPO_LZ = [f for f in REPO_FILES if f.endswith(".lz")]

_vclasses = {}


def fail(sig, reason):
    """Raise a Violation whose Python type is specific to the signature, so that the shrinker keeps to one signature."""
    cls = _vclasses.get(sig)
    if cls is None:
        cls = _vclasses[sig] = type("Violation_" + "".join(c if c.isalnum() else "_" for c in sig), (base.Violation,), {})
    raise cls(sig, reason)


class Inconclusive(Exception):
    pass


# ------------------------------------------------------------------------------------------------ plaintexts

def seg_len(seg):
    return max(0, IOBUF * seg[1] + seg[2])


def seg_bytes(seg):
    kind, _m, _d, fill = seg
    n = seg_len(seg)
    if kind == "z":
        return bytes(n)
    if kind == "d":  # compressible, never a zero byte
        unit = bytes(((j * 7 + fill) % 255) + 1 for j in range(256))
        return (unit * (n // 256 + 1))[:n]
    return hashlib.shake_128(b"c18-%d" % fill).digest(n)  # "r": incompressible, deterministic


def plain_bytes(recipe):
    return b"".join(seg_bytes(s) for s in recipe)


@st.composite
def seg_strategy(draw):
    """[kind, m, delta, fill] -> max(0, 8192 * m + delta) bytes; mostly exact multiples and +-1 of the 8 KiB I/O buffer."""
    kind = draw(st.sampled_from(["z", "d", "z", "r"]))
    m = draw(st.integers(0, 3))
    w = draw(st.integers(0, 9))
    delta = 0 if w < 6 else -1 if w == 6 else 1 if w == 7 else draw(st.integers(-IOBUF + 1, IOBUF - 1))
    return [kind, m, delta, draw(st.integers(0, 255))]


def plain_strategy(max_size=5):
    return st.lists(seg_strategy(), min_size=0, max_size=max_size)


def has_zero_buffer(b):
    z = bytes(IOBUF)
    return any(b[i:i + IOBUF] == z for i in range(0, len(b) - IOBUF + 1, IOBUF))


def prefill_bytes(n):
    unit = bytes((j % 251) + 1 for j in range(251))
    return (unit * (n // 251 + 1))[:n]


# ------------------------------------------------------------------------------------------------ .xz structure

def _varint(b, p):
    v = 0
    s = 0
    while True:
        c = b[p]
        p += 1
        v |= (c & 0x7F) << s
        if not c & 0x80:
            return v, p
        s += 7


CHECK_SIZE = [0, 4, 4, 4, 8, 8, 8, 16, 16, 16, 32, 32, 32, 64, 64, 64]


def xz_regions(s):
    """Regions of one well-formed single Stream (as written by xz): dict name -> (start, end); blocks as lists."""
    n = len(s)
    check = s[7] & 0x0F
    bsz = (struct.unpack("<I", s[n - 8:n - 4])[0] + 1) * 4
    ix0 = n - 12 - bsz
    p = ix0 + 1
    cnt, p = _varint(s, p)
    recs = []
    for _ in range(cnt):
        u, p = _varint(s, p)
        v, p = _varint(s, p)
        recs.append((u, v))
    r = {"sh": (0, 12), "ix": (ix0, n - 12), "sf": (n - 12, n), "bh": [], "bp": [], "bc": [], "usizes": [v for _, v in recs]}
    pos = 12
    for unpadded, _ in recs:
        hs = (s[pos] + 1) * 4
        r["bh"].append((pos, pos + hs))
        r["bp"].append((pos + hs, pos + unpadded - CHECK_SIZE[check]))
        r["bc"].append((pos + unpadded - CHECK_SIZE[check], pos + unpadded))
        pos += (unpadded + 3) & ~3
    assert pos == ix0, (pos, ix0)
    return r


def pick_region(streams, offs, c):
    """(start, end) in the whole file of the region named by the corruption spec c."""
    si = c["s"] % len(streams)
    r = xz_regions(streams[si])
    name = c["region"]
    if name in ("bh", "bp", "bc"):
        if not r[name]:
            name = "ix"
        else:
            a, b = r[name][c["k"] % len(r[name])]
            if a == b:
                name = "ix"
    if name == "any":
        a, b = 0, len(streams[si])
    elif name in ("sh", "ix", "sf"):
        a, b = r[name]
    return offs[si] + a, offs[si] + b


def has_bcj(data):
    """True if the first Block Header after some .xz magic names a BCJ filter (IDs 0x04-0x0B)."""
    pos = data.find(XZ_MAGIC)
    while pos != -1:
        try:
            p = pos + 12
            if data[p] != 0:
                n = (data[p + 1] & 3) + 1
                q = p + 2
                if data[p + 1] & 0x40:
                    _, q = _varint(data, q)
                if data[p + 1] & 0x80:
                    _, q = _varint(data, q)
                for _ in range(n):
                    fid, q = _varint(data, q)
                    psz, q = _varint(data, q)
                    q += psz
                    if 4 <= fid <= 11:
                        return True
        except IndexError:
            pass
        pos = data.find(XZ_MAGIC, pos + 1)
    return False


def patch_unsupported_check(s, newid):
    """Same-size unassigned Check ID in Stream Header and Footer (CRC32 of the Stream Flags recomputed)."""
    old = s[7] & 0x0F
    cand = {1: [2, 3], 4: [5, 6], 10: [11, 12]}.get(old)
    if not cand:
        return s
    nid = cand[newid % 2]
    b = bytearray(s)
    n = len(b)
    b[7] = nid
    b[8:12] = struct.pack("<I", zlib.crc32(bytes(b[6:8])))
    b[n - 3] = nid
    b[n - 12:n - 8] = struct.pack("<I", zlib.crc32(bytes(b[n - 8:n - 2])))
    return bytes(b)


# ------------------------------------------------------------------------------------------------ running things

def xz_compress(plain, args, d, tag):
    p = os.path.join(d, "c-" + tag)
    with open(p, "wb") as f:
        f.write(plain)
    rc, out, err = base.run_cmd([base.tool("xz"), "-c"] + args + [p], env=base.clean_env())
    os.unlink(p)
    if rc is None:
        raise Inconclusive("timeout-compress")
    if rc != 0:
        raise RuntimeError(f"xz {args} failed while building an input: rc={rc} {err[-300:]!r}")
    return out


def build_input(inp, d, tag):
    """-> (bytes, suffix, description dict)."""
    kind = inp["kind"]
    c = inp.get("corrupt")
    if kind == "xz":
        streams, pads = [], []
        for i, sd in enumerate(inp["streams"]):
            args = ["-%d" % sd["preset"], "-T%d" % sd["ct"], "-C", sd["check"]]
            if sd["bs"]:
                args.append("--block-size=%d" % sd["bs"])
            streams.append(xz_compress(plain_bytes(sd["plain"]), args, d, f"{tag}-{i}"))
            pads.append(bytes(sd["pad"]))
        if c and c["type"] == "unsup":
            si = c["s"] % len(streams)
            streams[si] = patch_unsupported_check(streams[si], c["newid"])
            if c.get("all"):
                # every Stream carries an unverifiable check, and 1-2 empty Streams (no Blocks) of the same kind come first: the decoder
                # announces LZMA_UNSUPPORTED_CHECK several times before the first byte of data
                chk = inp["streams"][si]["check"]
                empty = patch_unsupported_check(xz_compress(b"", ["-0", "-C", chk], d, f"{tag}-empty"), c["newid"])
                streams = [patch_unsupported_check(x, c["newid"]) for x in streams]
                streams = [empty] * c["all"] + streams
                pads = [b""] * c["all"] + pads
        offs, pos = [], 0
        for s, p in zip(streams, pads):
            offs.append(pos)
            pos += len(s) + len(p)
        data = b"".join(s + p for s, p in zip(streams, pads))
        if c and c["type"] in ("flip", "trunc"):
            a, b = pick_region(streams, offs, c)
            at = a + (b - a) * c["pm"] // 1000
            data = apply_at(data, c, at)
        elif c and c["type"] == "append":
            data += bytes([c["b"]]) * c["n"]
        return data, ".xz"
    if kind == "lzma":
        # dictionary sizes of the form 2^n + 2^(n-1) are valid for .lzma (the alone encoder writes them, lzmadec takes them, xz's
        # plausibility rule is written to accept them) although no preset uses one
        lzargs = ["--format=lzma", "--lzma1=preset=0,dict=" + inp["lzdict"]] if inp.get("lzdict") else ["--format=lzma", "-0"]
        data = xz_compress(plain_bytes(inp["plain"]), lzargs, d, tag + (inp.get("lzdict") or ""))
        tail = inp["tail"]
        if tail == "garbage":
            data += b"\x00"
        elif tail == "lzma":
            data += xz_compress(b"tail", ["--format=lzma", "-0"], d, tag + "t")
        elif tail == "xz":
            data += xz_compress(b"tail", ["-0"], d, tag + "t")
        suffix = ".lzma"
    elif kind == "repo":
        data = b""
        for nm in inp["names"]:
            with open(os.path.join(FILES_DIR, nm), "rb") as f:
                data += f.read()
        suffix = os.path.splitext(inp["names"][0])[1]
    elif kind == "raw":
        data = plain_bytes(inp["plain"])
        if data:
            data = b"\xff" + data[1:]  # never a valid LZMA1 properties byte, never a magic
        suffix = ".xz"
    else:
        raise ValueError(kind)
    if c and c["type"] in ("flip", "trunc"):
        lo = 13 if (kind == "lzma" and c["region"] != "sh") else 0  # "sh" = the 13-byte .lzma header
        hi = len(data) if not (kind == "lzma" and c["region"] == "sh") else min(13, len(data))
        lo = min(lo, hi)
        data = apply_at(data, c, lo + (hi - lo) * c["pm"] // 1000)
    elif c and c["type"] == "append":
        data += bytes([c["b"]]) * c["n"]
    return data, suffix


def apply_at(data, c, at):
    if c["type"] == "trunc":
        return data[:at]
    if not data:
        return data
    at = min(at, len(data) - 1)
    b = bytearray(data)
    b[at] ^= c["xor"]
    return bytes(b)


def libdec(d, decoder, flags, path, cache):
    key = (decoder, flags, path)
    if key in cache:
        return cache[key]
    outp = path + ".libout"
    rc, out, err = base.run_cmd([LIBDEC, decoder, flags or "none", path, outp], env=base.clean_env())
    if rc is None:
        raise Inconclusive("timeout-libdec")
    try:
        j = json.loads(out.decode())
    except ValueError:
        raise RuntimeError(f"libdec {decoder} {flags} rc={rc}: {out[-200:]!r} {err[-600:]!r}")
    if j.get("capped"):
        raise Inconclusive("libdec-capped")
    data = b""
    if os.path.exists(outp):
        with open(outp, "rb") as f:
            data = f.read()
        os.unlink(outp)
    j["bytes"] = data
    cache[key] = j
    return j


def sniff_lzma(data):
    """xz's plausibility rule for headerless .lzma (coder.c is_format_lzma; xz.1 'Unsupported .lzma files').
    -> (xz_says_lzma, alone_decoder_would_take_the_header)."""
    if len(data) < 13:
        return False, False
    p = data[0]
    if p > 224:
        return False, False
    lc, lp = (p % 45) % 9, (p % 45) // 9
    if lc + lp > 4:
        return False, False
    ds = struct.unpack("<I", data[1:5])[0]
    us = struct.unpack("<Q", data[5:13])[0]
    ok = True
    if ds != 0xFFFFFFFF:
        x = (ds - 1) & 0xFFFFFFFF
        for sh in (2, 3, 4, 8, 16):
            x |= x >> sh
        x = (x + 1) & 0xFFFFFFFF
        if x != ds or ds == 0:
            ok = False
    if us != 0xFFFFFFFFFFFFFFFF and us > (1 << 38):
        ok = False
    return ok, True


def expect_xz(d, path, data, run, cache):
    """What xz -d/-dc/-t must do with this file -> dict(ok, warn, out, weak, alts, how)."""
    fmt = run.get("format") or "auto"
    is_xz = data[:6] == XZ_MAGIC
    is_lz = data[:4] == LZIP_MAGIC
    lz_ok, lz_hdr = sniff_lzma(data)
    chosen = None
    if fmt in ("auto", "xz") and is_xz:
        chosen = "xz"
    elif fmt in ("auto", "lzip") and is_lz and not (fmt == "auto" and is_xz):
        chosen = "lzip"
    elif fmt in ("auto", "lzma") and not (fmt == "auto" and (is_xz or is_lz)):
        if lz_ok:
            chosen = "lzma"
        elif lz_hdr:
            chosen = "gray"
    passthru = run["tool"] == "xz-dc" and run.get("force")
    flags = []
    if not run.get("single_stream"):
        flags.append("concatenated")
    flags.append("ignore_check" if run.get("ignore_check") else "tell_unsupported_check")
    flags = ",".join(flags)
    if chosen is None:
        if passthru:
            return dict(ok=True, warn=False, out=data, weak=False, how="passthru")
        return dict(ok=False, warn=False, out=b"", weak=False, how="unrecognised")
    if chosen == "xz":
        j = libdec(d, "stream", flags, path, cache)
        return dict(ok=j["ret"] == LZMA_STREAM_END, warn=LZMA_UNSUPPORTED_CHECK in j["info"], out=j["bytes"], weak=False, how="stream:" + flags + ":" + j["ret_name"])
    if chosen == "lzip":
        j = libdec(d, "lzip", flags, path, cache)
        return dict(ok=j["ret"] == LZMA_STREAM_END, warn=LZMA_UNSUPPORTED_CHECK in j["info"], out=j["bytes"], weak=False, how="lzip:" + flags + ":" + j["ret_name"])
    j = libdec(d, "alone", "", path, cache)
    ok = j["ret"] == LZMA_STREAM_END and (j["total_in"] == len(data) or bool(run.get("single_stream")))
    if chosen == "lzma":
        return dict(ok=ok, warn=False, out=j["bytes"], weak=False, how="alone:" + j["ret_name"])
    # gray zone: xz's sniffing is documented to be stricter than the decoder; only bytes-if-success
    alts = [j["bytes"]] if ok else []
    if passthru:
        alts.append(data)
    return dict(ok=None, warn=False, out=None, weak=True, alts=alts, how="gray")


def expect_dec(d, path, data, tool, cache):
    if tool == "xzdec":
        j = libdec(d, "stream", "concatenated", path, cache)
        ok = j["ret"] == LZMA_STREAM_END
    else:
        j = libdec(d, "alone", "", path, cache)
        ok = j["ret"] == LZMA_STREAM_END and j["total_in"] == len(data)
    return dict(ok=ok, warn=False, out=j["bytes"], weak=False, how=tool + ":" + j["ret_name"])


def strip_sparse_tail(e):
    """What survives of e if the trailing all-zero full buffers are never materialised."""
    if len(e) % IOBUF:
        return e
    z = bytes(IOBUF)
    n = len(e)
    while n >= IOBUF and e[n - IOBUF:n] == z:
        n -= IOBUF
    return e[:n]


def short(b, n=24):
    return f"{len(b)} bytes sha1={hashlib.sha1(b).hexdigest()[:12]} head={bytes(b[:n])!r}"


def first_diff(a, b):
    n = min(len(a), len(b))
    if a[:n] == b[:n]:
        return n
    lo, hi = 0, n
    while hi - lo > 1:  # a[:lo] == b[:lo], a[:hi] != b[:hi]
        mid = (lo + hi) // 2
        if a[:mid] == b[:mid]:
            lo = mid
        else:
            hi = mid
    return lo


# ------------------------------------------------------------------------------------------------ the decode part

def t_args(run):
    t = run.get("T")
    return [] if t is None else ["-T%d" % t]


def xz_opts(run):
    o = t_args(run)
    if run.get("no_sparse"):
        o.append("--no-sparse")
    if run.get("single_stream"):
        o.append("--single-stream")
    if run.get("ignore_check"):
        o.append("--ignore-check")
    if run.get("format"):
        o.append("--format=" + run["format"])
    o += ["-q"] * int(run.get("quiet") or 0)
    if run.get("no_warn"):
        o.append("-Q")
    return o


def oracle_dec(scn, S, d):
    inputs = []
    for i, inp in enumerate(scn["inputs"]):
        data, suffix = build_input(inp, d, str(i))
        inputs.append((data, suffix))
    for ri, run in enumerate(scn["runs"]):
        one_run(scn, S, d, inputs, run, ri)


def one_run(scn, S, d, inputs, run, ri):
    tool = run["tool"]
    sink = run["sink"] if tool in ("xz-dc", "xzdec", "lzmadec") else {"kind": "newfile" if tool == "xz-d" else "none"}
    rd = os.path.join(d, "r%d" % ri)
    os.mkdir(rd)
    use_stdin = bool(run.get("stdin")) and tool != "xz-d" and len(inputs) == 1
    paths = []
    for i, (data, suffix) in enumerate(inputs):
        p = os.path.join(rd, "in%d%s" % (i, suffix))
        with open(p, "wb") as f:
            f.write(data)
        paths.append(p)
    cache = {}
    # ---- expectation from the library
    exps = []
    for (data, _), p in zip(inputs, paths):
        exps.append(expect_xz(rd, p, data, run, cache) if tool.startswith("xz-") else expect_dec(rd, p, data, tool, cache))
    weak = any(e["weak"] for e in exps)
    if tool.startswith("xz-"):
        if not weak:
            if not all(e["ok"] for e in exps):
                exp_rc = 1
            elif any(e["warn"] for e in exps) and not run.get("no_warn"):
                exp_rc = 2
            else:
                exp_rc = 0
            exp_out = b"".join(e["out"] for e in exps)
    else:
        exp_out, exp_rc = b"", 0
        for e in exps:
            exp_out += e["out"]
            if not e["ok"]:
                exp_rc = 1
                break
    # ---- command
    if tool == "xz-dc":
        argv = [base.tool("xz"), "-dc"] + (["-f"] if run.get("force") else []) + xz_opts(run)
    elif tool == "xz-d":
        argv = [base.tool("xz"), "-d"] + (["-k"] if run.get("keep") else []) + xz_opts(run)
    elif tool == "xz-t":
        argv = [base.tool("xz"), "-t"] + xz_opts(run)
    else:
        argv = [base.tool(tool)] + ["-q"] * int(run.get("quiet") or 0)
    stdin = None
    if use_stdin:
        stdin = inputs[0][0]
    else:
        argv += paths
    # ---- sink
    kind = sink["kind"]
    fd = None
    spath = os.path.join(rd, "sink")
    pre = b""
    off = 0
    if kind in ("trunc", "at_end", "not_end", "append"):
        pre = prefill_bytes(sink["prefill"])
        with open(spath, "wb") as f:
            f.write(pre)
        if kind == "trunc":
            fd = os.open(spath, os.O_WRONLY | os.O_CREAT | os.O_TRUNC, 0o600)
            pre = b""
        elif kind == "at_end":
            fd = os.open(spath, os.O_WRONLY)
            off = os.lseek(fd, 0, os.SEEK_END)
        elif kind == "not_end":
            fd = os.open(spath, os.O_WRONLY)
            off = sink["off"] if sink["off"] != len(pre) else len(pre) + 1
            os.lseek(fd, off, os.SEEK_SET)
        else:
            fd = os.open(spath, os.O_WRONLY | os.O_APPEND)
            os.lseek(fd, min(sink["off"], len(pre)), os.SEEK_SET)  # O_APPEND must win over the position
    try:
        pre_fn = (lambda: os.dup2(fd, 1)) if fd is not None else None
        rc, out, err = base.run_cmd(argv, stdin=stdin, env=base.clean_env(), cwd=rd, preexec_fn=pre_fn)
        if rc is None:
            S.inconclusive_count("timeout-tool")
            return
        flags_after = fcntl.fcntl(fd, fcntl.F_GETFL) if fd is not None else 0
        stt = os.fstat(fd) if fd is not None else None
    finally:
        if fd is not None:
            os.close(fd)
    # ---- classes
    S.count("tool:" + tool)
    S.count("sink:" + kind + ("+no-sparse" if run.get("no_sparse") and tool in ("xz-dc", "xz-d") else ""))
    S.count("T:" + str(run.get("T")) if tool.startswith("xz-") else "T:n/a")
    for e in exps:
        S.count("validity:" + ("weak" if e["weak"] else e["how"].split(":")[0] + ("-ok" if e["ok"] else "-error") + ("-warn" if e["warn"] else "")))
    if use_stdin:
        S.count("input-via-stdin")
    if len(inputs) > 1:
        S.count("two-input-files")
    nontriv = weak or any(not e["ok"] for e in exps) or any(has_zero_buffer(e["out"]) for e in exps)
    if nontriv:
        S.nontrivial({"inputs": scn["inputs"], "run": run}, sample={"part": "dec", "inputs": scn["inputs"], "runs": [run]})
    ctx = (f"argv={' '.join(argv[1:])!r} tool={tool} sink={sink} stdin={use_stdin} inputs=[{', '.join(short(x[0], 14) for x in inputs)}] "
           f"library=[{', '.join(e['how'] for e in exps)}] rc={rc} stderr={err[-240:]!r}")

    def viol(sig, why):
        if S.known(sig):
            return True
        fail(sig, why + " | " + ctx)

    if rc < 0 or rc > 2:
        viol("C18:tool-crash", f"exit status {rc} is none of 0/1/2")
        return
    # ---- collect what was delivered
    if kind == "pipe" or kind == "none":
        pass  # what was delivered is `out`
    elif kind == "newfile":
        if out:
            viol("C18:stdout-bytes", f"xz -d wrote {len(out)} bytes to standard output")
            return
    else:
        with open(spath, "rb") as f:
            final = f.read()
        if out:
            raise RuntimeError("redirected stdout still produced pipe data")
        if stt.st_size != len(final):
            raise RuntimeError("st_size and read() disagree")
        if stt.st_blocks * 512 < stt.st_size:
            S.count("sparse-engaged(st_blocks*512<st_size)")
    # ---- weak: only bytes-if-success
    if weak:
        S.count("weak-status-not-compared")
        if rc == 0 and tool == "xz-dc" and kind == "pipe" and len(inputs) == 1:
            if out not in exps[0]["alts"]:
                viol("C18:stdout-bytes", f"success on a headerless file but the bytes ({short(out)}) are neither the alone decoder's nor a copy")
        return
    # ---- exit status
    if rc != exp_rc:
        # the sparse defect does not change the status, so no special case here
        if viol("C18:exit-status", f"exit status {rc}, library decode says {exp_rc}"):
            return
    # ---- bytes
    # liblzma's BCJ decoders hand over the bytes of the call that hits the error unfiltered (simple_coder.c), so
    # with such a chain the bytes before an error depend on the caller's buffer sizes (a library matter, C06):
    # the one-shot libdec and the 8 KiB loops of the tools legitimately differ there.  Status is still compared.
    if kind != "newfile" and tool != "xz-t" and any((not e["ok"]) and e["how"].startswith(("stream:", "xzdec:")) and has_bcj(x[0]) for e, x in zip(exps, inputs)):
        S.count("bcj-error-bytes-not-compared")
        return
    if tool == "xz-t":
        if out:
            viol("C18:stdout-bytes", f"xz -t wrote {len(out)} bytes to standard output")
        return
    if kind == "pipe":
        if out != exp_out:
            why = f"stdout has {short(out)}, library decode gives {short(exp_out)}; first difference at {first_diff(out, exp_out)}"
            t = run.get("T")
            if tool == "xz-dc" and t not in (None, 1) and len(inputs) == 1 and exps[0]["how"].startswith("stream:"):
                fl = exps[0]["how"].split(":")[1]
                jm = libdec(rd, "stream_mt:%d" % (t or 4), fl, paths[0], cache)
                why += f" (libdec stream_mt gives {jm['ret_name']} {short(jm['bytes'])})"
            viol("C18:stdout-bytes", why)
        return
    if kind == "newfile":
        for e, p in zip(exps, paths):
            target = os.path.splitext(p)[0]
            exists = os.path.lexists(target)
            if not e["ok"]:
                if exists:
                    if viol("C18:file-created-from-invalid", f"{os.path.basename(target)} exists ({os.path.getsize(target)} bytes) although the library reports an error"):
                        continue
                if not os.path.exists(p):
                    viol("C18:source-removed-on-error", f"{os.path.basename(p)} was removed although decoding failed")
                continue
            if not exists:
                if viol("C18:file-missing", f"{os.path.basename(target)} was not created from a valid input"):
                    continue
            with open(target, "rb") as f:
                got = f.read()
            ts = os.stat(target)
            if ts.st_blocks * 512 < ts.st_size:
                S.count("sparse-engaged(st_blocks*512<st_size)")
            if got != e["out"]:
                sig = "C18:sink-size" if (len(got) != len(e["out"]) and got[:len(e["out"])] == e["out"][:len(got)]) else "C18:file-bytes"
                viol(sig, f"{os.path.basename(target)} has {short(got)}, library decode gives {short(e['out'])}; first difference at {first_diff(got, e['out'])}")
        return
    # ---- stdout on a regular file
    if kind == "not_end":
        if exp_out:
            b = bytearray(pre.ljust(off, b"\0"))
            b[off:off + len(exp_out)] = exp_out
            want = bytes(b)
        else:
            want = pre
    else:
        want = pre + exp_out
    if kind == "append" and not flags_after & os.O_APPEND:
        if viol("C18:append-flag-lost", "standard output was opened with O_APPEND; the flag is off after the tool has exited"):
            return
    if final != want:
        if tool == "xz-dc" and rc != 0 and not run.get("no_sparse"):
            # Model of the recorded defect: for an input that fails, the trailing all-zero full buffers are never
            # materialised if sparse output was on for that input (writing started exactly at the end of the file).
            # Single input: final is then a strict prefix of want and the missing suffix is k * 8192 zero bytes.
            b = bytearray(pre)
            pos = len(pre) if kind in ("trunc", "at_end", "append") else off
            for e in exps:
                engaged = pos == len(b)
                data = e["out"] if (e["ok"] or not engaged) else strip_sparse_tail(e["out"])
                if data:
                    if pos > len(b):
                        b.extend(bytes(pos - len(b)))
                    b[pos:pos + len(data)] = data
                    pos += len(data)
            if final == bytes(b):
                viol("C18:sparse-tail-dropped-on-error",
                     f"regular file behind stdout ({kind}) ends up with {len(final)} bytes, the library decode makes it {len(want)}; the missing bytes are the trailing all-zero buffers "
                     f"decoded before the error (a pipe gets them)")
                return
        sig = "C18:sink-size" if (len(final) != len(want) and final[:len(want)] == want[:len(final)]) else "C18:sink-bytes"
        viol(sig, f"file behind stdout ({kind}, previous size {len(pre)}, offset {off}) has {short(final[len(pre):] if kind != 'not_end' else final)} size {len(final)}, expected size {len(want)}; first difference at {first_diff(final, want)}")


# ------------------------------------------------------------------------------------------------ the round-trip part

def model_blocks(n, bs, bl):
    """Uncompressed Block sizes documented for --block-size / --block-list (xz.1)."""
    out = []
    pos = 0
    i = 0
    while pos < n:
        if bl:
            size = bl[min(i, len(bl) - 1)]
            i += 1
            if size == 0:
                size = n - pos
        else:
            size = bs or (n - pos)
        take = min(size, n - pos)
        pos += take
        while take > 0:
            c = min(take, bs) if bs else take
            out.append(c)
            take -= c
    return out


def run_piped(argv, chunks, pause_s, env, cwd, timeout=120):
    """Run argv with standard input on a pipe that receives `chunks` with a pause before each further chunk.  -> (rc, stdout, stderr,
    marks) where marks[i] = number of output bytes that had arrived when chunk i+1 was about to be written (after the pause)."""
    import subprocess
    import threading
    import time
    p = subprocess.Popen(argv, stdin=subprocess.PIPE, stdout=subprocess.PIPE, stderr=subprocess.PIPE, env=env, cwd=cwd)
    out, err, marks = bytearray(), bytearray(), []

    def reader(f, buf):
        while True:
            b = f.read1(65536) if hasattr(f, "read1") else f.read(65536)
            if not b:
                break
            buf.extend(b)

    ro = threading.Thread(target=reader, args=(p.stdout, out), daemon=True)
    re_ = threading.Thread(target=reader, args=(p.stderr, err), daemon=True)
    ro.start()
    re_.start()

    def feeder():
        try:
            for i, c in enumerate(chunks):
                if i:
                    time.sleep(pause_s)
                    marks.append(len(out))
                p.stdin.write(c)
                p.stdin.flush()
        except (BrokenPipeError, OSError):
            pass
        finally:
            try:
                p.stdin.close()
            except OSError:
                pass

    fe = threading.Thread(target=feeder, daemon=True)
    fe.start()
    try:
        rc = p.wait(timeout=timeout)
    except subprocess.TimeoutExpired:
        p.kill()
        p.wait()
        return None, bytes(out), bytes(err), marks
    fe.join(5)
    ro.join(5)
    re_.join(5)
    return rc, bytes(out), bytes(err), marks


def oracle_rt(scn, S, d):
    plain = plain_bytes(scn["plain"])
    p = os.path.join(d, "orig")
    with open(p, "wb") as f:
        f.write(plain)
    cargs = list(scn["cargs"])
    fl = scn.get("flush")
    marks, cuts = [], []
    if fl:
        # input through a pipe with pauses, --flush-timeout shorter or longer than the pauses: short reads, LZMA_SYNC_FLUSH in the middle of
        # Blocks, --block-size / --block-list accounting across partial buffers
        cargs = ["--flush-timeout=%d" % fl["ms"]] + cargs
        cuts = sorted({len(plain) * pm // 1000 for pm in fl["cuts"]} - {0, len(plain)})
        edges = [0] + cuts + [len(plain)]
        chunks = [plain[a:b2] for a, b2 in zip(edges, edges[1:])]
        rc, comp, err, marks = run_piped([base.tool("xz"), "-c"] + cargs, chunks, fl["pause"] / 1000.0, base.clean_env(), d)
        S.count("rt:piped-input-with-flush-timeout")
    else:
        rc, comp, err = base.run_cmd([base.tool("xz"), "-c"] + cargs + [p], env=base.clean_env(), cwd=d)
    if rc is None:
        S.inconclusive_count("timeout-compress")
        return
    ctx = f"xz -c {' '.join(cargs)} on {short(plain, 12)}{' fed in pieces ending at ' + str(cuts) if fl else ''}: rc={rc} stderr={err[-300:]!r}"

    def viol(sig, why):
        if S.known(sig):
            return True
        fail(sig, why + " | " + ctx)

    if rc < 0 or rc > 2 or b"Internal error" in err:
        viol("C18:roundtrip-compress-crash", "the compressor crashed or reported an internal error")
        return
    if rc == 1:
        S.count("rt:rejected-by-xz")  # not a combination the tool accepts
        return
    S.count("rt:accepted" + ("-with-warning" if rc == 2 else ""))
    S.count("rt:format-" + scn["fmt"])
    cp = os.path.join(d, "orig" + (".lzma" if scn["fmt"] == "lzma" else ".xz"))
    with open(cp, "wb") as f:
        f.write(comp)
    dargs = ["-dc"] + t_args({"T": scn.get("dT")})
    rc2, out, err2 = base.run_cmd([base.tool("xz")] + dargs + [cp], env=base.clean_env(), cwd=d)
    if rc2 is None:
        S.inconclusive_count("timeout-tool")
        return
    if has_zero_buffer(plain):
        S.nontrivial({"rt": scn}, sample=scn)
    if rc2 != 0 or out != plain:
        if viol("C18:roundtrip", f"xz {' '.join(dargs)} gives rc={rc2} {short(out)} stderr={err2[-200:]!r}; first difference at {first_diff(out, plain)}"):
            return
    j = libdec(d, "alone" if scn["fmt"] == "lzma" else "stream", "" if scn["fmt"] == "lzma" else "concatenated", cp, {})
    if j["ret"] != LZMA_STREAM_END or j["bytes"] != plain:
        if viol("C18:roundtrip", f"library decode of the compressed file gives {j['ret_name']} {short(j['bytes'])}"):
            return
    if fl and marks and fl["pause"] >= 4 * fl["ms"] + 40:
        # counted, not judged (wall-clock dependent): when the pause was much longer than the timeout, did what had arrived by the end of the
        # pause decode to everything fed until then?
        for k, (cut, m) in enumerate(zip(cuts, marks)):
            pp = os.path.join(d, "prefix%d.xz" % k)
            with open(pp, "wb") as f:
                f.write(comp[:m])
            jj = libdec(d, "stream", "concatenated", pp, {})
            S.count("rt:after-a-long-pause-the-output-so-far-decodes-to-all-input-so-far:" + ("yes" if jj["bytes"] == plain[:cut] else "no"))
    if scn["fmt"] == "xz" and scn.get("model") is not None:
        want = model_blocks(len(plain), scn["model"]["bs"], scn["model"]["bl"])
        got = xz_regions(comp)["usizes"]
        S.count("rt:block-structure-checked")
        if got != want:
            viol("C18:roundtrip-blocks", f"Block sizes {got[:12]} (n={len(got)}), documented {want[:12]} (n={len(want)})")


# ------------------------------------------------------------------------------------------------ strategies

def xz_stream_strategy():
    return st.fixed_dictionaries({
        "plain": plain_strategy(4),
        "bs": st.sampled_from([0, 8192, 16384, 24576, 8191, 8193, 4096, 12288, 32768]),
        "check": st.sampled_from(["crc64", "crc32", "none", "sha256"]),
        "ct": st.sampled_from([1, 4]),
        "preset": st.sampled_from([0, 1]),
        "pad": st.sampled_from([0, 0, 0, 4, 8, 1, 3]),
    })


@st.composite
def corrupt_strategy(draw):
    typ = draw(st.sampled_from([None, None, None, "flip", "flip", "flip", "trunc", "trunc", "unsup", "append"]))
    if typ is None:
        return None
    if typ == "unsup":
        return {"type": "unsup", "s": draw(st.integers(0, 2)), "newid": draw(st.integers(0, 1)), "all": draw(st.sampled_from([0, 0, 1, 2]))}
    if typ == "append":
        return {"type": "append", "n": draw(st.integers(1, 13)), "b": draw(st.sampled_from([0, 255, 0xFD]))}
    c = {"type": typ, "s": draw(st.integers(0, 2)), "region": draw(st.sampled_from(["ix", "bh", "bc", "bp", "sf", "sh", "any"])), "k": draw(st.integers(0, 5)),
         "pm": draw(st.sampled_from([0, 999, 500, 250, 750, 10, 990, 333]))}
    if typ == "flip":
        c["xor"] = draw(st.sampled_from([1, 128, 255, 4, 64]))
    return c


INPUT_KINDS = ["xz"] * 6 + ["lzma"] * 2 + ["raw"] + (["repo", "repolz"] if REPO_LZ else [])


@st.composite
def input_strategy(draw):
    kind = draw(st.sampled_from(INPUT_KINDS))  # (one_of() would merge the repeated alternatives)
    if kind == "xz":
        return {"kind": "xz", "streams": draw(st.lists(xz_stream_strategy(), min_size=1, max_size=3)), "corrupt": draw(corrupt_strategy())}
    if kind == "lzma":
        return {"kind": "lzma", "plain": draw(plain_strategy(4)), "tail": draw(st.sampled_from(["", "", "", "garbage", "lzma", "xz"])), "corrupt": draw(corrupt_strategy()),
                "lzdict": draw(st.sampled_from([None, None, None, "768KiB", "6KiB", "1536KiB", "24KiB", "3MiB"]))}
    if kind == "raw":
        return {"kind": "raw", "plain": draw(plain_strategy(4)), "corrupt": None}
    names = draw(st.lists(st.sampled_from(REPO_FILES if kind == "repo" else REPO_LZ), min_size=1, max_size=2))
    return {"kind": "repo", "names": names, "corrupt": draw(corrupt_strategy())}


def sink_strategy():
    return st.one_of(
        st.fixed_dictionaries({"kind": st.just("trunc"), "prefill": st.sampled_from([0, 100])}),
        st.fixed_dictionaries({"kind": st.just("pipe")}),
        st.fixed_dictionaries({"kind": st.just("at_end"), "prefill": st.sampled_from([1, 8192, 5000, 0])}),
        st.fixed_dictionaries({"kind": st.just("append"), "prefill": st.sampled_from([10, 8192, 0, 20000]), "off": st.sampled_from([0, 5, 1 << 20])}),
        st.fixed_dictionaries({"kind": st.just("not_end"), "prefill": st.sampled_from([40000, 8192, 100, 70000]), "off": st.sampled_from([0, 1, 8192, 50000, 100000])}),
    )


TOOLS_BY_KIND = {  # ten entries each (weights); the first is where shrinking ends
    "xz": ["xz-dc", "xz-dc", "xz-dc", "xz-dc", "xz-d", "xz-d", "xz-t", "xzdec", "xzdec", "lzmadec"],
    "lzma": ["xz-dc", "xz-dc", "xz-dc", "lzmadec", "lzmadec", "lzmadec", "xz-d", "xz-d", "xz-t", "xzdec"],
    "repo": ["xz-dc", "xz-dc", "xz-dc", "xz-d", "xz-d", "xz-t", "xz-t", "xzdec", "xzdec", "lzmadec"],
    "raw": ["xz-dc", "xz-dc", "xz-dc", "xz-dc", "xz-dc", "xz-d", "xz-t", "xzdec", "lzmadec", "xz-dc"],
}
FORMAT_BY_KIND = {"xz": "xz", "lzma": "lzma", "repo": "lzip", "raw": "xz"}


def run_strategy():
    """Independent of the input kind (a dependent strategy shrinks badly); dec_strategy() resolves tool_i / format / force_i."""
    rare = st.sampled_from([False, False, False, False, True])
    return st.fixed_dictionaries({
        "tool_i": st.integers(0, 9),
        "sink": sink_strategy(),
        "T": st.sampled_from([None, 1, 4, 0]),
        "no_sparse": rare, "single_stream": rare, "ignore_check": rare, "no_warn": rare, "stdin": rare, "keep": st.booleans(),
        "force_i": st.integers(0, 4),
        "quiet": st.sampled_from([0, 0, 0, 1, 2]),
        "format": st.sampled_from([None] * 12 + ["auto", "match", "match", "xz", "lzma", "lzip"]),
    })


@st.composite
def dec_strategy(draw):
    first = draw(input_strategy())
    inputs = [first]
    if draw(st.integers(0, 6)) == 6:
        inputs.append(draw(input_strategy()))
    runs = []
    kind = first["kind"]
    for r in draw(st.lists(run_strategy(), min_size=1, max_size=3)):
        r = dict(r)
        tools = TOOLS_BY_KIND[kind]
        r["tool"] = tools[r.pop("tool_i") % len(tools)]
        fi = r.pop("force_i")
        r["force"] = fi == 4 or (kind == "raw" and fi >= 2)
        if r["format"] == "match":
            r["format"] = FORMAT_BY_KIND[kind]
        runs.append(r)
    return {"part": "dec", "inputs": inputs, "runs": runs}


# ---- compressor option grammar for the round trip

def _lzma_opts(draw):
    o = []
    if draw(st.booleans()):
        o.append("preset=%d%s" % (draw(st.integers(0, 4)), draw(st.sampled_from(["", "e"]))))
    if draw(st.booleans()):
        o.append("dict=" + draw(st.sampled_from(["4KiB", "64KiB", "1MiB", "12345", "98304"])))
    if draw(st.booleans()):
        lc = draw(st.integers(0, 4))
        lp = draw(st.integers(0, 4 - lc))
        o += ["lc=%d" % lc, "lp=%d" % lp]
    if draw(st.booleans()):
        o.append("pb=%d" % draw(st.integers(0, 4)))
    if draw(st.booleans()):
        o.append("mode=" + draw(st.sampled_from(["fast", "normal"])))
    if draw(st.booleans()):
        o.append("mf=" + draw(st.sampled_from(["hc3", "hc4", "bt2", "bt3", "bt4"])))
    if draw(st.booleans()):
        o.append("nice=%d" % draw(st.sampled_from([8, 32, 64, 273, 5])))
    if draw(st.booleans()):
        o.append("depth=%d" % draw(st.sampled_from([0, 1, 16, 100])))
    return o


BCJ = [("x86", 1), ("arm64", 4), ("arm", 4), ("armthumb", 2), ("powerpc", 4), ("ia64", 16), ("sparc", 4), ("riscv", 2)]


def _prefilters(draw):
    n = draw(st.sampled_from([0, 0, 1, 1, 2, 3]))
    out = []
    for _ in range(n):
        if draw(st.booleans()):
            out.append(("delta", ["dist=%d" % draw(st.sampled_from([1, 2, 4, 255, 256]))]))
        else:
            name, _al = draw(st.sampled_from(BCJ))
            out.append((name, ["start=%d" % draw(st.sampled_from([16, 4096]))] if draw(st.sampled_from([False, False, True])) else []))
    return out


def _chain_string(draw):
    """liblzma filter string for --filters / --filtersN."""
    if draw(st.sampled_from([False, False, True])):
        return "%d%s" % (draw(st.integers(0, 4)), draw(st.sampled_from(["", "e"])))
    parts = []
    for name, opts in _prefilters(draw):
        parts.append(name + (draw(st.sampled_from([":", "="])) + ",".join(opts) if opts else ""))
    lo = _lzma_opts(draw)
    parts.append("lzma2" + (draw(st.sampled_from([":", "="])) + ",".join(lo) if lo else ""))
    return draw(st.sampled_from([" ", "--"])).join(parts)


@st.composite
def rt_strategy(draw):
    fmt = draw(st.sampled_from(["xz", "xz", "xz", "lzma"]))
    plain = draw(plain_strategy(5))
    args = []
    model = None
    if fmt == "lzma":
        args.append("--format=" + draw(st.sampled_from(["lzma", "alone"])))
        if draw(st.booleans()):
            lvl = draw(st.sampled_from([0, 1, 2, 3, 4, 6, 9]))
            args.append("-%d" % lvl + ("e" if draw(st.booleans()) and lvl < 6 else ""))
        else:
            args.append("--lzma1=" + ",".join(_lzma_opts(draw)))
        if draw(st.booleans()):
            args.append("-T%d" % draw(st.sampled_from([1, 4, 0])))
    else:
        if draw(st.booleans()):
            args.append("--format=xz")
        style = draw(st.sampled_from(["preset", "indiv", "filters"]))
        if style == "preset":
            lvl = draw(st.sampled_from([0, 1, 2, 3, 4, 5, 6, 7, 8, 9]))
            args.append("-%d" % lvl)
            if draw(st.booleans()) and lvl < 6:
                args.append("-e")
        elif style == "indiv":
            for name, opts in _prefilters(draw):
                args.append("--" + name + ("=" + ",".join(opts) if opts else ""))
            lo = _lzma_opts(draw)
            args.append("--lzma2" + ("=" + ",".join(lo) if lo else ""))
        else:
            args.append("--filters=" + _chain_string(draw))
        if draw(st.booleans()):
            args += draw(st.sampled_from([["-C", "none"], ["-C", "crc32"], ["--check=crc64"], ["-C", "sha256"]]))
        t = draw(st.sampled_from([None, 1, 4, 0, 2]))
        if t is not None:
            args.append("-T%d" % t)
        bs = 0
        if draw(st.booleans()):
            bs = draw(st.sampled_from([8192, 16384, 8191, 8193, 4096, 40000, 1 << 20]))
            args.append("--block-size=%d" % bs)
        bl = None
        if draw(st.sampled_from([False, True, False])):
            nchains = draw(st.integers(0, 3))
            ids = draw(st.lists(st.integers(1, 9), min_size=nchains, max_size=nchains, unique=True))
            for cid in ids:
                args.append("--filters%d=%s" % (cid, _chain_string(draw)))
            items, bl = [], []
            for i in range(draw(st.integers(1, 5))):
                size = draw(st.sampled_from([8192, 8193, 8191, 16384, 1, 30000, 24576]))
                if i and draw(st.sampled_from([False, False, False, True])):
                    items.append("")  # "use the size and filters of the previous item"
                    bl.append(bl[-1])
                    continue
                cid = draw(st.sampled_from([None, 0] + ids))
                items.append(("%d:" % cid if cid is not None else "") + str(size))
                bl.append(size)
            # (the last size repeats until the end of the input: a tiny one would mean tens of thousands of Blocks)
            if draw(st.sampled_from([False, False, True])) or bl[-1] < 4096:
                cid = draw(st.sampled_from([None, 0] + ids))
                items.append(("%d:" % cid if cid is not None else "") + "0")
                bl.append(0)
            args.append("--block-list=" + ",".join(items))
        model = {"bs": bs, "bl": bl}
    scn = {"part": "rt", "fmt": fmt, "plain": plain, "cargs": args, "dT": draw(st.sampled_from([None, 1, 4, 0])), "model": model}
    if fmt == "xz" and draw(st.sampled_from([False, False, True])):
        scn["flush"] = {"ms": draw(st.sampled_from([1, 5, 20, 200])), "pause": draw(st.sampled_from([2, 30, 90, 150])),
                        "cuts": draw(st.lists(st.sampled_from([1, 250, 333, 500, 667, 900, 999]), min_size=1, max_size=3, unique=True))}
    return scn


@st.composite
def scenarios(draw):
    if draw(st.integers(0, 5)) >= 4:
        return draw(rt_strategy())
    return draw(dec_strategy())


def oracle(scn, S):
    d = S.fresh_dir()
    try:
        if scn["part"] == "rt":
            oracle_rt(scn, S, d)
        else:
            oracle_dec(scn, S, d)
    except Inconclusive as e:
        S.inconclusive_count(str(e))
    finally:
        S.rm_dir(d)


def fixed_scenarios(S, tier, seed):
    """Always-run two-input invocations (per-file decoder state must not leak into the next file): every ordered pair of
    {valid .lz, .lzma + trailing garbage, .lzma + trailing .xz, valid .lzma, valid .xz, .xz + garbage} x {xz -dc, xz -t, xz -d}."""
    plain = [["d", 1, 5, 0]]
    kinds = []
    if REPO_LZ:
        kinds.append({"kind": "repo", "names": [sorted(f for f in REPO_LZ if f.startswith("good-1-v1"))[0] if any(f.startswith("good-1-v1") for f in REPO_LZ) else REPO_LZ[0]], "corrupt": None})
    kinds += [{"kind": "lzma", "plain": plain, "tail": "garbage", "corrupt": None}, {"kind": "lzma", "plain": plain, "tail": "xz", "corrupt": None},
              {"kind": "lzma", "plain": plain, "tail": "", "corrupt": None},
              {"kind": "xz", "streams": [{"plain": plain, "bs": 0, "check": "crc32", "ct": 1, "preset": 0, "pad": 0}], "corrupt": None}]
    def run(tool):
        return {"sink": {"kind": "pipe"}, "T": None, "no_sparse": False, "single_stream": False, "ignore_check": False, "no_warn": False, "stdin": False,
                "keep": False, "quiet": 0, "format": None, "tool": tool, "force": False}
    for a in kinds:
        for b in kinds:
            if a is b:
                continue
            scn = {"part": "dec", "inputs": [a, b], "runs": [run("xz-dc"), run("xz-t"), run("xz-d")]}
            S.evaluations += 1
            S.count("fixed_two_input_scenarios")
            try:
                oracle(scn, S)
            except base.Violation as v:
                v.scenario = scn
                raise
    # always-run: files whose every Stream carries an unverifiable check, led by 0..2 empty Streams of the same kind (the decoder announces
    # LZMA_UNSUPPORTED_CHECK once per Stream, possibly several times before the first byte of data; for xz that is a warning, status 2)
    for lead in (0, 1, 2):
        for newid in (0, 1):
            for chk in ("crc32", "sha256"):
                inp = {"kind": "xz", "streams": [{"plain": plain, "bs": 0, "check": chk, "ct": 1, "preset": 0, "pad": 0}],
                       "corrupt": {"type": "unsup", "s": 0, "newid": newid, "all": lead}}
                scn = {"part": "dec", "inputs": [inp], "runs": [run("xz-dc"), run("xz-t"), run("xz-d"), run("xzdec")]}
                S.evaluations += 1
                S.count("fixed_unverifiable_check_scenarios")
                try:
                    oracle(scn, S)
                except base.Violation as v:
                    v.scenario = scn
                    raise


if __name__ == "__main__":
    raise SystemExit(base.main("c18", scenarios, oracle, budgets={"quick": 1000, "thorough": 12000}, extra_runs=fixed_scenarios))
