"""C20 - xzgrep / xzegrep / xzfgrep / xzdiff / xzcmp act as grep / diff / cmp on decompressed data; names are data (also for xzmore / xzless).

Scenario (JSON-able dict, every string is latin-1: one char == one byte):
  prog    xzgrep | xzegrep | xzfgrep | xzdiff | xzcmp | xzmore | xzless (the two pagers: injection oracle only)
  files   [{stem, fmt, state, lines, eol, cut, lzidx}]      name = stem + suffix(fmt)
          fmt   plain | xz | lzma | lz | txz | tlz | gz | bz2   (gz/bz2 only when gzip/bzip2 exist)
          state ok | trunc (magic bytes kept, tail cut off => undecodable) | missing
  grep:   label (grep = system grep with --label, sed = wrapper without --label => sed fallback), flags (subset of
          i n c l L h H q v w x o s E F), ctx [A|B|C, n, form], m, pmode/pats/pf (pattern via positional, -e, -ePAT,
          --regexp=, --regexp PAT, mixed -ePAT/-e PAT, -f, -fFILE, --file=, --file FILE), combine (short options glued: -inv, -inA1,
          -ie PAT), long (long option names), dd ("--" before the operands), after (options after the operands),
          stdin_fmt (0 files: what is fed on standard input)
  diff:   dopts, single (one-operand form), dlabel (--label=<hostile> for diff), dd

Oracle.  Directory A holds the files as stored, directory B the original (= decompressed) contents under the same
names.  The tool runs in A.  grep: per operand, in order, `grep <same options> -H|-h -- name` runs in B (system grep,
one file at a time because xzgrep runs grep once per file) and the concatenation must equal xzgrep's stdout; the exit
status must be 2 if an operand is missing/undecodable or grep reported an error, else 0 if some file matched, else 1.
What a missing/undecodable operand itself contributes to stdout is not specified by the property and is left free
(the lines of the good operands must still be there, intact and in order).  diff/cmp: exit status == diff/cmp in B
(2 for missing/undecodable); stdout equal after the operand labels (/dev/fd/5, -, names, time stamps) are removed.
Injection canary: directory listing of A before/after, marker text that only an executed command could print.

Known deviations that get their own signature (see classify_*): they are genuine defects of xz 5.8.1's scripts and
can be put into known_findings.json; when known the generator keeps going behind them and counts the exclusions.
"""
import atexit
import bz2
import gzip
import os
import re
import shutil

from hypothesis import strategies as st

from . import base

# ------------------------------------------------------------------------------------------------------------------
# generator vocabulary

CORE_META = ["\n", "'", '"', ";", "&", "|", "\\"]
CMD_META = ["$(touch CANARY)", "`touch CANARY`", "$(echo C20$((6*7))MARK)", ";touch CANARY;", "';touch CANARY;'",
            "\";touch CANARY;\"", "|touch CANARY", "&touch CANARY&", "\ntouch CANARY\n", "$IFS", "${HOME}", "$0",
            # the same without a space (a quoting layer that escapes blanks but forgets ; $ ` | would split "touch CANARY" into a command name)
            ";touch${IFS}CANARY;", "$(touch${IFS}CANARY)", "`touch${IFS}CANARY`", "|touch${IFS}CANARY|"]
SED_META = ["|w SEDCANARY\n", "|e touch CANARY\n", "|;w SEDCANARY\n", "\\1", "\\n", "&&", "\\&", "\\|", "\\\n", "a\\"]
OTHER_META = [" ", "*", "?", "[", "]", "$", "<", ">", "(", ")", "{", "}", "~", "#", "!", ":", "\t", "=", "%", "^", "\r",
              ",", "@", "+"]
PLAIN_FRAG = ["a", "b", "f", "x", "1", "_", ".", "name", "ab", "-"]
OPTION_NAMES = ["-e", "-f", "-l", "-L", "-q", "-H", "-h", "-c", "-r", "-k", "-d", "-z", "-v", "-i", "--", "--help", "--version",
                "--label=x", "-S", "-T0", "--files", "-ea'", "--suffix=x", "-A", "-1"]
ALL_META = set("".join(CORE_META + OTHER_META)) | {"`"}
COUNTED_META = {"\n": "newline", "'": "squote", '"': "dquote", ";": "semicolon", "&": "amp", "|": "pipe", "\\": "backslash",
                "$": "dollar", "`": "backtick", " ": "space", "*": "star", "?": "qmark", "[": "bracket", "(": "paren",
                "<": "redirect", ">": "redirect", "\t": "tab", "#": "hash", "~": "tilde", "!": "bang", "{": "brace"}

LINES = ["ab", "abc", "b", "a.c", "Hello", "World!", "foo bar", "x*", "", "ab|cd", "a&b", "back\\slash", "it's", "--", "-e",
         "a:b", "AB", "Abc", "$(touch CANARY)", ";", "|", "&", "'", "ab'", "a b", "[ab]", "aXc", "aab", "\x00bin ab", "\xff\xfe ab",
         "tab\there", "a+", "(a)", "\"q\""]
PAT_FRAG = ["a", "b", "ab", "c", "o", "l", "Hello", "World", "a.c", "x*", "^", "$", ".", "*", "[ab]", "[", "]", "\\(", "\\)",
            "(", ")", "|", "\\|", "+", "\\+", "?", "\\", "'", '"', ";", "&", " ", "-", "e", "\n", "!", "foo", "it's", "A", "B", ":",
            "\\b", "^a", "c$", "a|b", "\\slash", "`", "{", "}", "{1,2}", "\\{1\\}", "\xff", "$(touch CANARY)", "`touch CANARY`",
            "$(echo C20$((6*7))MARK)", ";touch CANARY;", "';touch CANARY;'", "'\n", "b'"]

GREP_FLAGS = "inclLhHqvwxosEF"
LONG = {"i": "--ignore-case", "n": "--line-number", "c": "--count", "l": "--files-with-matches", "L": "--files-without-match",
        "h": "--no-filename", "H": "--with-filename", "q": "--quiet", "v": "--invert-match", "w": "--word-regexp",
        "x": "--line-regexp", "o": "--only-matching", "s": "--no-messages", "E": "--extended-regexp", "F": "--fixed-strings"}
LONG_CTX = {"A": "--after-context=", "B": "--before-context=", "C": "--context="}
DIFF_OPTS = ["-q", "-u", "-s", "-i", "-b", "-U1", "-w", "-a", "--brief", "--report-identical-files"]
CMP_OPTS = ["-s", "-l", "-b", "-n5", "--silent", "--print-bytes"]  # not --verbose: xzdiff.in treats --v* as --version

SUFFIX = {"plain": "", "xz": ".xz", "lzma": ".lzma", "lz": ".lz", "txz": ".txz", "tlz": ".tlz", "gz": ".gz", "bz2": ".bz2"}
FAMILY = {"plain": "xz", "xz": "xz", "lzma": "xz", "lz": "xz", "txz": "xz", "tlz": "xz", "gz": "gzip", "bz2": "bzip2"}
LZ_CONTENT = b"Hello\nWorld!\n"
LZ_FILES = ["good-1-v0.lz", "good-1-v1.lz", "good-2-v0-v1.lz", "good-2-v1-v0.lz", "good-2-v1-v1.lz", "good-1-v1-trailing-1.lz"]
MARKER = b"C2042MARK"

_PATH = base.clean_env()["PATH"]
HAVE = {t: shutil.which(t, path=_PATH) is not None for t in ("gzip", "bzip2", "grep", "diff", "cmp", "sed")}
FORMATS = ["plain", "plain", "xz", "xz", "xz", "lzma", "lz", "txz", "tlz"] + (["gz"] if HAVE["gzip"] else []) + (["bz2"] if HAVE["bzip2"] else [])
# the pagers of the same family (names are data there too): xzmore always (PAGER=cat), xzless when a less exists
PAGERS = ["xzmore"] + (["xzless"] if shutil.which("less", path=_PATH) else [])


def suffix_family(name):
    """The decompressor xzgrep.in (line 179-186) picks for a name; xzdiff.in agrees for the '.'-suffixes generated here."""
    def m(*pats):
        return any(re.search(p, name, re.S) for p in pats)
    if m(r"[-.][zZ]\Z", r"_z\Z", r"[-.]gz\Z", r"\.t[ag]z\Z"):
        return "gzip"
    if m(r"[-.]bz2\Z", r"[-.]tbz\Z", r"\.tbz2\Z"):
        return "bzip2"
    if m(r"[-.]lzo\Z", r"[-.]tzo\Z"):
        return "lzop"
    if m(r"[-.]zst\Z", r"[-.]tzst\Z"):
        return "zstd"
    if m(r"[-.]lz4\Z"):
        return "lz4"
    return "xz"


def diff_compressed_suffix(name):
    """xzdiff.in line 125/127/191: does the operand go through a decompressor (else it is handed to diff directly)."""
    return re.search(r"([-.][zZ]|_z|[-.][gx]z|[-.]bz2|[-.]lzma|[-.]lz|\.t[abglx]z|\.tbz2|[-.]lzo|\.tzo|[-.]zst|\.tzst|[-.]lz4)\Z", name, re.S) is not None


# ------------------------------------------------------------------------------------------------------------------
# strategies

# (plain alternatives first: Hypothesis shrinks towards the first alternative, so minimal examples keep only the
# hostile characters that matter)
_frag = st.one_of(
    st.sampled_from(PLAIN_FRAG), st.sampled_from(PLAIN_FRAG), st.sampled_from(CORE_META), st.sampled_from(CORE_META),
    st.sampled_from(CMD_META), st.sampled_from(SED_META), st.sampled_from(OTHER_META),
    st.characters(min_codepoint=1, max_codepoint=255, blacklist_characters="/"))
_stem = st.one_of(st.sampled_from(PLAIN_FRAG), st.lists(_frag, min_size=1, max_size=4).map("".join),
                  st.lists(_frag, min_size=1, max_size=4).map("".join), st.lists(_frag, min_size=1, max_size=2).map("".join),
                  st.sampled_from(OPTION_NAMES))
_pattern = st.one_of(st.sampled_from(PAT_FRAG), st.lists(st.sampled_from(PAT_FRAG), min_size=1, max_size=3).map("".join),
                     st.sampled_from(["a", "b", "ab", "Hello", "o", "", "a.c", "[ab]", "^a", "c$", "it's", "b'", "'"]))


@st.composite
def _file(draw):
    return {"stem": draw(_stem), "fmt": draw(st.sampled_from(FORMATS)),
            "state": draw(st.sampled_from(["ok"] * 8 + ["trunc", "missing"])),
            "lines": draw(st.lists(st.sampled_from(LINES), min_size=0, max_size=9)), "eol": draw(st.sampled_from([True, True, True, False])),
            "cut": draw(st.integers(0, 999)), "lzidx": draw(st.integers(0, len(LZ_FILES) - 1))}


@st.composite
def scenarios(draw):
    prog = draw(st.sampled_from(["xzgrep"] * 5 + ["xzegrep", "xzfgrep", "xzdiff", "xzdiff", "xzcmp"] + PAGERS))
    scn = {"prog": prog}
    if prog in ("xzmore", "xzless"):
        nf = draw(st.sampled_from([1, 1, 2, 3]))
        scn["files"] = draw(st.lists(_file(), min_size=nf, max_size=nf))
        scn["dd"] = draw(st.booleans())
        return scn
    if prog in ("xzdiff", "xzcmp"):
        scn["files"] = [draw(_file()), draw(_file())]
        scn["single"] = draw(st.sampled_from([False, False, False, True]))
        scn["dopts"] = draw(st.lists(st.sampled_from(DIFF_OPTS if prog == "xzdiff" else CMP_OPTS), max_size=2, unique=True))
        scn["same"] = draw(st.booleans())        # second operand gets the content of the first
        scn["dlabel"] = draw(st.one_of(st.none(), _stem)) if prog == "xzdiff" else None
        scn["dd"] = draw(st.booleans())
        if draw(st.sampled_from([False, False, False, True])):
            for f in scn["files"]:
                f["rep"] = 20000
        return scn
    scn["label"] = draw(st.sampled_from(["grep", "sed"]))
    nf = draw(st.sampled_from([0, 1, 1, 2, 2, 2, 3, 3, 4]))
    scn["files"] = draw(st.lists(_file(), min_size=nf, max_size=nf))
    pool = GREP_FLAGS + "lLhHcqin" * 2      # the options the property names are drawn more often
    if prog != "xzgrep":
        pool = pool.replace("E", "").replace("F", "")
    scn["flags"] = draw(st.lists(st.sampled_from(pool), max_size=4, unique=True))
    scn["ctx"] = draw(st.one_of(st.none(), st.none(), st.tuples(st.sampled_from("ABC"), st.one_of(st.integers(0, 2), st.sampled_from([10, 12, 25])),
                                                                st.sampled_from(["sep", "joined", "digits", "long", "digitsflags", "digitsflags"])).map(list)))
    if scn["ctx"] and scn["ctx"][2] == "digitsflags":
        # -NUMflags in one argument: make it count - context option C, flags that keep the context lines visible, at least one flag
        scn["ctx"][0] = "C"
        scn["flags"] = [f for f in scn["flags"] if f in "inhHvwxsEF"] or ["n"]
    scn["m"] = draw(st.one_of(st.none(), st.none(), st.none(), st.tuples(st.integers(1, 2), st.sampled_from(["sep", "joined", "long", "longsep"])).map(list)))
    scn["pmode"] = draw(st.sampled_from(["pos", "pos", "e", "e", "ejoin", "mixed", "regexp", "regexp2", "f", "fjoin", "file", "file2"]))
    scn["pats"] = draw(st.lists(_pattern, min_size=1, max_size=3))
    scn["pf"] = draw(_stem)
    scn["combine"] = draw(st.sampled_from(["none", "none", "all", "ctxtail", "etail"]))
    scn["long"] = draw(st.sampled_from([False, False, False, True]))
    scn["dd"] = draw(st.booleans())
    scn["after"] = draw(st.sampled_from([False, False, False, True]))
    scn["stdin_fmt"] = draw(st.sampled_from(["plain", "xz", "lzma"]))
    return scn


# ------------------------------------------------------------------------------------------------------------------
# helpers

def b(s):
    return s.encode("latin-1")


_cache = {}
_bin = {}


def bindir():
    """Per-process directory with the scripts under all their names and the grep without --label."""
    if "dir" in _bin:
        return _bin["dir"]
    env_path = base.clean_env()["PATH"]
    xz = shutil.which("xz", path=env_path)
    if xz is None or os.path.realpath(xz) != os.path.realpath(base.tool("xz")):
        raise RuntimeError(f"xz on PATH is {xz}, expected {base.tool('xz')}")
    d = os.path.join(base.SCRATCH, f"c20-bin-{os.getpid()}")
    if re.search(r"[^A-Za-z0-9_./+-]", d):
        raise RuntimeError(f"scratch path {d!r} is not safe to put into $GREP (which xzgrep evaluates)")
    os.makedirs(d, exist_ok=True)
    atexit.register(shutil.rmtree, d, ignore_errors=True)
    for name, src in (("xzgrep", "xzgrep"), ("xzegrep", "xzgrep"), ("xzfgrep", "xzgrep"), ("xzdiff", "xzdiff"), ("xzcmp", "xzdiff"), ("xzmore", "xzmore"), ("xzless", "xzless")):
        p = os.path.join(d, name)
        if not os.path.lexists(p):
            os.symlink(base.tool(src), p)
        with open(base.tool(src), "rb") as f:
            head = f.read(4096)
        if b"xz='xz --format=auto'" not in head:
            raise RuntimeError(f"{base.tool(src)} does not call xz through PATH")
    real_grep = shutil.which("grep", path=env_path)
    nolabel = os.path.join(d, "grep-nolabel")
    with open(nolabel, "w") as f:
        # behaves like a grep that predates --label: "unrecognized option", status 2.  Option arguments are skipped
        # so that a pattern that happens to read --label is still a pattern.
        f.write("#!/bin/sh\nskip=0\nfor a in \"$@\"; do\n"
                "  if test $skip -eq 1; then skip=0; continue; fi\n"
                "  case $a in\n"
                "    --) break;;\n"
                "    --label|--label=*|--labe|--lab|--labe=*|--lab=*) echo \"grep: unrecognized option '$a'\" >&2; exit 2;;\n"
                "    --regexp|--file|--max-count|--after-context|--before-context|--context) skip=1;;\n"
                "    --*) ;;\n"
                "    -*[efmABC]) skip=1;;\n"
                "  esac\ndone\n"
                f"exec {real_grep} \"$@\"\n")
    os.chmod(nolabel, 0o755)
    _bin.update(dir=d, nolabel=nolabel)
    return d


def content_of(f):
    if f["fmt"] == "lz":
        return LZ_CONTENT
    data = b"\n".join(b(x) for x in f["lines"])
    if f["lines"] and f["eol"]:
        data += b"\n"
    if f.get("rep"):
        # diff/cmp scenarios only: contents far beyond the pipe buffer, so that decompressors can still be writing (and get
        # SIGPIPE) when cmp / diff -q stops reading at the first difference
        data = data * f["rep"]
    return data


def looks_compressed(data):
    """xz --format=auto -dcf would not pass these through unchanged (coder.c is_format_xz/_lzip/_lzma)."""
    if data.startswith(b"\xfd7zXZ\x00") or data.startswith(b"LZIP"):
        return True
    if len(data) >= 13 and data[0] <= 224:
        dict_size = int.from_bytes(data[1:5], "little")
        ok = dict_size == 0xFFFFFFFF
        if not ok and dict_size != 0:
            d = dict_size - 1
            for s in (2, 3, 4, 8, 16):
                d |= d >> s
            ok = ((d + 1) & 0xFFFFFFFF) == dict_size
        if ok:
            usize = int.from_bytes(data[5:13], "little")
            if usize == 0xFFFFFFFFFFFFFFFF or usize < (1 << 38):
                return True
    return False


def stored_bytes(f, S):
    """Bytes of the file as stored in A (None = missing); (None, 'timeout') if the compressor timed out."""
    data = content_of(f)
    fmt = f["fmt"]
    lzidx = (f["lzidx"] % 2 if f["state"] == "trunc" else f["lzidx"]) if fmt == "lz" else 0  # 0,1: single-member files
    key = (fmt, data, lzidx)
    if key not in _cache:
        if fmt == "plain":
            z = data
        elif fmt in ("xz", "txz", "lzma", "tlz"):
            rc, out, err = base.run_cmd([base.tool("xz"), "-c", "-1", "--format=" + ("xz" if fmt in ("xz", "txz") else "lzma")],
                                        stdin=data, env=base.clean_env())
            if rc is None:
                return None, "timeout"
            if rc != 0:
                raise RuntimeError(f"built xz failed to compress: {err!r}")
            z = out
        elif fmt == "lz":
            with open(os.path.join(base.REPO, "tests", "files", LZ_FILES[lzidx]), "rb") as fh:
                z = fh.read()
        elif fmt == "gz":
            z = gzip.compress(data, mtime=0)
        elif fmt == "bz2":
            z = bz2.compress(data)
        if len(_cache) > 4000:
            _cache.clear()
        _cache[key] = z
    z = _cache[key]
    if f["state"] == "trunc" and fmt != "plain":
        # keep the magic so that "-f" cannot pass the file through as "not compressed"; cut at least one byte
        lo = {"xz": 12, "txz": 12, "lzma": 13, "tlz": 13, "lz": 6, "gz": 10, "bz2": 4}[fmt]
        hi = len(z) - 1
        if hi < lo:
            return z, "ok"
        return z[:lo + f["cut"] % (hi - lo + 1)], "trunc"
    return z, "ok"


def plan_files(scn, S):
    """Resolve names (unique, valid), states and contents. Returns list of dicts name/data/stored/state/fmt."""
    out, seen = [], set()
    for i, f in enumerate(scn["files"]):
        fmt = f["fmt"]
        if fmt in ("gz", "bz2") and not HAVE["gzip" if fmt == "gz" else "bzip2"]:
            S.count("excluded:tool-missing-" + fmt)
            fmt = "xz"
        stem = f["stem"].replace("/", "_").replace("\x00", "_") or "f"
        stem = stem[:120]
        name = stem + SUFFIX[fmt]
        if name in (".", "..", "-"):
            S.count("excluded:name-is-dot-or-stdin")
            stem += "x"
            name = stem + SUFFIX[fmt]
        if suffix_family(name) != FAMILY[fmt]:
            S.count("excluded:plain-name-claims-other-format")
            stem += "0"
            name = stem + SUFFIX[fmt]
        while name in seen or name in ("CANARY", "SEDCANARY"):
            stem += str(i)
            name = stem + SUFFIX[fmt]
        seen.add(name)
        ff = dict(f, fmt=fmt)
        state = f["state"]
        data = content_of(ff)
        if fmt == "plain":
            if state == "trunc":
                state = "ok"
            if looks_compressed(data):
                S.count("excluded:plain-content-looks-compressed")
                data = b"x" + data
                ff["lines"] = ["x" + (ff["lines"][0] if ff["lines"] else "")] + list(ff["lines"][1:])
        stored = None
        if state != "missing":
            stored, how = stored_bytes(dict(ff, state=state), S)
            if how == "timeout":
                return None
            if state == "trunc" and how != "trunc":
                state = "ok"
        out.append({"name": name, "stem": stem, "fmt": fmt, "state": state, "data": data, "stored": stored})
    return out


def write_file(d, name, data):
    with open(os.path.join(b(d), b(name)), "wb") as f:
        f.write(data)


def has_meta(s):
    return any(c in ALL_META or ord(c) < 32 or ord(c) >= 127 for c in s) or s.startswith("-")


def count_meta(S, prefix, s):
    seen = set()
    for c in s:
        k = COUNTED_META.get(c)
        if k is None and (ord(c) < 32 or ord(c) >= 127):
            k = "ctrl-or-8bit"
        if k and k not in seen:
            seen.add(k)
            S.count(f"{prefix}:{k}")
    if s.startswith("-"):
        S.count(f"{prefix}:leading-dash")
    if "CANARY" in s or "C20$((" in s:
        S.count(f"{prefix}:command-text")


def canary_check(A, before, outs, what):
    after = set(os.listdir(b(A)))
    if after != before:
        raise base.Violation("C20:injection", f"{what}: directory changed: created {sorted(after - before)!r} removed {sorted(before - after)!r}")
    for o in outs:
        if MARKER in o:
            raise base.Violation("C20:injection", f"{what}: output contains the marker only an executed command prints: {o[:300]!r}")


def match_segments(out, segs):
    """segs: list of bytes (must appear, in order, contiguous) or None (anything). True if out fits."""
    chunks, gap, cur = [], False, None
    for s in segs:
        if s is None:
            if cur is not None:
                chunks.append((cur[0], cur[1]))
                cur = None
            gap = True
        else:
            if cur is None:
                cur = [gap, s]
                gap = False
            else:
                cur[1] += s
    if cur is not None:
        chunks.append((cur[0], cur[1]))
    trailing_gap = gap
    pos = 0
    for idx, (g, data) in enumerate(chunks):
        last = idx == len(chunks) - 1
        if not g:
            if not out.startswith(data, pos):
                return False
            pos += len(data)
        elif last and not trailing_gap:
            if not out.endswith(data) or len(out) - len(data) < pos:
                return False
            pos = len(out)
        else:
            j = out.find(data, pos)
            if j < 0:
                return False
            pos = j + len(data)
    return trailing_gap or pos == len(out)


# ------------------------------------------------------------------------------------------------------------------
# grep family

def build_opts(flags, ctx, m, combine, long):
    """Option arguments (without pattern) -> (args, etail) ; etail: the combined argument ends in 'e' and wants the pattern next."""
    args = []
    ctx_done = False
    etail = False
    if long:
        args += [LONG[f] for f in flags]
    elif flags and ctx and ctx[2] == "digitsflags" and ctx[0] == "C":
        # GNU grep's -NUM shorthand with the other flags bundled behind it in one argument: -12in
        args.append("-" + str(ctx[1]) + "".join(flags))
        ctx_done = True
    elif flags and combine in ("all", "ctxtail", "etail"):
        a = "-" + "".join(flags)
        if combine == "ctxtail" and ctx and ctx[2] == "joined":
            a += f"{ctx[0]}{ctx[1]}"
            ctx_done = True
        elif combine == "etail":
            a += "e"
            etail = True
        args.append(a)
    else:
        args += ["-" + f for f in flags]
    tail = []
    if ctx and not ctx_done:
        k, n, form = ctx
        if long or form == "long":
            tail.append(f"{LONG_CTX[k]}{n}")
        elif form == "sep":
            tail += ["-" + k, str(n)]
        elif form == "digits" and k == "C":
            tail.append(f"-{n}")
        else:
            tail.append(f"-{k}{n}")
    if m:
        n, form = m
        if form == "long":
            tail.append(f"--max-count={n}")
        elif form == "longsep":
            tail += ["--max-count", str(n)]
        elif form == "sep":
            tail += ["-m", str(n)]
        else:
            tail.append(f"-m{n}")
    if etail:
        return tail + args, True
    return args + tail, False


def pattern_args(scn, pf_name, etail):
    """-> (option args carrying the pattern, positional pattern or None)"""
    pats, mode = scn["pats"], scn["pmode"]
    if etail and mode not in ("pos",):
        mode = "e"
    if etail:
        # "-ie" PAT : the first pattern follows the combined argument directly
        rest = []
        for p in pats[1:]:
            rest += ["-e", p]
        return [pats[0]] + rest, None
    if mode == "pos":
        return [], "\n".join(pats)
    out = []
    if mode in ("e", "ejoin", "mixed", "regexp", "regexp2"):
        for i, p in enumerate(pats):
            if mode == "e" or p == "" and mode in ("ejoin", "mixed") or (mode == "mixed" and i % 2 == 1):
                out += ["-e", p]
            elif mode in ("ejoin", "mixed"):
                out.append("-e" + p)
            elif mode == "regexp":
                out.append("--regexp=" + p)
            else:
                out += ["--regexp", p]
        return out, None
    return {"f": ["-f", pf_name], "fjoin": ["-f" + pf_name], "file": ["--file=" + pf_name], "file2": ["--file", pf_name]}[mode], None


def trailing_quote_option(args):
    """xzgrep.in line 147-152 quotes an option argument with the sed script only if a ' is followed by another
    character; an argument such as -eb' or --regexp=' is glued as '-eb'' and unbalances the eval string."""
    skip = False
    for a in args:
        if skip:
            skip = False
            continue
        if a == "--":
            return False
        if a in ("--regexp", "--file", "--max-count"):
            skip = True
            continue
        if a.startswith("-") and not a.startswith("--"):
            # getopt: the first letter that takes an argument uses the rest of the word, or the next word if none
            for k, c in enumerate(a[1:], 1):
                if c in "efmABCDX":
                    skip = k == len(a) - 1
                    break
            if skip:
                continue
        if a.startswith("-") and len(a) > 1 and a.endswith("'") and a.count("'") == 1:
            return True
    return False


def oracle_grep(scn, S, d):
    prog = scn["prog"]
    files = plan_files(scn, S)
    if files is None:
        S.inconclusive_count("timeout:compress")
        return
    A, B = os.path.join(d, "A"), os.path.join(d, "B")
    os.mkdir(A)
    os.mkdir(B)
    names = [f["name"] for f in files]
    flags = list(scn["flags"])
    # --- keep conflicting / unsupported combinations out of the domain (counted)
    if "h" in flags and "H" in flags:
        S.count("excluded:-h-with-H(last-one-wins-in-grep)")
        flags.remove("h")
    if "l" in flags and "L" in flags:
        S.count("excluded:-l-with-L")
        flags.remove("L")
    if "E" in flags and "F" in flags:
        S.count("excluded:-E-with-F")
        flags.remove("F")
    if not files:
        for x in "HlL":
            if x in flags:
                S.count("excluded:stdin-with-" + x + "(label-of-stdin-not-specified)")
                flags.remove(x)
    ctx, m = scn["ctx"], scn["m"]
    if m and m[0] == 0:
        # grep -m0 exits without reading: whether the decompressor of an undecodable file then dies of SIGPIPE
        # (ignored by design) or reports its error is a race, so no status can be demanded
        S.count("excluded:-m0(grep-exits-before-reading)")
        m = [1, m[1]]
    pmode = scn["pmode"]
    opts, etail = build_opts(flags, ctx, m, scn["combine"] if not scn["long"] else "none", scn["long"])
    usepf = pmode in ("f", "fjoin", "file", "file2") and not etail
    pf_name = None
    if usepf:
        pf_name = (scn["pf"].replace("/", "_").replace("\x00", "_") or "p")[:80]
        if pf_name in ("-", ".", ".."):
            pf_name += "p"
        while pf_name in names or pf_name in ("CANARY", "SEDCANARY"):
            pf_name += "p"
        pfdata = b"\n".join(b(p) for p in scn["pats"]) + b"\n"
        write_file(A, pf_name, pfdata)
        write_file(B, pf_name, pfdata)
    for f in files:
        if f["stored"] is not None:
            write_file(A, f["name"], f["stored"])
        if f["state"] == "ok":
            write_file(B, f["name"], f["data"])

    # --- xzgrep command line
    pargs, pos = pattern_args(scn, pf_name, etail)
    dd = scn["dd"] or any(n.startswith("-") for n in names) or (pos is not None and pos.startswith("-"))
    after = scn["after"] and not dd and not etail
    if after:
        argv = pargs + ([pos] if pos is not None else []) + names + opts
    else:
        argv = opts + pargs + (["--"] if dd else []) + ([pos] if pos is not None else []) + names
    env = base.clean_env()
    bd = bindir()
    variant = {"xzgrep": [], "xzegrep": ["-E"], "xzfgrep": ["-F"]}[prog]
    if scn["label"] == "sed":
        env["GREP"] = " ".join([_bin["nolabel"]] + variant)
    stdin_data = b""
    if not files:
        sf = {"stem": "s", "fmt": scn["stdin_fmt"], "state": "ok", "lines": ["ab", "Hello", "b", "it's", "a.c"], "eol": True, "cut": 0, "lzidx": 0}
        stdin_plain = content_of(sf)
        stdin_data, how = stored_bytes(sf, S)
        if how == "timeout":
            S.inconclusive_count("timeout:compress")
            return

    # --- classes
    S.count("prog:" + prog)
    S.count(f"nfiles:{len(files)}")
    S.count("pattern-via:" + ("combined-e" if etail else pmode))
    for f in files:
        S.count("format:" + f["fmt"])
        S.count("decompressor:" + FAMILY[f["fmt"]])
        S.count("state:" + f["state"])
        count_meta(S, "name-meta", f["name"])
    for p in scn["pats"]:
        count_meta(S, "pattern-meta", p)
    if pf_name:
        count_meta(S, "name-meta", pf_name)
    listing = "l" in flags or "L" in flags
    labelled = bool(files) and ("H" in flags or (len(files) != 1 and "h" not in flags))
    if listing:
        S.count("label-method:list(-l/-L)")
    elif not labelled:
        S.count("label-method:none")
    else:
        S.count("label-method:" + ("grep--label" if scn["label"] == "grep" else "sed-fallback"))
    if dd:
        S.count("operands-after--")
    if after:
        S.count("options-after-operands")

    # --- reference: system grep, one file at a time, in B
    rflags = [x for x in flags if x not in "Hh"]
    ropts, _ = build_opts(rflags, ctx, m, "none", False)
    if usepf:
        rpat = ["-f", pf_name]
    else:
        rpat = []
        for p in scn["pats"]:
            rpat += ["-e", p]
        if pmode == "pos" and not etail:
            rpat = ["-e", "\n".join(scn["pats"])]
    sed_prefix = labelled and not listing and scn["label"] == "sed"
    segs, statuses, outcomes = [], [], []
    grep_bin = shutil.which("grep", path=env["PATH"])
    for f in (files or [None]):
        if f is not None and f["state"] != "ok":
            segs.append(None)
            statuses.append("bad")
            outcomes.append(f["state"])
            continue
        rargv = [grep_bin] + variant + ropts + rpat
        if f is None:
            rc, out, err = base.run_cmd([b(x) for x in rargv], stdin=stdin_plain, env=base.clean_env(), cwd=B)
        else:
            rargv += ["-h" if (not labelled or sed_prefix) else "-H", "--", f["name"]]
            rc, out, err = base.run_cmd([b(x) for x in rargv], stdin=b"", env=base.clean_env(), cwd=B)
        if rc is None:
            S.inconclusive_count("timeout:reference-grep")
            return
        if sed_prefix:
            # the sed fallback prefixes every line grep printed with "name:" (this equals grep -H except that
            # context lines and the "--" separator get ':' too; that difference is not demanded here)
            lab = b(f["name"]) + b":"
            out = b"".join(lab + ln for ln in out.splitlines(keepends=True))
        if out and f is not None:
            if listing:
                S.count("checked:listed-name" + ("-with-metachar" if has_meta(f["name"]) else ""))
            elif labelled:
                S.count("checked:label-by-" + ("sed" if sed_prefix else "grep") + ("-with-metachar" if has_meta(f["name"]) else ""))
        segs.append(out)
        statuses.append(rc)
        outcomes.append(rc)
    bad = "bad" in statuses
    good = [s for s in statuses if s != "bad"]
    if bad or any(s >= 2 for s in good):
        exp_status = {2}
        if "q" in flags and bad and 0 in good and not any(s >= 2 for s in good):
            exp_status = {0, 2}  # grep -q: "exit 0 if a match is found even if an error was detected"; xzgrep.1: >1
            S.count("ambiguous:-q-match-and-error(0-or-2-accepted)")
    elif 0 in good:
        exp_status = {0}
    else:
        exp_status = {1}

    meta = any(has_meta(n) for n in names) or any(has_meta(p) for p in scn["pats"]) or (pf_name is not None and has_meta(pf_name))
    mixed = len(set(map(str, outcomes))) >= 2
    if meta or mixed:
        S.nontrivial(scn, sample={"argv": [prog] + argv, "label": scn["label"], "files": [[f["name"], f["fmt"], f["state"]] for f in files]})
    if mixed:
        S.count("mixed-outcomes")
    S.count("expected-status:" + "/".join(map(str, sorted(exp_status))))

    # --- run
    before = set(os.listdir(b(A)))
    rc, out, err = base.run_cmd([b(os.path.join(bd, prog))] + [b(x) for x in argv], stdin=stdin_data, env=env, cwd=A)
    if rc is None:
        S.inconclusive_count("timeout:" + prog)
        return
    what = f"{prog} {argv!r} (label method {scn['label']})"

    def fail(sig, reason):
        # genuine defects with a signature computed from the case itself (can be listed as known findings)
        if trailing_quote_option(opts + pargs):
            sig = "C20:option-ending-in-quote"
            reason = "option argument ending in a single quote is glued unescaped into the eval string (xzgrep.in:147-152); " + reason
        if S.known(sig):
            return
        raise base.Violation(sig, reason)

    try:
        canary_check(A, before, [out, err], what)
    except base.Violation as v:
        fail(v.signature, v.reason)
        return
    if rc not in exp_status:
        fail("C20:grep-status", f"{what}: exit status {rc}, expected {sorted(exp_status)} (per-file grep statuses {statuses}); stderr {err[:300]!r}")
        return
    if not match_segments(out, segs):
        exp = b"".join(s if s is not None else b"<...>" for s in segs)
        if "q" in flags and listing and not any(s for s in segs if s):
            fail("C20:q-with-l-prints-names", f"{what}: grep -q -l/-L prints nothing, the script printed {out[:200]!r}")
            return
        sig = "C20:label-corruption" if ((labelled or listing) and any(has_meta(n) for n in names)) else "C20:grep-output"
        fail(sig, f"{what}: stdout {out[:600]!r} expected {exp[:600]!r}; stderr {err[:300]!r}")


# ------------------------------------------------------------------------------------------------------------------
# diff / cmp

def normalise_diff(prog, out):
    m = re.match(rb"\A(Files|Binary files) .* (differ|are identical)\n\Z", out, re.S)
    if m:
        return m.group(1) + b" ... " + m.group(2)
    if prog == "xzcmp":
        lines = []
        for ln in out.splitlines(keepends=True):
            i = ln.rfind(b" differ: ")
            lines.append(ln[i:] if i >= 0 else ln)
        # a name with a newline spreads "N1 N2 differ: ..." over several lines: keep from the last label line on
        for k in range(len(lines) - 1, -1, -1):
            if lines[k].startswith(b" differ: "):
                return b"".join(lines[k:])
        # cmp -l pads the offset column according to the file size, which it only knows for regular files
        return b"".join(re.sub(rb"[ ]+", b" ", ln.lstrip(b" ")) for ln in lines)
    if out.startswith(b"--- ") or out.startswith(b"*** "):
        i = out.find(b"\n@@ ")
        if i >= 0:
            return out[i + 1:]
    return out


def oracle_diff(scn, S, d):
    prog = scn["prog"]
    specs = [dict(scn["files"][0]), dict(scn["files"][1])]
    if scn["same"]:
        # same decompressed content in both operands (so that status 0 is reachable); .lz content is fixed
        if "lz" in (specs[0]["fmt"], specs[1]["fmt"]):
            for sp in specs:
                sp["lines"], sp["eol"] = ["Hello", "World!"], True
        else:
            specs[1]["lines"], specs[1]["eol"] = specs[0]["lines"], specs[0]["eol"]
    files = plan_files(dict(scn, files=specs), S)
    if files is None:
        S.inconclusive_count("timeout:compress")
        return
    A, B = os.path.join(d, "A"), os.path.join(d, "B")
    os.mkdir(A)
    os.mkdir(B)
    f1, f2 = files
    single = scn["single"] and f1["fmt"] != "plain"
    if single:
        pname = f1["stem"] + (".tar" if f1["fmt"] in ("txz", "tlz") else "")
        if suffix_family(pname) != "xz" or pname in ("-", ".", ".."):
            S.count("excluded:single-operand-partner-name")
            single = False
        else:
            f2 = dict(f2, name=pname, fmt="plain", stored=(None if f2["state"] == "missing" else f2["data"]),
                      state=("missing" if f2["state"] == "missing" else "ok"))
    for f in (f1, f2):
        if f["stored"] is not None:
            write_file(A, f["name"], f["stored"])
        if f["state"] == "ok":
            write_file(B, f["name"], f["data"])
    dopts = list(scn["dopts"])
    if scn.get("dlabel") is not None:
        dopts.append("--label=" + scn["dlabel"].replace("\x00", "_"))
    names = [f1["name"]] if single else [f1["name"], f2["name"]]
    dd = scn["dd"] or any(n.startswith("-") for n in names)
    argv = dopts + (["--"] if dd else []) + names
    env = base.clean_env()
    bd = bindir()

    S.count("prog:" + prog)
    S.count("diff-form:" + ("one-operand" if single else "two-operands"))
    for f in (f1, f2):
        S.count("format:" + f["fmt"])
        S.count("decompressor:" + ("none(direct)" if not diff_compressed_suffix(f["name"]) else FAMILY[f["fmt"]]))
        S.count("state:" + f["state"])
        count_meta(S, "name-meta", f["name"])
    bad = [f["state"] for f in (f1, f2) if f["state"] != "ok"]
    ref_tool = shutil.which("diff" if prog == "xzdiff" else "cmp", path=env["PATH"])
    exp_out = None
    if bad:
        exp_status = 2
    else:
        rc, exp_out, err = base.run_cmd([b(x) for x in [ref_tool] + dopts + ["--", f1["name"], f2["name"]]], stdin=b"", env=base.clean_env(), cwd=B)
        if rc is None:
            S.inconclusive_count("timeout:reference-" + prog)
            return
        exp_status = rc
    S.count(f"expected-status:{exp_status}")
    if any(has_meta(f["name"]) for f in (f1, f2)) or (scn.get("dlabel") and has_meta(scn["dlabel"])) or bad:
        S.nontrivial(scn, sample={"argv": [prog] + argv, "files": [[f["name"], f["fmt"], f["state"]] for f in (f1, f2)]})

    before = set(os.listdir(b(A)))
    rc, out, err = base.run_cmd([b(os.path.join(bd, prog))] + [b(x) for x in argv], stdin=b"", env=env, cwd=A)
    if rc is None:
        S.inconclusive_count("timeout:" + prog)
        return
    what = f"{prog} {argv!r}"

    def fail(sig, reason):
        if single and f1["stem"].endswith("\n"):
            sig = "C20:diff-one-operand-name-ends-in-newline"
            reason = "one-operand form derives FILE2 with `expr` inside a command substitution, which drops trailing newlines of the name (xzdiff.in:93-104); " + reason
        if S.known(sig):
            return
        raise base.Violation(sig, reason)

    try:
        canary_check(A, before, [out, err], what)
    except base.Violation as v:
        fail(v.signature, v.reason)
        return
    if rc != exp_status:
        sig = "C20:diff-status"
        ev = early_verdict_on_decodable_prefix(prog, dopts, f1, f2, A, B, env, ref_tool) if (rc in (0, 1) and exp_status == 2) else None
        if ev is not None and ev == rc:
            # recorded finding: diff/cmp found a difference and stopped reading while the decompressor was still blocked on the pipe,
            # far before the damaged part; it dies of SIGPIPE, which xzdiff deliberately tolerates, so the damage is never noticed
            sig = "C20:diff-early-exit-before-damage"
        fail(sig, f"{what}: exit status {rc}, expected {exp_status} (operand states {[f1['state'], f2['state']]}); stdout {out[:200]!r} stderr {err[:300]!r}")
        return
    if exp_out is not None and normalise_diff(prog, out) != normalise_diff(prog, exp_out):
        fail("C20:diff-output", f"{what}: stdout {out[:500]!r}, {ref_tool} on the decompressed files prints {exp_out[:500]!r}")


PIPE_CAPACITY = 65536


def early_verdict_on_decodable_prefix(prog, dopts, f1, f2, A, B, env, ref_tool):
    """-> the reference tool's verdict (0 or 1) on the decodable prefixes, or None.  Not None only if every bad operand is a truncated
    file whose decodable prefix exceeds the pipe capacity (the decompressor is certainly still blocked on the pipe when diff/cmp has
    seen the first buffers).  A status equal to that verdict is attributed to the recorded finding, nothing else."""
    dec = {"xz": ["xz", "-dcq"], "lzma": ["xz", "-dcq"], "lz": ["xz", "-dcq"], "txz": ["xz", "-dcq"], "tlz": ["xz", "-dcq"], "gz": ["gzip", "-dcq"], "bz2": ["bzip2", "-dcq"]}
    for f in (f1, f2):
        if f["state"] == "ok":
            continue
        if f["state"] != "trunc" or f["fmt"] not in dec:
            return None
        rc, pre, _ = base.run_cmd([b(x) for x in dec[f["fmt"]] + ["--", f["name"]]], stdin=b"", env=env, cwd=A)
        if rc is None or pre is None or len(pre) <= PIPE_CAPACITY:
            return None
        write_file(B, f["name"], pre)
    rc, _, _ = base.run_cmd([b(x) for x in [ref_tool] + dopts + ["--", f1["name"], f2["name"]]], stdin=b"", env=base.clean_env(), cwd=B)
    return rc if rc in (0, 1) else None


def oracle_pager(scn, S, d):
    """xzmore / xzless with stdout on a pipe (xzmore: PAGER=cat; less copies its input when it has no terminal).  Asserted: only the
    part of the statement that speaks about every command - operand names are data: nothing is created or removed in the directory and
    no output carries the marker that only an executed command prints.  What the pager shows is counted, not judged."""
    prog = scn["prog"]
    files = plan_files(scn, S)
    if files is None:
        S.inconclusive_count("timeout:compress")
        return
    if files[0]["name"] in ("--help", "--version"):
        S.count("excluded:first-operand-is-a-documented-option")
        return
    A = os.path.join(d, "A")
    os.mkdir(A)
    for f in files:
        if f["stored"] is not None:
            write_file(A, f["name"], f["stored"])
    names = [f["name"] for f in files]
    # xzless hands its arguments to less unchanged (options are less's): operands that start with a dash go behind "--"
    dd = prog == "xzless" and (scn["dd"] or any(n.startswith("-") for n in names))
    argv = (["--"] if dd else []) + names
    env = dict(base.clean_env(), PAGER="cat")
    env.pop("LESS", None)
    env.pop("LESSOPEN", None)
    bd = bindir()
    S.count("prog:" + prog)
    for f in files:
        S.count("format:" + f["fmt"])
        S.count("state:" + f["state"])
        count_meta(S, "name-meta", f["name"])
    if any(has_meta(n) for n in names):
        S.nontrivial(scn, sample={"argv": [prog] + argv, "files": [[f["name"], f["fmt"], f["state"]] for f in files]})
    before = set(os.listdir(b(A)))
    rc, out, err = base.run_cmd([b(os.path.join(bd, prog))] + [b(x) for x in argv], stdin=b"", env=env, cwd=A)
    if rc is None:
        S.inconclusive_count("timeout:" + prog)
        return
    canary_check(A, before, [out, err], f"{prog} {argv!r}")
    shown = sum(1 for f in files if f["state"] == "ok" and f["fmt"] not in ("gz", "bz2") and f["data"] and f["data"] in out)
    S.count(f"pager:operands-shown-decompressed:{min(shown, 3)}-of-{len(files)}")


def oracle(scn, S):
    d = S.fresh_dir()
    try:
        if scn["prog"] in ("xzmore", "xzless"):
            oracle_pager(scn, S, d)
        elif scn["prog"] in ("xzdiff", "xzcmp"):
            oracle_diff(scn, S, d)
        else:
            oracle_grep(scn, S, d)
    finally:
        S.rm_dir(d)


def fixed_scenarios(S, tier, seed):
    """Always-run: every ordered pair of operand formats with identical contents through xzdiff and xzcmp (the scripts choose the
    decompressor per operand from three separate suffix lists: first operand compressed / second compressed / only second)."""
    fmts = sorted(set(FORMATS))
    for prog in ("xzdiff", "xzcmp"):
        for f1 in fmts:
            for f2 in fmts:
                mk = lambda stem, fmt: {"stem": stem, "fmt": fmt, "state": "ok", "lines": ["Hello", "World!"], "eol": True, "cut": 0, "lzidx": 0}  # noqa: E731
                scn = {"prog": prog, "files": [mk("a", f1), mk("b", f2)], "single": False, "dopts": [], "same": True, "dlabel": None, "dd": False}
                S.evaluations += 1
                S.count("fixed_format_pairs")
                try:
                    oracle(scn, S)
                except base.Violation as v:
                    v.scenario = scn
                    raise
    # always-run: each command-text fragment as (part of) an operand name of the two pagers, one operand per run
    for prog in PAGERS:
        for frag in CMD_META + SED_META[:3]:
            for stem in ("a" + frag, frag):
                for fmt in ("xz", "plain"):
                    scn = {"prog": prog, "dd": False,
                           "files": [{"stem": stem, "fmt": fmt, "state": "ok", "lines": ["Hello", "World!"], "eol": True, "cut": 0, "lzidx": 0}]}
                    S.evaluations += 1
                    S.count("fixed_pager_names")
                    try:
                        oracle(scn, S)
                    except base.Violation as v:
                        v.scenario = scn
                        raise


if __name__ == "__main__":
    base.main("c20", scenarios, oracle, budgets={"quick": 1600, "thorough": 16000}, extra_runs=fixed_scenarios)
