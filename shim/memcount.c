/* memcount.c - LD_PRELOAD heap accounting for the C09 command-line suite (py/c09_cli.py).
 *
 * Counts the bytes a process holds through malloc/calloc/realloc/free/posix_memalign/aligned_alloc/memalign (by
 * malloc_usable_size, so the number never under-reports what the program asked for) and through anonymous mmap/munmap
 * made by the program itself, keeps the peak, and writes one line
 *     peak=<bytes> live=<bytes> allocs=<n> mmap_peak=<bytes>
 * to the file named by $MEMCOUNT_OUT when the process exits normally.  The file is opened in a constructor, i.e. before
 * main(): xz restricts file system access (Landlock) later, an already open descriptor keeps working.
 * glibc only (uses __libc_malloc & co. to avoid dlsym() recursion during start-up).
 */
#define _GNU_SOURCE
#include <stddef.h>
#include <stdint.h>
#include <stdio.h>
#include <stdlib.h>
#include <string.h>
#include <unistd.h>
#include <fcntl.h>
#include <malloc.h>
#include <errno.h>
#include <dlfcn.h>
#include <sys/mman.h>

extern void *__libc_malloc(size_t);
extern void *__libc_calloc(size_t, size_t);
extern void *__libc_realloc(void *, size_t);
extern void __libc_free(void *);
extern void *__libc_memalign(size_t, size_t);

static int out_fd = -1;
static volatile uint64_t live, peak, allocs, mm_live, mm_peak;

static void add(uint64_t n)
{
	uint64_t l = __atomic_add_fetch(&live, n, __ATOMIC_RELAXED);
	uint64_t tot = l + __atomic_load_n(&mm_live, __ATOMIC_RELAXED);
	uint64_t p = __atomic_load_n(&peak, __ATOMIC_RELAXED);
	while (tot > p && !__atomic_compare_exchange_n(&peak, &p, tot, 1, __ATOMIC_RELAXED, __ATOMIC_RELAXED)) { }
	__atomic_add_fetch(&allocs, 1, __ATOMIC_RELAXED);
}
static void sub(uint64_t n) { __atomic_sub_fetch(&live, n, __ATOMIC_RELAXED); }

void *malloc(size_t n) { void *p = __libc_malloc(n); if (p) add(malloc_usable_size(p)); return p; }
void *calloc(size_t a, size_t b) { void *p = __libc_calloc(a, b); if (p) add(malloc_usable_size(p)); return p; }
void free(void *p) { if (p) sub(malloc_usable_size(p)); __libc_free(p); }
void *realloc(void *p, size_t n)
{
	uint64_t old = p ? malloc_usable_size(p) : 0;
	void *q = __libc_realloc(p, n);
	if (q || n == 0) { if (old) sub(old); if (q) add(malloc_usable_size(q)); }
	return q;
}
void *memalign(size_t al, size_t n) { void *p = __libc_memalign(al, n); if (p) add(malloc_usable_size(p)); return p; }
void *aligned_alloc(size_t al, size_t n) { return memalign(al, n); }
int posix_memalign(void **out, size_t al, size_t n)
{
	if (al % sizeof(void *) != 0 || (al & (al - 1)) != 0 || al == 0) return EINVAL;
	void *p = memalign(al, n); if (!p) return ENOMEM; *out = p; return 0;
}

/* anonymous mappings requested by the program itself (glibc's own mmap calls for big malloc() blocks do not come through here;
 * those blocks are already counted by malloc_usable_size) */
void *mmap(void *addr, size_t len, int prot, int flags, int fd, off_t off)
{
	static void *(*real)(void *, size_t, int, int, int, off_t);
	if (!real) real = (void *(*)(void *, size_t, int, int, int, off_t))dlsym(RTLD_NEXT, "mmap");
	void *p = real(addr, len, prot, flags, fd, off);
	if (p != MAP_FAILED && (flags & MAP_ANONYMOUS)) {
		uint64_t m = __atomic_add_fetch(&mm_live, len, __ATOMIC_RELAXED);
		uint64_t q = __atomic_load_n(&mm_peak, __ATOMIC_RELAXED);
		while (m > q && !__atomic_compare_exchange_n(&mm_peak, &q, m, 1, __ATOMIC_RELAXED, __ATOMIC_RELAXED)) { }
		add(0);
	}
	return p;
}

__attribute__((constructor)) static void memcount_init(void)
{
	const char *path = getenv("MEMCOUNT_OUT");
	if (path && *path) out_fd = open(path, O_WRONLY | O_CREAT | O_TRUNC | O_CLOEXEC, 0644);
}

__attribute__((destructor)) static void memcount_fini(void)
{
	if (out_fd < 0) return;
	char b[160];
	int n = snprintf(b, sizeof b, "peak=%llu live=%llu allocs=%llu mmap_peak=%llu\n", (unsigned long long)peak, (unsigned long long)live, (unsigned long long)allocs, (unsigned long long)mm_peak);
	if (n > 0) { ssize_t w = write(out_fd, b, (size_t)n); (void)w; }
	close(out_fd); out_fd = -1;
}
