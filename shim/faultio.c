// faultio.c - LD_PRELOAD system call interposer for the xz command line tool (C17, parts of C18/C19).
//
// Build:  gcc -O1 -g -shared -fPIC -o faultio.so faultio.c -ldl
//
// Wrapped (only calls that xz makes itself through the PLT; libc-internal stdio I/O is not seen - intended):
//   open open64 openat openat64 __open_2 __open64_2 close read __read_chk write lseek lseek64 fsync fdatasync unlink
//   fchmod fchown futimens fcntl/fcntl64 (only F_SETFL is a numbered call; every other command is passed through
//   untouched) poll __poll_chk posix_fadvise posix_fadvise64
//
// Environment:
//   FAULT_LOG   path of the trace file.  Opened in the constructor (before xz enables Landlock), O_APPEND|O_CLOEXEC,
//               dup'ed to a descriptor >= 500.  Unset: no trace.
//   FAULT_ROLES "role=path|role=path|..." : descriptors obtained by opening exactly that path string get that role
//               (e.g. "source0=a|target0=a.xz|dir=.").  fd 0/1/2 start as stdin/stdout/stderr; everything else "other".
//   FAULT_PLAN  "<k>:<action>"  k = 1-based index of the intercepted call; actions:
//        errno=NAME|NUM   call k is not performed and returns -1 with that errno (close: the fd IS closed, as on Linux)
//        eintr            = errno=EINTR   (once, being a single k)
//        eagain-once      = errno=EAGAIN
//        short=N          read/write k is performed with its count cut to N bytes (N >= 1); other calls: no effect
//        signal=NAME      kill(getpid(), SIG) before performing call k (process directed: reaches the main thread as soon
//                         as it has the signal unblocked; from the main thread with the signal unblocked the handler has
//                         run before call k is performed)
//        sigerr=NAME,ERR  signal as above, then call k is not performed and fails with ERR (a real EPIPE/EINTR)
//        kill             SIGKILL to the own process before call k is performed
//        kill-after       call k is performed and traced, then SIGKILL
//
// Trace: one line per numbered call, written with a single write(2) after the call returned:
//        <idx> <name> <role> <arg> <result> <errno> <action|-> <path|->
//   arg = byte count (read/write), offset (lseek), flags (open, fcntl F_SETFL), whence is appended for lseek as arg2 in
//   the path column; errno is 0 when result >= 0.  For "kill" the line is written before dying (result "?"); for
//   signal/sigerr a line with result "?" is written before the signal is sent and a second line with the same index
//   and the real result after the call (readers keep the last line per index).
// The wrappers use only async-signal-safe functions (xz calls write() from its signal handler).
#define _GNU_SOURCE
#include <dlfcn.h>
#include <errno.h>
#include <fcntl.h>
#include <poll.h>
#include <signal.h>
#include <stdarg.h>
#include <stddef.h>
#include <stdint.h>
#include <stdlib.h>
#include <string.h>
#include <sys/stat.h>
#include <sys/syscall.h>
#include <sys/types.h>
#include <time.h>
#include <unistd.h>

enum { A_NONE, A_ERRNO, A_SHORT, A_SIGNAL, A_SIGERR, A_KILL, A_KILL_AFTER };

#define MAXFD 1024
#define MAXROLES 32

static int log_fd = -1;
static long plan_k = -1;
static int plan_action = A_NONE;
static int plan_errno = 0;
static long plan_short = 0;
static int plan_signal = 0;
static char plan_text[64] = "-";
static long counter = 0;  // accessed with __atomic builtins only
static int inited = 0;

static struct { char role[24]; char path[512]; } roles[MAXROLES];
static int n_roles = 0;
static signed char fd_role[MAXFD];  // -1 other, -2 stdin, -3 stdout, -4 stderr, >= 0 index into roles[]

static int (*real_open)(const char *, int, ...);
static int (*real_open64)(const char *, int, ...);
static int (*real_openat)(int, const char *, int, ...);
static int (*real_openat64)(int, const char *, int, ...);
static int (*real_close)(int);
static ssize_t (*real_read)(int, void *, size_t);
static ssize_t (*real_write)(int, const void *, size_t);
static off_t (*real_lseek)(int, off_t, int);
static off64_t (*real_lseek64)(int, off64_t, int);
static int (*real_fsync)(int);
static int (*real_fdatasync)(int);
static int (*real_unlink)(const char *);
static int (*real_fchmod)(int, mode_t);
static int (*real_fchown)(int, uid_t, gid_t);
static int (*real_futimens)(int, const struct timespec[2]);
static int (*real_fcntl)(int, int, ...);
static int (*real_poll)(struct pollfd *, nfds_t, int);
static int (*real_posix_fadvise)(int, off_t, off_t, int);
static int (*real_posix_fadvise64)(int, off64_t, off64_t, int);

static const struct { const char *name; int value; } errnos[] = {
	{"EIO", EIO}, {"ENOSPC", ENOSPC}, {"EINTR", EINTR}, {"EAGAIN", EAGAIN}, {"EPIPE", EPIPE}, {"EDQUOT", EDQUOT},
	{"EBADF", EBADF}, {"EACCES", EACCES}, {"EPERM", EPERM}, {"ENOENT", ENOENT}, {"EFBIG", EFBIG}, {"EROFS", EROFS},
	{"ENOMEM", ENOMEM}, {"EINVAL", EINVAL}, {"EMFILE", EMFILE}, {"ENFILE", ENFILE}, {"EEXIST", EEXIST},
	{"EBUSY", EBUSY}, {"ESPIPE", ESPIPE}, {"EOVERFLOW", EOVERFLOW}, {"ENOTSUP", ENOTSUP}, {"ELOOP", ELOOP},
};
static const struct { const char *name; int value; } sigs[] = {
	{"INT", SIGINT}, {"TERM", SIGTERM}, {"HUP", SIGHUP}, {"PIPE", SIGPIPE}, {"XCPU", SIGXCPU}, {"XFSZ", SIGXFSZ},
	{"ALRM", SIGALRM}, {"USR1", SIGUSR1}, {"QUIT", SIGQUIT},
};

static int parse_errno(const char *s) {
	for (size_t i = 0; i < sizeof errnos / sizeof errnos[0]; ++i)
		if (strcmp(s, errnos[i].name) == 0) return errnos[i].value;
	int v = atoi(s);
	return v > 0 ? v : EIO;
}

static int parse_signal(const char *s) {
	if (strncmp(s, "SIG", 3) == 0) s += 3;
	for (size_t i = 0; i < sizeof sigs / sizeof sigs[0]; ++i)
		if (strcmp(s, sigs[i].name) == 0) return sigs[i].value;
	int v = atoi(s);
	return v > 0 ? v : SIGTERM;
}

static void resolve(void) {
	real_open = dlsym(RTLD_NEXT, "open");
	real_open64 = dlsym(RTLD_NEXT, "open64");
	real_openat = dlsym(RTLD_NEXT, "openat");
	real_openat64 = dlsym(RTLD_NEXT, "openat64");
	real_close = dlsym(RTLD_NEXT, "close");
	real_read = dlsym(RTLD_NEXT, "read");
	real_write = dlsym(RTLD_NEXT, "write");
	real_lseek = dlsym(RTLD_NEXT, "lseek");
	real_lseek64 = dlsym(RTLD_NEXT, "lseek64");
	real_fsync = dlsym(RTLD_NEXT, "fsync");
	real_fdatasync = dlsym(RTLD_NEXT, "fdatasync");
	real_unlink = dlsym(RTLD_NEXT, "unlink");
	real_fchmod = dlsym(RTLD_NEXT, "fchmod");
	real_fchown = dlsym(RTLD_NEXT, "fchown");
	real_futimens = dlsym(RTLD_NEXT, "futimens");
	real_fcntl = dlsym(RTLD_NEXT, "fcntl");
	real_poll = dlsym(RTLD_NEXT, "poll");
	real_posix_fadvise = dlsym(RTLD_NEXT, "posix_fadvise");
	real_posix_fadvise64 = dlsym(RTLD_NEXT, "posix_fadvise64");
}

__attribute__((constructor)) static void faultio_init(void) {
	if (inited) return;
	inited = 1;
	resolve();
	for (int i = 0; i < MAXFD; ++i) fd_role[i] = -1;
	fd_role[0] = -2;
	fd_role[1] = -3;
	fd_role[2] = -4;

	const char *r = getenv("FAULT_ROLES");
	while (r != NULL && *r != '\0' && n_roles < MAXROLES) {
		const char *end = strchr(r, '|');
		size_t len = end ? (size_t)(end - r) : strlen(r);
		const char *eq = memchr(r, '=', len);
		if (eq != NULL) {
			size_t rl = (size_t)(eq - r), pl = len - rl - 1;
			if (rl < sizeof roles[0].role && pl < sizeof roles[0].path) {
				memcpy(roles[n_roles].role, r, rl);
				roles[n_roles].role[rl] = '\0';
				memcpy(roles[n_roles].path, eq + 1, pl);
				roles[n_roles].path[pl] = '\0';
				++n_roles;
			}
		}
		r = end ? end + 1 : NULL;
	}

	const char *p = getenv("FAULT_PLAN");
	if (p != NULL && *p != '\0') {
		char *colon = NULL;
		long k = strtol(p, &colon, 10);
		if (colon != NULL && *colon == ':' && k > 0) {
			const char *a = colon + 1;
			plan_k = k;
			size_t al = strlen(a);
			if (al > sizeof plan_text - 2) al = sizeof plan_text - 2;
			plan_text[0] = '!';
			memcpy(plan_text + 1, a, al);
			plan_text[al + 1] = '\0';
			if (strncmp(a, "errno=", 6) == 0) { plan_action = A_ERRNO; plan_errno = parse_errno(a + 6); }
			else if (strcmp(a, "eintr") == 0) { plan_action = A_ERRNO; plan_errno = EINTR; }
			else if (strcmp(a, "eagain-once") == 0) { plan_action = A_ERRNO; plan_errno = EAGAIN; }
			else if (strncmp(a, "short=", 6) == 0) { plan_action = A_SHORT; plan_short = atol(a + 6); if (plan_short < 1) plan_short = 1; }
			else if (strncmp(a, "signal=", 7) == 0) { plan_action = A_SIGNAL; plan_signal = parse_signal(a + 7); }
			else if (strncmp(a, "sigerr=", 7) == 0) {
				char tmp[32];
				strncpy(tmp, a + 7, sizeof tmp - 1);
				tmp[sizeof tmp - 1] = '\0';
				char *comma = strchr(tmp, ',');
				plan_errno = EINTR;
				if (comma != NULL) { *comma = '\0'; plan_errno = parse_errno(comma + 1); }
				plan_signal = parse_signal(tmp);
				plan_action = A_SIGERR;
			}
			else if (strcmp(a, "kill") == 0) plan_action = A_KILL;
			else if (strcmp(a, "kill-after") == 0) plan_action = A_KILL_AFTER;
			else plan_k = -1;
		}
	}

	const char *lp = getenv("FAULT_LOG");
	if (lp != NULL && *lp != '\0') {
		int fd = real_open(lp, O_WRONLY | O_CREAT | O_APPEND | O_CLOEXEC, 0600);
		if (fd >= 0) {
			int hi = real_fcntl(fd, F_DUPFD_CLOEXEC, 500);
			if (hi >= 0) { real_close(fd); fd = hi; }
			log_fd = fd;
		}
	}
}

#define INIT() do { if (!inited) faultio_init(); } while (0)

// ---- async-signal-safe formatting ----
static char *put_str(char *p, char *end, const char *s) {
	while (*s != '\0' && p < end) {
		unsigned char c = (unsigned char)*s++;
		*p++ = (c < 0x20 || c == 0x7f) ? '?' : (char)c;
	}
	return p;
}
static char *put_long(char *p, char *end, long long v) {
	char tmp[24];
	int n = 0;
	unsigned long long u = v < 0 ? 0ULL - (unsigned long long)v : (unsigned long long)v;
	do { tmp[n++] = (char)('0' + u % 10); u /= 10; } while (u != 0);
	if (v < 0 && p < end) *p++ = '-';
	while (n > 0 && p < end) *p++ = tmp[--n];
	return p;
}

static const char *role_name(int r) {
	switch (r) {
	case -2: return "stdin";
	case -3: return "stdout";
	case -4: return "stderr";
	case -1: return "other";
	default: return (r >= 0 && r < n_roles) ? roles[r].role : "other";
	}
}
static int role_of_fd(int fd) { return (fd >= 0 && fd < MAXFD) ? fd_role[fd] : -1; }
static int role_of_path(const char *path) {
	if (path == NULL) return -1;
	for (int i = 0; i < n_roles; ++i)
		if (strcmp(path, roles[i].path) == 0) return i;
	return -1;
}

static void trace(long idx, const char *name, int role, long long arg, int have_result, long long result, int err,
		const char *action, const char *path) {
	if (log_fd < 0) return;
	char buf[768];
	char *p = buf, *end = buf + sizeof buf - 2;
	p = put_long(p, end, idx); if (p < end) *p++ = ' ';
	p = put_str(p, end, name); if (p < end) *p++ = ' ';
	p = put_str(p, end, role_name(role)); if (p < end) *p++ = ' ';
	p = put_long(p, end, arg); if (p < end) *p++ = ' ';
	if (have_result) p = put_long(p, end, result); else p = put_str(p, end, "?");
	if (p < end) *p++ = ' ';
	p = put_long(p, end, err); if (p < end) *p++ = ' ';
	p = put_str(p, end, action); if (p < end) *p++ = ' ';
	p = put_str(p, end, path != NULL ? path : "-");
	*p++ = '\n';
	int saved = errno;
	(void)real_write(log_fd, buf, (size_t)(p - buf));
	errno = saved;
}

static void die_now(void) {
	syscall(SYS_kill, (long)getpid(), (long)SIGKILL);
	for (;;) pause();
}

// Per call: number it, and decide what the plan wants here.
typedef struct { long idx; int action; const char *text; } hit_t;

static hit_t begin_call(const char *name, int role, long long arg, const char *path) {
	hit_t h;
	h.idx = __atomic_add_fetch(&counter, 1, __ATOMIC_SEQ_CST);
	h.action = A_NONE;
	h.text = "-";
	if (h.idx == plan_k) {
		h.action = plan_action;
		h.text = plan_text;
		if (h.action == A_KILL) {
			trace(h.idx, name, role, arg, 0, 0, 0, h.text, path);
			die_now();
		}
		if (h.action == A_SIGNAL || h.action == A_SIGERR) {
			int saved = errno;
			// The signal may terminate the process (default action before xz installed its handlers, or
			// SIG_DFL restored at exit): leave a line with result "?" first; the line written after the call
			// (same index) supersedes it.
			trace(h.idx, name, role, arg, 0, 0, 0, h.text, path);
			syscall(SYS_kill, (long)getpid(), (long)plan_signal);
			errno = saved;
		}
	}
	return h;
}

static void end_call(hit_t h, const char *name, int role, long long arg, long long result, int err, const char *path) {
	int saved = errno;
	trace(h.idx, name, role, arg, 1, result, result < 0 ? err : 0, h.text, path);
	if (h.action == A_KILL_AFTER) die_now();
	errno = saved;
}

static int fails(hit_t h) { return h.action == A_ERRNO || h.action == A_SIGERR; }

// ---- open family ----
static int need_mode(int flags) {
#ifdef O_TMPFILE
	if ((flags & O_TMPFILE) == O_TMPFILE) return 1;
#endif
	return (flags & O_CREAT) != 0;
}

static int do_open(const char *name, int which, int dirfd, const char *path, int flags, mode_t mode) {
	INIT();
	int role = role_of_path(path);
	hit_t h = begin_call(name, role, flags, path);
	int ret;
	if (fails(h)) {
		ret = -1;
		errno = plan_errno;
	} else {
		switch (which) {
		case 0: ret = real_open(path, flags, mode); break;
		case 1: ret = (real_open64 ? real_open64 : real_open)(path, flags, mode); break;
		case 2: ret = real_openat(dirfd, path, flags, mode); break;
		default: ret = (real_openat64 ? real_openat64 : real_openat)(dirfd, path, flags, mode); break;
		}
	}
	int err = errno;
	if (ret >= 0 && ret < MAXFD) fd_role[ret] = (signed char)role;
	end_call(h, name, role, flags, ret, err, path);
	errno = err;
	return ret;
}

int open(const char *path, int flags, ...) {
	mode_t mode = 0;
	if (need_mode(flags)) { va_list ap; va_start(ap, flags); mode = (mode_t)va_arg(ap, int); va_end(ap); }
	return do_open("open", 0, AT_FDCWD, path, flags, mode);
}
int open64(const char *path, int flags, ...) {
	mode_t mode = 0;
	if (need_mode(flags)) { va_list ap; va_start(ap, flags); mode = (mode_t)va_arg(ap, int); va_end(ap); }
	return do_open("open", 1, AT_FDCWD, path, flags, mode);
}
int openat(int dirfd, const char *path, int flags, ...) {
	mode_t mode = 0;
	if (need_mode(flags)) { va_list ap; va_start(ap, flags); mode = (mode_t)va_arg(ap, int); va_end(ap); }
	return do_open("open", 2, dirfd, path, flags, mode);
}
int openat64(int dirfd, const char *path, int flags, ...) {
	mode_t mode = 0;
	if (need_mode(flags)) { va_list ap; va_start(ap, flags); mode = (mode_t)va_arg(ap, int); va_end(ap); }
	return do_open("open", 3, dirfd, path, flags, mode);
}
int __open_2(const char *path, int flags) { return do_open("open", 0, AT_FDCWD, path, flags, 0); }
int __open64_2(const char *path, int flags) { return do_open("open", 1, AT_FDCWD, path, flags, 0); }

// ---- close ----
int close(int fd) {
	INIT();
	int role = role_of_fd(fd);
	hit_t h = begin_call("close", role, fd, NULL);
	int ret = real_close(fd);  // the descriptor is released even when a failure is reported (Linux semantics)
	int err = errno;
	if (fails(h)) { ret = -1; err = plan_errno; }
	if (fd >= 0 && fd < MAXFD) fd_role[fd] = -1;
	end_call(h, "close", role, fd, ret, err, NULL);
	errno = err;
	return ret;
}

// ---- read / write ----
static ssize_t do_read(int fd, void *buf, size_t n) {
	INIT();
	int role = role_of_fd(fd);
	hit_t h = begin_call("read", role, (long long)n, NULL);
	ssize_t ret;
	if (fails(h)) { ret = -1; errno = plan_errno; }
	else {
		size_t m = n;
		if (h.action == A_SHORT && (size_t)plan_short < m) m = (size_t)plan_short;
		ret = real_read(fd, buf, m);
	}
	int err = errno;
	end_call(h, "read", role, (long long)n, ret, err, NULL);
	errno = err;
	return ret;
}
ssize_t read(int fd, void *buf, size_t n) { return do_read(fd, buf, n); }
ssize_t __read_chk(int fd, void *buf, size_t n, size_t buflen) { (void)buflen; return do_read(fd, buf, n); }

ssize_t write(int fd, const void *buf, size_t n) {
	INIT();
	int role = role_of_fd(fd);
	hit_t h = begin_call("write", role, (long long)n, NULL);
	ssize_t ret;
	if (fails(h)) { ret = -1; errno = plan_errno; }
	else {
		size_t m = n;
		if (h.action == A_SHORT && (size_t)plan_short < m) m = (size_t)plan_short;
		ret = real_write(fd, buf, m);
	}
	int err = errno;
	end_call(h, "write", role, (long long)n, ret, err, NULL);
	errno = err;
	return ret;
}

// ---- lseek ----
off_t lseek(int fd, off_t off, int whence) {
	INIT();
	int role = role_of_fd(fd);
	const char *w = whence == SEEK_SET ? "SEEK_SET" : whence == SEEK_CUR ? "SEEK_CUR" : whence == SEEK_END ? "SEEK_END" : "SEEK_?";
	hit_t h = begin_call("lseek", role, (long long)off, w);
	off_t ret;
	if (fails(h)) { ret = (off_t)-1; errno = plan_errno; }
	else ret = real_lseek(fd, off, whence);
	int err = errno;
	end_call(h, "lseek", role, (long long)off, (long long)ret, err, w);
	errno = err;
	return ret;
}
off64_t lseek64(int fd, off64_t off, int whence) {
	INIT();
	int role = role_of_fd(fd);
	const char *w = whence == SEEK_SET ? "SEEK_SET" : whence == SEEK_CUR ? "SEEK_CUR" : whence == SEEK_END ? "SEEK_END" : "SEEK_?";
	hit_t h = begin_call("lseek", role, (long long)off, w);
	off64_t ret;
	if (fails(h)) { ret = (off64_t)-1; errno = plan_errno; }
	else ret = (real_lseek64 ? real_lseek64(fd, off, whence) : (off64_t)real_lseek(fd, (off_t)off, whence));
	int err = errno;
	end_call(h, "lseek", role, (long long)off, (long long)ret, err, w);
	errno = err;
	return ret;
}

// ---- calls with an fd and an int result ----
#define FD_CALL(NAME, ARGVAL, REALCALL) \
	INIT(); \
	int role = role_of_fd(fd); \
	hit_t h = begin_call(NAME, role, (long long)(ARGVAL), NULL); \
	int ret; \
	if (fails(h)) { ret = -1; errno = plan_errno; } else ret = (REALCALL); \
	int err = errno; \
	end_call(h, NAME, role, (long long)(ARGVAL), ret, err, NULL); \
	errno = err; \
	return ret;

int fsync(int fd) { FD_CALL("fsync", fd, real_fsync(fd)) }
int fdatasync(int fd) { FD_CALL("fdatasync", fd, real_fdatasync(fd)) }
int fchmod(int fd, mode_t mode) { FD_CALL("fchmod", mode, real_fchmod(fd, mode)) }
int fchown(int fd, uid_t uid, gid_t gid) { FD_CALL("fchown", (long long)(int)uid, real_fchown(fd, uid, gid)) }
int futimens(int fd, const struct timespec ts[2]) { FD_CALL("futimens", fd, real_futimens(fd, ts)) }

// posix_fadvise returns the error number instead of setting errno.
int posix_fadvise(int fd, off_t off, off_t len, int advice) {
	INIT();
	int role = role_of_fd(fd);
	hit_t h = begin_call("posix_fadvise", role, advice, NULL);
	int saved = errno;
	int ret = fails(h) ? plan_errno : real_posix_fadvise(fd, off, len, advice);
	end_call(h, "posix_fadvise", role, advice, ret == 0 ? 0 : -1, ret, NULL);
	errno = saved;
	return ret;
}
int posix_fadvise64(int fd, off64_t off, off64_t len, int advice) {
	INIT();
	int role = role_of_fd(fd);
	hit_t h = begin_call("posix_fadvise", role, advice, NULL);
	int saved = errno;
	int ret = fails(h) ? plan_errno
			: (real_posix_fadvise64 ? real_posix_fadvise64(fd, off, len, advice) : real_posix_fadvise(fd, (off_t)off, (off_t)len, advice));
	end_call(h, "posix_fadvise", role, advice, ret == 0 ? 0 : -1, ret, NULL);
	errno = saved;
	return ret;
}

// ---- unlink ----
int unlink(const char *path) {
	INIT();
	int role = role_of_path(path);
	hit_t h = begin_call("unlink", role, 0, path);
	int ret;
	if (fails(h)) { ret = -1; errno = plan_errno; } else ret = real_unlink(path);
	int err = errno;
	end_call(h, "unlink", role, 0, ret, err, path);
	errno = err;
	return ret;
}

// ---- fcntl: only F_SETFL is a numbered call ----
static int do_fcntl(int fd, int cmd, void *argp) {
	INIT();
	if (cmd != F_SETFL) return real_fcntl(fd, cmd, argp);
	int flags = (int)(intptr_t)argp;
	int role = role_of_fd(fd);
	hit_t h = begin_call("fcntl_setfl", role, flags, NULL);
	int ret;
	if (fails(h)) { ret = -1; errno = plan_errno; } else ret = real_fcntl(fd, cmd, flags);
	int err = errno;
	end_call(h, "fcntl_setfl", role, flags, ret, err, NULL);
	errno = err;
	return ret;
}
int fcntl(int fd, int cmd, ...) {
	va_list ap;
	va_start(ap, cmd);
	void *argp = va_arg(ap, void *);
	va_end(ap);
	return do_fcntl(fd, cmd, argp);
}
int fcntl64(int fd, int cmd, ...) {
	va_list ap;
	va_start(ap, cmd);
	void *argp = va_arg(ap, void *);
	va_end(ap);
	return do_fcntl(fd, cmd, argp);
}

// ---- poll ----
static int do_poll(struct pollfd *fds, nfds_t nfds, int timeout) {
	INIT();
	int role = nfds > 0 ? role_of_fd(fds[0].fd) : -1;
	hit_t h = begin_call("poll", role, timeout, NULL);
	int ret;
	if (fails(h)) { ret = -1; errno = plan_errno; } else ret = real_poll(fds, nfds, timeout);
	int err = errno;
	end_call(h, "poll", role, timeout, ret, err, NULL);
	errno = err;
	return ret;
}
int poll(struct pollfd *fds, nfds_t nfds, int timeout) { return do_poll(fds, nfds, timeout); }
int __poll_chk(struct pollfd *fds, nfds_t nfds, int timeout, size_t fdslen) { (void)fdslen; return do_poll(fds, nfds, timeout); }
