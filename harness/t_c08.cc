// t_c08.cc - C08: threaded compression is correct, ordered and live under every schedule.
// Built as sched variant (controlled scheduler) and tsan variant (native threads + ThreadSanitizer).
// case = input recipe x lzma_mt{threads, block_size, timeout, preset|chain, check} x action sequence
//        (RUN pieces, FULL_FLUSH, FULL_BARRIER, lzma_filters_update, get_progress, FINISH) x output slicing
//        x life-cycle (early lzma_end at call j, re-init with another thread count) x schedule bytes.
// Oracle: one valid Stream (independent ref parser) decoding to the input; Blocks in input order with the sizes
// implied by block_size and the flush/barrier points (no empty Block); at FULL_FLUSH completion the output so far
// decodes to all input so far; FULL_BARRIER completes; progress monotone, <= totals, == totals at the end;
// no deadlock/livelock, threads joined, allocator balanced; accepted filter changes visible in later Block Headers.
#include "vgen.h"
#include "drv.h"
#include "enccfg.h"
#include "common.h"
#include "alloc.h"
#include "ref/xzparse.h"
#ifdef VARIANT_SCHED
#include "vsched.h"
#endif

using namespace vg;

static va::Alloc *g_alp;
static va::Alloc &ALR() { if (!g_alp) { g_alp = new va::Alloc(); g_alp->cap = 256u << 20; g_alp->poison = false; } return *g_alp; }
static const lzma_allocator *AL() { return &ALR().a; }
extern "C" size_t vfresh_max(void) { return 200; }

#ifdef VARIANT_SCHED
static void sched_reporter(const char *kind, const char *details) {
	std::string sig = std::string("C08:sched-") + (strncmp(kind, "deadlock", 8) == 0 ? "deadlock" : "misuse");
	violation(sig.c_str(), "%s; threads: %s", kind, details);
}
#endif

enum OpKind { OP_FEED, OP_FLUSH, OP_BARRIER, OP_UPDATE, OP_PROGRESS };
struct Op { int kind; uint32_t n; };

struct Chain { lzma_filter f[LZMA_FILTERS_MAX + 1]; lzma_options_lzma lz; lzma_options_delta od; unsigned n; std::vector<uint64_t> ids() const { std::vector<uint64_t> v; for (unsigned i = 0; i < n; ++i) v.push_back(f[i].id); return v; } uint8_t props() const { return (uint8_t)((lz.pb * 5 + lz.lp) * 9 + lz.lc); } };
static void draw_chain(Case &c, Chain &ch, uint32_t dict) {
	lzma_lzma_preset(&ch.lz, 0); ch.lz.dict_size = dict; ch.n = 0;
	if (c.rare(90)) { ch.lz.lc = c.u(5); ch.lz.lp = c.u(5 - ch.lz.lc); ch.lz.pb = c.u(5); }
	if (c.rare(60)) { ch.lz.mf = ec::all_mf[c.u(5)]; ch.lz.mode = c.flag() ? LZMA_MODE_NORMAL : LZMA_MODE_FAST; ch.lz.nice_len = 8 + c.u(64); }
	ch.od.type = LZMA_DELTA_TYPE_BYTE; ch.od.dist = 1 + c.u(8);
	if (c.rare(70)) { ch.f[ch.n].id = LZMA_FILTER_DELTA; ch.f[ch.n++].options = &ch.od; }
	ch.f[ch.n].id = LZMA_FILTER_LZMA2; ch.f[ch.n++].options = &ch.lz; ch.f[ch.n].id = LZMA_VLI_UNKNOWN; ch.f[ch.n].options = NULL;
}
static void relink(Chain &ch) { unsigned k = 0; if (ch.n == 2) ch.f[k++].options = &ch.od; ch.f[k].options = &ch.lz; }

struct Run {
	lzma_stream s = LZMA_STREAM_INIT;
	std::vector<uint8_t> out; size_t calls = 0; uint64_t last_pin = 0, last_pout = 0, max_pout = 0; unsigned idle = 0;
	uint64_t end_after = 0; bool stopped = false; Case *c; bool mem_err = false;
	uint32_t timeout = 0;
};

// one lzma_code call with an output window drawn from the case; returns the lzma_ret
static lzma_ret step(Run &R, lzma_action a, bool sample_progress) {
	uint32_t win = R.c->rare(60) ? 1 + R.c->u(16) : (R.c->rare(40) ? 0 : 65536);
	size_t base = R.out.size(); R.out.resize(base + win);
	static uint8_t z[1];
	R.s.next_out = win ? R.out.data() + base : z; R.s.avail_out = win;
	uint64_t tin = R.s.total_in, tout = R.s.total_out;
	lzma_ret r = lzma_code(&R.s, a); ++R.calls;
	size_t got = win - R.s.avail_out; R.out.resize(base + got);
	if (R.s.total_out - tout != got) violation("C11:accounting", "total_out moved %llu, window consumed %zu", (unsigned long long)(R.s.total_out - tout), got);
	// (progress is only judged while the encoder is healthy: after a failed allocation a dying worker's share simply disappears)
	if (sample_progress && r != LZMA_MEM_ERROR && !R.mem_err && ALR().failed == 0) {
		uint64_t pi = 0, po = 0; lzma_get_progress(&R.s, &pi, &po);
		if (pi < R.last_pin || po < R.last_pout) violation("C08:progress-not-monotone", "progress went backwards: in %llu->%llu out %llu->%llu", (unsigned long long)R.last_pin, (unsigned long long)pi, (unsigned long long)R.last_pout, (unsigned long long)po);
		if (pi > R.s.total_in) violation("C08:progress-exceeds-total", "progress_in %llu > total_in %llu", (unsigned long long)pi, (unsigned long long)R.s.total_in);
		R.last_pin = pi; R.last_pout = po; if (po > R.max_pout) R.max_pout = po;
	}
	bool moved = R.s.total_in != tin || got != 0;
#ifdef VARIANT_SCHED
	if (!moved && r == LZMA_OK && win > 0 && vsched_others_runnable() == 0) { if (++R.idle > 24) violation("C08:livelock", "lzma_code keeps returning LZMA_OK without progress while no worker thread can run (action %d)", (int)a); }
	else if (moved) R.idle = 0;
#else
	if (!moved && r == LZMA_OK && win > 0 && R.timeout == 0) { if (++R.idle > 64) violation("C08:livelock", "no progress in 64 consecutive calls with timeout 0"); } else if (moved) R.idle = 0;
#endif
	if (r == LZMA_MEM_ERROR) R.mem_err = true;
	if (R.end_after && R.calls >= R.end_after && r == LZMA_OK) R.stopped = true;
	return r;
}

static bool decode_prefix_equals(const std::vector<uint8_t> &comp, const uint8_t *plain, size_t n) {
	// single-threaded decoder, LZMA_RUN only: must deliver exactly n bytes == plain and then want more input
	lzma_stream d = LZMA_STREAM_INIT; d.allocator = NULL;   // the harness' own decoder: plain malloc (the case's allocator may carry a failure plan)
	if (lzma_stream_decoder(&d, UINT64_MAX, 0) != LZMA_OK) harness_bug("decoder init");
	std::vector<uint8_t> o(n + 64); static uint8_t z[1];
	d.next_in = comp.empty() ? z : comp.data(); d.avail_in = comp.size(); d.next_out = o.data(); d.avail_out = o.size();
	lzma_ret r = LZMA_OK; int idle = 0;
	while (r == LZMA_OK && idle < 2) { size_t ai = d.avail_in, ao = d.avail_out; r = lzma_code(&d, LZMA_RUN); if (d.avail_in == ai && d.avail_out == ao) ++idle; else idle = 0; }
	size_t got = o.size() - d.avail_out; lzma_end(&d);
	if (r != LZMA_OK && r != LZMA_BUF_ERROR) return false;
	return got == n && (n == 0 || memcmp(o.data(), plain, n) == 0);
}


// The same op sequence through a fresh threaded encoder with ONE worker thread, native threads (the scheduler is inactive),
// big output windows: the reference for "identical bytes whatever the thread count, timeout, slicing and schedule" (C06/C08).
static bool reference_bytes(const lzma_mt &mt0, bool use_preset, Chain &ch0, Chain &ch1, const std::vector<Op> &ops, const std::vector<uint8_t> &in, std::vector<uint8_t> &out) {
	lzma_mt mt = mt0; mt.threads = 1; mt.timeout = 0; relink(ch0); relink(ch1); if (!use_preset) mt.filters = ch0.f;
	lzma_stream s = LZMA_STREAM_INIT; s.allocator = AL();
	if (lzma_stream_encoder_mt(&s, &mt) != LZMA_OK) { lzma_end(&s); return false; }
	out.assign(lzma_stream_buffer_bound(in.size()) + 4096 + 128 * (in.size() / (size_t)mt.block_size + ops.size() + 2), 0);
	s.next_out = out.data(); s.avail_out = out.size(); static uint8_t z[1]; size_t fed = 0; size_t pending = 0; int cur = 0; bool ok = true;
	for (size_t oi = 0; oi <= ops.size() && ok; ++oi) {
		Op o = oi < ops.size() ? ops[oi] : Op{-1, 0}; lzma_action act = LZMA_RUN; size_t n = 0;
		if (o.kind == OP_FEED) n = std::min<size_t>(o.n, in.size() - fed); else if (o.kind == OP_FLUSH) act = LZMA_FULL_FLUSH; else if (o.kind == OP_BARRIER) act = LZMA_FULL_BARRIER;
		else if (o.kind == -1) { n = in.size() - fed; act = LZMA_FINISH; }
		else if (o.kind == OP_UPDATE) { if (use_preset) continue; Chain &nc = cur == 0 ? ch1 : ch0; relink(nc); if (pending == 0 && lzma_filters_update(&s, nc.f) == LZMA_OK) cur ^= 1; continue; }
		else continue;
		s.next_in = in.empty() ? z : in.data() + fed; s.avail_in = n;
		pending = (pending + n) % (size_t)mt.block_size; if (act != LZMA_RUN) pending = 0;
		for (int guard = 0; guard < 100000; ++guard) { lzma_ret r = lzma_code(&s, act); if (r == LZMA_STREAM_END) break; if (r == LZMA_OK) { if (act == LZMA_RUN && s.avail_in == 0) break; continue; } if (r == LZMA_BUF_ERROR && act == LZMA_RUN && s.avail_in == 0) break; ok = false; break; }
		fed += n;
	}
	out.resize(out.size() - s.avail_out); lzma_end(&s); return ok;
}

extern "C" int LLVMFuzzerTestOneInput(const uint8_t *data, size_t size) {
	begin_case("C08");
	Case c(data, size);
	// ---- settings
	Recipe rc = draw_recipe(c, c.rare(30) ? (1u << 18) : (1u << 15), 4096);
	if (rc.len == 0 && !c.rare(20)) rc.len = 1 + c.u16() % 6000;
	std::vector<uint8_t> in = expand(rc);
	lzma_mt mt; memset(&mt, 0, sizeof mt);
	{ static const uint32_t tt[] = {3, 2, 4, 1, 6, 5}; mt.threads = tt[c.u(6)]; }
	uint32_t dict = 4096u << c.u(4);
	mt.block_size = c.pick<uint64_t>({4096, 8192, 1000, 16384, 65536, 12345});
	mt.check = c.pick({LZMA_CHECK_CRC32, LZMA_CHECK_CRC64, LZMA_CHECK_NONE, LZMA_CHECK_SHA256});
#ifdef VARIANT_SCHED
	mt.timeout = c.pick<uint32_t>({0, 0, 1, 300});
#else
	mt.timeout = c.pick<uint32_t>({0, 0, 1, 2});
#endif
	Chain ch0, ch1; draw_chain(c, ch0, dict); draw_chain(c, ch1, dict);
	bool use_preset = c.rare(40);
	if (use_preset) { mt.preset = 0; lzma_lzma_preset(&ch0.lz, 0); ch0.n = 1; ch0.f[0].id = LZMA_FILTER_LZMA2; ch0.f[0].options = &ch0.lz; ch0.f[1].id = LZMA_VLI_UNKNOWN; mt.block_size = 65536; }
	else mt.filters = ch0.f;
	// ---- op sequence
	std::vector<Op> ops; unsigned nops = 1 + c.small(14); size_t planned = 0;
	for (unsigned i = 0; i < nops; ++i) {
		uint8_t b = c.byte(); Op o;
		if (b < 120) { o.kind = OP_FEED; o.n = c.rare(60) ? c.u16() : (uint32_t)c.small(3000); if (c.rare(30)) o.n = (uint32_t)mt.block_size * (1 + c.u(3)) - (c.flag() ? 0 : planned % mt.block_size); planned += o.n; }
		else if (b < 160) { o.kind = OP_FLUSH; o.n = 0; } else if (b < 195) { o.kind = OP_BARRIER; o.n = 0; }
		else if (b < 225) { o.kind = OP_UPDATE; o.n = 0; } else { o.kind = OP_PROGRESS; o.n = 0; }
		ops.push_back(o);
	}
	unsigned life = c.u(8); // 5: early end, 6: re-init after completion, 7: re-init after early stop
	uint64_t end_after = (life == 5 || life == 7) ? 1 + c.u(60) : 0;
	int strategy = c.u(4); uint32_t sseed = c.u32();
	// the rest of the case: first a few bytes for output windows (drawn through c as we go), schedule bytes are a copy of what remains now
	std::vector<uint8_t> sb(c.d + std::min(c.pos, c.n), c.d + c.n);
	{ std::string d = "{\"input\":" + rc.describe() + ",\"threads\":" + std::to_string(mt.threads) + ",\"block_size\":" + std::to_string(mt.block_size) + ",\"timeout\":" + std::to_string(mt.timeout) + ",\"check\":" + std::to_string((int)mt.check)
		+ ",\"preset\":" + (use_preset ? "true" : "false") + ",\"chain0\":" + std::to_string(ch0.n) + ",\"props0\":" + std::to_string(ch0.props()) + ",\"chain1\":" + std::to_string(ch1.n) + ",\"props1\":" + std::to_string(ch1.props()) + ",\"ops\":[";
	  for (size_t i = 0; i < ops.size(); ++i) { if (i) d += ","; d += "[" + std::to_string(ops[i].kind) + "," + std::to_string(ops[i].n) + "]"; }
	  d += "],\"life\":" + std::to_string(life) + ",\"end_after\":" + std::to_string(end_after) + ",\"strategy\":" + std::to_string(strategy) + ",\"sched_bytes\":" + std::to_string(sb.size()) + "}"; set_desc(d); }

	ALR().reset_counters(); uint64_t live0 = ALR().live_bytes;
	// one allocation fails (an eighth of the cases; which one comes from the last two case bytes): whether it is the main thread's or a
	// worker's, lzma_code must come back with LZMA_MEM_ERROR - a waiting main thread has to be woken by the worker's error
	ALR().plan_none(); bool alloc_fault = false;
	if (size >= 2 && (data[size - 1] & 7) == 5) { ALR().fail_at = 1 + (data[size - 1] >> 3) + 32 * (uint64_t)(data[size - 2] & 3); alloc_fault = true; count("one_allocation_fails"); }
#ifdef VARIANT_SCHED
	vsched_set_reporter(sched_reporter);
	vsched_begin(sb.data(), sb.size(), sseed, strategy);
#endif
	Run R; R.c = &c; R.s.allocator = AL(); R.end_after = end_after; R.timeout = mt.timeout;
	auto finish_case = [&]() {
		lzma_end(&R.s); if (alloc_fault && ALR().failed) count("allocation_failure_delivered"); ALR().plan_none();
#ifdef VARIANT_SCHED
		vsched_end();
#endif
		if (ALR().live_bytes != live0 || ALR().double_free || ALR().unknown_free) violation("C10:leak-after-end", "allocator not balanced after lzma_end: live %llu (was %llu)", (unsigned long long)ALR().live_bytes, (unsigned long long)live0);
	};
	lzma_ret ir = lzma_stream_encoder_mt(&R.s, &mt);
	if (ir != LZMA_OK) { finish_case(); if (ir == LZMA_MEM_ERROR) { count("environment_alloc_cap"); return 0; } violation("C08:init-failed", "lzma_stream_encoder_mt returned %s", drv::retname(ir)); }
	// ---- run the op sequence
	size_t fed = 0; size_t pending = 0;                  // bytes fed so far; bytes in the current (open) Block
	std::vector<uint64_t> expect_blocks; std::vector<int> block_chain; int cur_chain = 0; // expected uncompressed sizes and chain index per Block
	auto account_feed = [&](size_t n) { while (n) { size_t room = (size_t)mt.block_size - pending; size_t k = std::min(n, room); pending += k; n -= k; if (pending == mt.block_size) { expect_blocks.push_back(pending); block_chain.push_back(cur_chain); pending = 0; } } };
	auto cut = [&]() { if (pending) { expect_blocks.push_back(pending); block_chain.push_back(cur_chain); pending = 0; } };
	unsigned flushes = 0, updates_ok = 0, updates_refused = 0; bool aborted = false; unsigned flush_nontrivial = 0;
	static uint8_t z[1];
	for (size_t oi = 0; oi <= ops.size() && !aborted; ++oi) {
		Op o = oi < ops.size() ? ops[oi] : Op{-1, 0};
		lzma_action act = LZMA_RUN; size_t n = 0;
		if (o.kind == OP_FEED) { n = std::min<size_t>(o.n, in.size() - fed); act = LZMA_RUN; }
		else if (o.kind == OP_FLUSH) act = LZMA_FULL_FLUSH; else if (o.kind == OP_BARRIER) act = LZMA_FULL_BARRIER;
		else if (o.kind == -1) { n = in.size() - fed; act = LZMA_FINISH; }
		else if (o.kind == OP_UPDATE) {
			if (use_preset) continue;
			Chain &nc = cur_chain == 0 ? ch1 : ch0; relink(nc);
			lzma_ret ur = lzma_filters_update(&R.s, nc.f);
			bool expect_ok = pending == 0;
			if (ur == LZMA_MEM_ERROR) { R.mem_err = true; break; }
			if (expect_ok && ur != LZMA_OK) violation("C08:update-refused", "lzma_filters_update between Blocks returned %s", drv::retname(ur));
			if (!expect_ok && ur == LZMA_OK) violation("C08:update-accepted-mid-block", "lzma_filters_update accepted with %zu bytes in the open Block", pending);
			if (ur == LZMA_OK) { cur_chain ^= 1; ++updates_ok; } else ++updates_refused;
			continue;
		} else { uint64_t pi, po; lzma_get_progress(&R.s, &pi, &po); continue; }
		// feed n bytes (RUN or FINISH) or run the flush action to completion
		R.s.next_in = in.empty() ? z : in.data() + fed; R.s.avail_in = n;
		account_feed(n); if (act != LZMA_RUN) cut();
		for (;;) {
			lzma_ret r = step(R, act, true);
			if (R.stopped) { aborted = true; break; }
			if (r == LZMA_STREAM_END) break;
			if (r == LZMA_OK) { if (act == LZMA_RUN && R.s.avail_in == 0) break; continue; }
			if (r == LZMA_BUF_ERROR) { if (act == LZMA_RUN && R.s.avail_in == 0) break; continue; } // second idle call: not fatal; with a flush action keep going with the next window
			if (r == LZMA_MEM_ERROR) { aborted = true; break; }
			finish_case(); violation("C08:encode-failed", "lzma_code(action %d) returned %s", (int)act, drv::retname(r));
		}
		if (aborted) break;
		fed += n;
		if (act == LZMA_FULL_FLUSH) { ++flushes; if (!decode_prefix_equals(R.out, in.data(), fed)) { finish_case(); violation("C08:flush-not-decodable", "after FULL_FLUSH #%u the output so far (%zu bytes) does not decode to the %zu input bytes given so far", flushes, R.out.size(), fed); } if (fed > 0 && fed < in.size()) ++flush_nontrivial; }
		if (act == LZMA_FULL_BARRIER && R.s.avail_in != 0) { finish_case(); violation("C08:barrier-input", "FULL_BARRIER returned STREAM_END with %zu input bytes unconsumed", R.s.avail_in); }
	}
	uint64_t pin = 0, pout = 0; if (!aborted) lzma_get_progress(&R.s, &pin, &pout);
	uint64_t tin = R.s.total_in, tout = R.s.total_out;
	// ---- life-cycle: re-initialise the same handle and encode again
	std::vector<uint8_t> out2; bool did_reinit = false;
	if ((life == 6 || life == 7) && !R.mem_err) {
		lzma_mt mt2 = mt; if (sseed & 1) mt2.threads = 1 + (mt.threads % 5); /* else: same thread count => the encoder re-uses its threads */ relink(ch0); if (!use_preset) mt2.filters = ch0.f;
		lzma_ret r2 = lzma_stream_encoder_mt(&R.s, &mt2);
		if (r2 == LZMA_OK) {
			Run R2; // share the stream: copy handle fields by using R.s directly
			R.out.swap(out2); R.out.clear(); R.calls = 0; R.end_after = 0; R.stopped = false; R.last_pin = R.last_pout = 0; R.idle = 0;
			R.s.next_in = in.empty() ? z : in.data(); R.s.avail_in = in.size();
			lzma_ret r; do { r = step(R, LZMA_FINISH, false); } while (r == LZMA_OK || r == LZMA_BUF_ERROR);
			if (r == LZMA_STREAM_END) { did_reinit = true; R.out.swap(out2); } else if (r != LZMA_MEM_ERROR) { finish_case(); violation("C08:reinit-encode-failed", "after re-initialisation lzma_code returned %s", drv::retname(r)); } else { R.out.swap(out2); R.mem_err = true; }
		} else if (r2 != LZMA_MEM_ERROR) { finish_case(); violation("C08:reinit-failed", "re-initialisation returned %s", drv::retname(r2)); }
	}
#ifdef VARIANT_SCHED
	struct vsched_stats st; vsched_get_stats(&st);
#endif
	finish_case();
	if (R.mem_err || ALR().refused_cap) { count("environment_alloc_cap"); return 0; }
	// ---- oracles on the finished stream
	if (!aborted) {
		ref::XzOpts xo; xo.concatenated = true; xo.out_limit = in.size() + 64;
		ref::XzResult X = ref::xz_decode(R.out.empty() ? z : R.out.data(), R.out.size(), xo);
		if (X.status != ref::RS_OK) violation("C08:invalid-stream", "reference parser rejects the output: %s (status %d) at %zu of %zu", X.rule.c_str(), X.status, X.in_used, R.out.size());
		if (X.streams.size() != 1 || X.in_used != R.out.size()) violation("C08:not-one-stream", "%zu streams, used %zu of %zu bytes", X.streams.size(), X.in_used, R.out.size());
		if (X.out != in) { size_t d = 0; while (d < X.out.size() && d < in.size() && X.out[d] == in[d]) ++d; violation("C08:content", "decoded %zu bytes, input %zu, first difference at %zu (Blocks out of order or corrupted)", X.out.size(), in.size(), d); }
		const ref::StreamLayout &S = X.streams[0];
		bool same = S.blocks.size() == expect_blocks.size();
		for (size_t i = 0; same && i < S.blocks.size(); ++i) same = S.blocks[i].unc_size == expect_blocks[i];
		if (!same) { std::string a, b; for (auto &bl : S.blocks) a += std::to_string(bl.unc_size) + " "; for (auto v : expect_blocks) b += std::to_string(v) + " "; violation("C08:block-boundaries", "Block uncompressed sizes [%s] but block_size/flush/barrier points imply [%s]", a.c_str(), b.c_str()); }
		if (!use_preset) for (size_t i = 0; i < S.blocks.size(); ++i) { const Chain &ec_ = block_chain[i] ? ch1 : ch0; std::vector<uint64_t> ids; for (auto &f : S.blocks[i].filters) ids.push_back(f.id);
			if (ids != ec_.ids()) violation("C08:update-not-effective", "Block %zu header lists another filter chain than the one in effect", i);
			if (S.blocks[i].lz.lzma_chunks && S.blocks[i].lz.last_props != ec_.props()) violation("C08:update-not-effective", "Block %zu uses lc/lp/pb byte %u, chain in effect has %u", i, S.blocks[i].lz.last_props, ec_.props()); }
		if (pin != tin || pout != tout || tin != in.size() || tout != R.out.size()) violation("C08:progress-final", "final progress %llu/%llu, totals %llu/%llu, input %zu output %zu", (unsigned long long)pin, (unsigned long long)pout, (unsigned long long)tin, (unsigned long long)tout, in.size(), R.out.size());
		if (R.max_pout > tout) violation("C08:progress-exceeds-total", "progress_out reached %llu but only %llu bytes were ever produced", (unsigned long long)R.max_pout, (unsigned long long)tout);
		// determinism: the bytes do not depend on thread count, timeout, output slicing or schedule
		std::vector<uint8_t> refb;
		if (reference_bytes(mt, use_preset, ch0, ch1, ops, in, refb)) { count("determinism_pairs");
			if (refb != R.out) { size_t d = 0; while (d < refb.size() && d < R.out.size() && refb[d] == R.out[d]) ++d; violation("C06:mt-determinism", "output differs from a 1-thread / timeout 0 / unsliced run of the same actions at byte %zu (%zu vs %zu bytes)", d, R.out.size(), refb.size()); } }
	} else count("early_end");
	if (did_reinit) {
		count("reinit");
		ref::XzOpts xo; xo.concatenated = true; xo.out_limit = in.size() + 64;
		ref::XzResult X = ref::xz_decode(out2.empty() ? z : out2.data(), out2.size(), xo);
		if (X.status != ref::RS_OK || X.out != in) violation("C08:reinit-result", "stream encoded after re-initialisation is invalid or decodes to other data (status %d, %zu bytes)", X.status, X.out.size());
	}
	// ---- classes
	count("flushes", flushes); if (updates_ok) count("update_accepted", updates_ok); if (updates_refused) count("update_refused", updates_refused);
	if (expect_blocks.size() >= 2) count("multi_block"); if (mt.timeout) count("timeout_nonzero"); if (in.empty()) count("empty_input");
	bool nontriv;
#ifdef VARIANT_SCHED
	count("strategy_" + std::to_string(strategy)); if (st.max_runnable_workers >= 2) count("two_or_more_workers_runnable"); if (st.timeouts_idle) count("timed_wait_expired_idle"); if (st.spurious) count("spurious_wakeups");
	nontriv = (expect_blocks.size() >= 2 && st.max_live_workers >= 2) || (aborted && st.max_live_workers >= 1);
	if (nontriv) nontrivial(hcomb(hcomb(rc.hash(), mt.threads * 131 + mt.block_size), hcomb(st.path_hash, hash_bytes(ops.data(), ops.size() * sizeof(Op)))));
#else
	nontriv = expect_blocks.size() >= 2 && mt.threads >= 2;
	if (nontriv) nontrivial(hcomb(hcomb(rc.hash(), mt.threads * 131 + mt.block_size), hash_bytes(ops.data(), ops.size() * sizeof(Op))));
#endif
	return 0;
}
