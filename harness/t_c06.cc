// t_c06.cc - C06: results do not depend on buffer slicing; encoder output is deterministic.
// Oracle: result(schedule) == result(one shot): output bytes, final status, total_in,
// informational codes.  Encoders: identical bytes across slicings, thread counts/timeouts
// (threaded encoder), struct vs text form of the chain.
#include "vgen.h"
#include "drv.h"
#include "enccfg.h"
#include "common.h"
#include "alloc.h"
#include "ref/xzparse.h"

using namespace vg;

// all liblzma allocations go through a capped allocator: a hostile (mutated) header asking for
// gigabytes becomes LZMA_MEM_ERROR, classified as environment, instead of an oom- artifact
static va::Alloc *g_alp;
static const lzma_allocator *AL() { if (!g_alp) { g_alp = new va::Alloc(); g_alp->cap = 96u << 20; g_alp->poison = false; } return &g_alp->a; }

// Recorded finding C06:error-position-after-declared-uncompressed-size.  block_decoder.c rejects a Block whose declared Uncompressed
// Size has been delivered while the filter chain has not ended with "uncomp_done && *in_pos < in_size", i.e. depending on whether the
// *caller's buffer* still holds unread bytes: with everything in one buffer the error comes as soon as the output is complete, with
// small pieces the decoder first consumes further LZMA2 header bytes.  Same status, same output, different total_in.  Attributed
// only if: first Stream of an .xz file, both runs LZMA_DATA_ERROR with equal output, both positions inside the compressed data of
// one Block whose header declares an Uncompressed Size, and exactly that much of the Block has been delivered.
static bool error_after_declared_uncompressed_size(const std::vector<uint8_t> &d, uint64_t tin_a, uint64_t tin_b, size_t out_len) {
	if (d.size() < 24 || d[0] != 0xFD) return false;
	const unsigned csize = ref::check_sizes[d[7] & 15];
	const uint64_t lo = std::min(tin_a, tin_b), hi = std::max(tin_a, tin_b);
	size_t off = 12; uint64_t produced = 0;
	for (unsigned i = 0; i < 64 && off < d.size() && d[off] != 0; ++i) {
		ref::BlockLayout b; ref::XzResult R;
		if (!ref::parse_block_header(d.data(), d.size(), off, b, R)) return false;
		const size_t data_off = off + b.hdr_size; const uint64_t end = b.has_comp ? data_off + b.comp_field : d.size();
		if (lo >= data_off && hi <= end) return b.has_unc && out_len == produced + b.unc_field;
		if (!b.has_comp || !b.has_unc) return false;
		produced += b.unc_field; off = (size_t)(data_off + b.comp_field + ((4 - (b.comp_field & 3)) & 3) + csize);
	}
	return false;
}

static void compare(const char *kind, const drv::Result &ref, const drv::Result &got, bool bytes_unspecified_on_error, bool lzma1_eopm_candidate, const std::vector<uint8_t> *xz_file = nullptr) {
	if (ref.capped || got.capped) { count("inconclusive_capped"); return; }
	if (ref.ret == LZMA_MEM_ERROR || got.ret == LZMA_MEM_ERROR) { count("environment_alloc_cap"); return; }
	if (got.call_bound) violation("C04:call-bound", "%s: sliced run exceeded the call bound (calls=%zu)", kind, got.calls);
	bool same_status = ref.ret == got.ret && ref.total_in == got.total_in;
	bool same_bytes = ref.out == got.out;
	bool err = ref.ret != LZMA_STREAM_END;
	bool ok = same_status && (same_bytes || (err && bytes_unspecified_on_error)) && ref.info == got.info;
	if (ok) return;
	const char *sig = "C06:slicing";
	if (lzma1_eopm_candidate && ref.ret == LZMA_STREAM_END && got.ret == LZMA_DATA_ERROR && same_bytes) sig = "C06:lzma1-eopm-split";
	if (xz_file && ref.ret == LZMA_DATA_ERROR && got.ret == LZMA_DATA_ERROR && same_bytes && ref.info == got.info && ref.total_in != got.total_in
			&& error_after_declared_uncompressed_size(*xz_file, ref.total_in, got.total_in, ref.out.size())) sig = "C06:error-position-after-declared-uncompressed-size";
	if (known_finding(sig)) return;
	violation(sig, "%s: one-shot {ret=%s total_in=%llu out=%zu} vs sliced {ret=%s total_in=%llu out=%zu} bytes_equal=%d info_equal=%d",
		kind, drv::retname(ref.ret), (unsigned long long)ref.total_in, ref.out.size(),
		drv::retname(got.ret), (unsigned long long)got.total_in, got.out.size(), (int)same_bytes, (int)(ref.info == got.info));
}

static bool sched_nontrivial(const drv::Schedule &s, size_t in_len, size_t out_len) {
	if (s.one_shot()) return false;
	// >= 2 non-empty input pieces or >= 2 output windows
	if (s.tail_in && s.tail_in < in_len) return true;
	if (s.tail_out && s.tail_out < out_len) return true;
	size_t acc_in = 0, nonempty = 0, acc_out = 0, wins = 0;
	for (auto &p : s.pieces) { if (p.in && acc_in < in_len) { ++nonempty; acc_in += p.in; } if (p.out && acc_out < out_len) { ++wins; acc_out += p.out; } }
	if (acc_in < in_len) ++nonempty; if (acc_out < out_len) ++wins;
	return nonempty >= 2 || wins >= 2;
}

// ---- decoders on tests/files (optionally mutated) ---------------------------------
enum DecKind { DK_STREAM, DK_AUTO, DK_ALONE, DK_LZIP, DK_N };
static const char *dk_names[] = {"stream", "auto", "alone", "lzip"};
static lzma_ret init_dec(lzma_stream *s, int k, uint32_t flags) {
	switch (k) { case DK_STREAM: return lzma_stream_decoder(s, UINT64_MAX, flags); case DK_AUTO: return lzma_auto_decoder(s, UINT64_MAX, flags);
	case DK_ALONE: return lzma_alone_decoder(s, UINT64_MAX); default: return lzma_lzip_decoder(s, UINT64_MAX, flags); }
}

static void mode_testfile(Case &c) {
	auto &files = cm::test_files();
	if (files.empty()) harness_bug("no tests/files");
	const cm::TestFile &tf = files[c.u((uint32_t)files.size())];
	std::vector<uint8_t> data = tf.data;
	int k;
	bool lz = cm::name_ends(tf.name, ".lz"), al = cm::name_ends(tf.name, ".lzma"), xz = cm::name_ends(tf.name, ".xz");
	if (cm::name_ends(tf.name, ".lzma2")) { count("skip_raw_lzma2_file"); return; }
	uint8_t kb = c.byte();
	if (kb < 160) k = lz ? DK_LZIP : (al ? DK_ALONE : DK_STREAM); else if (kb < 230) k = DK_AUTO; else k = kb % DK_N;
	uint32_t flags = 0; uint8_t fb = c.byte();
	if (fb & 1) flags |= LZMA_CONCATENATED; if (fb & 2) flags |= LZMA_TELL_NO_CHECK; if (fb & 4) flags |= LZMA_TELL_UNSUPPORTED_CHECK;
	if (fb & 8) flags |= LZMA_TELL_ANY_CHECK; if ((fb & 0x30) == 0x30) flags |= LZMA_IGNORE_CHECK;
	std::string mut = c.chance(120) ? cm::mutate(c, data) : "none";
	drv::Schedule sch = drv::draw_schedule(c, false);
	lzma_action fin = c.chance(40) ? LZMA_RUN : LZMA_FINISH;
	set_desc("{\"mode\":\"testfile\",\"file\":" + jstr(tf.name) + ",\"decoder\":\"" + dk_names[k] + "\",\"flags\":" + std::to_string(flags) + ",\"mutation\":\"" + mut + "\",\"final\":" + std::to_string((int)fin) + ",\"schedule\":" + sch.describe() + "}");
	bool bcj = cm::name_has(tf.name, "x86") || cm::name_has(tf.name, "arm") || cm::name_has(tf.name, "sparc") || cm::name_has(tf.name, "powerpc") || cm::name_has(tf.name, "ia64") || cm::name_has(tf.name, "riscv") || cm::name_has(tf.name, "bcj");
	if (!xz) bcj = false;
	drv::Opts o; o.final_action = fin; o.out_cap = 4u << 20;
	lzma_stream s = LZMA_STREAM_INIT; s.allocator = AL();
	{ lzma_ret ir = init_dec(&s, k, flags); if (ir == LZMA_OPTIONS_ERROR) { count("init_options_error"); lzma_end(&s); return; } if (ir != LZMA_OK) harness_bug("decoder init failed"); }
	drv::Result ref = drv::run(&s, data.data(), data.size(), drv::Schedule(), o); lzma_end(&s);
	lzma_stream s2 = LZMA_STREAM_INIT; s2.allocator = AL();
	if (init_dec(&s2, k, flags) != LZMA_OK) harness_bug("decoder init failed");
	drv::Result got = drv::run(&s2, data.data(), data.size(), sch, o); lzma_end(&s2);
	bool cand = (k == DK_ALONE || k == DK_AUTO) && al;
	compare(dk_names[k], ref, got, bcj, cand, (k == DK_STREAM || k == DK_AUTO) ? &data : nullptr);
	count(std::string("dec_") + dk_names[k]); count(ref.ret == LZMA_STREAM_END ? "valid_input" : "invalid_input");
	if (sched_nontrivial(sch, data.size(), ref.out.size()) && ref.total_in > 6) nontrivial(hcomb(hcomb(hash_bytes(data.data(), data.size()), k * 131 + flags), sch.hash()));
}

// Input for chains with a BCJ filter: bytes the filters look for (x86 E8/E9 with 00/FF high bytes, ARM BL, Thumb BL pairs, PowerPC
// bl, SPARC call, ARM64 BL/ADRP, RISC-V JAL/AUIPC), dense enough that converted instructions sit next to each other and across
// every call boundary.  Drawn from a PRNG seeded with the recipe (no case bytes are consumed: committed corpus cases keep their meaning).
static void opcode_rich(std::vector<uint8_t> &in, uint64_t seed) {
	static const uint8_t t[24] = {0xE8, 0xE9, 0xE8, 0xE9, 0x00, 0xFF, 0x00, 0xFF, 0xEB, 0xF0, 0xF8, 0x48, 0x01, 0x40, 0x7F, 0x94, 0x97, 0x90, 0xEF, 0x17, 0xE7, 0x0F, 0x80, 0x03};
	Rng g(seed ^ 0xBC7); for (auto &b : in) b = (g.next() & 7) ? t[g.below(24)] : g.byte();
}

// ---- decoders on generated streams ------------------------------------------------
static void mode_generated(Case &c) {
	ec::Config g; ec::DrawFlags f; f.allow_big = false;
	ec::draw_config(c, g, f);
	uint32_t maxlen = c.chance(30) ? (1u << 20) : (1u << 14);
	Recipe r = draw_recipe(c, maxlen, g.lz.dict_size);
	std::vector<uint8_t> in = expand(r);
	if (g.has_bcj && (r.hash() & 1)) { opcode_rich(in, r.hash()); count("bcj_chain_with_opcode_rich_input"); }
	g.prepare_for_len(in.size());
	drv::Schedule esch; // one-shot encode
	ec::Encoded E = ec::encode_all(g, in, esch, AL());
	bool micro = g.entry == ec::E_MICROLZMA;
	if (!(E.ret == LZMA_STREAM_END) || E.capped) {
		set_desc("{\"mode\":\"generated\",\"cfg\":" + g.describe() + ",\"input\":" + r.describe() + "}");
		if (micro && in.empty()) { count("micro_empty"); return; }
		violation("C01:encode-failed", "encoder returned %s", drv::retname(E.ret));
	}
	uint64_t plain_len = micro ? E.total_in : in.size();
	// .lzma with known size *and* end marker: patch the header's size field
	bool patched = false;
	if (g.entry == ec::E_ALONE && c.flag() && E.bytes.size() >= 13) { uint64_t n = in.size(); for (int i = 0; i < 8; ++i) E.bytes[5 + i] = (uint8_t)(n >> (8 * i)); patched = true; }
	std::vector<uint8_t> data = E.bytes;
	std::string mut = c.chance(100) ? cm::mutate(c, data) : "none";
	drv::Schedule sch = drv::draw_schedule(c, false);
	set_desc("{\"mode\":\"generated\",\"cfg\":" + g.describe() + ",\"input\":" + r.describe() + ",\"alone_known_size\":" + (patched ? "true" : "false") + ",\"mutation\":\"" + mut + "\",\"schedule\":" + sch.describe() + "}");
	drv::Result ref = ec::decode_matching(g, data, drv::Schedule(), plain_len, AL());
	drv::Result got = ec::decode_matching(g, data, sch, plain_len, AL());
	bool cand = g.entry == ec::E_ALONE || g.last_id() == LZMA_FILTER_LZMA1EXT;
	compare(ec::entry_names[g.entry], ref, got, g.has_bcj, cand, ec::is_xz(g.entry) ? &data : nullptr);
	if (mut == "none" && ref.ret != LZMA_MEM_ERROR) {
		if (ref.ret != LZMA_STREAM_END && !ref.capped) violation("C01:roundtrip-status", "valid stream rejected: %s", drv::retname(ref.ret));
		if (!ref.capped && (ref.out.size() != plain_len || (plain_len && memcmp(ref.out.data(), in.data(), plain_len)))) violation("C01:roundtrip-bytes", "decoded bytes differ from input");
	}
	count(std::string("gen_dec_") + ec::entry_names[g.entry]); count(ref.ret == LZMA_STREAM_END ? "valid_input" : "invalid_input");
	if (g.has_bcj) count("chain_with_bcj"); if (patched) count("alone_known_size_with_eopm");
	if (sched_nontrivial(sch, data.size(), ref.out.size()) && ref.total_in > 2) nontrivial(hcomb(hcomb(g.hash(), r.hash()), hcomb(hash_bytes(mut.data(), mut.size()), sch.hash())));
}

// ---- encoders: slicing independence -------------------------------------------------
static void mode_encoder(Case &c) {
	ec::Config g; ec::DrawFlags f; f.allow_big = false;
	f.entries_mask = (1u << ec::E_EASY) | (1u << ec::E_STREAM) | (1u << ec::E_STREAM_MT) | (1u << ec::E_ALONE) | (1u << ec::E_RAW) | (1u << ec::E_BLOCK);
	ec::draw_config(c, g, f);
	Recipe r = draw_recipe(c, c.chance(30) ? (1u << 20) : (1u << 14), g.lz.dict_size);
	std::vector<uint8_t> in = expand(r);
	if (g.has_bcj && (r.hash() & 1)) { opcode_rich(in, r.hash()); count("bcj_chain_with_opcode_rich_input"); }
	g.prepare_for_len(in.size());
	drv::Schedule sch = drv::draw_schedule(c, false);
	set_desc("{\"mode\":\"encoder\",\"cfg\":" + g.describe() + ",\"input\":" + r.describe() + ",\"schedule\":" + sch.describe() + "}");
	ec::Encoded A = ec::encode_all(g, in, drv::Schedule());
	ec::Encoded B = ec::encode_all(g, in, sch);
	if (A.capped || B.capped) { count("inconclusive_capped"); return; }
	if (A.ret != LZMA_STREAM_END) violation("C01:encode-failed", "one-shot encoder returned %s", drv::retname(A.ret));
	if (A.ret != B.ret || A.total_in != B.total_in || A.bytes != B.bytes)
		violation("C06:encoder-slicing", "one-shot {ret=%s in=%llu out=%zu} vs sliced {ret=%s in=%llu out=%zu}", drv::retname(A.ret), (unsigned long long)A.total_in, A.bytes.size(), drv::retname(B.ret), (unsigned long long)B.total_in, B.bytes.size());
	count(std::string("enc_") + ec::entry_names[g.entry]);
	if (g.entry == ec::E_STREAM_MT) {
		// determinism across thread counts and timeouts
		ec::Config &h = g; uint32_t t0 = h.threads, to0 = h.timeout;
		h.threads = 1 + c.u(8); h.timeout = c.pick<uint32_t>({0, 1, 3});
		ec::Encoded C = ec::encode_all(h, in, sch);
		if (C.ret != A.ret || C.bytes != A.bytes) violation("C06:mt-determinism", "threads %u/timeout %u vs threads %u/timeout %u differ (%zu vs %zu bytes)", t0, to0, h.threads, h.timeout, A.bytes.size(), C.bytes.size());
		count("mt_determinism_pairs");
	}
	if (sched_nontrivial(sch, in.size(), A.bytes.size()) && !in.empty()) nontrivial(hcomb(hcomb(g.hash(), r.hash()), sch.hash()));
}

// ---- chain as struct vs as text ------------------------------------------------------
static bool filters_equal(const lzma_filter *a, const lzma_filter *b) {
	for (unsigned i = 0;; ++i) {
		if (a[i].id != b[i].id) return false;
		if (a[i].id == LZMA_VLI_UNKNOWN) return true;
		lzma_vli id = a[i].id;
		if (id == LZMA_FILTER_DELTA) { auto *x = (const lzma_options_delta *)a[i].options, *y = (const lzma_options_delta *)b[i].options; if (x->type != y->type || x->dist != y->dist) return false; }
		else if (id == LZMA_FILTER_LZMA1 || id == LZMA_FILTER_LZMA2) { auto *x = (const lzma_options_lzma *)a[i].options, *y = (const lzma_options_lzma *)b[i].options;
			if (x->dict_size != y->dict_size || x->lc != y->lc || x->lp != y->lp || x->pb != y->pb || x->mode != y->mode || x->nice_len != y->nice_len || x->mf != y->mf || x->depth != y->depth) return false; }
		else { auto *x = (const lzma_options_bcj *)a[i].options, *y = (const lzma_options_bcj *)b[i].options; uint32_t xs = x ? x->start_offset : 0, ys = y ? y->start_offset : 0; if (xs != ys) return false; }
	}
}

static void mode_text(Case &c) {
	ec::Config g; ec::DrawFlags f; f.allow_big = false; f.allow_norm_hook = false;
	f.entries_mask = (1u << ec::E_STREAM) | (1u << ec::E_RAW);
	ec::draw_config(c, g, f);
	if (g.last_id() == LZMA_FILTER_LZMA1EXT) { g.filters[g.nfilters - 1].id = LZMA_FILTER_LZMA1; }
	g.pdict.clear(); g.link();
	Recipe r = draw_recipe(c, 1u << 13, g.lz.dict_size);
	std::vector<uint8_t> in = expand(r);
	set_desc("{\"mode\":\"text\",\"cfg\":" + g.describe() + ",\"input\":" + r.describe() + "}");
	lzma_filter f2[LZMA_FILTERS_MAX + 1];
	if (g.use_preset) {
		char ps[8]; snprintf(ps, sizeof ps, "%u%s", g.preset & LZMA_PRESET_LEVEL_MASK, (g.preset & LZMA_PRESET_EXTREME) ? "e" : "");
		int errpos = -1; const char *msg = lzma_str_to_filters(ps, &errpos, f2, 0, NULL);
		if (msg) violation("C06:text-form", "preset string '%s' rejected: %s", ps, msg);
		if (!filters_equal(g.filters, f2)) violation("C06:text-form", "preset string '%s' gives different options than lzma_lzma_preset", ps);
		count("text_preset");
	} else {
		char *str = NULL;
		lzma_ret sr = lzma_str_from_filters(&str, g.filters, LZMA_STR_ENCODER, NULL);
		if (sr != LZMA_OK) violation("C06:text-form", "lzma_str_from_filters failed: %s", drv::retname(sr));
		int errpos = -1; const char *msg = lzma_str_to_filters(str, &errpos, f2, LZMA_STR_ALL_FILTERS, NULL);
		if (msg) violation("C06:text-form", "own text form '%s' rejected at %d: %s", str, errpos, msg);
		if (!filters_equal(g.filters, f2)) violation("C06:text-form", "text form '%s' parses to different options", str);
		{ std::string &d = g_stats.current; if (!d.empty() && d.back() == '}') { d.pop_back(); d += ",\"text\":" + jstr(str) + "}"; } }
		free(str);
		count("text_chain");
	}
	// encode with both
	ec::Encoded A = ec::encode_all(g, in, drv::Schedule());
	ec::Config h; h.entry = g.entry; h.check = g.check; h.use_preset = false;
	lzma_stream s = LZMA_STREAM_INIT; lzma_ret ir = g.entry == ec::E_STREAM ? lzma_stream_encoder(&s, f2, g.check) : lzma_raw_encoder(&s, f2);
	if (ir != LZMA_OK) violation("C06:text-form", "encoder init with parsed chain failed: %s", drv::retname(ir));
	drv::Result B = drv::run(&s, in.data(), in.size(), drv::Schedule()); lzma_end(&s);
	lzma_filters_free(f2, NULL);
	if (A.ret != B.ret || A.bytes != B.out) violation("C06:text-form", "struct vs text chain: different output (%zu vs %zu bytes)", A.bytes.size(), B.out.size());
	if (!in.empty()) nontrivial(hcomb(g.hash(), r.hash()));
}

// ---- index decoder ---------------------------------------------------------------------
static void mode_index(Case &c) {
	lzma_index *idx = lzma_index_init(NULL); if (!idx) harness_bug("index_init");
	unsigned n = c.small(600);
	for (unsigned i = 0; i < n; ++i) { lzma_vli u = 5 + c.u16() * (c.chance(20) ? 65537ull : 1); lzma_vli v = c.u32() >> (c.byte() % 32); if (lzma_index_append(idx, NULL, u, v) != LZMA_OK) break; }
	size_t sz = lzma_index_size(idx); std::vector<uint8_t> buf(sz); size_t pos = 0;
	if (lzma_index_buffer_encode(idx, buf.data(), &pos, sz) != LZMA_OK) harness_bug("index encode");
	lzma_index_end(idx, NULL);
	std::string mut = c.chance(100) ? cm::mutate(c, buf) : "none";
	drv::Schedule sch = drv::draw_schedule(c, false);
	set_desc("{\"mode\":\"index\",\"records\":" + std::to_string(n) + ",\"mutation\":\"" + mut + "\",\"schedule\":" + sch.describe() + "}");
	drv::Result R[2]; uint64_t chk[2][3];
	for (int k = 0; k < 2; ++k) { lzma_index *o = NULL; lzma_stream s = LZMA_STREAM_INIT; s.allocator = AL();
		if (lzma_index_decoder(&s, &o, UINT64_MAX) != LZMA_OK) harness_bug("index_decoder init");
		R[k] = drv::run(&s, buf.data(), buf.size(), k ? sch : drv::Schedule()); lzma_end(&s);
		chk[k][0] = o ? lzma_index_block_count(o) : ~0ull; chk[k][1] = o ? lzma_index_uncompressed_size(o) : ~0ull; chk[k][2] = o ? lzma_index_total_size(o) : ~0ull;
		if (o && R[k].ret != LZMA_STREAM_END) violation("C13:index-decoder-output-on-error", "index pointer set although decoder returned %s", drv::retname(R[k].ret));
		lzma_index_end(o, AL()); }
	compare("index", R[0], R[1], false, false);
	if (memcmp(chk[0], chk[1], sizeof chk[0])) violation("C06:slicing", "index decoder: decoded index differs between slicings");
	count("dec_index");
	if (sched_nontrivial(sch, buf.size(), 0) && n > 0) nontrivial(hcomb(hash_bytes(buf.data(), buf.size()), sch.hash()));
}

extern "C" size_t vfresh_max(void) { return 160; }

extern "C" int LLVMFuzzerTestOneInput(const uint8_t *data, size_t size) {
	begin_case("C06");
	Case c(data, size);
	unsigned m = c.u(10);
	if (m < 3) mode_testfile(c); else if (m < 6) mode_generated(c); else if (m < 8) mode_encoder(c); else if (m < 9) mode_text(c); else mode_index(c);
	return 0;
}
