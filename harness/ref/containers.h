// ref/containers.h - .lzma (LZMA_Alone) and .lz (lzip) container models, written from
// doc/lzma-file-format.txt and the lzip manual's member layout (no liblzma headers).
#pragma once
#include "lzma_dec.h"
#include "crc.h"
#include "xzparse.h"

namespace ref {

struct AloneResult { int status = RS_OK; std::string rule; std::vector<uint8_t> out; size_t in_used = 0; unsigned lc = 0, lp = 0, pb = 0; uint32_t dict = 0; uint64_t size = 0; bool saw_marker = false; uint64_t max_dist_plus1 = 0; };

// picky: the plausibility test the auto-detecting decoder documents (dict = 2^n or 2^n+2^(n-1) or UINT32_MAX; known size < 2^38)
static inline bool alone_header_plausible(uint32_t dict, uint64_t size) {
	if (dict != 0xFFFFFFFFu) {
		// 2^n or 2^n + 2^(n-1)
		uint32_t d = dict - 1; d |= d >> 2; d |= d >> 3; d |= d >> 4; d |= d >> 8; d |= d >> 16; ++d;
		if (d != dict) return false;
	}
	if (size != UINT64_MAX && size >= (1ull << 38)) return false;
	return true;
}

static inline AloneResult alone_decode(const uint8_t *in, size_t n, bool picky, size_t out_limit = (size_t)1 << 30) {
	AloneResult R;
	if (n < 13) {
		// header incomplete: props byte validity can already decide
		if (n >= 1 && !props_decode(in[0], R.lc, R.lp, R.pb)) { R.status = RS_FORMAT_ERROR; R.rule = "props byte"; return R; }
		R.status = RS_TRUNCATED; R.rule = "header truncated"; R.in_used = n; return R;
	}
	if (!props_decode(in[0], R.lc, R.lp, R.pb)) { R.status = RS_FORMAT_ERROR; R.rule = "props byte"; return R; }
	R.dict = rd32(in + 1); R.size = rd64(in + 5);
	if (picky && !alone_header_plausible(R.dict, R.size)) { R.status = RS_FORMAT_ERROR; R.rule = "implausible header"; return R; }
	Lzma1Result L = lzma1_decode(in + 13, n - 13, R.lc, R.lp, R.pb, R.dict, R.size, true, R.out, nullptr, 0, out_limit);
	R.status = L.status; R.in_used = 13 + L.in_used; R.saw_marker = L.saw_marker; R.max_dist_plus1 = L.max_dist_plus1;
	if (L.status != RS_OK) R.rule = "LZMA1 data";
	return R;
}

} // namespace ref
