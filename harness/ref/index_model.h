// ref/index_model.h - "list of records" model of lzma_index, written from
// doc/xz-file-format.txt (sections 1.2, 2.1, 2.2, 4) and the documented behaviour in
// api/lzma/index.h / stream_flags.h.  No liblzma headers, no liblzma code.
//
// An Index is a list of Streams; a Stream is a list of (unpadded, uncompressed) Records, optional
// Stream Flags, and the size of the Stream Padding that follows it.  Every derived quantity is
// recomputed from the list with 128-bit arithmetic, so no intermediate value can wrap.
//
// Limits (format + documented API limits):
//   * a VLI holds 0 .. 2^63-1;
//   * Unpadded Size of a Block: 5 .. (2^63-1 rounded down to a multiple of 4);
//   * Stream Padding: multiple of 4;
//   * Backward Size (= size of the Index field): 4 .. 2^34, multiple of 4;
//   * the size of the file described by the index, the uncompressed size of every Stream and the
//     uncompressed size of the whole index must stay representable as a VLI.
#pragma once
#include <stdint.h>
#include <stddef.h>
#include <vector>
#include "crc.h"

namespace ref {
namespace ix {

typedef unsigned __int128 u128;

static const uint64_t VLI_MAX = UINT64_MAX / 2;
static const uint64_t VLI_UNKNOWN = UINT64_MAX;
static const uint64_t UNPADDED_MIN = 5;
static const uint64_t UNPADDED_MAX = VLI_MAX & ~(uint64_t)3;
static const uint64_t BACKWARD_MIN = 4;
static const uint64_t BACKWARD_MAX = (uint64_t)1 << 34;
static const uint64_t HEADER_SIZE = 12; // Stream Header == Stream Footer == 12 bytes
static const unsigned CHECK_ID_MAX = 15;

enum Res { RS_OK, RS_OPTIONS_ERROR, RS_DATA_ERROR, RS_PROG_ERROR };

// ---- VLI (spec 1.2) -----------------------------------------------------------------
static inline unsigned vli_len(uint64_t v) { unsigned n = 1; while (v >= 0x80) { v >>= 7; ++n; } return n; }
static inline void vli_put(std::vector<uint8_t> &o, uint64_t v) { while (v >= 0x80) { o.push_back((uint8_t)(v | 0x80)); v >>= 7; } o.push_back((uint8_t)v); }
// 0: decoded; 1: input ended inside the integer; 2: invalid (more than 9 bytes, or not the smallest encoding)
static inline int vli_get(const uint8_t *p, size_t n, size_t &pos, uint64_t &v) {
	v = 0;
	for (unsigned i = 0; i < 9; ++i) {
		if (pos >= n) return 1;
		uint8_t b = p[pos++];
		v |= (uint64_t)(b & 0x7F) << (7 * i);
		if (!(b & 0x80)) return (b == 0 && i > 0) ? 2 : 0;
	}
	return 2; // ninth byte still had the continuation bit
}

static inline u128 ceil4(u128 v) { return (v + 3) & ~(u128)3; }
// Index field: indicator + count + list + padding to 4 + CRC32
static inline u128 index_field_size(uint64_t count, u128 list) { return ceil4(1 + vli_len(count) + list + 4); }

struct Record { uint64_t unpadded, uncompressed; };
struct Flags { bool set = false; uint32_t version = 0; uint64_t backward_size = VLI_UNKNOWN; unsigned check = 0; };

struct Stream {
	std::vector<Record> recs;
	Flags flags;
	uint64_t padding = 0;
	// cached sums over recs (kept by push(); verified by cache_ok())
	u128 blocks = 0;   // sum of ceil4(unpadded)
	u128 uncomp = 0;   // sum of uncompressed
	u128 list = 0;     // bytes of the List of Records
	void push(const Record &r) { recs.push_back(r); blocks += ceil4(r.unpadded); uncomp += r.uncompressed; list += vli_len(r.unpadded) + vli_len(r.uncompressed); }
	u128 index_size() const { return index_field_size(recs.size(), list); }
	u128 size() const { return HEADER_SIZE + blocks + index_size() + HEADER_SIZE; } // without Stream Padding
	bool cache_ok() const { u128 b = 0, u = 0, l = 0; for (auto &r : recs) { b += ceil4(r.unpadded); u += r.uncompressed; l += vli_len(r.unpadded) + vli_len(r.uncompressed); } return b == blocks && u == uncomp && l == list; }
};

struct Pos { int64_t s = -1, b = -1; bool operator==(const Pos &o) const { return s == o.s && b == o.b; } };
enum Mode { M_ANY = 0, M_STREAM = 1, M_BLOCK = 2, M_NONEMPTY_BLOCK = 3 };

// expected public contents of lzma_index_iter at a position
struct Info {
	uint64_t s_number = 0, s_block_count = 0, s_padding = 0;
	u128 s_comp_off = 0, s_unc_off = 0, s_comp_size = 0, s_unc_size = 0;
	Flags flags;
	bool has_block = false;
	uint64_t b_num_file = 0, b_num_stream = 0, b_unc_size = 0, b_unpadded = 0, b_total = 0;
	u128 b_comp_file_off = 0, b_unc_file_off = 0, b_comp_stream_off = 0, b_unc_stream_off = 0;
};

struct Index {
	std::vector<Stream> streams;
	Index() : streams(1) {}

	uint64_t stream_count() const { return streams.size(); }
	uint64_t block_count() const { uint64_t n = 0; for (auto &s : streams) n += s.recs.size(); return n; }
	u128 list_size() const { u128 n = 0; for (auto &s : streams) n += s.list; return n; }
	u128 total_size() const { u128 n = 0; for (auto &s : streams) n += s.blocks; return n; }        // all Blocks, nothing else
	u128 uncompressed_size() const { u128 n = 0; for (auto &s : streams) n += s.uncomp; return n; }
	u128 size() const { return index_field_size(block_count(), list_size()); }                        // Index field if everything were one Stream
	u128 stream_size() const { return HEADER_SIZE + total_size() + size() + HEADER_SIZE; }             // as one Stream
	u128 file_size() const { u128 n = 0; for (auto &s : streams) n += s.size() + s.padding; return n; }
	uint32_t checks() const { uint32_t m = 0; for (auto &s : streams) if (s.flags.set) m |= 1u << s.flags.check; return m; }
	bool caches_ok() const { for (auto &s : streams) if (!s.cache_ok()) return false; return true; }

	// ---- operations -------------------------------------------------------------------
	// filewide_uncompressed: also require the uncompressed size of the whole index to stay a VLI
	Res append(uint64_t unpadded, uint64_t uncompressed, bool filewide_uncompressed = true) {
		if (unpadded < UNPADDED_MIN || unpadded > UNPADDED_MAX || uncompressed > VLI_MAX) return RS_PROG_ERROR;
		Stream &s = streams.back();
		if (s.uncomp + uncompressed > VLI_MAX) return RS_DATA_ERROR;
		if (filewide_uncompressed && uncompressed_size() + uncompressed > VLI_MAX) return RS_DATA_ERROR;
		u128 add = vli_len(unpadded) + vli_len(uncompressed);
		// the file with the new Block in its last Stream
		u128 new_stream = HEADER_SIZE + s.blocks + ceil4(unpadded) + index_field_size(s.recs.size() + 1, s.list + add) + HEADER_SIZE + s.padding;
		u128 before = file_size() - s.size() - s.padding;
		if (before + new_stream > VLI_MAX) return RS_DATA_ERROR;
		// the Index field of everything packed into one Stream must fit Backward Size
		if (index_field_size(block_count() + 1, list_size() + add) > BACKWARD_MAX) return RS_DATA_ERROR;
		s.push(Record{unpadded, uncompressed});
		return RS_OK;
	}
	Res set_flags(uint32_t version, unsigned check, uint64_t backward_size) {
		if (version != 0) return RS_OPTIONS_ERROR;
		if (check > CHECK_ID_MAX) return RS_PROG_ERROR;
		if (backward_size != VLI_UNKNOWN && (backward_size < BACKWARD_MIN || backward_size > BACKWARD_MAX || (backward_size & 3))) return RS_PROG_ERROR;
		Flags &f = streams.back().flags; f.set = true; f.version = version; f.check = check; f.backward_size = backward_size;
		return RS_OK;
	}
	Res set_padding(uint64_t padding) {
		if (padding > VLI_MAX || (padding & 3)) return RS_PROG_ERROR;
		if (file_size() - streams.back().padding + padding > VLI_MAX) return RS_DATA_ERROR;
		streams.back().padding = padding;
		return RS_OK;
	}
	// src is appended after *this; on success src is consumed (left empty)
	Res cat(Index &src) {
		if (file_size() + src.file_size() > VLI_MAX) return RS_DATA_ERROR;
		if (uncompressed_size() + src.uncompressed_size() > VLI_MAX) return RS_DATA_ERROR;
		if (index_field_size(block_count() + src.block_count(), list_size() + src.list_size()) > BACKWARD_MAX) return RS_DATA_ERROR;
		for (auto &s : src.streams) streams.push_back(std::move(s));
		src.streams.clear();
		return RS_OK;
	}

	// ---- Index field (spec section 4): all Records of all Streams as one Index ---------
	std::vector<uint8_t> encode() const {
		std::vector<uint8_t> o; o.push_back(0x00);
		vli_put(o, block_count());
		for (auto &s : streams) for (auto &r : s.recs) { vli_put(o, r.unpadded); vli_put(o, r.uncompressed); }
		while (o.size() & 3) o.push_back(0x00);
		uint32_t c = crc32_fast(o.data(), o.size());
		for (int i = 0; i < 4; ++i) o.push_back((uint8_t)(c >> (8 * i)));
		return o;
	}

	// ---- iteration ----------------------------------------------------------------------
	// Advance p as documented for lzma_index_iter_next(); returns true (and leaves p alone)
	// when nothing matching the mode is left.  b == -1: positioned on a Stream, before its
	// first Block (the Stream had no Blocks when it was reached).
	bool next(Pos &p, int mode) const {
		Pos q = p;
		int64_t ns = (int64_t)streams.size();
		for (;;) {
			bool moved_block = false;
			if (q.s >= 0 && mode != M_STREAM && q.b + 1 < (int64_t)streams[q.s].recs.size()) { ++q.b; moved_block = true; }
			if (!moved_block) {
				// next Stream; Block modes skip Streams without Blocks
				int64_t t = q.s + 1;
				if (mode >= M_BLOCK) while (t < ns && streams[t].recs.empty()) ++t;
				if (t >= ns) return true;
				q.s = t; q.b = streams[t].recs.empty() ? -1 : 0;
			}
			if (mode == M_NONEMPTY_BLOCK && streams[q.s].recs[q.b].uncompressed == 0) continue;
			p = q; return false;
		}
	}
	// unique non-empty Block containing the uncompressed offset; true if target is at or past the end
	bool locate(uint64_t target, Pos &p) const {
		if ((u128)target >= uncompressed_size()) return true;
		u128 off = 0;
		for (size_t s = 0; s < streams.size(); ++s) for (size_t b = 0; b < streams[s].recs.size(); ++b) {
			u128 end = off + streams[s].recs[b].uncompressed;
			if (off <= target && target < end) { p.s = (int64_t)s; p.b = (int64_t)b; return false; }
			off = end;
		}
		return true; // not reachable
	}
	Info info(const Pos &p) const {
		Info I;
		if (p.s < 0 || p.s >= (int64_t)streams.size()) return I;
		uint64_t blocks_before = 0;
		for (int64_t t = 0; t < p.s; ++t) { I.s_comp_off += streams[t].size() + streams[t].padding; I.s_unc_off += streams[t].uncomp; blocks_before += streams[t].recs.size(); }
		const Stream &s = streams[p.s];
		I.s_number = (uint64_t)p.s + 1; I.s_block_count = s.recs.size(); I.s_padding = s.padding;
		I.s_comp_size = s.size(); I.s_unc_size = s.uncomp; I.flags = s.flags;
		if (p.b >= 0 && p.b < (int64_t)s.recs.size()) {
			I.has_block = true;
			u128 c = HEADER_SIZE, u = 0;
			for (int64_t k = 0; k < p.b; ++k) { c += ceil4(s.recs[k].unpadded); u += s.recs[k].uncompressed; }
			const Record &r = s.recs[p.b];
			I.b_num_stream = (uint64_t)p.b + 1; I.b_num_file = blocks_before + I.b_num_stream;
			I.b_comp_stream_off = c; I.b_unc_stream_off = u;
			I.b_comp_file_off = I.s_comp_off + c; I.b_unc_file_off = I.s_unc_off + u;
			I.b_unc_size = r.uncompressed; I.b_unpadded = r.unpadded; I.b_total = (uint64_t)ceil4(r.unpadded);
		}
		return I;
	}
};

// Sequential walk over every position with running sums (O(1) per step); used for full iterations.
struct Walker {
	const Index &ix; Pos p; Info I; uint64_t blocks_before = 0;
	explicit Walker(const Index &i) : ix(i) {}
	// move to position q, which must not be before the current one
	const Info &at(const Pos &q) {
		if (q.s != p.s) {
			for (int64_t t = (p.s < 0 ? 0 : p.s); t < q.s; ++t) { I.s_comp_off += ix.streams[t].size() + ix.streams[t].padding; I.s_unc_off += ix.streams[t].uncomp; blocks_before += ix.streams[t].recs.size(); }
			const Stream &s = ix.streams[q.s];
			I.s_number = (uint64_t)q.s + 1; I.s_block_count = s.recs.size(); I.s_padding = s.padding; I.s_comp_size = s.size(); I.s_unc_size = s.uncomp; I.flags = s.flags;
			I.b_comp_stream_off = HEADER_SIZE; I.b_unc_stream_off = 0; p.s = q.s; p.b = 0;
		}
		I.has_block = q.b >= 0;
		if (q.b >= 0) {
			const Stream &s = ix.streams[q.s];
			for (int64_t k = (p.b < 0 ? 0 : p.b); k < q.b; ++k) { I.b_comp_stream_off += ceil4(s.recs[k].unpadded); I.b_unc_stream_off += s.recs[k].uncompressed; }
			p.b = q.b;
			const Record &r = s.recs[q.b];
			I.b_num_stream = (uint64_t)q.b + 1; I.b_num_file = blocks_before + I.b_num_stream;
			I.b_comp_file_off = I.s_comp_off + I.b_comp_stream_off; I.b_unc_file_off = I.s_unc_off + I.b_unc_stream_off;
			I.b_unc_size = r.uncompressed; I.b_unpadded = r.unpadded; I.b_total = (uint64_t)ceil4(r.unpadded);
		}
		return I;
	}
};

// ---- decoding an Index field (spec section 4), strictly left to right ---------------------
struct Parsed {
	int status = 0;          // 0 valid; 1 input ended before the field was complete (no rule broken so far); 2 invalid
	bool count_known = false; uint64_t count = 0;
	size_t used = 0;         // bytes of the field (status 0)
	Index idx;               // one Stream, no flags, no padding (status 0)
};
static inline Parsed parse_index(const uint8_t *p, size_t n) {
	Parsed R; size_t pos = 0;
	if (n == 0) { R.status = 1; return R; }
	if (p[pos++] != 0x00) { R.status = 2; return R; }
	int v = vli_get(p, n, pos, R.count);
	if (v) { R.status = v; return R; }
	R.count_known = true;
	for (uint64_t k = 0; k < R.count; ++k) {
		uint64_t unp, unc;
		v = vli_get(p, n, pos, unp); if (v) { R.status = v; return R; }
		if (unp < UNPADDED_MIN || unp > UNPADDED_MAX) { R.status = 2; return R; }
		v = vli_get(p, n, pos, unc); if (v) { R.status = v; return R; }
		if (R.idx.append(unp, unc) != RS_OK) { R.status = 2; return R; } // describes a Stream that is too big
	}
	while (pos & 3) { if (pos >= n) { R.status = 1; return R; } if (p[pos++] != 0x00) { R.status = 2; return R; } }
	uint32_t c = crc32_fast(p, pos);
	for (int i = 0; i < 4; ++i) { if (pos >= n) { R.status = 1; return R; } if (p[pos++] != (uint8_t)(c >> (8 * i))) { R.status = 2; return R; } }
	R.used = pos;
	return R;
}

// ---- Stream Header / Footer bytes (spec 2.1.1, 2.1.2) -------------------------------------
static inline void put_stream_header(std::vector<uint8_t> &o, unsigned check, unsigned reserved_bits = 0) {
	static const uint8_t magic[6] = {0xFD, 0x37, 0x7A, 0x58, 0x5A, 0x00};
	o.insert(o.end(), magic, magic + 6);
	uint8_t f[2] = {(uint8_t)(reserved_bits & 0xFF), (uint8_t)((check & 0x0F) | (((reserved_bits >> 8) & 0x0F) << 4))};
	o.push_back(f[0]); o.push_back(f[1]);
	uint32_t c = crc32(f, 2); for (int i = 0; i < 4; ++i) o.push_back((uint8_t)(c >> (8 * i)));
}
// backward_size_real: size of the Index field in bytes (multiple of 4, >= 4)
static inline void put_stream_footer(std::vector<uint8_t> &o, unsigned check, uint64_t backward_size_real, unsigned reserved_bits = 0) {
	uint32_t stored = (uint32_t)(backward_size_real / 4 - 1);
	uint8_t b[6]; for (int i = 0; i < 4; ++i) b[i] = (uint8_t)(stored >> (8 * i));
	b[4] = (uint8_t)(reserved_bits & 0xFF); b[5] = (uint8_t)((check & 0x0F) | (((reserved_bits >> 8) & 0x0F) << 4));
	uint32_t c = crc32(b, 6); for (int i = 0; i < 4; ++i) o.push_back((uint8_t)(c >> (8 * i)));
	o.insert(o.end(), b, b + 6);
	o.push_back(0x59); o.push_back(0x5A);
}

} // namespace ix
} // namespace ref
