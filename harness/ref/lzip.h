// ref/lzip.h - independent model of the .lz (lzip) container, written from the member layout in the lzip
// manual and from the rules api/lzma/container.h documents for lzma_lzip_decoder() (no liblzma headers):
//
//   member  = "LZIP" | version (0 or 1) | dictionary size byte | LZMA stream | CRC32 | data size [| member size]
//   dict    = 2^(b & 31) - (b >> 5) * 2^((b & 31) - 4), valid iff 4 KiB <= dict <= 512 MiB
//   stream  = raw LZMA, lc=3 lp=0 pb=2, uncompressed size unknown, end marker mandatory
//   CRC32   = u32 LE of the uncompressed data; data size = u64 LE; member size (version 1 only) = u64 LE, header..footer
//
// Concatenation (container.h): members may follow each other; after at least one member anything that is not a
// member is trailing data which is left unread; if the first 1-3 bytes of the trailing data equal the beginning
// of the magic they "will have been ignored" (= consumed) by the decoder.  Four matching bytes start a member.
// Without the concatenation request decoding stops right after the first member.
#pragma once
#include <stdint.h>
#include <stddef.h>
#include <string>
#include <vector>
#include "lzma_dec.h"
#include "crc.h"

namespace ref {

struct LzipMember {
	size_t off = 0;            // offset of 'L'
	unsigned version = 0; uint8_t dict_byte = 0; uint64_t dict = 0;
	size_t data_off = 0, data_size = 0;   // LZMA stream
	size_t footer_off = 0, footer_size = 0;
	uint64_t plain_size = 0; uint32_t crc = 0;
	size_t end() const { return footer_off + footer_size; }
};

struct LzipOpts { bool concatenated = false; bool ignore_check = false; bool finish = true; size_t out_limit = (size_t)1 << 30; };

struct LzipResult {
	int status = RS_OK; std::string rule;
	std::vector<uint8_t> out;
	size_t in_used = 0;                 // on RS_OK: where the decoder stops
	std::vector<LzipMember> members;    // complete, valid members
	size_t trailing_prefix = 0;         // bytes of trailing data equal to the start of the magic (0..3) that were skipped
	bool trailing = false;              // stopped in front of non-member data
	bool header_ok = false;             // the first member's 6 header bytes are valid
	// where the first failing member's footer lies (for repair tools): valid when footer_seen
	bool footer_seen = false; LzipMember bad;
};

// dictionary size byte -> size; false if outside the format's range
static inline bool lzip_dict(uint8_t b, uint64_t &d) {
	const unsigned lg = b & 31, frac = b >> 5;
	if (lg < 4) { d = 0; return false; }                    // 2^(lg-4) would not be an integer; far below 4 KiB anyway
	d = ((uint64_t)1 << lg) - (uint64_t)frac * ((uint64_t)1 << (lg - 4));
	return d >= 4096 && d <= ((uint64_t)512 << 20);
}

static inline uint64_t lzip_rd64(const uint8_t *p) { uint64_t v = 0; for (int i = 7; i >= 0; --i) v = (v << 8) | p[i]; return v; }
static inline uint32_t lzip_rd32(const uint8_t *p) { return p[0] | (p[1] << 8) | (p[2] << 16) | ((uint32_t)p[3] << 24); }

static inline LzipResult lzip_decode(const uint8_t *in, size_t n, const LzipOpts &o = LzipOpts()) {
	LzipResult R; size_t pos = 0; bool first = true;
	static const uint8_t MAGIC[4] = {0x4C, 0x5A, 0x49, 0x50};
	auto fail = [&](int st, const char *rule, size_t at) -> LzipResult & { R.status = st; R.rule = rule; R.in_used = at; return R; };
	for (;;) {
		// ---- magic
		size_t k = 0; while (k < 4 && pos + k < n && in[pos + k] == MAGIC[k]) ++k;
		if (k < 4) {
			const bool ended = pos + k == n;     // input ends inside (or right before) the magic
			if (first) {
				if (!ended) return fail(RS_FORMAT_ERROR, "magic", pos + k);
				return fail(RS_TRUNCATED, "magic truncated", n);
			}
			// after >= 1 member: trailing data (possibly empty)
			if (ended) {
				if (!o.finish) return fail(RS_TRUNCATED, "more input may follow (no LZMA_FINISH)", n);
				R.status = RS_OK; R.in_used = n; R.trailing_prefix = k; R.trailing = k > 0; return R;
			}
			R.status = RS_OK; R.in_used = pos + k; R.trailing_prefix = k; R.trailing = true; return R;
		}
		LzipMember m; m.off = pos;
		if (n - pos < 5) return fail(RS_TRUNCATED, "version truncated", n);
		m.version = in[pos + 4];
		if (m.version > 1) return fail(RS_OPTIONS_ERROR, "unsupported version", pos + 5);
		if (n - pos < 6) return fail(RS_TRUNCATED, "dictionary size byte truncated", n);
		m.dict_byte = in[pos + 5];
		if (!lzip_dict(m.dict_byte, m.dict)) return fail(RS_DATA_ERROR, "dictionary size out of range", pos + 6);
		if (first) R.header_ok = true;
		m.data_off = pos + 6;
		std::vector<uint8_t> data;
		size_t lim = o.out_limit > R.out.size() ? o.out_limit - R.out.size() : 0;
		Lzma1Result L = lzma1_decode(in + m.data_off, n - m.data_off, 3, 0, 2, m.dict, UINT64_MAX, true, data, nullptr, 0, lim);
		if (L.status != RS_OK) { R.out.insert(R.out.end(), data.begin(), data.end()); return fail(L.status, "LZMA stream", m.data_off + L.in_used); }
		m.data_size = L.in_used; m.footer_off = m.data_off + m.data_size; m.footer_size = m.version == 0 ? 12 : 20;
		m.plain_size = data.size(); m.crc = crc32_fast(data.data(), data.size());
		R.out.insert(R.out.end(), data.begin(), data.end());
		if (n - m.footer_off < m.footer_size) return fail(RS_TRUNCATED, "footer truncated", n);
		const uint8_t *f = in + m.footer_off;
		R.footer_seen = true; R.bad = m;
		if (!o.ignore_check && lzip_rd32(f) != m.crc) return fail(RS_DATA_ERROR, "CRC32", m.footer_off);
		if (lzip_rd64(f + 4) != m.plain_size) return fail(RS_DATA_ERROR, "data size", m.footer_off + 4);
		if (m.version == 1 && lzip_rd64(f + 12) != (uint64_t)(m.end() - m.off)) return fail(RS_DATA_ERROR, "member size", m.footer_off + 12);
		R.footer_seen = false;
		R.members.push_back(m);
		pos = m.end(); R.in_used = pos;
		if (!o.concatenated) { R.status = RS_OK; return R; }
		first = false;
	}
}

} // namespace ref
