// ref/crc.h - bit-at-a-time CRC32 (IEEE 802.3, reflected, poly 0xEDB88320) and CRC64
// (ECMA-182, reflected, poly 0xC96C5795D7870F42) exactly as in doc/xz-file-format.txt section 6.
// No tables, no liblzma headers.  `crc` is the value returned by a previous call (0 to start).
#pragma once
#include <stdint.h>
#include <stddef.h>
namespace ref {
static inline uint32_t crc32(const uint8_t *buf, size_t size, uint32_t crc = 0) {
	crc = ~crc;
	for (size_t i = 0; i < size; ++i) {
		crc ^= buf[i];
		for (int k = 0; k < 8; ++k) crc = (crc & 1) ? (crc >> 1) ^ 0xEDB88320u : (crc >> 1);
	}
	return ~crc;
}
static inline uint64_t crc64(const uint8_t *buf, size_t size, uint64_t crc = 0) {
	crc = ~crc;
	for (size_t i = 0; i < size; ++i) {
		crc ^= buf[i];
		for (int k = 0; k < 8; ++k) crc = (crc & 1) ? (crc >> 1) ^ 0xC96C5795D7870F42ull : (crc >> 1);
	}
	return ~crc;
}
// byte-table variants (tables built from the bitwise definition) for big buffers
struct CrcTab { uint32_t t32[256]; uint64_t t64[256]; CrcTab() { for (uint32_t i = 0; i < 256; ++i) { uint32_t a = i; uint64_t b = i;
	for (int k = 0; k < 8; ++k) { a = (a & 1) ? (a >> 1) ^ 0xEDB88320u : (a >> 1); b = (b & 1) ? (b >> 1) ^ 0xC96C5795D7870F42ull : (b >> 1); } t32[i] = a; t64[i] = b; } } };
static inline const CrcTab &crctab() { static CrcTab t; return t; }
static inline uint32_t crc32_fast(const uint8_t *buf, size_t size, uint32_t crc = 0) { const CrcTab &t = crctab(); crc = ~crc; for (size_t i = 0; i < size; ++i) crc = t.t32[(crc ^ buf[i]) & 0xff] ^ (crc >> 8); return ~crc; }
static inline uint64_t crc64_fast(const uint8_t *buf, size_t size, uint64_t crc = 0) { const CrcTab &t = crctab(); crc = ~crc; for (size_t i = 0; i < size; ++i) crc = t.t64[(crc ^ buf[i]) & 0xff] ^ (crc >> 8); return ~crc; }
} // namespace ref
