// ref/bcj_glue.h - lets the reference .xz decoder undo BCJ filters with the reference converters of ref/bcj.h.
#pragma once
#include "bcj.h"
namespace ref {
// filter ids are the on-disk values of the .xz specification section 5.3
static inline bool bcj_apply(uint64_t id, uint8_t *buf, size_t n, uint32_t start, bool enc) {
	switch (id) {
	case 0x04: bcj_x86(buf, n, start, enc); return true;
	case 0x05: bcj_powerpc(buf, n, start, enc); return true;
	case 0x06: bcj_ia64(buf, n, start, enc); return true;
	case 0x07: bcj_arm(buf, n, start, enc); return true;
	case 0x08: bcj_armthumb(buf, n, start, enc); return true;
	case 0x09: bcj_sparc(buf, n, start, enc); return true;
	case 0x0A: bcj_arm64(buf, n, start, enc); return true;
	case 0x0B: bcj_riscv(buf, n, start, enc); return true;
	default: return false;
	}
}
}
