// ref/lzma_dec.h - independent LZMA and LZMA2 decoders (whole buffer, no resumable state, no
// liblzma headers).  Structure follows the LZMA specification's reference decoder (whole-buffer, symbol loop with
// explicit end conditions), written from DESIGN.md Appendix A.  The range decoder reads a byte only when needed.
//
// Relaxations of this implementation that are mirrored on purpose (documented in DESIGN.md 3.3):
//  * the dictionary size used for distance checks is max(dict,4096) rounded up to a multiple of 16;
//  * lc + lp <= 4 is required;
//  * .lzma / LZMA1EXT: known size may be followed by an end marker when allowed.
#pragma once
#include <stdint.h>
#include <stddef.h>
#include <string.h>
#include <vector>

namespace ref {

enum { RS_OK = 0, RS_TRUNCATED = 1, RS_DATA_ERROR = 2, RS_OPTIONS_ERROR = 3, RS_FORMAT_ERROR = 4, RS_TOO_BIG = 5 };

static inline uint32_t effective_dict(uint64_t d) { if (d < 4096) d = 4096; d = (d + 15) & ~(uint64_t)15; return d > 0xFFFFFFFFull ? 0xFFFFFFFFu : (uint32_t)d; }

struct RangeDec {
	const uint8_t *p; size_t n, pos; uint32_t range, code; bool eof, bad;
	void start(const uint8_t *b, size_t len) { p = b; n = len; pos = 0; eof = false; bad = false; range = 0xFFFFFFFFu; code = 0; }
	uint8_t rd() { if (pos < n) return p[pos++]; eof = true; return 0; }
	void init() { if (rd() != 0 && !eof) bad = true; for (int i = 0; i < 4; ++i) code = (code << 8) | rd(); }
	void norm() { if (range < (1u << 24)) { range <<= 8; code = (code << 8) | rd(); } }
	// Normalisation happens *before* a bit is decoded (a byte is read only when it is needed), so that running out of
	// input is noticed exactly at the first symbol that cannot be completed.
	unsigned bit(uint16_t &prob) {
		norm();
		uint32_t bound = (range >> 11) * prob; unsigned s;
		if (code < bound) { prob = (uint16_t)(prob + ((2048 - prob) >> 5)); range = bound; s = 0; }
		else { prob = (uint16_t)(prob - (prob >> 5)); code -= bound; range -= bound; s = 1; }
		return s;
	}
	uint32_t direct(unsigned nbits) {
		uint32_t r = 0;
		while (nbits--) { norm(); range >>= 1; code -= range; uint32_t t = 0u - (code >> 31); code += range & t; r = (r << 1) + t + 1; }
		return r;
	}
	// end of stream: one more normalisation, then the code value must be zero
	bool finish_check() { norm(); return !eof && code == 0; }
};

struct BitTree {
	static unsigned decode(RangeDec &rc, uint16_t *probs, unsigned nbits) { unsigned m = 1; for (unsigned i = 0; i < nbits; ++i) m = (m << 1) + rc.bit(probs[m]); return m - (1u << nbits); }
	static unsigned reverse(RangeDec &rc, uint16_t *probs, unsigned nbits) { unsigned m = 1, sym = 0; for (unsigned i = 0; i < nbits; ++i) { unsigned b = rc.bit(probs[m]); m = (m << 1) + b; sym |= b << i; } return sym; }
};

struct LenDec {
	uint16_t choice, choice2, low[16][8], mid[16][8], high[256];
	void init() { choice = choice2 = 1024; for (auto &a : low) for (auto &x : a) x = 1024; for (auto &a : mid) for (auto &x : a) x = 1024; for (auto &x : high) x = 1024; }
	unsigned decode(RangeDec &rc, unsigned ps) {
		if (rc.bit(choice) == 0) return BitTree::decode(rc, low[ps], 3);
		if (rc.bit(choice2) == 0) return 8 + BitTree::decode(rc, mid[ps], 3);
		return 16 + BitTree::decode(rc, high, 8);
	}
};

// Output window = the whole output vector since the last dictionary reset (no wrap needed: we keep everything).
struct LzmaState {
	unsigned lc = 0, lp = 0, pb = 0;
	std::vector<uint16_t> lit;
	uint16_t is_match[12][16], is_rep[12], is_rep_g0[12], is_rep_g1[12], is_rep_g2[12], is_rep0_long[12][16];
	uint16_t pos_slot[4][64], pos_special[115 + 16], align_[16];
	LenDec len_dec, rep_len_dec;
	uint32_t rep0 = 0, rep1 = 0, rep2 = 0, rep3 = 0; unsigned state = 0;
	void reset(unsigned lc_, unsigned lp_, unsigned pb_) {
		lc = lc_; lp = lp_; pb = pb_;
		lit.assign((size_t)0x300 << (lc + lp), 1024);
		for (auto &a : is_match) for (auto &x : a) x = 1024;
		for (auto &a : is_rep0_long) for (auto &x : a) x = 1024;
		for (int i = 0; i < 12; ++i) is_rep[i] = is_rep_g0[i] = is_rep_g1[i] = is_rep_g2[i] = 1024;
		for (auto &a : pos_slot) for (auto &x : a) x = 1024;
		for (auto &x : pos_special) x = 1024; for (auto &x : align_) x = 1024;
		len_dec.init(); rep_len_dec.init();
		rep0 = rep1 = rep2 = rep3 = 0; state = 0;
	}
};

struct LzmaRun {
	// in
	const uint8_t *in = nullptr; size_t in_len = 0;
	uint64_t unpack = UINT64_MAX;          // UINT64_MAX: unknown (marker mandatory)
	bool allow_marker = true;              // with known size: may a marker follow?
	uint32_t dict_eff = 4096;              // effective dictionary size (effective_dict())
	size_t out_limit = (size_t)1 << 31;
	// out
	size_t in_used = 0; uint64_t max_dist_plus1 = 0; bool saw_marker = false; bool norm_done = false;
};

// Decode one LZMA stream (or LZMA2 chunk) into `out`, whose bytes from index `hist_start` on are the history
// (dictionary content since the last reset incl. preset dictionary).  rc must be freshly initialised by caller.
static inline int lzma_decode_core(LzmaState &s, RangeDec &rc, std::vector<uint8_t> &out, size_t hist_start, LzmaRun &r) {
	uint64_t left = r.unpack; const bool known = r.unpack != UINT64_MAX;
	const unsigned pmask = (1u << s.pb) - 1, lpmask = (1u << s.lp) - 1;
	for (;;) {
		if (rc.eof) return RS_TRUNCATED;
		if (known && left == 0) {
			// one more normalisation belongs to the stream, then code == 0 means "finished without marker"
			if (!r.norm_done) { rc.norm(); r.norm_done = true; if (rc.eof) return RS_TRUNCATED; }
			if (rc.code == 0) return RS_OK;
			if (!r.allow_marker) return RS_DATA_ERROR;
			// otherwise the next symbol must be the marker
		}
		const size_t hist = out.size() - hist_start;     // bytes in history
		const unsigned ps = (unsigned)(hist & pmask);
		if (rc.bit(s.is_match[s.state][ps]) == 0) {
			if (rc.eof) return RS_TRUNCATED;
			if (known && left == 0) return RS_DATA_ERROR;
			if (out.size() - hist_start >= r.out_limit) return RS_TOO_BIG;
			unsigned prev = hist ? out.back() : 0;
			uint16_t *probs = &s.lit[(size_t)0x300 * (((hist & lpmask) << s.lc) + (prev >> (8 - s.lc)))];
			unsigned sym = 1;
			if (s.state >= 7) {
				if (s.rep0 >= hist) { if (rc.eof) return RS_TRUNCATED; return RS_DATA_ERROR; } // matched literal needs the byte at rep0
				unsigned mb = out[out.size() - s.rep0 - 1];
				do { unsigned mbit = (mb >> 7) & 1; mb <<= 1; unsigned b = rc.bit(probs[((1 + mbit) << 8) + sym]); sym = (sym << 1) | b; if (mbit != b) break; } while (sym < 0x100);
			}
			while (sym < 0x100) sym = (sym << 1) | rc.bit(probs[sym]);
			if (rc.eof) return RS_TRUNCATED;
			out.push_back((uint8_t)sym);
			s.state = s.state < 4 ? 0 : (s.state < 10 ? s.state - 3 : s.state - 6);
			if (known) --left;
			continue;
		}
		unsigned len;
		if (rc.bit(s.is_rep[s.state]) != 0) {
			if (rc.eof) return RS_TRUNCATED;
			if (known && left == 0) return RS_DATA_ERROR;
			if (hist == 0) return RS_DATA_ERROR;
			if (rc.bit(s.is_rep_g0[s.state]) == 0) {
				if (rc.bit(s.is_rep0_long[s.state][ps]) == 0) {
					if (rc.eof) return RS_TRUNCATED;
					if (s.rep0 >= hist || s.rep0 >= r.dict_eff) return RS_DATA_ERROR;
					s.state = s.state < 7 ? 9 : 11;
					out.push_back(out[out.size() - s.rep0 - 1]);
					if ((uint64_t)s.rep0 + 1 > r.max_dist_plus1) r.max_dist_plus1 = (uint64_t)s.rep0 + 1;
					if (known) --left;
					continue;
				}
			} else {
				uint32_t d;
				if (rc.bit(s.is_rep_g1[s.state]) == 0) d = s.rep1;
				else { if (rc.bit(s.is_rep_g2[s.state]) == 0) d = s.rep2; else { d = s.rep3; s.rep3 = s.rep2; } s.rep2 = s.rep1; }
				s.rep1 = s.rep0; s.rep0 = d;
			}
			len = s.rep_len_dec.decode(rc, ps);
			s.state = s.state < 7 ? 8 : 11;
		} else {
			s.rep3 = s.rep2; s.rep2 = s.rep1; s.rep1 = s.rep0;
			len = s.len_dec.decode(rc, ps);
			s.state = s.state < 7 ? 7 : 10;
			unsigned ls = len > 3 ? 3 : len;
			unsigned slot = BitTree::decode(rc, s.pos_slot[ls], 6);
			uint32_t dist;
			if (slot < 4) dist = slot;
			else {
				unsigned nd = (slot >> 1) - 1; dist = (2u | (slot & 1)) << nd;
				if (slot < 14) dist += BitTree::reverse(rc, s.pos_special + dist - slot, nd);
				else { dist += rc.direct(nd - 4) << 4; dist += BitTree::reverse(rc, s.align_, 4); }
			}
			s.rep0 = dist;
			if (rc.eof) return RS_TRUNCATED;
			if (dist == 0xFFFFFFFFu) {
				// end marker
				r.saw_marker = true;
				if (known && (left != 0 || !r.allow_marker)) return RS_DATA_ERROR;
				{ bool fin = rc.finish_check(); if (rc.eof) return RS_TRUNCATED; return fin ? RS_OK : RS_DATA_ERROR; }
			}
			if (known && left == 0) return RS_DATA_ERROR;
		}
		if (rc.eof) return RS_TRUNCATED;
		if (known && left == 0) return RS_DATA_ERROR;
		{
			const size_t h = out.size() - hist_start;
			if (s.rep0 >= h || s.rep0 >= r.dict_eff) return RS_DATA_ERROR;
		}
		len += 2;
		bool over = false;
		if (known && left < len) { len = (unsigned)left; over = true; }
		if (out.size() - hist_start + len > r.out_limit) return RS_TOO_BIG;
		if ((uint64_t)s.rep0 + 1 > r.max_dist_plus1) r.max_dist_plus1 = (uint64_t)s.rep0 + 1;
		for (unsigned i = 0; i < len; ++i) out.push_back(out[out.size() - s.rep0 - 1]);
		if (known) left -= len;
		if (over) return RS_DATA_ERROR;
	}
}

static inline bool props_decode(uint8_t b, unsigned &lc, unsigned &lp, unsigned &pb) {
	if (b > (4 * 5 + 4) * 9 + 8) return false;
	pb = b / (9 * 5); b = (uint8_t)(b - pb * 9 * 5); lp = b / 9; lc = b - lp * 9;
	return lc + lp <= 4;
}

// Raw LZMA1 stream.  history: preset dictionary (may be empty).
struct Lzma1Result { int status; size_t in_used; uint64_t max_dist_plus1; bool saw_marker; };
static inline Lzma1Result lzma1_decode(const uint8_t *in, size_t n, unsigned lc, unsigned lp, unsigned pb, uint64_t dict_size,
		uint64_t unpack, bool allow_marker, std::vector<uint8_t> &out, const uint8_t *preset = nullptr, size_t preset_len = 0, size_t out_limit = (size_t)1 << 31) {
	Lzma1Result R{RS_OK, 0, 0, false};
	if (lc + lp > 4 || pb > 4) { R.status = RS_OPTIONS_ERROR; return R; }
	LzmaState s; s.reset(lc, lp, pb);
	uint32_t de = effective_dict(dict_size);
	std::vector<uint8_t> win;
	if (preset && preset_len) { size_t k = preset_len > de ? de : preset_len; win.assign(preset + preset_len - k, preset + preset_len); }
	size_t base = win.size();
	RangeDec rc; rc.start(in, n); rc.init();
	if (rc.bad) { R.status = RS_DATA_ERROR; R.in_used = rc.pos; return R; }
	LzmaRun run; run.unpack = unpack; run.allow_marker = allow_marker; run.dict_eff = de; run.out_limit = out_limit + base;
	int st = rc.eof ? RS_TRUNCATED : lzma_decode_core(s, rc, win, 0, run);
	out.assign(win.begin() + base, win.end());
	R.status = st; R.in_used = rc.pos; R.max_dist_plus1 = run.max_dist_plus1; R.saw_marker = run.saw_marker;
	return R;
}

// LZMA2 stream (until the 0x00 control byte).
struct Lzma2Result { int status; size_t in_used; uint64_t max_dist_plus1; unsigned chunks, lzma_chunks, uncompressed_chunks, dict_resets, state_resets, prop_changes; uint8_t last_props; };
static inline Lzma2Result lzma2_decode(const uint8_t *in, size_t n, uint64_t dict_size, std::vector<uint8_t> &out,
		const uint8_t *preset = nullptr, size_t preset_len = 0, size_t out_limit = (size_t)1 << 31) {
	Lzma2Result R; memset(&R, 0, sizeof R);
	const uint32_t de = effective_dict(dict_size);
	std::vector<uint8_t> win;                 // history since last dictionary reset
	bool have_preset = preset && preset_len;
	if (have_preset) { size_t k = preset_len > de ? de : preset_len; win.assign(preset + preset_len - k, preset + preset_len); }
	size_t emitted_from = win.size();         // bytes of win before this index are not output (preset)
	LzmaState s; bool have_props = false;
	bool need_dict_reset = !have_preset, need_props = true;
	size_t pos = 0;
	out.clear();
	auto flush = [&]() { out.insert(out.end(), win.begin() + emitted_from, win.end()); emitted_from = win.size(); };
	for (;;) {
		if (pos >= n) { flush(); R.status = RS_TRUNCATED; R.in_used = pos; return R; }
		uint8_t c = in[pos++];
		if (c == 0x00) { flush(); R.status = RS_OK; R.in_used = pos; return R; }
		++R.chunks;
		if (c >= 0xE0 || c == 0x01) { need_props = true; need_dict_reset = true; }
		else if (need_dict_reset) { flush(); R.status = RS_DATA_ERROR; R.in_used = pos; return R; }
		if (c >= 0x80) {
			if (n - pos < 4) { flush(); R.status = RS_TRUNCATED; R.in_used = n; return R; }
			uint32_t unc = ((uint32_t)(c & 0x1F) << 16) + ((uint32_t)in[pos] << 8) + in[pos + 1] + 1;
			uint32_t comp = ((uint32_t)in[pos + 2] << 8) + in[pos + 3] + 1;
			pos += 4;
			unsigned mode = (c >> 5) & 3; // 0 none, 1 state reset, 2 + props, 3 + dict reset
			if (mode >= 2) {
				if (pos >= n) { flush(); R.status = RS_TRUNCATED; R.in_used = n; return R; }
				uint8_t pbyte = in[pos++]; unsigned lc, lp, pb;
				if (!props_decode(pbyte, lc, lp, pb)) { flush(); R.status = RS_DATA_ERROR; R.in_used = pos; return R; }
				if (have_props && pbyte != R.last_props) ++R.prop_changes;
				R.last_props = pbyte; s.reset(lc, lp, pb); have_props = true; need_props = false; ++R.state_resets;
			} else if (need_props) { flush(); R.status = RS_DATA_ERROR; R.in_used = pos; return R; }
			else if (mode == 1) { s.reset(s.lc, s.lp, s.pb); ++R.state_resets; }
			if (need_dict_reset) { flush(); win.clear(); emitted_from = 0; need_dict_reset = false; ++R.dict_resets; }
			++R.lzma_chunks;
			size_t avail = n - pos; size_t take = avail < comp ? avail : comp;
			RangeDec rc; rc.start(in + pos, take); rc.init();
			LzmaRun run; run.unpack = unc; run.allow_marker = false; run.dict_eff = de; run.out_limit = out_limit + win.size();
			int st;
			if (rc.bad) st = RS_DATA_ERROR; else if (rc.eof) st = RS_TRUNCATED; else st = lzma_decode_core(s, rc, win, 0, run);
			if (run.max_dist_plus1 > R.max_dist_plus1) R.max_dist_plus1 = run.max_dist_plus1;
			if (st == RS_TRUNCATED) {
				// ran out of the chunk's bytes: real truncation only if the file ended inside the chunk
				flush(); R.in_used = pos + rc.pos; R.status = (take < comp) ? RS_TRUNCATED : RS_DATA_ERROR; return R;
			}
			if (st != RS_OK) { flush(); R.status = st; R.in_used = pos + rc.pos; return R; }
			if (rc.pos != comp) { flush(); R.status = (take < comp && rc.pos == take) ? RS_TRUNCATED : RS_DATA_ERROR; R.in_used = pos + rc.pos; return R; }
			pos += comp;
			if (out.size() + (win.size() - emitted_from) > out_limit) { flush(); R.status = RS_TOO_BIG; R.in_used = pos; return R; }
		} else {
			if (c > 2) { flush(); R.status = RS_DATA_ERROR; R.in_used = pos; return R; }
			if (n - pos < 2) { flush(); R.status = RS_TRUNCATED; R.in_used = n; return R; }
			uint32_t sz = ((uint32_t)in[pos] << 8) + in[pos + 1] + 1; pos += 2;
			if (need_dict_reset) { flush(); win.clear(); emitted_from = 0; need_dict_reset = false; ++R.dict_resets; }
			++R.uncompressed_chunks;
			size_t avail = n - pos; size_t take = avail < sz ? avail : sz;
			win.insert(win.end(), in + pos, in + pos + take); pos += take;
			if (take < sz) { flush(); R.status = RS_TRUNCATED; R.in_used = pos; return R; }
			if (out.size() + (win.size() - emitted_from) > out_limit) { flush(); R.status = RS_TOO_BIG; R.in_used = pos; return R; }
		}
		// keep memory bounded: history older than the dictionary is never needed
		if (win.size() > (size_t)de * 2 + (1u << 16)) { flush(); size_t drop = (win.size() - de) & ~(size_t)15; /* keep position parity (pos_state, lp) */ win.erase(win.begin(), win.begin() + drop); emitted_from -= drop; }
	}
}

} // namespace ref
