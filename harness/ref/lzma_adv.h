// ref/lzma_adv.h - an LZMA1 stream (lc=lp=pb=0) that ends in a *maximally expensive* symbol: every adaptive
// probability on the path of one match (is_match, is_rep, the length "choice" bits and high tree, the distance slot
// tree, the align tree) is first trained to its floor in the opposite direction by ~100 symbols each, so that the
// final match costs ~18 input bytes instead of the usual 1-3.  This is the region of the input space that the
// decoder's LZMA_IN_REQUIRED constant (lzma_decoder.c: "at maximum 20 bytes of input" per symbol, the boundary
// between the unchecked fast loop and the resumable safe loop) is about; neither the project's encoder nor random
// bytes ever produce a symbol costing more than a few bytes (cost = -log2 of the modelled probability).
#pragma once
#include "lzma_syn.h"

namespace ref {

struct AdvStream {
	std::vector<uint8_t> bytes;   // raw LZMA1 range coder bytes (no header), no end marker
	std::vector<uint8_t> plain;   // what it decodes to
	size_t e_first = 0;           // decoder's input position when the expensive symbol starts (5 init bytes + normalisations so far; a lazily normalising decoder may be one byte behind)
	size_t e_cost = 0;            // input bytes (normalisations) the expensive symbol takes
	uint32_t dict_needed = 0;     // smallest dictionary size with which every distance is valid
};

// n = training repetitions per context (>= ~110 reaches the floor 31/2048); tail = literals after the symbol
static inline AdvStream adversarial_stream(unsigned n, unsigned tail) {
	AdvStream A; LzmaSyn z; z.start(0, 0, 0); std::vector<uint8_t> &w = A.plain;
	auto lit = [&](unsigned b) { Sym y; y.kind = Sym::LIT; y.a = b; z.put(y, w); };
	auto match = [&](uint32_t d, unsigned l) { Sym y; y.kind = Sym::MATCH; y.a = d; y.b = l; z.put(y, w); if (d + 1 > A.dict_needed) A.dict_needed = d + 1; };
	// history > 64 KiB
	lit('a'); for (unsigned i = 0; i < 250; ++i) match(0, 273);
	const uint32_t far = 65536;                                    // distance slot 32: first slot-tree bit 1
	// align tree (reverse tree, target 1111): deepest context first
	for (int k = 3; k >= 0; --k) for (unsigned i = 0; i < n; ++i) match(far + ((1u << k) - 1), 5);
	// distance slot tree for lengths >= 5 (target slot 31 = 011111): deepest context first, the root last
	static const uint32_t dk[6] = {far, 0, 256, 4096, 16384, 32768};   // slot 32, 0, 16, 24, 28, 30: E's path with bit k flipped
	for (int k = 5; k >= 0; --k) for (unsigned i = 0; i < n; ++i) match(dk[k], 5);
	// length coder: high tree (target 11111111) deepest first, then choice2, then choice
	for (int k = 7; k >= 0; --k) { unsigned sym = (0xFFu << (8 - k)) & 0xFF; sym &= ~(1u << (7 - k)); for (unsigned i = 0; i < n; ++i) match(far, 18 + sym); }
	for (unsigned i = 0; i < n; ++i) match(far, 10);
	for (unsigned i = 0; i < n; ++i) match(far, 2);
	// is_rep[0] towards "rep": a rep0 match from state 0, n times; is_match[0] towards "literal": literals in state 0
	for (unsigned i = 0; i < n; ++i) { while (z.s.state != 0) lit('b'); lit('b'); Sym y; y.kind = Sym::REP; y.a = 0; y.b = 2; z.put(y, w); }
	while (z.s.state != 0) lit('c');
	for (unsigned i = 0; i < n + 10; ++i) lit('c');
	// the expensive symbol: match, length 273, distance 65535 (slot 31, ten direct bits all 1, align 1111)
	A.e_first = z.rc.out.size() + (size_t)z.rc.cache_size + 4;
	match(65535, 273);
	A.e_cost = z.rc.out.size() + (size_t)z.rc.cache_size + 4 - A.e_first;
	for (unsigned i = 0; i < tail; ++i) lit('d');
	A.bytes = z.finish();
	return A;
}

} // namespace ref
