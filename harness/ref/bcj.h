// ref/bcj.h - reference branch/call/jump (BCJ) converters and the delta filter as pure
// whole-buffer functions.  No liblzma headers, no liblzma code.
//
// Written from the format digest in DESIGN.md Appendix A: the public-domain LZMA SDK
// reference algorithms (Bra.c / Bra86.c / BraIA64.c; x86 in the *newer* SDK formulation with
// a 3-bit "previous candidates" mask that is shifted right) and, for ARM64 and RISC-V, from
// the prose specification in the comments of simple/arm64.c and simple/riscv.c.  The
// structure is deliberately different from liblzma: every fixed-width filter is expressed as
// a function on the decoded instruction *fields* (word -> word), IA-64 works on bit fields of
// a 128-bit bundle, RISC-V is written with explicit rd / rs1 / immediate fields.
//
// Contract (same as the "simple" filters of the format): the buffer is converted in place,
// `start` is the offset of buf[0] in the imaginary executable (position arithmetic is modulo
// 2^32), encode adds the position to pc-relative fields, decode subtracts it; the return
// value is the number of bytes processed, the unprocessed tail (shorter than one look-ahead
// window) is left untouched.
#pragma once
#include <stdint.h>
#include <stddef.h>

namespace ref {

struct BcjStats {
	uint64_t converted = 0;     // instructions (or pairs / slots) whose field was rewritten
	// x86
	uint64_t x86_mask_reject = 0, x86_masked_convert = 0, x86_second_pass = 0, x86_msbyte_reject = 0;
	// arm64
	uint64_t a64_bl = 0, a64_adrp = 0, a64_adrp_out_of_range = 0, a64_gate_edge_inside = 0, a64_gate_edge_outside = 0;
	// riscv
	uint64_t rv_jal = 0, rv_jal_other_rd = 0, rv_pair = 0, rv_pair_negative_imm12 = 0, rv_not_pair = 0, rv_special = 0, rv_special_refused = 0, rv_auipc_x0 = 0;
	// ia64
	uint64_t ia64_slots_seen = 0;
};

namespace bcjd {
static inline uint32_t le32(const uint8_t *p) { return (uint32_t)p[0] | ((uint32_t)p[1] << 8) | ((uint32_t)p[2] << 16) | ((uint32_t)p[3] << 24); }
static inline uint32_t be32(const uint8_t *p) { return ((uint32_t)p[0] << 24) | ((uint32_t)p[1] << 16) | ((uint32_t)p[2] << 8) | (uint32_t)p[3]; }
static inline void put_le32(uint8_t *p, uint32_t v) { p[0] = (uint8_t)v; p[1] = (uint8_t)(v >> 8); p[2] = (uint8_t)(v >> 16); p[3] = (uint8_t)(v >> 24); }
static inline void put_be32(uint8_t *p, uint32_t v) { p[3] = (uint8_t)v; p[2] = (uint8_t)(v >> 8); p[1] = (uint8_t)(v >> 16); p[0] = (uint8_t)(v >> 24); }
static inline uint32_t shift_pos(uint32_t value, uint32_t pos, bool enc) { return enc ? value + pos : value - pos; }
static BcjStats g_dummy_stats;
} // namespace bcjd

// ------------------------------------------------------------------------------- ARM (A32)
// 4-byte aligned little-endian words; BL = condition "always" (0xE) + opcode 0xB in the top
// byte, 24-bit word offset relative to pc + 8.
static inline size_t bcj_arm(uint8_t *buf, size_t n, uint32_t start, bool enc, BcjStats *st = nullptr) {
	using namespace bcjd; if (!st) st = &g_dummy_stats;
	size_t i = 0;
	for (; i + 4 <= n; i += 4) {
		uint32_t w = le32(buf + i);
		if ((w >> 24) != 0xEB) continue;
		uint32_t target = (w & 0x00FFFFFF) << 2;                    // byte offset, 26 bits
		target = shift_pos(target, start + (uint32_t)i + 8, enc);
		put_le32(buf + i, 0xEB000000u | ((target >> 2) & 0x00FFFFFF));
		++st->converted;
	}
	return i;
}

// ------------------------------------------------------------------------------- ARM Thumb
// 2-byte aligned; BL is a pair of little-endian halfwords 11110 imm11(high) / 11111 imm11(low),
// 22-bit halfword offset relative to pc + 4.  A converted pair consumes 4 bytes.
static inline size_t bcj_armthumb(uint8_t *buf, size_t n, uint32_t start, bool enc, BcjStats *st = nullptr) {
	using namespace bcjd; if (!st) st = &g_dummy_stats;
	size_t i = 0;
	while (i + 4 <= n) {
		uint32_t h1 = (uint32_t)buf[i] | ((uint32_t)buf[i + 1] << 8), h2 = (uint32_t)buf[i + 2] | ((uint32_t)buf[i + 3] << 8);
		if ((h1 >> 11) == 0x1E && (h2 >> 11) == 0x1F) {
			uint32_t target = (((h1 & 0x7FF) << 11) | (h2 & 0x7FF)) << 1;
			target = shift_pos(target, start + (uint32_t)i + 4, enc);
			uint32_t field = (target >> 1) & 0x3FFFFF;
			h1 = 0xF000u | (field >> 11); h2 = 0xF800u | (field & 0x7FF);
			buf[i] = (uint8_t)h1; buf[i + 1] = (uint8_t)(h1 >> 8); buf[i + 2] = (uint8_t)h2; buf[i + 3] = (uint8_t)(h2 >> 8);
			++st->converted;
			i += 4;
		} else i += 2;
	}
	return n < 4 ? 0 : i;
}

// ------------------------------------------------------------------------------- PowerPC
// 4-byte aligned big-endian words; "bl": primary opcode 18, AA = 0, LK = 1; the 24-bit LI
// field (times 4) is relative to the address of the instruction itself.
static inline size_t bcj_powerpc(uint8_t *buf, size_t n, uint32_t start, bool enc, BcjStats *st = nullptr) {
	using namespace bcjd; if (!st) st = &g_dummy_stats;
	size_t i = 0;
	for (; i + 4 <= n; i += 4) {
		uint32_t w = be32(buf + i);
		if ((w & 0xFC000003u) != 0x48000001u) continue;
		uint32_t target = shift_pos(w & 0x03FFFFFCu, start + (uint32_t)i, enc);
		put_be32(buf + i, 0x48000001u | (target & 0x03FFFFFCu));
		++st->converted;
	}
	return i;
}

// ------------------------------------------------------------------------------- SPARC
// 4-byte aligned big-endian words; "call": op = 01 + 30-bit word displacement relative to the
// instruction.  Only displacements that are sign extensions of a 23-bit value are converted
// (top byte 0x40 + two zero bits, or 0x7F + two one bits); the result is normalised to the
// same shape.
static inline size_t bcj_sparc(uint8_t *buf, size_t n, uint32_t start, bool enc, BcjStats *st = nullptr) {
	using namespace bcjd; if (!st) st = &g_dummy_stats;
	size_t i = 0;
	for (; i + 4 <= n; i += 4) {
		uint32_t w = be32(buf + i);
		uint32_t top10 = w >> 22;                                   // op(2) + disp30 bits 29..22
		if (top10 != 0x100 && top10 != 0x1FF) continue;
		uint32_t target = shift_pos(w << 2, start + (uint32_t)i, enc);   // byte displacement mod 2^32
		uint32_t disp = target >> 2;                                // 30 bits
		uint32_t out = 0x40000000u | (disp & 0x003FFFFFu);
		if (disp & 0x00400000u) out |= 0x3FC00000u;                 // bit 22 is the sign: copy it into bits 29..22
		put_be32(buf + i, out);
		++st->converted;
	}
	return i;
}

// ------------------------------------------------------------------------------- IA-64
// 16-byte bundles: 5-bit template + three 41-bit slots at bit 5, 46, 87 (little-endian bit
// numbering over the 128-bit bundle).  The template says which slots sit on a B unit.  A
// slot is converted when its opcode (slot bits 37..40) is 5 and the btype field (bits 9..11)
// is 0 (IP-relative call, br.call): imm20b = slot bits 13..32, sign = bit 36; the 21-bit
// value counts 16-byte bundles relative to the bundle's own address.
static inline size_t bcj_ia64(uint8_t *buf, size_t n, uint32_t start, bool enc, BcjStats *st = nullptr) {
	using namespace bcjd; if (!st) st = &g_dummy_stats;
	// bit s of the entry set => slot s is a branch slot.  Templates 0x10/0x11 MIB, 0x12/0x13 MBB,
	// 0x16/0x17 BBB, 0x18/0x19 MMB, 0x1C/0x1D MFB.
	auto branch_slots = [](unsigned t) -> unsigned {
		switch (t) { case 0x10: case 0x11: case 0x18: case 0x19: case 0x1C: case 0x1D: return 4;
		case 0x12: case 0x13: return 6; case 0x16: case 0x17: return 7; default: return 0; } };
	size_t i = 0;
	for (; i + 16 <= n; i += 16) {
		uint8_t *b = buf + i;
		auto get = [&](unsigned pos, unsigned cnt) -> uint64_t { uint64_t v = 0; for (unsigned k = 0; k < cnt; ++k) { unsigned bit = pos + k; v |= (uint64_t)((b[bit >> 3] >> (bit & 7)) & 1) << k; } return v; };
		auto set = [&](unsigned pos, unsigned cnt, uint64_t v) { for (unsigned k = 0; k < cnt; ++k) { unsigned bit = pos + k; uint8_t m = (uint8_t)(1u << (bit & 7));
			if ((v >> k) & 1) b[bit >> 3] |= m; else b[bit >> 3] &= (uint8_t)~m; } };
		unsigned slots = branch_slots(b[0] & 0x1F);
		for (unsigned s = 0; s < 3; ++s) {
			if (!((slots >> s) & 1)) continue;
			++st->ia64_slots_seen;
			unsigned base = 5 + 41 * s;
			if (get(base + 37, 4) != 5 || get(base + 9, 3) != 0) continue;
			uint32_t imm = (uint32_t)get(base + 13, 20) | ((uint32_t)get(base + 36, 1) << 20);
			uint32_t target = shift_pos(imm << 4, start + (uint32_t)i, enc);
			uint32_t v = target >> 4;
			set(base + 13, 20, v & 0xFFFFF);
			set(base + 36, 1, (v >> 20) & 1);
			++st->converted;
		}
	}
	return i;
}

// ------------------------------------------------------------------------------- x86
// CALL (E8) / JMP (E9) rel32 whose most significant byte is 0x00 or 0xFF (|rel| < 16 MiB).
// LZMA SDK x86_Convert, newer formulation: `mask` remembers E8/E9 bytes seen 1, 2, 3 bytes
// before the current candidate that were *not* converted (bit 2 = one byte back, bit 1 = two,
// bit 0 = three).  kMaskToAllowedStatus = {1,1,1,0,1,0,0,0}: with more than one such byte the
// candidate is skipped; with exactly one, it is skipped when the byte that would have been
// the MS byte of that earlier candidate is 0x00/0xFF; otherwise it is converted, and if the
// converted value shows 0x00/0xFF at that same byte position the low part is inverted and the
// position applied again, so that the decoder - which meets the earlier candidate first -
// takes the same decision as the encoder did.
static inline size_t bcj_x86(uint8_t *buf, size_t n, uint32_t start, bool enc, BcjStats *st = nullptr) {
	using namespace bcjd; if (!st) st = &g_dummy_stats;
	if (n < 5) return 0;
	auto ms = [](uint32_t b) { b &= 0xFF; return b == 0x00 || b == 0xFF; };
	static const bool allowed[8] = {true, true, true, false, true, false, false, false};
	const size_t lim = n - 4;            // opcode positions are < lim
	size_t pos = 0; unsigned mask = 0;
	for (;;) {
		size_t p = pos;
		while (p < lim && (buf[p] & 0xFE) != 0xE8) ++p;
		size_t skipped = p - pos;
		pos = p;
		if (p >= lim) return pos;
		mask = skipped > 2 ? 0 : (mask >> skipped);
		bool take = true;
		if (mask != 0) {
			if (!allowed[mask] || ms(buf[p + 1 + (mask >> 1)])) { take = false; ++st->x86_mask_reject; }
		}
		if (take && !ms(buf[p + 4])) { take = false; ++st->x86_msbyte_reject; }
		if (!take) { mask = (mask >> 1) | 4; ++pos; continue; }
		uint32_t v = le32(buf + p + 1);
		const uint32_t cur = start + (uint32_t)p + 5;
		v = shift_pos(v, cur, enc);
		if (mask != 0) {
			++st->x86_masked_convert;
			unsigned sh = (mask & 6) << 2;   // 16, 8 or 0: the byte the earlier candidate looked at
			if (ms(v >> sh)) { v ^= ((uint32_t)0x100 << sh) - 1; v = shift_pos(v, cur, enc); ++st->x86_second_pass; }
			mask = 0;
		}
		buf[p + 1] = (uint8_t)v; buf[p + 2] = (uint8_t)(v >> 8); buf[p + 3] = (uint8_t)(v >> 16);
		buf[p + 4] = (v & 0x01000000u) ? 0xFF : 0x00;
		++st->converted;
		pos = p + 5;
	}
}

// ------------------------------------------------------------------------------- ARM64
// 4-byte aligned little-endian words.
//   BL:   top six bits 100101, imm26 = word offset relative to the instruction; whole field.
//   ADRP: bit 31 = 1, bits 28..24 = 10000; imm21 = immhi(bits 23..5):immlo(bits 30..29) counts
//         4 KiB pages relative to the page of the instruction.  Converted only if imm21, as a
//         signed number, lies in [-2^17, 2^17) (+/-512 MiB); the sum is taken modulo 2^18 and
//         sign-extended from bit 17 back to 21 bits, so the result is in range again.
static inline size_t bcj_arm64(uint8_t *buf, size_t n, uint32_t start, bool enc, BcjStats *st = nullptr) {
	using namespace bcjd; if (!st) st = &g_dummy_stats;
	size_t i = 0;
	for (; i + 4 <= n; i += 4) {
		uint32_t w = le32(buf + i);
		const uint32_t pc = start + (uint32_t)i;
		if ((w & 0xFC000000u) == 0x94000000u) {
			uint32_t imm26 = shift_pos(w & 0x03FFFFFFu, pc >> 2, enc);
			put_le32(buf + i, 0x94000000u | (imm26 & 0x03FFFFFFu));
			++st->converted; ++st->a64_bl;
		} else if ((w & 0x9F000000u) == 0x90000000u) {
			uint32_t immlo = (w >> 29) & 3, immhi = (w >> 5) & 0x7FFFF;
			uint32_t imm21 = (immhi << 2) | immlo;
			uint32_t top4 = imm21 >> 17;                             // bits 20..17
			if (top4 != 0x0 && top4 != 0xF) { ++st->a64_adrp_out_of_range; if (imm21 == 0x20000 || imm21 == 0x1DFFFF) ++st->a64_gate_edge_outside; continue; }
			if (imm21 == 0x1FFFF || imm21 == 0x1E0000) ++st->a64_gate_edge_inside;
			uint32_t page = shift_pos(imm21, pc >> 12, enc) & 0x3FFFF;   // 18 bits, bit 17 = sign
			uint32_t out21 = page | ((page & 0x20000) ? 0x1C0000u : 0);
			uint32_t nw = (w & 0x9000001Fu) | ((out21 & 3) << 29) | ((out21 >> 2) << 5);
			put_le32(buf + i, nw);
			++st->converted; ++st->a64_adrp;
		}
	}
	return i;
}

// ------------------------------------------------------------------------------- RISC-V
// From the specification comment in simple/riscv.c.  Instructions are little endian, the scan
// advances by 2 (compressed instructions), a position is examined only if 8 bytes are left.
//
//  * JAL (opcode 0x6F) with rd = x1 or x5: the J-type immediate (bits 20..1 of the offset,
//    scattered as imm[20|10:1|11|19:12] over instruction bits 31..12) is made absolute and
//    stored, as a plain 20-bit number (offset >> 1), most significant bit first in
//    instruction bits 15..12, 23..16, 31..24 (i.e. big endian over the upper nibble of byte 1,
//    byte 2, byte 3).  Consumes 4 bytes.  Other JAL: skip 2.
//  * AUIPC (opcode 0x17), rd not x0 / x2, followed by a 32-bit instruction inst2 (lowest two
//    bits set) whose rs1 field (bits 19..15) equals rd: the pair is replaced by
//      word 1: opcode AUIPC, rd = x2, bits 31..12 = lowest 20 bits of inst2;
//      word 2: pc + (imm20 << 12) + signext(imm12 of inst2), stored BIG endian.
//    Consumes 8.  Not a pair: skip 6 bytes (so that a following AUIPC's first half is not
//    looked at).
//  * AUIPC with rd = x2 whose bits 13..12 are 11 (looks like an encoded pair) and whose bits
//    31..27 (the rs1 of the packed inst2) are neither x0 nor x2: to stay bijective the encoder
//    applies the inverse packing without address arithmetic: word 2 (little endian) is taken
//    as the "address" A: new inst2 = bits 31..12 of word 1 as its low 20 bits, A's low 12 bits
//    as imm12; new AUIPC: rd = that rs1, imm20 = A's high 20 bits.  Consumes 8.  Otherwise
//    (including every AUIPC with rd = x0): skip 4.
//  The decoder mirrors this: special form -> real pair (address big endian, minus pc, AUIPC
//  immediate compensated for the sign of imm12 by adding 0x800); real-looking pair -> special
//  form without arithmetic (address little endian, imm12 not sign extended).
namespace bcjd {
static inline uint32_t jal_get_offset(uint32_t w) {          // bit 0 is always 0
	return (((w >> 31) & 1) << 20) | (((w >> 21) & 0x3FF) << 1) | (((w >> 20) & 1) << 11) | (((w >> 12) & 0xFF) << 12);
}
static inline uint32_t jal_with_offset(uint32_t w, uint32_t off) {
	w &= 0x00000FFFu;
	w |= ((off >> 20) & 1) << 31; w |= ((off >> 1) & 0x3FF) << 21; w |= ((off >> 11) & 1) << 20; w |= ((off >> 12) & 0xFF) << 12;
	return w;
}
} // namespace bcjd
static inline size_t bcj_riscv(uint8_t *buf, size_t n, uint32_t start, bool enc, BcjStats *st = nullptr) {
	using namespace bcjd; if (!st) st = &g_dummy_stats;
	if (n < 8) return 0;
	size_t i = 0;
	while (i + 8 <= n) {
		const uint32_t w = le32(buf + i);
		const uint32_t opcode = w & 0x7F, rd = (w >> 7) & 0x1F;
		const uint32_t pc = start + (uint32_t)i;
		if (opcode == 0x6F) {
			if (rd != 1 && rd != 5) { ++st->rv_jal_other_rd; i += 2; continue; }
			if (enc) {
				uint32_t abs20 = ((jal_get_offset(w) + pc) >> 1) & 0xFFFFF;
				// most significant nibble -> bits 15..12, next byte -> 23..16, last byte -> 31..24
				uint32_t nw = (w & 0xFFF) | ((abs20 >> 16) << 12) | (((abs20 >> 8) & 0xFF) << 16) | ((abs20 & 0xFF) << 24);
				put_le32(buf + i, nw);
			} else {
				uint32_t abs20 = (((w >> 12) & 0xF) << 16) | (((w >> 16) & 0xFF) << 8) | (w >> 24);
				uint32_t off = (abs20 << 1) - pc;
				put_le32(buf + i, jal_with_offset(w, off));
			}
			++st->converted; ++st->rv_jal;
			i += 4; continue;
		}
		if (opcode != 0x17) { i += 2; continue; }
		if (rd == 0) { ++st->rv_auipc_x0; i += 4; continue; }
		if (rd == 2) {
			const uint32_t packed_rs1 = w >> 27;
			bool special = ((w >> 12) & 3) == 3 && packed_rs1 != 0 && packed_rs1 != 2;
			if (!special) { ++st->rv_special_refused; i += 4; continue; }
			const uint32_t inst2_low20 = w >> 12;
			uint32_t new_auipc, new_inst2;
			if (enc) {
				uint32_t a = le32(buf + i + 4);
				new_inst2 = inst2_low20 | (a << 20);
				new_auipc = 0x17 | (packed_rs1 << 7) | (a & 0xFFFFF000u);
			} else {
				uint32_t a = be32(buf + i + 4) - pc;
				new_inst2 = inst2_low20 | (a << 20);             // imm12 = low 12 bits of the relative address
				new_auipc = 0x17 | (packed_rs1 << 7) | ((a + 0x800) & 0xFFFFF000u);
			}
			put_le32(buf + i, new_auipc); put_le32(buf + i + 4, new_inst2);
			++st->converted; ++st->rv_special;
			i += 8; continue;
		}
		// ordinary AUIPC
		const uint32_t inst2 = le32(buf + i + 4);
		const bool is_pair = (inst2 & 3) == 3 && ((inst2 >> 15) & 0x1F) == rd;
		if (!is_pair) { ++st->rv_not_pair; i += 6; continue; }
		const uint32_t imm12 = inst2 >> 20;
		const uint32_t packed = 0x17 | (2u << 7) | (inst2 << 12);
		if (enc) {
			uint32_t a = (w & 0xFFFFF000u) + imm12 + pc;
			if (imm12 & 0x800) { a -= 0x1000; ++st->rv_pair_negative_imm12; }   // sign extension of the 12-bit immediate
			put_le32(buf + i, packed); put_be32(buf + i + 4, a);
		} else {
			uint32_t a = (w & 0xFFFFF000u) | imm12;
			put_le32(buf + i, packed); put_le32(buf + i + 4, a);
		}
		++st->converted; ++st->rv_pair;
		i += 8;
	}
	return i;
}

// ------------------------------------------------------------------------------- Delta
// xz-file-format.txt 5.3.3: byte-wise difference to the byte `dist` positions earlier
// (bytes before the start count as zero).
static inline size_t delta(uint8_t *buf, size_t n, unsigned dist, bool enc) {
	if (enc) { for (size_t i = n; i-- > dist;) buf[i] = (uint8_t)(buf[i] - buf[i - dist]); }
	else { for (size_t i = dist; i < n; ++i) buf[i] = (uint8_t)(buf[i] + buf[i - dist]); }
	return n;
}

} // namespace ref
