// ref/sha256.h - SHA-256 written from FIPS 180-4 (no liblzma headers).
#pragma once
#include <stdint.h>
#include <stddef.h>
#include <string.h>
namespace ref {
struct Sha256 {
	uint32_t h[8]; uint8_t buf[64]; uint64_t len; size_t fill;
	Sha256() { static const uint32_t iv[8] = {0x6a09e667, 0xbb67ae85, 0x3c6ef372, 0xa54ff53a, 0x510e527f, 0x9b05688c, 0x1f83d9ab, 0x5be0cd19}; memcpy(h, iv, sizeof h); len = 0; fill = 0; }
	static uint32_t rotr(uint32_t x, int n) { return (x >> n) | (x << (32 - n)); }
	void block(const uint8_t *p) {
		static const uint32_t K[64] = {
			0x428a2f98, 0x71374491, 0xb5c0fbcf, 0xe9b5dba5, 0x3956c25b, 0x59f111f1, 0x923f82a4, 0xab1c5ed5, 0xd807aa98, 0x12835b01, 0x243185be, 0x550c7dc3, 0x72be5d74, 0x80deb1fe, 0x9bdc06a7, 0xc19bf174,
			0xe49b69c1, 0xefbe4786, 0x0fc19dc6, 0x240ca1cc, 0x2de92c6f, 0x4a7484aa, 0x5cb0a9dc, 0x76f988da, 0x983e5152, 0xa831c66d, 0xb00327c8, 0xbf597fc7, 0xc6e00bf3, 0xd5a79147, 0x06ca6351, 0x14292967,
			0x27b70a85, 0x2e1b2138, 0x4d2c6dfc, 0x53380d13, 0x650a7354, 0x766a0abb, 0x81c2c92e, 0x92722c85, 0xa2bfe8a1, 0xa81a664b, 0xc24b8b70, 0xc76c51a3, 0xd192e819, 0xd6990624, 0xf40e3585, 0x106aa070,
			0x19a4c116, 0x1e376c08, 0x2748774c, 0x34b0bcb5, 0x391c0cb3, 0x4ed8aa4a, 0x5b9cca4f, 0x682e6ff3, 0x748f82ee, 0x78a5636f, 0x84c87814, 0x8cc70208, 0x90befffa, 0xa4506ceb, 0xbef9a3f7, 0xc67178f2};
		uint32_t w[64];
		for (int i = 0; i < 16; ++i) w[i] = ((uint32_t)p[4 * i] << 24) | ((uint32_t)p[4 * i + 1] << 16) | ((uint32_t)p[4 * i + 2] << 8) | p[4 * i + 3];
		for (int i = 16; i < 64; ++i) { uint32_t s0 = rotr(w[i - 15], 7) ^ rotr(w[i - 15], 18) ^ (w[i - 15] >> 3), s1 = rotr(w[i - 2], 17) ^ rotr(w[i - 2], 19) ^ (w[i - 2] >> 10); w[i] = w[i - 16] + s0 + w[i - 7] + s1; }
		uint32_t a = h[0], b = h[1], c = h[2], d = h[3], e = h[4], f = h[5], g = h[6], hh = h[7];
		for (int i = 0; i < 64; ++i) {
			uint32_t S1 = rotr(e, 6) ^ rotr(e, 11) ^ rotr(e, 25), ch = (e & f) ^ (~e & g), t1 = hh + S1 + ch + K[i] + w[i];
			uint32_t S0 = rotr(a, 2) ^ rotr(a, 13) ^ rotr(a, 22), mj = (a & b) ^ (a & c) ^ (b & c), t2 = S0 + mj;
			hh = g; g = f; f = e; e = d + t1; d = c; c = b; b = a; a = t1 + t2; }
		h[0] += a; h[1] += b; h[2] += c; h[3] += d; h[4] += e; h[5] += f; h[6] += g; h[7] += hh;
	}
	void update(const uint8_t *p, size_t n) { len += n; while (n) { size_t k = 64 - fill; if (k > n) k = n; memcpy(buf + fill, p, k); fill += k; p += k; n -= k; if (fill == 64) { block(buf); fill = 0; } } }
	void finish(uint8_t out[32]) {
		uint64_t bits = len * 8; uint8_t pad = 0x80; update(&pad, 1); uint8_t z = 0; while (fill != 56) update(&z, 1);
		uint8_t lb[8]; for (int i = 0; i < 8; ++i) lb[i] = (uint8_t)(bits >> (56 - 8 * i)); update(lb, 8);
		for (int i = 0; i < 8; ++i) { out[4 * i] = (uint8_t)(h[i] >> 24); out[4 * i + 1] = (uint8_t)(h[i] >> 16); out[4 * i + 2] = (uint8_t)(h[i] >> 8); out[4 * i + 3] = (uint8_t)h[i]; }
	}
};
static inline void sha256(const uint8_t *p, size_t n, uint8_t out[32]) { Sha256 s; if (n) s.update(p, n); s.finish(out); }
} // namespace ref
