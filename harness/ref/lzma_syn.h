// ref/lzma_syn.h - grammar-driven *synthesis* of LZMA / LZMA2 data: a range encoder plus the LZMA probability
// model turn a list of symbols chosen by a generator (literal, match(dist,len), rep0..3(len), short rep, end marker)
// into a valid LZMA stream whose plaintext is known by construction.  lzma2_syn wraps such streams in LZMA2 chunks
// with chosen control bytes (dictionary reset, state reset, new properties, uncompressed chunks).
// This is how format features that the project's encoder never emits are produced.  No liblzma headers.
#pragma once
#include "lzma_dec.h"

namespace ref {

struct RangeEnc {
	uint64_t low = 0; uint32_t range = 0xFFFFFFFFu; uint8_t cache = 0; uint64_t cache_size = 1; std::vector<uint8_t> out;
	void shift_low() {
		if ((uint32_t)low < 0xFF000000u || (low >> 32) != 0) {
			uint8_t t = cache; uint8_t carry = (uint8_t)(low >> 32);
			do { out.push_back((uint8_t)(t + carry)); t = 0xFF; } while (--cache_size != 0);
			cache = (uint8_t)((uint32_t)low >> 24);
		}
		++cache_size; low = ((uint64_t)((uint32_t)low)) << 8 & 0xFFFFFFFFull;
	}
	void bit(uint16_t &prob, unsigned b) {
		uint32_t bound = (range >> 11) * prob;
		if (b == 0) { range = bound; prob = (uint16_t)(prob + ((2048 - prob) >> 5)); }
		else { low += bound; range -= bound; prob = (uint16_t)(prob - (prob >> 5)); }
		while (range < (1u << 24)) { range <<= 8; shift_low(); }
	}
	void direct(uint32_t value, unsigned nbits) {
		while (nbits--) { range >>= 1; if ((value >> nbits) & 1) low += range; while (range < (1u << 24)) { range <<= 8; shift_low(); } }
	}
	void flush() { for (int i = 0; i < 5; ++i) shift_low(); }
};

struct Sym { enum { LIT, MATCH, REP, SHORTREP, EOPM } kind; uint32_t a = 0, b = 0; }; // LIT: a=byte; MATCH: a=dist(0-based), b=len; REP: a=index 0..3, b=len

struct LzmaSyn {
	LzmaState s; RangeEnc rc;
	void start(unsigned lc, unsigned lp, unsigned pb) { s.reset(lc, lp, pb); rc = RangeEnc(); }
	void new_rc() { rc = RangeEnc(); }
	static void tree(RangeEnc &rc, uint16_t *probs, unsigned nbits, unsigned sym) { unsigned m = 1; for (unsigned i = nbits; i-- > 0;) { unsigned b = (sym >> i) & 1; rc.bit(probs[m], b); m = (m << 1) | b; } }
	static void rtree(RangeEnc &rc, uint16_t *probs, unsigned nbits, unsigned sym) { unsigned m = 1; for (unsigned i = 0; i < nbits; ++i) { unsigned b = sym & 1; sym >>= 1; rc.bit(probs[m], b); m = (m << 1) | b; } }
	void len(LenDec &ld, unsigned l /* 0-based: real-2 */, unsigned ps) {
		if (l < 8) { rc.bit(ld.choice, 0); tree(rc, ld.low[ps], 3, l); }
		else if (l < 16) { rc.bit(ld.choice, 1); rc.bit(ld.choice2, 0); tree(rc, ld.mid[ps], 3, l - 8); }
		else { rc.bit(ld.choice, 1); rc.bit(ld.choice2, 1); tree(rc, ld.high, 8, l - 16); }
	}
	// Encode one symbol; `win` is the history (its bytes since the last dictionary reset), updated with the produced bytes.
	// Returns false if the symbol is not encodable in the current state (caller should have checked).
	bool put(const Sym &y, std::vector<uint8_t> &win) {
		const size_t hist = win.size(); const unsigned ps = (unsigned)(hist & ((1u << s.pb) - 1));
		if (y.kind == Sym::LIT) {
			rc.bit(s.is_match[s.state][ps], 0);
			unsigned prev = hist ? win.back() : 0;
			uint16_t *probs = &s.lit[(size_t)0x300 * (((hist & ((1u << s.lp) - 1)) << s.lc) + (prev >> (8 - s.lc)))];
			unsigned sym = 1, byte = y.a & 0xFF;
			if (s.state >= 7) {
				unsigned mb = win[win.size() - s.rep0 - 1]; unsigned bpos = 8;
				while (bpos > 0) { --bpos; unsigned mbit = (mb >> 7) & 1; mb <<= 1; unsigned b = (byte >> bpos) & 1; rc.bit(probs[((1 + mbit) << 8) + sym], b); sym = (sym << 1) | b; if (mbit != b) break; }
				while (bpos > 0) { --bpos; unsigned b = (byte >> bpos) & 1; rc.bit(probs[sym], b); sym = (sym << 1) | b; }
			} else for (unsigned bpos = 8; bpos-- > 0;) { unsigned b = (byte >> bpos) & 1; rc.bit(probs[sym], b); sym = (sym << 1) | b; }
			win.push_back((uint8_t)byte);
			s.state = s.state < 4 ? 0 : (s.state < 10 ? s.state - 3 : s.state - 6);
			return true;
		}
		rc.bit(s.is_match[s.state][ps], 1);
		if (y.kind == Sym::MATCH || y.kind == Sym::EOPM) {
			rc.bit(s.is_rep[s.state], 0);
			uint32_t dist = y.kind == Sym::EOPM ? 0xFFFFFFFFu : y.a; unsigned l = y.kind == Sym::EOPM ? 0 : y.b - 2;
			len(s.len_dec, l, ps);
			unsigned ls = l > 3 ? 3 : l; unsigned slot;
			if (dist < 4) slot = dist; else { unsigned n = 31; while (!((dist >> n) & 1)) --n; slot = 2 * n + ((dist >> (n - 1)) & 1); }
			tree(rc, s.pos_slot[ls], 6, slot);
			if (slot >= 4) { unsigned nd = (slot >> 1) - 1; uint32_t base = (2u | (slot & 1)) << nd; uint32_t rem = dist - base;
				if (slot < 14) rtree(rc, s.pos_special + base - slot, nd, rem);
				else { rc.direct(rem >> 4, nd - 4); rtree(rc, s.align_, 4, rem & 15); } }
			s.rep3 = s.rep2; s.rep2 = s.rep1; s.rep1 = s.rep0; s.rep0 = dist;
			s.state = s.state < 7 ? 7 : 10;
			if (y.kind == Sym::EOPM) return true;
			for (unsigned i = 0; i < y.b; ++i) win.push_back(win[win.size() - dist - 1]);
			return true;
		}
		rc.bit(s.is_rep[s.state], 1);
		if (y.kind == Sym::SHORTREP) {
			rc.bit(s.is_rep_g0[s.state], 0); rc.bit(s.is_rep0_long[s.state][ps], 0);
			s.state = s.state < 7 ? 9 : 11; win.push_back(win[win.size() - s.rep0 - 1]); return true;
		}
		// long rep with index y.a
		uint32_t d;
		if (y.a == 0) { rc.bit(s.is_rep_g0[s.state], 0); rc.bit(s.is_rep0_long[s.state][ps], 1); d = s.rep0; }
		else { rc.bit(s.is_rep_g0[s.state], 1);
			if (y.a == 1) { rc.bit(s.is_rep_g1[s.state], 0); d = s.rep1; }
			else { rc.bit(s.is_rep_g1[s.state], 1); if (y.a == 2) { rc.bit(s.is_rep_g2[s.state], 0); d = s.rep2; } else { rc.bit(s.is_rep_g2[s.state], 1); d = s.rep3; s.rep3 = s.rep2; } s.rep2 = s.rep1; }
			s.rep1 = s.rep0; s.rep0 = d; }
		len(s.rep_len_dec, y.b - 2, ps);
		s.state = s.state < 7 ? 8 : 11;
		for (unsigned i = 0; i < y.b; ++i) win.push_back(win[win.size() - d - 1]);
		return true;
	}
	uint32_t rep(unsigned i) const { return i == 0 ? s.rep0 : i == 1 ? s.rep1 : i == 2 ? s.rep2 : s.rep3; }
	std::vector<uint8_t> finish() { rc.flush(); return rc.out; }
};

} // namespace ref
