// ref/xzparse.h - independent .xz parser/decoder written from doc/xz-file-format.txt (no liblzma headers).
// Produces a *layout* (offset and size of every field) plus the decoded bytes, or the first rule violated.
#pragma once
#include <stdint.h>
#include <stddef.h>
#include <string>
#include <vector>
#include "crc.h"
#include "sha256.h"
#include "lzma_dec.h"
#if __has_include("bcj_glue.h")
#include "bcj_glue.h"
#define REF_HAVE_BCJ 1
#endif

namespace ref {

enum { RS_REF_UNSUPPORTED = 9 }; // the reference lacks a piece (e.g. BCJ reference not available): inconclusive

static const unsigned check_sizes[16] = {0, 4, 4, 4, 8, 8, 8, 16, 16, 16, 32, 32, 32, 64, 64, 64};

struct Filter { uint64_t id = 0; std::vector<uint8_t> props; };
struct BlockLayout {
	size_t hdr_off = 0, hdr_size = 0; uint8_t flags = 0;
	bool has_comp = false, has_unc = false; uint64_t comp_field = 0, unc_field = 0;
	std::vector<Filter> filters;
	size_t hdr_pad_off = 0, hdr_pad_size = 0;
	size_t data_off = 0, data_size = 0, pad_size = 0, check_off = 0, check_size = 0;
	uint64_t unc_size = 0;
	Lzma2Result lz{};
	uint64_t unpadded() const { return (uint64_t)hdr_size + data_size + check_size; }
};
struct StreamLayout {
	size_t off = 0; unsigned check_id = 0;
	std::vector<BlockLayout> blocks;
	size_t index_off = 0, index_size = 0, index_pad = 0;
	std::vector<std::pair<uint64_t, uint64_t>> records;
	size_t footer_off = 0; uint64_t backward_size = 0;
	size_t padding_after = 0;    // Stream Padding following this Stream
	size_t end() const { return footer_off + 12; }
};
struct XzResult {
	int status = RS_OK; std::string rule;       // first rule violated (for diagnostics)
	std::vector<StreamLayout> streams;
	std::vector<uint8_t> out;
	size_t in_used = 0;
	bool unsupported_check = false, no_check = false;
	bool ok() const { return status == RS_OK; }
};

// VLI: <= 9 bytes, 7 bits little endian, last byte without bit 7, multi-byte must not end in 0x00.
// returns 0 ok, 1 ran out of bytes (limit), 2 invalid
static inline int vli_decode(const uint8_t *in, size_t limit, size_t &pos, uint64_t &v) {
	v = 0;
	for (unsigned i = 0; i < 9; ++i) {
		if (pos >= limit) return 1;
		uint8_t b = in[pos++];
		v |= (uint64_t)(b & 0x7F) << (7 * i);
		if (!(b & 0x80)) { if (b == 0 && i > 0) return 2; return 0; }
	}
	return 2;
}
static inline size_t vli_encode(uint64_t v, uint8_t *out) { size_t n = 0; while (v >= 0x80) { out[n++] = (uint8_t)(v | 0x80); v >>= 7; } out[n++] = (uint8_t)v; return n; }
static inline unsigned vli_size(uint64_t v) { unsigned n = 1; while (v >= 0x80) { v >>= 7; ++n; } return n; }
static inline uint32_t rd32(const uint8_t *p) { return p[0] | (p[1] << 8) | (p[2] << 16) | ((uint32_t)p[3] << 24); }
static inline uint64_t rd64(const uint8_t *p) { return rd32(p) | ((uint64_t)rd32(p + 4) << 32); }

static inline uint64_t lzma2_dict_from_byte(uint8_t b) { // section 5.3.1
	if (b > 40) return 0; if (b == 40) return 0xFFFFFFFFull;
	uint64_t d = 2 | (b & 1); return d << (b / 2 + 11);
}

static const uint64_t FID_DELTA = 0x03, FID_X86 = 0x04, FID_PPC = 0x05, FID_IA64 = 0x06, FID_ARM = 0x07, FID_ARMT = 0x08, FID_SPARC = 0x09, FID_ARM64 = 0x0A, FID_RISCV = 0x0B, FID_LZMA2 = 0x21;
static inline unsigned bcj_alignment(uint64_t id) { switch (id) { case FID_X86: return 1; case FID_PPC: case FID_ARM: case FID_ARM64: case FID_SPARC: return 4; case FID_IA64: return 16; case FID_ARMT: case FID_RISCV: return 2; default: return 1; } }

// Apply the non-last filters (decoder direction) to the LZMA2 output, last non-last filter first.
static inline int apply_nonlast_decode(const std::vector<Filter> &fl, std::vector<uint8_t> &data) {
	for (size_t k = fl.size() - 1; k-- > 0;) {
		const Filter &f = fl[k];
		if (f.id == FID_DELTA) {
			unsigned dist = f.props[0] + 1u; uint8_t hist[256]; memset(hist, 0, sizeof hist); uint8_t pos = 0;
			for (size_t i = 0; i < data.size(); ++i) { data[i] = (uint8_t)(data[i] + hist[(uint8_t)(dist + pos)]); hist[pos--] = data[i]; }
		} else {
#ifdef REF_HAVE_BCJ
			uint32_t start = f.props.size() == 4 ? rd32(f.props.data()) : 0;
			if (!bcj_apply(f.id, data.data(), data.size(), start, false)) return RS_REF_UNSUPPORTED;
#else
			return RS_REF_UNSUPPORTED;
#endif
		}
	}
	return RS_OK;
}

struct XzOpts { bool concatenated = false; bool ignore_check = false; bool finish = true; size_t out_limit = (size_t)1 << 30; bool single_block_ok = true; };

// Parse one Block Header at `pos` (pos points at the size byte, which is != 0).  Sets status on failure.
static inline bool parse_block_header(const uint8_t *in, size_t n, size_t pos, BlockLayout &b, XzResult &R) {
	auto fail = [&](int st, const char *rule) { R.status = st; R.rule = rule; return false; };
	b.hdr_off = pos; b.hdr_size = ((size_t)in[pos] + 1) * 4;
	if (n - pos < b.hdr_size) return fail(RS_TRUNCATED, "block header truncated");
	const uint8_t *h = in + pos; size_t hs = b.hdr_size;
	if (crc32(h, hs - 4) != rd32(h + hs - 4)) return fail(RS_DATA_ERROR, "block header CRC32");
	b.flags = h[1];
	if (b.flags & 0x3C) return fail(RS_OPTIONS_ERROR, "block flags reserved bits");
	size_t p = 2, lim = hs - 4; int v;
	b.has_comp = b.flags & 0x40; b.has_unc = b.flags & 0x80;
	if (b.has_comp) { if ((v = vli_decode(h, lim, p, b.comp_field))) return fail(RS_DATA_ERROR, "compressed size VLI"); if (b.comp_field == 0) return fail(RS_DATA_ERROR, "compressed size zero"); }
	if (b.has_unc) { if ((v = vli_decode(h, lim, p, b.unc_field))) return fail(RS_DATA_ERROR, "uncompressed size VLI"); }
	unsigned nf = (b.flags & 3) + 1;
	bool unsupported = false; const char *unsup_rule = "";
	for (unsigned i = 0; i < nf; ++i) {
		Filter f; uint64_t ps;
		if (vli_decode(h, lim, p, f.id)) return fail(RS_DATA_ERROR, "filter id VLI");
		if (f.id >= 0x4000000000000000ull) return fail(RS_DATA_ERROR, "reserved filter id");
		if (vli_decode(h, lim, p, ps)) return fail(RS_DATA_ERROR, "filter props size VLI");
		if (ps > lim - p) return fail(RS_DATA_ERROR, "filter props exceed header");
		f.props.assign(h + p, h + p + ps); p += ps;
		// per-filter validity (unsupported => OPTIONS_ERROR)
		if (f.id == FID_LZMA2) { if (f.props.size() != 1 || f.props[0] > 40) { unsupported = true; unsup_rule = "LZMA2 props"; } }
		else if (f.id == FID_DELTA) { if (f.props.size() != 1) { unsupported = true; unsup_rule = "delta props"; } }
		else if (f.id >= FID_X86 && f.id <= FID_RISCV) {
			if (f.props.size() != 0 && f.props.size() != 4) { unsupported = true; unsup_rule = "bcj props size"; }
			else if (f.props.size() == 4 && (rd32(f.props.data()) % bcj_alignment(f.id)) != 0) { unsupported = true; unsup_rule = "bcj start offset alignment"; }
		} else { unsupported = true; unsup_rule = "unknown filter id"; }
		b.filters.push_back(f);
	}
	// header padding: all zero
	b.hdr_pad_off = pos + p; b.hdr_pad_size = lim - p;
	for (size_t i = p; i < lim; ++i) if (h[i] != 0) return fail(RS_OPTIONS_ERROR, "block header padding not zero");
	if (unsupported) return fail(RS_OPTIONS_ERROR, unsup_rule);
	// chain: LZMA2 must be last and only last; others non-last
	for (unsigned i = 0; i < nf; ++i) { bool last = i + 1 == nf; if ((b.filters[i].id == FID_LZMA2) != last) return fail(RS_OPTIONS_ERROR, "filter chain order"); }
	return true;
}

static inline XzResult xz_decode(const uint8_t *in, size_t n, const XzOpts &o = XzOpts()) {
	XzResult R; size_t pos = 0; bool first = true;
	auto fail = [&](int st, const char *rule, size_t at) -> XzResult & { R.status = st; R.rule = rule; R.in_used = at; return R; };
	static const uint8_t MAGIC[6] = {0xFD, '7', 'z', 'X', 'Z', 0x00};
	for (;;) {
		StreamLayout S; S.off = pos;
		// ---- Stream Header
		if (n - pos < 12) {
			// compare what is there against the magic so that garbage is FORMAT/DATA error and a cut file is truncation
			size_t k = n - pos < 6 ? n - pos : 6;
			if (memcmp(in + pos, MAGIC, k) != 0) return fail(first ? RS_FORMAT_ERROR : RS_DATA_ERROR, "header magic", pos);
			return fail(RS_TRUNCATED, "stream header truncated", n);
		}
		if (memcmp(in + pos, MAGIC, 6) != 0) return fail(first ? RS_FORMAT_ERROR : RS_DATA_ERROR, "header magic", pos);
		if (crc32(in + pos + 6, 2) != rd32(in + pos + 8)) return fail(RS_DATA_ERROR, "stream header CRC32", pos);
		if (in[pos + 6] != 0 || (in[pos + 7] & 0xF0)) return fail(RS_OPTIONS_ERROR, "stream flags reserved bits", pos);
		S.check_id = in[pos + 7] & 0x0F;
		const unsigned csize = check_sizes[S.check_id];
		const bool check_supported = S.check_id == 0 || S.check_id == 1 || S.check_id == 4 || S.check_id == 10;
		if (S.check_id == 0) R.no_check = true; if (!check_supported) R.unsupported_check = true;
		pos += 12;
		// ---- Blocks
		for (;;) {
			if (pos >= n) return fail(RS_TRUNCATED, "expected block header or index", n);
			if (in[pos] == 0x00) break; // Index indicator
			BlockLayout b;
			if (!parse_block_header(in, n, pos, b, R)) { R.in_used = pos; return R; }
			pos += b.hdr_size; b.data_off = pos;
			// compressed data: LZMA2 stream, limited by the Compressed Size field when present
			size_t avail = n - pos; size_t lim = avail;
			if (b.has_comp && b.comp_field < lim) lim = (size_t)b.comp_field;
			std::vector<uint8_t> data;
			uint64_t dict = lzma2_dict_from_byte(b.filters.back().props[0]);
			size_t out_lim = o.out_limit > R.out.size() ? o.out_limit - R.out.size() : 0;
			if (b.has_unc && b.unc_field < out_lim) out_lim = (size_t)b.unc_field; // decoder must not produce more than declared
			b.lz = lzma2_decode(in + pos, lim, dict, data, nullptr, 0, b.has_unc ? out_lim + 1 : out_lim);
			b.data_size = b.lz.in_used; b.unc_size = data.size();
			int fst = apply_nonlast_decode(b.filters, data);
			if (b.lz.status != RS_OK) {
				// deliver everything that was decodable before the problem (maximal partial output), then report
				if (fst == RS_OK) R.out.insert(R.out.end(), data.begin(), data.end());
				int st = b.lz.status;
				if (st == RS_TRUNCATED && lim < avail) st = RS_DATA_ERROR;      // ran into the Compressed Size limit, not into EOF
				if (st == RS_TOO_BIG && b.has_unc && data.size() > b.unc_field) st = RS_DATA_ERROR;
				S.blocks.push_back(b); R.streams.push_back(S);
				return fail(st, "LZMA2 data", pos + b.lz.in_used);
			}
			if (fst != RS_OK) { return fail(fst, "reference lacks this filter", pos); }
			if (b.has_comp && b.comp_field != b.data_size) { R.out.insert(R.out.end(), data.begin(), data.end()); return fail(RS_DATA_ERROR, "compressed size field mismatch", pos + b.data_size); }
			if (b.has_unc && b.unc_field != b.unc_size) { R.out.insert(R.out.end(), data.begin(), data.end()); return fail(RS_DATA_ERROR, "uncompressed size field mismatch", pos + b.data_size); }
			R.out.insert(R.out.end(), data.begin(), data.end());
			pos += b.data_size;
			// Block Padding
			b.pad_size = (4 - (b.data_size & 3)) & 3;
			if (n - pos < b.pad_size) return fail(RS_TRUNCATED, "block padding truncated", n);
			for (size_t i = 0; i < b.pad_size; ++i) if (in[pos + i] != 0) return fail(RS_DATA_ERROR, "block padding not zero", pos + i);
			pos += b.pad_size;
			// Check
			b.check_off = pos; b.check_size = csize;
			if (n - pos < csize) return fail(RS_TRUNCATED, "check truncated", n);
			if (!o.ignore_check && check_supported && csize) {
				// the Check covers the Block's uncompressed data
				const uint8_t *d = R.out.data() + (R.out.size() - data.size());
				bool good = true;
				if (S.check_id == 1) good = crc32_fast(d, data.size()) == rd32(in + pos);
				else if (S.check_id == 4) good = crc64_fast(d, data.size()) == rd64(in + pos);
				else { uint8_t hsh[32]; sha256(d, data.size(), hsh); good = memcmp(hsh, in + pos, 32) == 0; }
				if (!good) return fail(RS_DATA_ERROR, "check mismatch", pos);
			}
			pos += csize;
			S.blocks.push_back(b);
		}
		// ---- Index
		S.index_off = pos; size_t p = pos + 1; uint64_t count; int v;
		if ((v = vli_decode(in, n, p, count))) return fail(v == 1 ? RS_TRUNCATED : RS_DATA_ERROR, "index count VLI", p);
		if (count != S.blocks.size()) return fail(RS_DATA_ERROR, "index record count", p);
		for (uint64_t i = 0; i < count; ++i) {
			uint64_t up, uc;
			if ((v = vli_decode(in, n, p, up))) return fail(v == 1 ? RS_TRUNCATED : RS_DATA_ERROR, "index unpadded VLI", p);
			if ((v = vli_decode(in, n, p, uc))) return fail(v == 1 ? RS_TRUNCATED : RS_DATA_ERROR, "index uncompressed VLI", p);
			if (up != S.blocks[i].unpadded() || uc != S.blocks[i].unc_size) return fail(RS_DATA_ERROR, "index record mismatch", p);
			S.records.push_back({up, uc});
		}
		S.index_pad = (4 - ((p - pos) & 3)) & 3;
		if (n - p < S.index_pad) return fail(RS_TRUNCATED, "index padding truncated", n);
		for (size_t i = 0; i < S.index_pad; ++i) if (in[p + i] != 0) return fail(RS_DATA_ERROR, "index padding not zero", p + i);
		p += S.index_pad;
		if (n - p < 4) return fail(RS_TRUNCATED, "index CRC truncated", n);
		if (crc32(in + pos, p - pos) != rd32(in + p)) return fail(RS_DATA_ERROR, "index CRC32", p);
		p += 4; S.index_size = p - pos; pos = p;
		// ---- Stream Footer
		S.footer_off = pos;
		if (n - pos < 12) return fail(RS_TRUNCATED, "stream footer truncated", n);
		if (in[pos + 10] != 'Y' || in[pos + 11] != 'Z') return fail(RS_DATA_ERROR, "footer magic", pos);
		if (crc32(in + pos + 4, 6) != rd32(in + pos)) return fail(RS_DATA_ERROR, "footer CRC32", pos);
		if (in[pos + 8] != 0 || (in[pos + 9] & 0xF0)) return fail(RS_OPTIONS_ERROR, "footer flags reserved bits", pos);
		S.backward_size = ((uint64_t)rd32(in + pos + 4) + 1) * 4;
		if (S.backward_size != S.index_size) return fail(RS_DATA_ERROR, "backward size", pos);
		if ((unsigned)(in[pos + 9] & 0x0F) != S.check_id) return fail(RS_DATA_ERROR, "footer flags differ from header", pos);
		pos += 12;
		R.in_used = pos;
		// ---- Stream Padding / next Stream
		if (!o.concatenated) { R.streams.push_back(S); R.status = RS_OK; return R; }
		size_t z = 0; while (pos + z < n && in[pos + z] == 0) ++z;
		S.padding_after = z; R.streams.push_back(S);
		if (pos + z == n) {
			// end of input inside/after padding
			if (!o.finish) return fail(RS_TRUNCATED, "more input may follow (no LZMA_FINISH)", n);
			if (z & 3) return fail(RS_DATA_ERROR, "stream padding not a multiple of 4", n);
			R.status = RS_OK; R.in_used = n; return R;
		}
		if (z & 3) return fail(RS_DATA_ERROR, "stream padding not a multiple of 4", pos + z);
		pos += z; first = false;
	}
}

} // namespace ref
