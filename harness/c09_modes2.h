// c09_modes2.h - index / file-info limits and the *_memusage() estimate families of t_c09.
#pragma once

// ---- Index decoders -------------------------------------------------------------------------------------------
static uint64_t index_digest(const lzma_index *i) {
	if (!i) return 0;
	uint64_t h = hcomb(lzma_index_stream_count(i), lzma_index_block_count(i));
	h = hcomb(h, lzma_index_total_size(i)); h = hcomb(h, lzma_index_file_size(i)); h = hcomb(h, lzma_index_uncompressed_size(i)); h = hcomb(h, lzma_index_checks(i));
	lzma_index_iter it; memset(&it, 0, sizeof it); lzma_index_iter_init(&it, i);
	while (!lzma_index_iter_next(&it, LZMA_INDEX_ITER_BLOCK)) { h = hcomb(h, it.block.compressed_file_offset); h = hcomb(h, hcomb(it.block.unpadded_size, it.block.uncompressed_size)); h = hcomb(h, it.stream.number); }
	return h;
}

// the decoded index is the only thing still allocated: estimate >= memused >= actual; then free it
static uint64_t take_index(const char *kn, lzma_index *&idx, uint64_t live_after_end) {
	va::Alloc &al = AL();
	if (!idx) { if (!al.balanced()) violation("C10:leak-after-end", "%s decoder: no index returned but %llu bytes live after lzma_end", kn, (unsigned long long)al.live_bytes); return 0; }
	uint64_t used = lzma_index_memused(idx), est = lzma_index_memusage(lzma_index_stream_count(idx), lzma_index_block_count(idx));
	if (est == UINT64_MAX || est < used) violation("C09:index-memusage-below-memused", "%s: lzma_index_memusage(%llu,%llu) = %llu < lzma_index_memused() = %llu", kn, (unsigned long long)lzma_index_stream_count(idx), (unsigned long long)lzma_index_block_count(idx), (unsigned long long)est, (unsigned long long)used);
	if (used < live_after_end) violation("C09:index-memused-too-small", "%s: lzma_index_memused() = %llu but the index (%llu Streams, %llu Blocks) holds %llu bytes from the allocator", kn, (unsigned long long)used,
		(unsigned long long)lzma_index_stream_count(idx), (unsigned long long)lzma_index_block_count(idx), (unsigned long long)live_after_end);
	note_margin(1, used, live_after_end);
	uint64_t dg = index_digest(idx);
	lzma_index_end(idx, &al.a); idx = NULL;
	if (!al.balanced()) violation("C10:leak-after-end", "%s: %llu bytes live after lzma_index_end", kn, (unsigned long long)al.live_bytes);
	return dg;
}

// the file-info loop: next_in always points at file[cur]; after LZMA_SEEK_NEEDED cur = seek_pos (index.h)
static RunOut run_fileinfo(const Dec &d, const std::vector<uint8_t> &f, uint64_t limit0, int policy, const std::vector<uint64_t> *ladder, size_t chunk) {
	va::Alloc &al = AL();
	if (!al.balanced()) harness_bug("allocator not balanced at the start of a run");
	al.reset_counters();
	RunOut O; lzma_stream s = LZMA_STREAM_INIT; s.allocator = &al.a; *d.idx = NULL;
	lzma_ret ir = dec_init(&s, d, limit0);
	if (ir == LZMA_MEM_ERROR) { lzma_end(&s); O.env = true; O.R.ret = ir; return O; }
	if (ir != LZMA_OK) harness_bug("file info decoder init: %s", drv::retname(ir));
	Lim L; L.d = &d; L.al = &al; L.limit = std::max<uint64_t>(1, limit0); L.policy = policy; L.ladder = ladder; L.A = A_BASE; L.fresh_usage = lzma_memusage(&s);
	if (lzma_memlimit_get(&s) != L.limit) violation("C09:memlimit-get", "file_info decoder: lzma_memlimit_get() = %llu right after initialisation with limit %llu", (unsigned long long)lzma_memlimit_get(&s), (unsigned long long)limit0);
	const uint64_t fsize = f.size(); uint64_t cur = 0; unsigned idle = 0; size_t calls = 0; const size_t max_calls = 8 * f.size() / std::min<size_t>(chunk, f.size() ? f.size() : 1) + 6 * 4096;
	lzma_ret r = LZMA_OK;
	for (;;) {
		size_t give = (size_t)std::min<uint64_t>(chunk, fsize - cur);
		s.next_in = f.data() + cur; s.avail_in = give;
		r = lzma_code(&s, LZMA_RUN); ++calls;
		size_t used = give - s.avail_in; cur += used;
		if (r == LZMA_SEEK_NEEDED) { if (s.seek_pos > fsize) violation("C13:fileinfo-seek-beyond-file", "seek_pos %llu > file size %llu", (unsigned long long)s.seek_pos, (unsigned long long)fsize); cur = s.seek_pos; idle = 0; }
		else if (r == LZMA_MEMLIMIT_ERROR) { if (!handle_memlimit(&s, L)) break; idle = 0; }
		else if (r == LZMA_OK) { handle_other(&s, r, L); if (used == 0 && ++idle > 4) { O.R.call_bound = true; break; } if (used) idle = 0; }
		else if (r == LZMA_BUF_ERROR && cur < fsize) { /* documented as non-fatal while we still have input to give */ if (++idle > 4) { O.R.call_bound = true; break; } }
		else break;
		if (calls > max_calls) { O.R.call_bound = true; break; }
	}
	O.R.ret = r; O.R.calls = calls;
	finish_run(&s, L, O, r);
	return O;
}

static void mode_index(Case &c) {
	unsigned sub = c.u(3);
	Plan p = draw_plan(c);
	va::Alloc &al = AL();
	if (sub == 2) {
		std::vector<uint8_t> f; unsigned ns; uint64_t nrec, fh = 0; std::string fd; c09::build_dummy_xz(c, f, ns, nrec, fd, fh);
		size_t chunk = c.pick<size_t>({SIZE_MAX, SIZE_MAX, 8192, 1024, 61, 7});
		set_desc("{\"mode\":\"index\",\"decoder\":\"file_info\"," + fd + ",\"chunk\":" + (chunk == SIZE_MAX ? std::string("\"whole\"") : std::to_string(chunk)) + ",\"plan\":" + plan_desc(p) + "}");
		lzma_index *out = NULL; Dec d; d.kind = K_FILEINFO; d.idx = &out; d.file_size = f.size();
		RunOut D = run_fileinfo(d, f, 1, P_NEED, nullptr, SIZE_MAX);
		if (D.env) { if (out) lzma_index_end(out, &al.a); return; }
		if (D.R.ret != LZMA_STREAM_END || !out) { if (D.events) violation("C09:restart-after-memlimit-fails", "file info decoder started with limit 1, limit raised to each reported need (%u times): a valid file then ends with %s", D.events, drv::retname(D.R.ret)); harness_bug("generated file rejected by the file info decoder: %s", drv::retname(D.R.ret)); }
		const std::vector<uint64_t> ladder = D.needs; note_slack(3, D.peak, D.final_limit);
		if (lzma_index_stream_count(out) != ns || lzma_index_block_count(out) != nrec) harness_bug("file info decoder: %llu streams %llu blocks, built %u/%llu", (unsigned long long)lzma_index_stream_count(out), (unsigned long long)lzma_index_block_count(out), ns, (unsigned long long)nrec);
		uint64_t dgD = take_index("file_info (discovery)", out, D.live_after_end);
		RunOut U = run_fileinfo(d, f, UINT64_MAX, P_STOP, &ladder, chunk);
		if (U.env) { if (out) lzma_index_end(out, &al.a); return; }
		if (U.R.ret != LZMA_STREAM_END) { if (U.R.call_bound) violation("C04:call-bound", "file info decoder stopped making progress on a valid file"); harness_bug("file info decoder (unlimited): %s", drv::retname(U.R.ret)); }
		uint64_t dgU = take_index("file_info (unlimited)", out, U.live_after_end);
		if (dgU != dgD) violation("C09:result-differs-from-unlimited", "file_info decoder: index after restarts from limit 1 differs from the unlimited run");
		uint64_t N = ladder.empty() ? D.end_usage : ladder[p.which % ladder.size()], L0 = sel_limit(p.sel, N);
		annotate("needs", ladder_str(ladder)); annotate("limit_value", std::to_string(L0));
		RunOut C = run_fileinfo(d, f, L0, p.policy, &ladder, chunk);
		if (C.env) { if (out) lzma_index_end(out, &al.a); return; }
		note_slack(3, C.peak, C.final_limit);
		uint64_t maxneed = ladder.empty() ? 0 : ladder.back();
		if (C.R.ret == LZMA_MEMLIMIT_ERROR) { if (p.policy != P_STOP) violation("C09:memlimit-error-after-raise", "file_info decoder: run ended with LZMA_MEMLIMIT_ERROR although the limit is raised after every such error");
			if (out) violation("C13:index-decoder-output-on-error", "file_info decoder: *dest_index set although the run ended with LZMA_MEMLIMIT_ERROR"); take_index("file_info", out, C.live_after_end); count("chosen_stopped_at_memlimit"); }
		else {
			if (C.R.ret != LZMA_STREAM_END) violation("C09:result-differs-from-unlimited", "file_info decoder: %s with limit %llu, unlimited run succeeded", drv::retname(C.R.ret), (unsigned long long)L0);
			if (maxneed > C.final_limit) violation("C09:limit-not-enforced", "file_info decoder: finished under limit %llu although the discovery run needed %llu", (unsigned long long)C.final_limit, (unsigned long long)maxneed);
			uint64_t dgC = take_index("file_info", out, C.live_after_end);
			if (dgC != dgU) violation("C09:result-differs-from-unlimited", "file_info decoder: index differs from the unlimited run (limit %llu, %u restarts)", (unsigned long long)L0, C.events);
			if (C.events) count("chosen_restarted");
		}
		count("limit_file_info"); if (ladder.size() >= 2) count("several_needs_in_one_file");
		uint64_t Leff = std::max<uint64_t>(1, L0);
		if ((Leff >= N / 2 && Leff <= sat_add(N, N)) || (C.events && p.policy != P_STOP)) nontrivial(hcomb(hcomb(fh, 7777), hcomb(L0, p.policy * 31 + chunk)));
		return;
	}
	// one Index field
	unsigned n = c.small(40); uint8_t k = c.byte(); if (k < 50) n = 505 + c.u(20); else if (k < 90) n = 600 + c.u(3000); else if (k < 100) n = 20000 + c.u32() % 80001;
	lzma_index *src = lzma_index_init(NULL); if (!src) harness_bug("index_init");
	Rng g(c.u16() + 3u);
	for (unsigned i = 0; i < n; ++i) if (lzma_index_append(src, NULL, 5 + g.below(1u << (1 + g.below(20))), g.next() >> (20 + g.below(44))) != LZMA_OK) harness_bug("index append");
	size_t sz = (size_t)lzma_index_size(src); std::vector<uint8_t> buf(sz); size_t pos = 0;
	if (lzma_index_buffer_encode(src, buf.data(), &pos, sz) != LZMA_OK) harness_bug("index encode");
	uint64_t dgS = index_digest(src); lzma_index_end(src, NULL);
	const uint64_t need_pub = lzma_index_memusage(1, n);
	set_desc("{\"mode\":\"index\",\"decoder\":\"" + std::string(sub ? "index_buffer_decode" : "index") + "\",\"records\":" + std::to_string(n) + ",\"plan\":" + plan_desc(p) + "}");
	if (sub == 0) {
		lzma_index *out = NULL; Dec d; d.kind = K_INDEX; d.idx = &out;
		RunOut D = run_dec(d, buf.data(), buf.size(), 1, P_NEED, nullptr, drv::Schedule(), false, 0);
		if (D.env) { if (out) lzma_index_end(out, &al.a); return; }
		if (D.R.ret != LZMA_STREAM_END) { if (D.events) violation("C09:restart-after-memlimit-fails", "index decoder started with limit 1, limit raised to each reported need (%u times): a valid Index then ends with %s", D.events, drv::retname(D.R.ret)); harness_bug("index decoder rejected own index: %s", drv::retname(D.R.ret)); }
		const std::vector<uint64_t> ladder = D.needs; note_slack(3, D.peak, D.final_limit);
		if (ladder.size() != 1) violation("C09:limit-not-enforced", "index decoder with limit 1: %zu LZMA_MEMLIMIT_ERROR for one Index", ladder.size());
		if (take_index("index (discovery)", out, D.live_after_end) != dgS) violation("C09:result-differs-from-unlimited", "index decoder: decoded index differs from the encoded one after a restart");
		uint64_t N = ladder[0], L0 = sel_limit(p.sel, N);
		annotate("need", std::to_string(N)); annotate("index_memusage_1_n", std::to_string(need_pub)); annotate("limit_value", std::to_string(L0));
		RunOut C = run_dec(d, buf.data(), buf.size(), L0, p.policy, &ladder, p.sch, p.probe_lower, 0);
		if (C.env) { if (out) lzma_index_end(out, &al.a); return; }
		note_slack(3, C.peak, C.final_limit);
		if (C.R.ret == LZMA_MEMLIMIT_ERROR) { if (p.policy != P_STOP) violation("C09:memlimit-error-after-raise", "index decoder: run ended with LZMA_MEMLIMIT_ERROR although the limit is raised");
			if (out) violation("C13:index-decoder-output-on-error", "index decoder: *i set although the run ended with LZMA_MEMLIMIT_ERROR"); take_index("index", out, C.live_after_end); count("chosen_stopped_at_memlimit"); }
		else {
			if (C.R.ret != LZMA_STREAM_END || !out) violation("C09:result-differs-from-unlimited", "index decoder: %s with limit %llu", drv::retname(C.R.ret), (unsigned long long)L0);
			if (N > C.final_limit) violation("C09:limit-not-enforced", "index decoder: finished under limit %llu although it needs %llu", (unsigned long long)C.final_limit, (unsigned long long)N);
			if (take_index("index", out, C.live_after_end) != dgS) violation("C09:result-differs-from-unlimited", "index decoder: decoded index differs (limit %llu, %u restarts)", (unsigned long long)L0, C.events);
			if (C.events) count("chosen_restarted");
		}
		count("limit_index");
		uint64_t Leff = std::max<uint64_t>(1, L0);
		if ((Leff >= N / 2 && Leff <= sat_add(N, N)) || (C.events && p.policy != P_STOP)) nontrivial(hcomb(hcomb(dgS, 1), hcomb(L0, p.policy * 31 + p.sch.hash())));
		return;
	}
	// lzma_index_buffer_decode: *memlimit is in/out
	auto call = [&](uint64_t &ml, lzma_index *&out, size_t &ipos, uint64_t &peak) -> lzma_ret {
		if (!al.balanced()) harness_bug("allocator not balanced"); al.reset_counters(); ipos = 0; out = (lzma_index *)(uintptr_t)0x10; // the old value is documented as ignored
		lzma_ret r = lzma_index_buffer_decode(&out, &ml, &al.a, buf.data(), &ipos, buf.size()); peak = al.peak; return r; };
	lzma_index *out = NULL; size_t ipos = 0; uint64_t peak = 0, ml = 1;
	lzma_ret r = call(ml, out, ipos, peak);
	if (r == LZMA_MEM_ERROR) { count("environment_mem_error_other"); return; }
	if (r != LZMA_MEMLIMIT_ERROR || ml <= 1) violation("C09:limit-not-enforced", "lzma_index_buffer_decode with *memlimit = 1: %s, *memlimit now %llu", drv::retname(r), (unsigned long long)ml);
	if (out != NULL || ipos != 0) violation("C09:buffer-decode-state-on-memlimit", "lzma_index_buffer_decode: LZMA_MEMLIMIT_ERROR but *i = %p, *in_pos = %zu", (void *)out, ipos);
	if (peak > 1 + A_BASE) violation("C09:peak-above-limit", "lzma_index_buffer_decode: peak %llu with limit 1", (unsigned long long)peak);
	if (!al.balanced()) violation("C10:leak-after-end", "lzma_index_buffer_decode: %llu bytes live after LZMA_MEMLIMIT_ERROR", (unsigned long long)al.live_bytes);
	const uint64_t N = ml, L0 = sel_limit(p.sel, N), Leff = std::max<uint64_t>(1, L0);
	annotate("need", std::to_string(N)); annotate("index_memusage_1_n", std::to_string(need_pub)); annotate("limit_value", std::to_string(L0));
	ml = L0; r = call(ml, out, ipos, peak);
	if (r == LZMA_MEM_ERROR) { count("environment_mem_error_other"); return; }
	note_slack(3, peak, Leff);
	if (peak > sat_add(Leff, A_BASE)) violation("C09:peak-above-limit", "lzma_index_buffer_decode: peak %llu > limit %llu + allowance", (unsigned long long)peak, (unsigned long long)Leff);
	if (Leff < N) {
		if (r != LZMA_MEMLIMIT_ERROR) violation("C09:limit-not-enforced", "lzma_index_buffer_decode: %s with *memlimit %llu < need %llu", drv::retname(r), (unsigned long long)L0, (unsigned long long)N);
		if (ml != N) violation("C09:need-differs-between-runs", "lzma_index_buffer_decode: *memlimit set to %llu, earlier call reported %llu", (unsigned long long)ml, (unsigned long long)N);
		if (out != NULL || ipos != 0) violation("C09:buffer-decode-state-on-memlimit", "lzma_index_buffer_decode: LZMA_MEMLIMIT_ERROR but *i = %p, *in_pos = %zu", (void *)out, ipos);
		r = call(ml, out, ipos, peak); count("chosen_restarted");
		if (r == LZMA_MEM_ERROR) { count("environment_mem_error_other"); return; }
		if (peak > sat_add(N, A_BASE)) violation("C09:peak-above-limit", "lzma_index_buffer_decode: peak %llu > limit %llu + allowance", (unsigned long long)peak, (unsigned long long)N);
		if (ml != N) violation("C09:buffer-decode-memlimit-modified", "lzma_index_buffer_decode changed *memlimit %llu -> %llu without LZMA_MEMLIMIT_ERROR", (unsigned long long)N, (unsigned long long)ml);
	} else if (ml != L0) violation("C09:buffer-decode-memlimit-modified", "lzma_index_buffer_decode changed *memlimit %llu -> %llu without LZMA_MEMLIMIT_ERROR", (unsigned long long)L0, (unsigned long long)ml);
	if (r != LZMA_OK || !out || ipos != buf.size()) violation("C09:result-differs-from-unlimited", "lzma_index_buffer_decode: %s, in_pos %zu of %zu with a sufficient limit", drv::retname(r), ipos, buf.size());
	if (take_index("index_buffer_decode", out, al.live_bytes) != dgS) violation("C09:result-differs-from-unlimited", "lzma_index_buffer_decode: decoded index differs from the encoded one");
	count("limit_index_buffer_decode");
	if (Leff >= N / 2 && Leff <= sat_add(N, N)) nontrivial(hcomb(hcomb(dgS, 2), L0));
}

// ---- estimates: encoders and matching decoders -----------------------------------------------------------------
static bool dict_is_header_form(uint32_t d) { uint32_t x = d - 1; x |= x >> 2; x |= x >> 3; x |= x >> 4; x |= x >> 8; x |= x >> 16; ++x; return x == d; }

static void fill_mt(lzma_mt &mt, const ec::Config &g) { memset(&mt, 0, sizeof mt); mt.threads = g.threads; mt.block_size = g.block_size; mt.timeout = g.timeout; mt.check = g.check; if (g.use_preset) mt.preset = g.preset; else mt.filters = g.filters; }

static uint64_t enc_estimate(ec::Config &g, lzma_mt &mt) {
	switch (g.entry) {
	case ec::E_EASY: return lzma_easy_encoder_memusage(g.preset);
	case ec::E_STREAM_MT: fill_mt(mt, g); return lzma_stream_encoder_mt_memusage(&mt);
	default: return lzma_raw_encoder_memusage(g.filters);
	}
}
static lzma_ret enc_init(lzma_stream *s, ec::Config &g, lzma_mt &mt) { if (g.entry == ec::E_STREAM_MT) { g.link(); fill_mt(mt, g); return lzma_stream_encoder_mt(s, &mt); } return ec::init_encoder(s, g); }

static void mode_est(Case &c) {
	va::Alloc &al = AL();
	ec::Config g; ec::DrawFlags f; f.allow_big = false; f.allow_norm_hook = false;
	f.entries_mask = (1u << ec::E_EASY) | (1u << ec::E_STREAM) | (1u << ec::E_STREAM_MT) | (1u << ec::E_ALONE) | (1u << ec::E_RAW) | (1u << ec::E_BLOCK);
	ec::draw_config(c, g, f);
	g.timeout = 0;
	Recipe r = draw_recipe(c, c09::rare(c, 40) ? (1u << 20) : (1u << 15), g.lz.dict_size);
	if (g.entry == ec::E_STREAM_MT && g.block_size && g.block_size <= (128u << 10)) { uint64_t want = (uint64_t)g.threads * g.block_size + g.block_size / 2; if (r.len < want && r.kind != RK_LITERAL) r.len = (uint32_t)want; }
	std::vector<uint8_t> in = expand(r);
	g.prepare_for_len(in.size()); ec::govern_cost(g, in.size());
	set_desc("{\"mode\":\"est\",\"cfg\":" + g.describe() + ",\"input\":" + r.describe() + "}");
	lzma_mt mt; uint64_t est = enc_estimate(g, mt);
	if (est == UINT64_MAX) violation("C09:estimate-max-for-valid-options", "%s encoder: memusage function returned UINT64_MAX for options that are valid by construction", ec::entry_names[g.entry]);
	if (!al.balanced()) harness_bug("allocator not balanced"); al.reset_counters();
	lzma_stream s = LZMA_STREAM_INIT; s.allocator = &al.a;
	lzma_ret ir = enc_init(&s, g, mt);
	if (ir == LZMA_MEM_ERROR) { lzma_end(&s); count("environment_mem_error_other"); return; }
	if (ir != LZMA_OK) violation("C01:encode-failed", "%s encoder init returned %s for valid options", ec::entry_names[g.entry], drv::retname(ir));
	const uint64_t peak_init = al.peak;
	drv::Opts o; o.out_cap = 8u << 20; o.idle_limit = 1u << 30;
	drv::Result R = drv::run(&s, in.data(), in.size(), drv::Schedule(), o);
	const uint64_t peak = al.peak; lzma_end(&s);
	if (!al.balanced()) violation("C10:leak-after-end", "%s encoder: %llu bytes live after lzma_end", ec::entry_names[g.entry], (unsigned long long)al.live_bytes);
	if (R.ret == LZMA_MEM_ERROR) { count("environment_mem_error_other"); return; }
	if (R.ret != LZMA_STREAM_END && !R.capped) violation("C01:encode-failed", "%s encoder returned %s", ec::entry_names[g.entry], drv::retname(R.ret));
	// The Index of the Stream being written grows by 16 bytes per Block for as long as input arrives; no estimate made before the input is
	// known can contain it.  It is allowed for separately, through the public estimate for an Index with that many Records.
	uint64_t nblocks = 1; if (g.entry == ec::E_STREAM_MT && g.block_size) nblocks = (in.size() + g.block_size - 1) / g.block_size;
	const uint64_t index_extra = nblocks > 256 ? lzma_index_memusage(1, nblocks) : 0;
	if (index_extra) count("est_enc_many_blocks_index_allowed_separately");
	if (peak > est + index_extra) {
		// recorded finding candidate: the LZMA2 encoder enlarges its history buffer to hold a whole 64 KiB chunk when the dictionary is
		// smaller than that (lzma2_encoder.c), the memusage functions do not know
		const bool small_lzma2 = g.last_id() == LZMA_FILTER_LZMA2 && g.lz.dict_size < (64u << 10);
		const char *sig = small_lzma2 ? "C09:lzma2-encoder-estimate-small-dict" : (g.entry == ec::E_STREAM_MT ? "C09:mt-encoder-estimate-too-small" : "C09:encoder-estimate-too-small");
		if (!(small_lzma2 && known_finding(sig)))
			violation(sig, "%s encoder: estimate %llu (+ %llu for the Index of %llu Blocks) < peak live bytes %llu (after init %llu), %zu input bytes", ec::entry_names[g.entry], (unsigned long long)est, (unsigned long long)index_extra, (unsigned long long)nblocks, (unsigned long long)peak, (unsigned long long)peak_init, in.size());
	} else note_margin(0, est + index_extra, peak);
	count(std::string("est_enc_") + ec::entry_names[g.entry]);
	if (peak > est / 10 * 9) count("enc_estimate_tight_over_90pct"); else if (peak > est / 2) count("enc_estimate_over_50pct");
	if (in.size() >= g.lz.dict_size) count("enc_fed_at_least_dict_size");
	if (!g.use_preset) count(std::string("est_mf_") + (g.lz.mf == LZMA_MF_HC3 ? "hc3" : g.lz.mf == LZMA_MF_HC4 ? "hc4" : g.lz.mf == LZMA_MF_BT2 ? "bt2" : g.lz.mf == LZMA_MF_BT3 ? "bt3" : "bt4"));
	// matching decoder
	if (!R.capped && g.entry != ec::E_BLOCK) {
		uint64_t dest = UINT64_MAX; bool comparable = true;
		if (g.entry == ec::E_EASY || (ec::is_xz(g.entry) && g.use_preset)) dest = lzma_easy_decoder_memusage(g.preset);
		else { dest = lzma_raw_decoder_memusage(g.filters); if (!ec::is_raw(g.entry) && !dict_is_header_form(g.lz.dict_size)) comparable = false; /* the container header rounds the dictionary size up */ }
		if (dest == UINT64_MAX) violation("C09:estimate-max-for-valid-options", "decoder memusage function returned UINT64_MAX for the chain of %s", ec::entry_names[g.entry]);
		al.reset_counters();
		lzma_stream d = LZMA_STREAM_INIT; d.allocator = &al.a;
		lzma_ret dr = ec::init_decoder(&d, g);
		if (dr == LZMA_MEM_ERROR) { lzma_end(&d); count("environment_mem_error_other"); return; }
		if (dr != LZMA_OK) harness_bug("decoder init %s", drv::retname(dr));
		drv::Opts od; od.out_cap = 8u << 20; od.out_hint = in.size();
		drv::Result D = drv::run(&d, R.out.data(), R.out.size(), drv::Schedule(), od);
		const uint64_t dpeak = al.peak; lzma_end(&d);
		if (!al.balanced()) violation("C10:leak-after-end", "decoder: %llu bytes live after lzma_end", (unsigned long long)al.live_bytes);
		if (D.ret == LZMA_MEM_ERROR) { count("environment_mem_error_other"); return; }
		if (D.ret != LZMA_STREAM_END && !D.capped) violation("C01:decode-status", "matching decoder returned %s", drv::retname(D.ret));
		if (comparable) { if (dpeak > dest) violation("C09:decoder-estimate-too-small", "decoder for %s: estimate %llu < peak live bytes %llu", ec::entry_names[g.entry], (unsigned long long)dest, (unsigned long long)dpeak); note_margin(1, dest, dpeak); count("est_dec_checked"); }
		else count("est_dec_skipped_header_rounds_dict");
	}
	nontrivial(hcomb(g.hash(), r.hash()));
}

// ---- estimates: decoder chains over the whole declared range (init only), big encoder dictionaries (estimate only),
//      invalid options (UINT64_MAX => init must fail)
static void mode_estx(Case &c) {
	va::Alloc &al = AL();
	unsigned sub = c.u(3);
	if (sub == 0) {
		c09::Blk B; bool big = c09::rare(c, 12); B.dict_byte = c09::draw_dict_byte(c, false, 0, big, 40);
		uint8_t fb = c.byte(); B.nnon = fb < 120 ? 0 : (fb < 200 ? 1 : (fb < 240 ? 2 : 3)); for (unsigned i = 0; i < B.nnon; ++i) { B.non_id[i] = c09::non_ids[c.u(6)]; B.delta_dist[i] = 1 + c.u(256); }
		c09::DeclChain dc; c09::declared_chain(B, dc);
		uint8_t lk = c.byte(); bool lzma1 = lk < 100;
		if (lzma1) { dc.f[B.nnon].id = LZMA_FILTER_LZMA1; uint8_t k2 = c.byte(); if (k2 < 90) dc.lz.dict_size = c.u(4097); else if (k2 < 180) dc.lz.dict_size = (big ? c.u32() : (c.u32() >> (6 + c.u(20)))); unsigned q = c.u(15), lc = 0, lp = 0, k = 0; for (lc = 0; lc <= 4; ++lc) { bool f = false; for (lp = 0; lc + lp <= 4; ++lp) if (k++ == q) { f = true; break; } if (f) break; } dc.lz.lc = lc > 4 ? 0 : lc; dc.lz.lp = lc > 4 ? 0 : lp; dc.lz.pb = c.u(5); }
		set_desc("{\"mode\":\"estx\",\"sub\":\"raw_decoder_init\",\"nonlast\":" + std::to_string(B.nnon) + ",\"last\":\"" + (lzma1 ? "lzma1" : "lzma2") + "\",\"dict\":" + std::to_string(dc.lz.dict_size) + ",\"lclppb\":[" + std::to_string(dc.lz.lc) + "," + std::to_string(dc.lz.lp) + "," + std::to_string(dc.lz.pb) + "]}");
		uint64_t est = lzma_raw_decoder_memusage(dc.f);
		if (est == UINT64_MAX) violation("C09:estimate-max-for-valid-options", "lzma_raw_decoder_memusage returned UINT64_MAX for a valid chain");
		if (!al.balanced()) harness_bug("allocator not balanced"); al.reset_counters();
		lzma_stream s = LZMA_STREAM_INIT; s.allocator = &al.a;
		lzma_ret ir = lzma_raw_decoder(&s, dc.f);
		uint64_t peak = al.peak;
		if (ir == LZMA_OK) { static const uint8_t z[4] = {0, 0, 0, 0}; uint8_t ob[64]; s.next_in = z; s.avail_in = lzma1 ? 4 : 1; s.next_out = ob; s.avail_out = sizeof ob; (void)lzma_code(&s, LZMA_RUN); peak = al.peak; }
		lzma_end(&s);
		if (!al.balanced()) violation("C10:leak-after-end", "raw decoder: %llu bytes live after lzma_end", (unsigned long long)al.live_bytes);
		if (ir == LZMA_MEM_ERROR) { count(al.refused_cap ? "environment_alloc_cap" : "environment_mem_error_other"); return; }
		if (ir != LZMA_OK) violation("C09:estimate-for-rejected-options", "lzma_raw_decoder_memusage = %llu but lzma_raw_decoder returned %s", (unsigned long long)est, drv::retname(ir));
		if (peak > est) violation("C09:decoder-estimate-too-small", "raw decoder: estimate %llu < peak live bytes %llu", (unsigned long long)est, (unsigned long long)peak);
		note_margin(1, est, peak); count("estx_raw_decoder_init");
		nontrivial(hcomb(hcomb(dc.lz.dict_size, B.nnon * 2 + lzma1), hcomb(B.non_id[0], B.non_id[1])));
		return;
	}
	if (sub == 1) { // big encoder dictionaries: estimate only; it must at least cover the dictionary itself
		lzma_options_lzma lz; ec::draw_lzma_opts(c, lz, false);
		uint8_t k = c.byte(); lz.dict_size = k < 128 ? (1u << (20 + k % 11)) : (k < 250 ? (1u << 20) + c.u32() % ((1536u << 20) - (1u << 20) + 1) : (1536u << 20)); if (lz.dict_size > (1536u << 20)) lz.dict_size = 1536u << 20;
		bool l1 = c.flag(); lzma_filter f[2] = {{l1 ? LZMA_FILTER_LZMA1 : LZMA_FILTER_LZMA2, &lz}, {LZMA_VLI_UNKNOWN, NULL}};
		set_desc("{\"mode\":\"estx\",\"sub\":\"big_encoder_dict\",\"dict\":" + std::to_string(lz.dict_size) + ",\"mf\":" + std::to_string((int)lz.mf) + ",\"nice\":" + std::to_string(lz.nice_len) + "}");
		uint64_t est = lzma_raw_encoder_memusage(f);
		if (est == UINT64_MAX) violation("C09:estimate-max-for-valid-options", "lzma_raw_encoder_memusage returned UINT64_MAX for dict_size %u (valid up to 1.5 GiB)", lz.dict_size);
		uint64_t floor = (uint64_t)lz.dict_size + (uint64_t)lz.dict_size * 4; // history buffer >= dict_size bytes and one 32-bit chain/tree entry per dictionary position
		if (est < floor) violation("C09:encoder-estimate-too-small", "lzma_raw_encoder_memusage = %llu for dict_size %u: less than the dictionary plus one 32-bit entry per position (%llu)", (unsigned long long)est, lz.dict_size, (unsigned long long)floor);
		lzma_mt mt; memset(&mt, 0, sizeof mt); mt.threads = 1 + c.u(8); mt.filters = f; mt.check = LZMA_CHECK_CRC32; mt.block_size = c.flag() ? 0 : (uint64_t)lz.dict_size * 2;
		uint64_t em = lzma_stream_encoder_mt_memusage(&mt);
		if (em != UINT64_MAX && em < est) violation("C09:mt-encoder-estimate-too-small", "lzma_stream_encoder_mt_memusage = %llu with %u threads < single encoder estimate %llu", (unsigned long long)em, mt.threads, (unsigned long long)est);
		count("estx_big_encoder_dict"); nontrivial(hcomb(lz.dict_size, (uint64_t)lz.mf * 8 + mt.threads));
		return;
	}
	// invalid options: if the estimate says UINT64_MAX the initialisation must fail; if it succeeds the estimate must hold
	ec::Config g; ec::DrawFlags f; f.allow_big = false; f.allow_norm_hook = false; f.entries_mask = (1u << ec::E_RAW) | (1u << ec::E_STREAM) | (1u << ec::E_STREAM_MT) | (1u << ec::E_EASY);
	ec::draw_config(c, g, f); g.timeout = 0; g.pdict.clear(); g.link();
	unsigned br = c.u(13); const char *what = "none"; bool mt_break_threads = false, mt_break_flags = false;
	const bool preset_based = g.use_preset;
	if (preset_based) { if (br & 1) { g.preset = 10 + c.u(20); what = "preset level"; } else { g.preset |= 1u << (5 + c.u(26)); what = "preset flag"; } if (g.entry != ec::E_EASY && g.entry != ec::E_STREAM_MT) { g.entry = ec::E_EASY; } }
	else switch (br) {
	case 0: g.lz.lc = 4; g.lz.lp = 1; what = "lc+lp=5"; break;
	case 1: g.lz.pb = 5; what = "pb=5"; break;
	case 2: g.lz.dict_size = c.u(4096); what = "dict<4096"; break;
	case 3: g.lz.dict_size = (1536u << 20) + 1 + c.u(1000); what = "dict>1.5GiB"; break;
	case 4: g.lz.nice_len = c.flag() ? c.u(2) : 274 + c.u(100); what = "nice_len"; break;
	case 5: g.lz.mf = (lzma_match_finder)(c.flag() ? 0x05 : 0x15); what = "mf"; break;
	case 6: g.lz.mode = (lzma_mode)(c.flag() ? 0 : 3); what = "mode"; break;
	case 7: g.filters[0].id = LZMA_VLI_C(0x4000000000000001) + c.u(5); what = "unknown filter id"; break;
	case 8: if (g.nfilters < LZMA_FILTERS_MAX) { for (unsigned i = g.nfilters + 1; i > 0; --i) g.filters[i] = g.filters[i - 1]; g.filters[0].id = LZMA_FILTER_DELTA; static lzma_options_delta bad; bad.type = LZMA_DELTA_TYPE_BYTE; bad.dist = c.flag() ? 0 : 257; g.filters[0].options = &bad; ++g.nfilters; what = "delta dist"; } else { g.lz.pb = 7; what = "pb=7"; } break;
	case 9: if (g.nfilters < LZMA_FILTERS_MAX) { g.filters[g.nfilters].id = LZMA_FILTER_X86; g.filters[g.nfilters].options = NULL; ++g.nfilters; g.filters[g.nfilters].id = LZMA_VLI_UNKNOWN; g.filters[g.nfilters].options = NULL; what = "LZMA2 not last"; } else { g.lz.lc = 5; what = "lc=5"; } break;
	case 10: if (g.entry == ec::E_STREAM_MT) { mt_break_threads = true; what = "threads"; } else { g.filters[0].id = LZMA_VLI_UNKNOWN; what = "empty chain"; } break;
	case 11: if (g.entry == ec::E_STREAM_MT) { mt_break_flags = true; what = "mt flags"; } else { g.lz.dict_size = UINT32_MAX; what = "dict=UINT32_MAX"; } break;
	default: if (g.entry == ec::E_STREAM_MT) { g.block_size = UINT64_MAX - c.u(3); what = "block_size"; } else { g.lz.depth = 0; g.lz.lc = 8; what = "lc=8"; } break;
	}
	set_desc("{\"mode\":\"estx\",\"sub\":\"invalid\",\"broken\":\"" + std::string(what) + "\",\"cfg\":" + g.describe() + "}");
	lzma_mt mt; uint64_t est;
	// (no g.link(): it would undo the damage done to filters[])
	if (g.entry == ec::E_STREAM_MT) { fill_mt(mt, g); if (mt_break_threads) mt.threads = c.flag() ? 0 : 16385 + c.u(100); if (mt_break_flags) mt.flags = 1u << c.u(32); est = lzma_stream_encoder_mt_memusage(&mt); }
	else if (g.entry == ec::E_EASY) est = lzma_easy_encoder_memusage(g.preset);
	else est = lzma_raw_encoder_memusage(g.filters);
	if (!al.balanced()) harness_bug("allocator not balanced"); al.reset_counters();
	lzma_stream s = LZMA_STREAM_INIT; s.allocator = &al.a; lzma_ret ir;
	if (g.entry == ec::E_STREAM_MT) ir = lzma_stream_encoder_mt(&s, &mt);
	else if (g.entry == ec::E_EASY) ir = lzma_easy_encoder(&s, g.preset, g.check);
	else if (g.entry == ec::E_STREAM) ir = lzma_stream_encoder(&s, g.filters, g.check);
	else ir = lzma_raw_encoder(&s, g.filters);
	uint64_t peak = al.peak;
	if (ir == LZMA_OK) { static const uint8_t z[64] = {1, 2, 3}; uint8_t ob[4096]; s.next_in = z; s.avail_in = sizeof z; s.next_out = ob; s.avail_out = sizeof ob; for (int i = 0; i < 50 && lzma_code(&s, LZMA_FINISH) == LZMA_OK; ++i) { s.next_out = ob; s.avail_out = sizeof ob; } peak = al.peak; }
	lzma_end(&s);
	if (!al.balanced()) violation("C10:leak-after-end", "encoder init with broken options (%s): %llu bytes live after lzma_end", what, (unsigned long long)al.live_bytes);
	if (ir == LZMA_MEM_ERROR) { count("environment_mem_error_other"); return; }
	if (est == UINT64_MAX && ir == LZMA_OK) violation("C09:estimate-max-but-init-ok", "%s encoder with %s: memusage function says UINT64_MAX but initialisation succeeded", ec::entry_names[g.entry], what);
	if (ir == LZMA_OK && peak > est) violation("C09:encoder-estimate-too-small", "%s encoder with %s accepted: estimate %llu < peak %llu", ec::entry_names[g.entry], what, (unsigned long long)est, (unsigned long long)peak);
	count(std::string("estx_invalid_") + (ir == LZMA_OK ? "accepted" : "rejected") + (est == UINT64_MAX ? "_est_max" : "_est_finite"));
	// decoder side for raw chains
	if (g.entry == ec::E_RAW && (g.lz.dict_size <= (64u << 20) || c09::rare(c, 16))) {
		uint64_t de = lzma_raw_decoder_memusage(g.filters); al.reset_counters();
		lzma_stream d = LZMA_STREAM_INIT; d.allocator = &al.a; lzma_ret dr = lzma_raw_decoder(&d, g.filters); uint64_t dpeak = al.peak; lzma_end(&d);
		if (!al.balanced()) violation("C10:leak-after-end", "raw decoder init with broken options (%s): %llu bytes live after lzma_end", what, (unsigned long long)al.live_bytes);
		if (dr == LZMA_MEM_ERROR) { count(al.refused_cap ? "environment_alloc_cap" : "environment_mem_error_other"); return; }
		if (de == UINT64_MAX && dr == LZMA_OK) violation("C09:estimate-max-but-init-ok", "raw decoder with %s: lzma_raw_decoder_memusage says UINT64_MAX but initialisation succeeded", what);
		if (dr == LZMA_OK && dpeak > de) violation("C09:decoder-estimate-too-small", "raw decoder with %s accepted: estimate %llu < peak %llu", what, (unsigned long long)de, (unsigned long long)dpeak);
	}
	nontrivial(hcomb(g.hash(), hcomb(br, est == UINT64_MAX)));
}
