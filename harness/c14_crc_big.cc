// c14_crc_big.cc - C14: lzma_crc32 / lzma_crc64 over a single buffer of more than 4 GiB (lengths whose upper 32 bits are not zero).
// The buffer is a private anonymous mapping (zero pages, never written except a few bytes at both ends), so no memory is committed.
// Reference: the bitwise definition (ref/crc.h) for the head and the tail, and for the run of zero bytes in between the linear
// "advance the CRC register over n zero bytes" operator, raised to the n-th power by squaring of a GF(2) matrix - independent of
// any table or slicing code.  Built in the `gen` variant (table-driven code) and in the default one (CLMUL on this CPU).
// usage: c14_crc_big [extra MiB above 4 GiB, default 3] [one]; prints one JSON line; exit 0 ok, 1 violation, 2 harness problem.
#include <lzma.h>
#include <stdio.h>
#include <stdlib.h>
#include <stdint.h>
#include <string.h>
#include <sys/mman.h>
#include "ref/crc.h"

// state' = M^(8n) * state, where one application of the single-bit step is: s = (s & 1) ? (s >> 1) ^ poly : (s >> 1)
template <typename T, int W> struct Zeros {
	T m[W];                                                     // m[i] = image of the unit vector with bit i set
	static T apply(const T *mat, T v) { T r = 0; for (int i = 0; v; ++i, v >>= 1) if (v & 1) r ^= mat[i]; return r; }
	static void square(T *dst, const T *src) { for (int i = 0; i < W; ++i) dst[i] = apply(src, src[i]); }
	static T advance(T state, uint64_t nbytes, T poly) {
		T op[W], tmp[W];
		for (int i = 0; i < W; ++i) { T s = (T)1 << i; op[i] = (s & 1) ? (s >> 1) ^ poly : (s >> 1); }   // one bit
		for (int k = 0; k < 3; ++k) { square(tmp, op); memcpy(op, tmp, sizeof op); }                        // eight bits = one byte
		while (nbytes) { if (nbytes & 1) state = apply(op, state); square(tmp, op); memcpy(op, tmp, sizeof op); nbytes >>= 1; }
		return state;
	}
};

int main(int argc, char **argv) {
	const uint64_t extra = (uint64_t)(argc > 1 ? atoi(argv[1]) : 3) << 20;
	const size_t L = (size_t)((1ull << 32) + extra + 12345);
	uint8_t *buf = (uint8_t *)mmap(NULL, L, PROT_READ | PROT_WRITE, MAP_PRIVATE | MAP_ANONYMOUS | MAP_NORESERVE, -1, 0);
	if (buf == MAP_FAILED) { printf("{\"ok\":false,\"what\":\"mmap of %zu bytes failed\"}\n", L); return 2; }
	const size_t H = 100, T = 100;
	for (size_t i = 0; i < H; ++i) buf[i] = (uint8_t)(i * 7 + 1);
	for (size_t i = 0; i < T; ++i) buf[L - T + i] = (uint8_t)(i * 13 + 5);
	int rc = 0;
	const int noff = (argc > 2 && !strcmp(argv[2], "one")) ? 1 : 2;
	for (int off = 0; off < noff && !rc; ++off) {              // aligned and unaligned start
		const uint8_t *p = buf + off; const size_t n = L - off;
		// reference CRC32
		uint32_t s32 = ~ref::crc32(p, H - off, 0);              // register after the head
		s32 = Zeros<uint32_t, 32>::advance(s32, (uint64_t)(n - (H - off) - T), 0xEDB88320u);
		const uint32_t want32 = ref::crc32(buf + L - T, T, ~s32);
		uint64_t s64 = ~ref::crc64(p, H - off, 0);
		s64 = Zeros<uint64_t, 64>::advance(s64, (uint64_t)(n - (H - off) - T), 0xC96C5795D7870F42ull);
		const uint64_t want64 = ref::crc64(buf + L - T, T, ~s64);
		const uint32_t got32 = lzma_crc32(p, n, 0);
		const uint64_t got64 = lzma_crc64(p, n, 0);
		if (got32 != want32) { printf("{\"ok\":false,\"signature\":\"C14:crc32-value\",\"what\":\"lzma_crc32 over %zu bytes (start offset %d) = %08x, the definition gives %08x\"}\n", n, off, got32, want32); rc = 1; }
		else if (got64 != want64) { printf("{\"ok\":false,\"signature\":\"C14:crc64-value\",\"what\":\"lzma_crc64 over %zu bytes (start offset %d) = %016llx, the definition gives %016llx\"}\n", n, off, (unsigned long long)got64, (unsigned long long)want64); rc = 1; }
	}
	// self-check of the zero-run operator on a short buffer against the plain bitwise definition
	{ uint8_t z[5000]; memset(z, 0, sizeof z); z[0] = 0x42; uint32_t s = ~ref::crc32(z, 1, 0); s = Zeros<uint32_t, 32>::advance(s, sizeof z - 1, 0xEDB88320u); if ((uint32_t)~s != ref::crc32(z, sizeof z, 0)) { printf("{\"ok\":false,\"what\":\"zero-run operator self-check failed\"}\n"); return 2; } }
	munmap(buf, L);
	if (!rc) printf("{\"ok\":true,\"bytes\":%zu,\"functions\":[\"lzma_crc32\",\"lzma_crc64\"],\"alignments\":%d}\n", L, noff);
	return rc;
}
