// t_c10.cc - C10: allocation failure at any point is reported cleanly, nothing leaks.
//
// case = one *scenario* (a short program over the public API, fully decided by the case bytes) ; the target then runs it
//   1. fault free (counts the allocations K, records every result = the reference transcript),
//   2. INNER LOOP, exhaustive: for every k in 1..K  "fail only the k-th allocation" and "fail the k-th and all later ones",
//   3. with two case-chosen random failure masks.
// Scenario families: every encoder/decoder initialiser + coding loop (incl. threaded encoder/decoder with 2 threads, index
// encoder/decoder, file-info decoder, MicroLZMA), the single-call *_buffer_* functions, lzma_index_* manipulation, filter-chain
// functions (copy, str_to/from/list, properties/flags/block-header decode), lzma_filters_update in the middle of encoding, and
// re-use of one lzma_stream for 2-4 different coders without lzma_end in between.
//
// Oracle, per API call (what "memory error" looks like is known per function: LZMA_MEM_ERROR / NULL / non-NULL message):
//   * reported memory error => a failure was really delivered by the allocator since the last report; caller-owned objects are
//     unchanged (filter arrays + options byte for byte, indexes through getters + full iteration, destination arrays untouched,
//     positions not advanced); a failed initialisation leaves nothing of the handle allocated; the handle can be ended or
//     re-initialised (with or without lzma_end) and then produces exactly the fault-free result;
//   * no memory error reported => the result equals the fault-free transcript (a failed optional allocation must not change results);
//   * always: no sanitizer report, no double free / free of a pointer the allocator does not know, and when the scenario has ended or
//     freed everything: every byte has been returned (va::Alloc::balanced()).
// Not asserted: which call of a threaded coder reports a failure that hit a worker thread (any later lzma_code may), the exact
// message text of lzma_str_to_filters, output produced before a failing lzma_code (unspecified).
#include "vgen.h"
#include "drv.h"
#include "enccfg.h"
#include "common.h"
#include "alloc.h"
#include "ref/crc.h"
#include <functional>
#include <memory>

using namespace vg;

static va::Alloc *g_alp;
static bool rare(Case &c, unsigned num) { return num && c.byte() > 255u - num; }   // false when the case bytes have run out
static va::Alloc &AL() { if (!g_alp) { g_alp = new va::Alloc(); g_alp->cap = 256u << 20; } return *g_alp; }

static const char *const SIG_MT_STALE = "C10:mt-encoder-stale-thread-error-after-reinit";

// ---- one execution of a scenario ----------------------------------------------------------------------------------------
struct Step { std::string api; uint64_t value; };
struct Run {
	va::Alloc &al; const std::vector<Step> *ref; std::vector<Step> rec; const char *scen; std::string plan;
	uint64_t failed_at_last_report = 0; unsigned reports = 0;
	Run(va::Alloc &a, const std::vector<Step> *r, const char *s) : al(a), ref(r), scen(s) {}
	std::string where(const char *api) const { return std::string(scen) + "/" + api + " [" + plan + ", step " + std::to_string(rec.size()) + "]"; }
	// the API reported a memory error
	void memfail(const char *api) {
		if (!ref) violation("C10:mem-error-without-fault", "%s: memory error reported in the fault-free run", where(api).c_str());
		// every report must be backed by a failure that was really delivered; a failure that hit a worker thread may be reported by a later
		// call than one that hit the calling thread, so reports are matched to failures by count, not by order
		++reports;
		if (reports > al.failed) violation("C10:spurious-mem-error", "%s: %u memory errors reported so far but the allocator has failed only %llu requests", where(api).c_str(), reports, (unsigned long long)al.failed);
		failed_at_last_report = al.failed;
		bad_free(api);
	}
	// the API did not report a memory error: its observable result must be what the fault-free run saw at this point of the program
	void result(const char *api, uint64_t v) {
		bad_free(api);
		if (ref) {
			size_t i = rec.size();
			if (i >= ref->size() || (*ref)[i].api != api) violation("C10:harness-transcript", "%s: transcript out of step with the fault-free run (expected %s)", where(api).c_str(), i < ref->size() ? (*ref)[i].api.c_str() : "end");
			if ((*ref)[i].value != v) violation("C10:result-differs-after-failed-allocation", "%s: no memory error reported but the result (%llx) differs from the fault-free run (%llx); allocation failures delivered so far: %llu", where(api).c_str(),
				(unsigned long long)v, (unsigned long long)(*ref)[i].value, (unsigned long long)al.failed);
		}
		rec.push_back({api, v});
	}
	// a step whose result legitimately differs from the fault-free run (e.g. an update that was refused): keep the transcript in step
	void skip(const char *api) { if (!ref) harness_bug("skip in the fault-free run"); size_t i = rec.size(); if (i >= ref->size() || (*ref)[i].api != api) violation("C10:harness-transcript", "%s: transcript out of step", where(api).c_str()); rec.push_back((*ref)[i]); }
	void bad_free(const char *api) { if (al.double_free || al.unknown_free) violation("C10:bad-free", "%s: %s", where(api).c_str(), al.double_free ? "double free" : "free of a pointer that was not allocated (or already freed)"); }
	void expect_live(const char *api, uint64_t want, const char *why) {
		if (al.live_bytes != want) violation("C10:leak", "%s: %llu bytes in %zu blocks live, expected %llu (%s)", where(api).c_str(), (unsigned long long)al.live_bytes, al.live.size(), (unsigned long long)want, why);
	}
	// retry helper: after the first repeated failure the faults are switched off ("memory is available again")
	void next_try(unsigned t, const char *api) { if (t >= 1) al.plan_none(); if (t > 3) violation("C10:mem-error-without-fault", "%s: still reports a memory error with the failure plan switched off", where(api).c_str()); }
};

static uint64_t hash_result(const drv::Result &R) { uint64_t h = hcomb((uint64_t)R.ret, R.total_in); h = hcomb(h, R.out.size()); if (!R.out.empty()) h = hcomb(h, hash_bytes(R.out.data(), R.out.size())); return h; }

// caller-owned filter chain with a byte-exact snapshot
struct Chain {
	lzma_filter f[LZMA_FILTERS_MAX + 1]; lzma_options_lzma lz; lzma_options_delta dl; lzma_options_bcj bcj; unsigned n = 0; std::vector<uint8_t> snap;
	Chain() { memset(f, 0, sizeof f); memset(&lz, 0, sizeof lz); memset(&dl, 0, sizeof dl); memset(&bcj, 0, sizeof bcj); }
	Chain(const Chain &) = delete;
	// kind: 0 lzma2, 1 delta+lzma2, 2 x86+lzma2, 3 arm64+delta+lzma2, 4 lzma1, 5 delta+lzma1
	void make(unsigned kind, unsigned lclppb = 0) {
		if (lzma_lzma_preset(&lz, 0)) harness_bug("preset"); lz.dict_size = 4096; lz.nice_len = 8; lz.depth = 1;
		static const uint8_t t[][3] = {{3, 0, 2}, {0, 2, 0}, {1, 1, 1}, {4, 0, 4}}; lz.lc = t[lclppb & 3][0]; lz.lp = t[lclppb & 3][1]; lz.pb = t[lclppb & 3][2];
		dl.type = LZMA_DELTA_TYPE_BYTE; dl.dist = 3; bcj.start_offset = 16; n = 0;
		bool l1 = kind >= 4; unsigned k = l1 ? kind - 4 : kind;
		if (k == 2) { f[n].id = LZMA_FILTER_X86; f[n++].options = &bcj; }
		if (k == 3) { f[n].id = LZMA_FILTER_ARM64; f[n++].options = NULL; }
		if (k == 1 || k == 3) { f[n].id = LZMA_FILTER_DELTA; f[n++].options = &dl; }
		f[n].id = l1 ? LZMA_FILTER_LZMA1 : LZMA_FILTER_LZMA2; f[n++].options = &lz; f[n].id = LZMA_VLI_UNKNOWN; f[n].options = NULL;
		snap = bytes();
	}
	std::vector<uint8_t> bytes() const { std::vector<uint8_t> v; auto add = [&](const void *p, size_t l) { const uint8_t *b = (const uint8_t *)p; v.insert(v.end(), b, b + l); };
		for (unsigned i = 0; i <= n; ++i) { add(&f[i].id, sizeof f[i].id); add(&f[i].options, sizeof f[i].options); } add(&lz, sizeof lz); add(&dl, sizeof dl); add(&bcj, sizeof bcj); return v; }
	void check_unchanged(Run &r, const char *api) const { if (bytes() != snap) violation("C10:caller-object-modified", "%s: the caller's filter array / options were modified", r.where(api).c_str()); }
};

// ---- coders: init + coding loop -------------------------------------------------------------------------------------------
enum CoderKind { CK_ENC_EASY, CK_ENC_STREAM, CK_ENC_MT, CK_ENC_ALONE, CK_ENC_RAW, CK_ENC_BLOCK, CK_ENC_MICRO, CK_ENC_INDEX,
	CK_DEC_STREAM, CK_DEC_MT, CK_DEC_AUTO, CK_DEC_ALONE, CK_DEC_LZIP, CK_DEC_RAW, CK_DEC_BLOCK, CK_DEC_MICRO, CK_DEC_INDEX, CK_DEC_FILEINFO, CK_N };
static const char *ck_names[] = {"easy_encoder", "stream_encoder", "stream_encoder_mt", "alone_encoder", "raw_encoder", "block_encoder", "microlzma_encoder", "index_encoder",
	"stream_decoder", "stream_decoder_mt", "auto_decoder", "alone_decoder", "lzip_decoder", "raw_decoder", "block_decoder", "microlzma_decoder", "index_decoder", "file_info_decoder"};

struct Coder {
	int kind = CK_ENC_EASY; Chain ch; lzma_check check = LZMA_CHECK_CRC32; uint32_t preset = 0; unsigned threads = 2; uint64_t block_size = 4096;
	std::vector<uint8_t> plain, input;    // input = what is fed to lzma_code (plain for encoders, encoded for decoders)
	lzma_block blk; lzma_filter blk_filters[LZMA_FILTERS_MAX + 1]; std::vector<uint8_t> blk_header;
	lzma_index *src_index = nullptr;      // caller-owned (malloc) index for the index encoder
	uint64_t src_index_digest = 0;
	lzma_index *out_index = nullptr;      // result of index / file-info decoders (allocator-owned until freed)
	uint64_t micro_comp = 0, micro_uncomp = 0;
	drv::Schedule sch;
	Coder() { memset(&blk, 0, sizeof blk); memset(blk_filters, 0, sizeof blk_filters); }
	Coder(const Coder &) = delete;
	~Coder() { if (src_index) lzma_index_end(src_index, NULL); }
};

static bool idx_real(const lzma_index *i) { return i != NULL && i != (const lzma_index *)(uintptr_t)8; }   // 8 = the sentinel stored before init
static uint64_t index_digest(const lzma_index *i) {
	if (!i) return 0x1d;
	uint64_t h = hcomb(lzma_index_stream_count(i), lzma_index_block_count(i));
	h = hcomb(h, lzma_index_total_size(i)); h = hcomb(h, lzma_index_file_size(i)); h = hcomb(h, lzma_index_uncompressed_size(i)); h = hcomb(h, lzma_index_checks(i)); h = hcomb(h, lzma_index_size(i)); h = hcomb(h, lzma_index_stream_size(i));
	lzma_index_iter it; memset(&it, 0, sizeof it); lzma_index_iter_init(&it, i);
	while (!lzma_index_iter_next(&it, LZMA_INDEX_ITER_ANY)) {
		h = hcomb(h, hcomb(it.stream.number, it.stream.block_count)); h = hcomb(h, hcomb(it.stream.compressed_offset, it.stream.padding)); h = hcomb(h, it.stream.flags ? 1 + (uint64_t)it.stream.flags->check : 0);
		if (it.stream.block_count) { h = hcomb(h, it.block.number_in_file); h = hcomb(h, hcomb(it.block.compressed_file_offset, it.block.uncompressed_file_offset)); h = hcomb(h, hcomb(it.block.unpadded_size, it.block.uncompressed_size)); }
	}
	return h;
}

static lzma_ret coder_init(lzma_stream *s, Coder &c) {
	switch (c.kind) {
	case CK_ENC_EASY: return lzma_easy_encoder(s, c.preset, c.check);
	case CK_ENC_STREAM: return lzma_stream_encoder(s, c.ch.f, c.check);
	case CK_ENC_MT: { lzma_mt m; memset(&m, 0, sizeof m); m.threads = c.threads; m.block_size = c.block_size; m.filters = c.ch.f; m.check = c.check; return lzma_stream_encoder_mt(s, &m); }
	case CK_ENC_ALONE: return lzma_alone_encoder(s, &c.ch.lz);
	case CK_ENC_RAW: return lzma_raw_encoder(s, c.ch.f);
	case CK_ENC_BLOCK: return lzma_block_encoder(s, &c.blk);
	case CK_ENC_MICRO: return lzma_microlzma_encoder(s, &c.ch.lz);
	case CK_ENC_INDEX: return lzma_index_encoder(s, c.src_index);
	case CK_DEC_STREAM: return lzma_stream_decoder(s, UINT64_MAX, LZMA_CONCATENATED);
	case CK_DEC_MT: { lzma_mt m; memset(&m, 0, sizeof m); m.threads = c.threads; m.flags = LZMA_CONCATENATED; m.memlimit_threading = UINT64_MAX; m.memlimit_stop = UINT64_MAX; return lzma_stream_decoder_mt(s, &m); }
	case CK_DEC_AUTO: return lzma_auto_decoder(s, UINT64_MAX, 0);
	case CK_DEC_ALONE: return lzma_alone_decoder(s, UINT64_MAX);
	case CK_DEC_LZIP: return lzma_lzip_decoder(s, UINT64_MAX, 0);
	case CK_DEC_RAW: return lzma_raw_decoder(s, c.ch.f);
	case CK_DEC_BLOCK: return lzma_block_decoder(s, &c.blk);
	case CK_DEC_MICRO: return lzma_microlzma_decoder(s, c.micro_comp, c.micro_uncomp, true, c.ch.lz.dict_size);
	case CK_DEC_INDEX: c.out_index = (lzma_index *)(uintptr_t)8; return lzma_index_decoder(s, &c.out_index, UINT64_MAX);
	case CK_DEC_FILEINFO: c.out_index = (lzma_index *)(uintptr_t)8; return lzma_file_info_decoder(s, &c.out_index, UINT64_MAX, c.input.size());
	default: return LZMA_PROG_ERROR;
	}
}

// the coding loop; returns the result (ret, output, total_in); for index/file-info decoders the output is the digest of the index
static drv::Result coder_code(lzma_stream *s, Coder &c, size_t limit_in = SIZE_MAX) {
	drv::Result R; size_t n = std::min(c.input.size(), limit_in);
	if (c.kind == CK_DEC_FILEINFO) {
		uint64_t cur = 0; unsigned idle = 0; size_t calls = 0; const uint64_t fsize = c.input.size(); lzma_ret r;
		for (;;) { s->next_in = c.input.data() + cur; s->avail_in = (size_t)(fsize - cur); r = lzma_code(s, LZMA_RUN); ++calls; size_t used = (size_t)(fsize - cur) - s->avail_in; cur += used;
			if (r == LZMA_SEEK_NEEDED) { cur = s->seek_pos; idle = 0; if (cur > fsize) violation("C13:fileinfo-seek-beyond-file", "seek beyond the file"); }
			else if (r == LZMA_OK) { if (!used && ++idle > 4) break; } else break;
			if (calls > 1000) break; }
		R.ret = r; R.total_in = s->total_in; R.calls = calls; return R;
	}
	if (c.kind == CK_ENC_MICRO) {
		static uint8_t z[1]; R.out.resize(c.micro_comp ? c.micro_comp : 64);
		s->next_in = c.input.empty() ? z : c.input.data(); s->avail_in = n; s->next_out = R.out.data(); s->avail_out = R.out.size();
		R.ret = lzma_code(s, LZMA_FINISH); R.total_in = s->total_in; R.out.resize(s->total_out); return R;
	}
	drv::Opts o; o.out_cap = 4u << 20; if (c.kind == CK_ENC_MT || c.kind == CK_DEC_MT) o.idle_limit = 100000;
	if (limit_in != SIZE_MAX) o.final_action = LZMA_RUN;
	return drv::run(s, c.input.data(), n, c.sch, o);
}

// value recorded for a finished coding loop
static uint64_t coder_value(Coder &c, const drv::Result &R) {
	uint64_t h = hash_result(R);
	if (c.kind == CK_DEC_INDEX || c.kind == CK_DEC_FILEINFO) h = hcomb(h, R.ret == LZMA_STREAM_END ? index_digest(idx_real(c.out_index) ? c.out_index : NULL) : (idx_real(c.out_index) ? 0xBAD : 0));
	return h;
}
static void coder_release(Run &r, Coder &c) { if ((c.kind == CK_DEC_INDEX || c.kind == CK_DEC_FILEINFO) && c.out_index && c.out_index != (lzma_index *)(uintptr_t)8) { lzma_index_end(c.out_index, &r.al.a); } c.out_index = nullptr; }

static void coder_check_owned(Run &r, Coder &c, const char *api) {
	c.ch.check_unchanged(r, api);
	if (c.src_index && index_digest(c.src_index) != c.src_index_digest) violation("C10:caller-object-modified", "%s: the caller's lzma_index was modified", r.where(api).c_str());
}

// init with retry on a stream that is fresh or ended (foreign = bytes that belong to other live objects of the scenario)
static void coder_init_retry(Run &r, lzma_stream *s, Coder &c, uint64_t foreign, unsigned after_fail) {
	const char *api = ck_names[c.kind];
	for (unsigned t = 0;; ++t) {
		lzma_ret ir = coder_init(s, c);
		coder_check_owned(r, c, api);
		if (ir != LZMA_MEM_ERROR) { r.result(api, (uint64_t)ir); if (ir != LZMA_OK) harness_bug("%s init: %s", api, drv::retname(ir)); return; }
		r.memfail(api);
		r.expect_live(api, foreign, "a failed initialisation must leave nothing of the handle allocated");
		if ((c.kind == CK_DEC_INDEX || c.kind == CK_DEC_FILEINFO) && c.out_index != NULL && c.out_index != (lzma_index *)(uintptr_t)8) violation("C10:output-on-failure", "%s: *index set to a new pointer by a failed initialisation", r.where(api).c_str());
		if (after_fail & 1) { lzma_end(s); r.expect_live(api, foreign, "lzma_end after a failed initialisation"); }
		r.next_try(t, api);
	}
}

// a complete coder life: init, code, end.  after_fail bit0: lzma_end before re-initialising after a failed init; bit1: same after a failed lzma_code
static void scen_coder(Run &r, Coder &c, unsigned after_fail) {
	lzma_stream s = LZMA_STREAM_INIT; s.allocator = &r.al.a;
	coder_init_retry(r, &s, c, 0, after_fail);
	drv::Result R = coder_code(&s, c);
	coder_check_owned(r, c, "lzma_code");
	if (R.ret == LZMA_MEM_ERROR) {
		r.memfail("lzma_code");
		if ((c.kind == CK_DEC_INDEX || c.kind == CK_DEC_FILEINFO) && idx_real(c.out_index)) violation("C10:output-on-failure", "%s: *index points to an index after lzma_code returned LZMA_MEM_ERROR", r.where("lzma_code").c_str());
		// the handle can be ended or re-initialised, and then works
		// recorded finding candidate: stream_encoder_mt_init() clears thread_error before the workers of the previous run have stopped
		const bool stale_risk = c.kind == CK_ENC_MT && !(after_fail & 2);
		if ((after_fail & 2) || (stale_risk && known_finding(SIG_MT_STALE))) { lzma_end(&s); r.expect_live("lzma_end", 0, "lzma_end after LZMA_MEM_ERROR from lzma_code"); }
		r.al.plan_none();
		lzma_ret ir = coder_init(&s, c);
		if (ir != LZMA_OK) violation("C10:handle-unusable-after-failure", "%s: re-initialisation after LZMA_MEM_ERROR from lzma_code returned %s", r.where(ck_names[c.kind]).c_str(), drv::retname(ir));
		R = coder_code(&s, c);
		if (R.ret == LZMA_MEM_ERROR) violation(stale_risk ? SIG_MT_STALE : "C10:mem-error-without-fault", "%s: LZMA_MEM_ERROR with the failure plan switched off (after re-initialising the handle %s lzma_end)", r.where("lzma_code").c_str(), (after_fail & 2) ? "with" : "without");
	}
	if (R.call_bound) violation("C04:call-bound", "%s: coding loop stopped making progress", r.where("lzma_code").c_str());
	r.result("lzma_code", coder_value(c, R));
	lzma_end(&s);
	uint64_t idx_bytes = r.al.live_bytes;
	if (c.kind == CK_DEC_INDEX || c.kind == CK_DEC_FILEINFO) { if (!c.out_index || c.out_index == (lzma_index *)(uintptr_t)8) idx_bytes = 0; }
	else idx_bytes = 0;
	r.expect_live("lzma_end", idx_bytes, "after lzma_end only the decoded index may remain");
	coder_release(r, c);
	r.expect_live("lzma_index_end", 0, "everything freed");
}

#include "c10_scen.h"
