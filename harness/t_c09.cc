// t_c09.cc - C09: memory limits honoured, estimates are upper bounds.
//
// Modes (chosen by the first case byte):
//   limit   single-threaded decoders with a limit (stream / auto / alone / lzip) on files whose headers declare
//           dictionary sizes 4 KiB .. 4 GiB-1 over tiny payloads (c09_build.h)
//   mt      lzma_stream_decoder_mt: memlimit_threading / memlimit_stop, 1..8 threads, Blocks with different needs
//   index   lzma_index_decoder, lzma_index_buffer_decode, lzma_file_info_decoder with a limit; lzma_index_memusage/memused
//   est     *_memusage() of encoders / decoders against the peak of the really initialised and run coder
//   estx    decoder chains over the whole declared range (init only), invalid options => UINT64_MAX only then
//
// Oracle (va::Alloc counts every byte liblzma holds):
//   (1) peak live bytes <= limit in force + A, A fixed (64 KiB; threaded: + 2 KiB per thread), checked at every
//       LZMA_MEMLIMIT_ERROR and at the end of the run;
//   (2) at LZMA_MEMLIMIT_ERROR: lzma_memlimit_get() == limit, lzma_memusage() == need > limit, the need is the same one
//       a discovery run (limit 1, always raised to exactly the reported need) saw, lzma_memlimit_set(need-1) is refused
//       and changes nothing, lzma_memlimit_set(new >= need) is accepted, decoding continues, and status/bytes/total_in
//       equal the unlimited run; a limit below some need never decodes past that Block without the error;
//   (3) threaded: peak <= memlimit_stop + A always; peak <= memlimit_threading + A whenever the largest need of any
//       Block (as reported through the public API by the single-threaded decoder) <= memlimit_threading (container.h:
//       "if memlimit_threading cannot be met even in single-threaded mode ... may be exceeded");
//   (4) estimate >= peak, no allowance; UINT64_MAX => initialisation fails.
// Not asserted: exact equality of estimates and usage, which thread count the threaded decoder picks, the plaintext
// (C01), MT == ST byte equality beyond status/bytes (C07), behaviour after LZMA_MEM_ERROR from the 2 GiB allocator cap
// (counted as environment).
#include "vgen.h"
#include "drv.h"
#include "enccfg.h"
#include "common.h"
#include "alloc.h"
#include "c09_build.h"
#include <time.h>

using namespace vg;

static va::Alloc *g_alp;
static va::Alloc &AL() { if (!g_alp) { g_alp = new va::Alloc(); g_alp->cap = 1ull << 31; } return *g_alp; }

static const uint64_t A_BASE = 64u << 10;
static uint64_t allowance(unsigned threads) { return A_BASE + (threads > 1 ? (2u << 10) * (uint64_t)threads : 0); }
static uint64_t sat_add(uint64_t a, uint64_t b) { return a > UINT64_MAX - b ? UINT64_MAX : a + b; }

// ---- measured slack (peak - limit) per family, reported as histogram classes and (VERIF_C09_REPORT) at exit
static int64_t g_slack_max[4] = {INT64_MIN, INT64_MIN, INT64_MIN, INT64_MIN};
static int64_t g_margin_min[2] = {INT64_MAX, INT64_MAX};   // estimate - peak: encoder, decoder
static const char *slack_names[] = {"st", "mt_stop", "mt_threading", "index"};
static void report_atexit() {
	if (!getenv("VERIF_C09_REPORT")) return;
	for (int i = 0; i < 4; ++i) if (g_slack_max[i] != INT64_MIN) fprintf(stderr, "C09-REPORT max slack (peak - limit) %s: %lld bytes\n", slack_names[i], (long long)g_slack_max[i]);
	if (g_margin_min[0] != INT64_MAX) fprintf(stderr, "C09-REPORT min margin (estimate - peak) encoder: %lld bytes\n", (long long)g_margin_min[0]);
	if (g_margin_min[1] != INT64_MAX) fprintf(stderr, "C09-REPORT min margin (estimate - peak) decoder: %lld bytes\n", (long long)g_margin_min[1]);
}
static void note_slack(int fam, uint64_t peak, uint64_t limit) {
	if (limit > (1ull << 62)) return;
	int64_t s = (int64_t)peak - (int64_t)limit;
	if (s > g_slack_max[fam]) g_slack_max[fam] = s;
	const char *b = s <= 0 ? "le0" : s <= 4096 ? "le4K" : s <= 16384 ? "le16K" : s <= 65536 ? "le64K" : "gt64K";
	count(std::string("slack_") + slack_names[fam] + "_" + b);
}
static void note_margin(int fam, uint64_t est, uint64_t peak) {
	int64_t m = (int64_t)est - (int64_t)peak; if (m < g_margin_min[fam]) g_margin_min[fam] = m;
}

// facts derived while the case runs are added to the (JSON) description
static void annotate(const std::string &key, const std::string &json_value) {
	std::string &cur = g_stats.current;
	if (cur.size() >= 2 && cur.back() == '}') { cur.pop_back(); cur += ",\"" + key + "\":" + json_value + "}"; }
}

// ---- decoders under test ---------------------------------------------------------------------------------
enum Kind { K_STREAM, K_AUTO, K_ALONE, K_LZIP, K_MT, K_INDEX, K_FILEINFO, K_N };
static const char *kind_names[] = {"stream", "auto", "alone", "lzip", "stream_mt", "index", "file_info"};
struct Dec { int kind = K_STREAM; uint32_t flags = 0; unsigned threads = 1; uint64_t threading = UINT64_MAX; lzma_index **idx = nullptr; uint64_t file_size = 0; };

static lzma_ret dec_init(lzma_stream *s, const Dec &d, uint64_t limit) {
	switch (d.kind) {
	case K_STREAM: return lzma_stream_decoder(s, limit, d.flags);
	case K_AUTO: return lzma_auto_decoder(s, limit, d.flags);
	case K_ALONE: return lzma_alone_decoder(s, limit);
	case K_LZIP: return lzma_lzip_decoder(s, limit, d.flags);
	case K_MT: { lzma_mt m; memset(&m, 0, sizeof m); m.flags = d.flags; m.threads = d.threads; m.timeout = 0; m.memlimit_threading = d.threading; m.memlimit_stop = limit; return lzma_stream_decoder_mt(s, &m); }
	case K_INDEX: return lzma_index_decoder(s, d.idx, limit);
	case K_FILEINFO: return lzma_file_info_decoder(s, d.idx, limit, d.file_size);
	default: return LZMA_PROG_ERROR;
	}
}

enum Policy { P_STOP, P_NEED, P_NEED1, P_TWICE, P_MAX, P_N };
static const char *policy_names[] = {"stop", "raise_to_need", "raise_to_need+1", "raise_to_2need", "raise_to_max"};
enum Sel { S_ONE, S_ZERO, S_HALF, S_MINUS1, S_EXACT, S_PLUS1, S_TWICE, S_MAX, S_N };
static const char *sel_names[] = {"1", "0", "need/2", "need-1", "need", "need+1", "2*need", "max"};
static uint64_t sel_limit(int sel, uint64_t N) {
	switch (sel) { case S_ONE: return 1; case S_ZERO: return 0; case S_HALF: return N / 2; case S_MINUS1: return N - 1; case S_EXACT: return N;
	case S_PLUS1: return sat_add(N, 1); case S_TWICE: return sat_add(N, N); default: return UINT64_MAX; }
}

// state of one limited run; handle_memlimit() is the whole of oracle (2) and is shared by the lzma_code hook and the file-info loop
struct Lim {
	const Dec *d = nullptr; va::Alloc *al = nullptr; uint64_t limit = 1; int policy = P_NEED; const std::vector<uint64_t> *ladder = nullptr; uint64_t A = A_BASE;
	std::vector<uint64_t> needs; unsigned events = 0; bool probe_lower = false, probed = false; uint64_t fresh_usage = 0;
	// cost governor: a need above this is checked like any other but the limit is not raised to it (ASan pays ~0.2 s per GiB really allocated)
	uint64_t raise_cap = UINT64_MAX; bool governed = false;
	// threaded decoder: an excess over memlimit_stop is recorded, not reported here, because the caller first finds out whether it is
	// reproducible (timing dependent excesses get their own signature)
	uint64_t mt_over_peak = 0, mt_over_limit = 0;
};

static void check_peak(Lim &L, const char *when) {
	if (L.al->refused_cap) return;
	if (L.al->peak > sat_add(L.limit, L.A)) {
		if (L.d->kind == K_MT) { if (!L.mt_over_peak) { L.mt_over_peak = L.al->peak; L.mt_over_limit = L.limit; } return; }
		violation(L.d->kind == K_MT ? "C09:mt-peak-above-stop-limit" : "C09:peak-above-limit", "%s decoder, %s: peak live bytes %llu > limit %llu + allowance %llu (excess over limit %llu)", kind_names[L.d->kind], when,
			(unsigned long long)L.al->peak, (unsigned long long)L.limit, (unsigned long long)L.A, (unsigned long long)(L.al->peak - L.limit));
	}
}

// returns false: stop the run here
static bool handle_memlimit(lzma_stream *s, Lim &L) {
	const char *kn = kind_names[L.d->kind];
	++L.events;
	uint64_t glim = lzma_memlimit_get(s);
	if (glim != L.limit) violation("C09:memlimit-get", "%s decoder: lzma_memlimit_get() = %llu at LZMA_MEMLIMIT_ERROR, limit in force %llu", kn, (unsigned long long)glim, (unsigned long long)L.limit);
	check_peak(L, "at LZMA_MEMLIMIT_ERROR");
	uint64_t rep = lzma_memusage(s), exp = 0;
	if (L.ladder) for (uint64_t n : *L.ladder) if (n > L.limit) { exp = n; break; }
	if (L.ladder && !exp) violation("C09:spurious-memlimit-error", "%s decoder: LZMA_MEMLIMIT_ERROR with limit %llu although the largest need seen by the discovery run is %llu (lzma_memusage() now %llu)", kn,
		(unsigned long long)L.limit, (unsigned long long)(L.ladder->empty() ? 0 : L.ladder->back()), (unsigned long long)rep);
	uint64_t need = rep; bool consistent = true;
	if (rep <= L.limit) {
		if (L.d->kind == K_MT) {
			if (!known_finding("C09:mt-memusage-after-memlimit"))
				violation("C09:mt-memusage-after-memlimit", "threaded decoder: after LZMA_MEMLIMIT_ERROR lzma_memusage() = %llu <= limit %llu: it does not report how much would be needed (single-threaded decoder reports %llu)",
					(unsigned long long)rep, (unsigned long long)L.limit, (unsigned long long)exp);
			need = exp; consistent = false; if (!need) return false;
		} else violation("C09:memusage-not-above-limit", "%s decoder: LZMA_MEMLIMIT_ERROR but lzma_memusage() = %llu <= limit %llu", kn, (unsigned long long)rep, (unsigned long long)L.limit);
	} else if (exp && rep != exp)
		violation("C09:need-differs-between-runs", "%s decoder: lzma_memusage() = %llu at LZMA_MEMLIMIT_ERROR with limit %llu, but the discovery run reported %llu for the first Block/Index above this limit", kn,
			(unsigned long long)rep, (unsigned long long)L.limit, (unsigned long long)exp);
	if (!L.needs.empty() && need <= L.needs.back() && L.policy != P_STOP) violation("C09:memlimit-no-progress", "%s decoder: need %llu reported again after the limit was raised to >= it", kn, (unsigned long long)need);
	L.needs.push_back(need);
	if (L.events > 200) violation("C09:memlimit-no-progress", "%s decoder: more than 200 LZMA_MEMLIMIT_ERROR in one run", kn);
	if (consistent) {
		// a limit below the reported usage is refused and nothing changes
		uint64_t x = (L.events & 1) ? need - 1 : std::max<uint64_t>(1, need / 2);
		lzma_ret q = lzma_memlimit_set(s, x);
		if (q != LZMA_MEMLIMIT_ERROR) violation("C09:memlimit-set-below-need-accepted", "%s decoder: lzma_memlimit_set(%llu) with lzma_memusage() %llu returned %s", kn, (unsigned long long)x, (unsigned long long)need, drv::retname(q));
		if (lzma_memlimit_get(s) != L.limit) violation("C09:memlimit-changed-by-refused-set", "%s decoder: refused lzma_memlimit_set(%llu) changed the limit %llu -> %llu", kn, (unsigned long long)x, (unsigned long long)L.limit, (unsigned long long)lzma_memlimit_get(s));
		if (lzma_memusage(s) != rep) violation("C09:memlimit-changed-by-refused-set", "%s decoder: refused lzma_memlimit_set changed lzma_memusage() %llu -> %llu", kn, (unsigned long long)rep, (unsigned long long)lzma_memusage(s));
	}
	if (L.policy == P_STOP) return false;
	if (need > L.raise_cap) { L.governed = true; return false; }
	uint64_t nl = L.policy == P_NEED ? need : L.policy == P_NEED1 ? sat_add(need, 1) : L.policy == P_TWICE ? sat_add(need, need) : UINT64_MAX;
	lzma_ret q = lzma_memlimit_set(s, nl);
	if (q != LZMA_OK) violation("C09:memlimit-raise-refused", "%s decoder: lzma_memlimit_set(%llu) after LZMA_MEMLIMIT_ERROR (need %llu, limit %llu) returned %s", kn, (unsigned long long)nl, (unsigned long long)need, (unsigned long long)L.limit, drv::retname(q));
	if (lzma_memlimit_get(s) != nl) violation("C09:memlimit-get", "%s decoder: lzma_memlimit_get() = %llu after lzma_memlimit_set(%llu)", kn, (unsigned long long)lzma_memlimit_get(s), (unsigned long long)nl);
	L.limit = nl;
	return true;
}

// after every lzma_code() that is not a memlimit error: the limit is what we set; once: a limit below the usage is refused
static void handle_other(lzma_stream *s, lzma_ret r, Lim &L) {
	uint64_t glim = lzma_memlimit_get(s);
	if (glim != L.limit) violation("C09:memlimit-get", "%s decoder: lzma_memlimit_get() = %llu after lzma_code() = %s, limit in force %llu", kind_names[L.d->kind], (unsigned long long)glim, drv::retname(r), (unsigned long long)L.limit);
	if (L.probe_lower && !L.probed && L.d->kind != K_MT && (r == LZMA_OK || r == LZMA_STREAM_END)) {
		uint64_t u = lzma_memusage(s);
		if (u > L.fresh_usage && u > 1) {
			L.probed = true;
			lzma_ret q = lzma_memlimit_set(s, u - 1);
			if (q != LZMA_MEMLIMIT_ERROR) violation("C09:memlimit-set-below-usage-accepted", "%s decoder: lzma_memusage() = %llu while decoding, lzma_memlimit_set(%llu) returned %s", kind_names[L.d->kind], (unsigned long long)u, (unsigned long long)(u - 1), drv::retname(q));
			if (lzma_memlimit_get(s) != L.limit) violation("C09:memlimit-changed-by-refused-set", "%s decoder: refused lzma_memlimit_set changed the limit", kind_names[L.d->kind]);
			count("probe_lower_refused");
		}
	}
}
static bool lim_hook(lzma_stream *s, lzma_ret r, void *arg) {
	Lim &L = *(Lim *)arg;
	if (r == LZMA_MEMLIMIT_ERROR) return handle_memlimit(s, L);
	handle_other(s, r, L); return true;
}

struct RunOut { drv::Result R; uint64_t peak = 0, final_limit = 0, end_usage = 0, live_after_end = 0; std::vector<uint64_t> needs; unsigned events = 0; bool env = false, governed = false; uint64_t mt_over_peak = 0, mt_over_limit = 0; };

static void finish_run(lzma_stream *s, Lim &L, RunOut &O, lzma_ret ret) {
	va::Alloc &al = *L.al;
	O.end_usage = lzma_memusage(s);
	if (ret != LZMA_MEMLIMIT_ERROR && ret != LZMA_MEM_ERROR && O.end_usage > L.fresh_usage && O.end_usage > L.limit)
		violation("C09:usage-above-limit", "%s decoder: finished with %s, lzma_memusage() = %llu > limit %llu and no LZMA_MEMLIMIT_ERROR was returned", kind_names[L.d->kind], drv::retname(ret), (unsigned long long)O.end_usage, (unsigned long long)L.limit);
	lzma_end(s);
	O.peak = al.peak; O.final_limit = L.limit; O.needs = L.needs; O.events = L.events; O.live_after_end = al.live_bytes; O.governed = L.governed;
	if (ret == LZMA_MEM_ERROR) { O.env = true; count(al.refused_cap ? "environment_alloc_cap" : "environment_mem_error_other"); }
	if (!O.env) check_peak(L, "at the end of the run");
	O.mt_over_peak = L.mt_over_peak; O.mt_over_limit = L.mt_over_limit;
	if (al.double_free || al.unknown_free) violation("C10:bad-free", "%s decoder: double free / free of unknown pointer", kind_names[L.d->kind]);
	if (!L.d->idx && !al.balanced()) violation("C10:leak-after-end", "%s decoder: %zu allocations (%llu bytes) live after lzma_end", kind_names[L.d->kind], al.live.size(), (unsigned long long)al.live_bytes);
}

static RunOut run_dec(const Dec &d, const uint8_t *in, size_t n, uint64_t limit0, int policy, const std::vector<uint64_t> *ladder, const drv::Schedule &sch, bool probe_lower, size_t out_hint, uint64_t raise_cap = UINT64_MAX, int set_before_input = 0) {
	va::Alloc &al = AL();
	if (!al.balanced()) harness_bug("allocator not balanced at the start of a run");
	al.reset_counters();
	RunOut O; lzma_stream s = LZMA_STREAM_INIT; s.allocator = &al.a;
	if (d.idx) *d.idx = NULL;
	// set_before_input: initialise with another limit (1: none, 2: twice the wanted one) and install the wanted limit with lzma_memlimit_set()
	// before the first byte is supplied - from then on the decoder must behave exactly as if it had been initialised with it
	const uint64_t init_limit = set_before_input == 1 ? UINT64_MAX : (set_before_input == 2 ? sat_add(std::max<uint64_t>(limit0, 1), std::max<uint64_t>(limit0, 1)) : limit0);
	lzma_ret ir = dec_init(&s, d, init_limit);
	if (ir == LZMA_MEM_ERROR) { lzma_end(&s); O.env = true; O.R.ret = ir; count("environment_mem_error_other"); return O; }
	if (ir != LZMA_OK) harness_bug("%s decoder init: %s", kind_names[d.kind], drv::retname(ir));
	if (set_before_input) {
		const uint64_t use0 = lzma_memusage(&s); const lzma_ret sr = lzma_memlimit_set(&s, limit0);
		if (std::max<uint64_t>(limit0, 1) >= use0) {
			if (sr != LZMA_OK) violation("C09:memlimit-set-refused", "%s decoder: lzma_memlimit_set(%llu) before any input returned %s although lzma_memusage() is %llu", kind_names[d.kind], (unsigned long long)limit0, drv::retname(sr), (unsigned long long)use0);
			count("limit_installed_with_memlimit_set_before_any_input");
		} else {
			// below the current usage: must be refused and change nothing; carry on with a decoder initialised with the wanted limit
			if (sr != LZMA_MEMLIMIT_ERROR) violation("C09:memlimit-set-below-usage", "%s decoder: lzma_memlimit_set(%llu) below lzma_memusage() = %llu returned %s", kind_names[d.kind], (unsigned long long)limit0, (unsigned long long)use0, drv::retname(sr));
			if (lzma_memlimit_get(&s) != std::max<uint64_t>(init_limit, 1)) violation("C09:memlimit-get", "%s decoder: a refused lzma_memlimit_set() changed the limit to %llu", kind_names[d.kind], (unsigned long long)lzma_memlimit_get(&s));
			ir = dec_init(&s, d, limit0);
			if (ir == LZMA_MEM_ERROR) { lzma_end(&s); O.env = true; O.R.ret = ir; count("environment_mem_error_other"); return O; }
			if (ir != LZMA_OK) harness_bug("%s decoder re-init: %s", kind_names[d.kind], drv::retname(ir));
			count("memlimit_set_before_input_below_usage_refused");
		}
	}
	Lim L; L.d = &d; L.al = &al; L.limit = std::max<uint64_t>(1, limit0); L.policy = policy; L.ladder = ladder; L.A = allowance(d.kind == K_MT ? d.threads : 1); L.probe_lower = probe_lower; L.raise_cap = raise_cap;
	L.fresh_usage = lzma_memusage(&s);
	if (lzma_memlimit_get(&s) != L.limit) violation("C09:memlimit-get", "%s decoder: lzma_memlimit_get() = %llu right after initialisation with limit %llu", kind_names[d.kind], (unsigned long long)lzma_memlimit_get(&s), (unsigned long long)limit0);
	if (L.fresh_usage == 0) violation("C09:memusage-zero", "%s decoder: lzma_memusage() = 0 for a decoder that takes a memlimit", kind_names[d.kind]);
	drv::Opts o; o.stop_on_memlimit = false; o.hook = lim_hook; o.hook_arg = &L; o.out_hint = out_hint; o.out_cap = 24u << 20; if (d.kind == K_MT) o.idle_limit = 2000;
	O.R = drv::run(&s, in, n, sch, o);
	finish_run(&s, L, O, O.R.ret);
	return O;
}

static void same_result(const char *what, const char *kind, const drv::Result &ref, const drv::Result &got, bool with_info) {
	if (ref.capped || got.capped || ref.call_bound || got.call_bound) { count("inconclusive_capped_or_bound"); return; }
	if (ref.ret == got.ret && ref.total_in == got.total_in && ref.out == got.out && (!with_info || ref.info == got.info)) return;
	size_t k = 0; while (k < ref.out.size() && k < got.out.size() && ref.out[k] == got.out[k]) ++k;
	violation("C09:result-differs-from-unlimited", "%s decoder, %s: unlimited {ret=%s total_in=%llu out=%zu} vs limited {ret=%s total_in=%llu out=%zu}, first difference at %zu, info equal=%d", kind, what,
		drv::retname(ref.ret), (unsigned long long)ref.total_in, ref.out.size(), drv::retname(got.ret), (unsigned long long)got.total_in, got.out.size(), k, (int)(ref.info == got.info));
}

// A file decoded with: discovery run (limit 1, raise to exactly the need), unlimited run, one run with a case-chosen limit/policy/slicing
struct Plan { int sel = S_EXACT; unsigned which = 0; int policy = P_NEED; drv::Schedule sch; bool probe_lower = false; };
static Plan draw_plan(Case &c) {
	Plan p; uint8_t k = c.byte();
	p.sel = k < 24 ? S_ONE : k < 32 ? S_ZERO : k < 72 ? S_HALF : k < 120 ? S_MINUS1 : k < 168 ? S_EXACT : k < 200 ? S_PLUS1 : k < 232 ? S_TWICE : S_MAX;
	p.which = c.byte();
	uint8_t q = c.byte(); p.policy = q < 70 ? P_STOP : q < 150 ? P_NEED : q < 185 ? P_NEED1 : q < 225 ? P_TWICE : P_MAX;
	p.sch = drv::draw_schedule(c, true); p.probe_lower = c.flag();
	return p;
}
static std::string plan_desc(const Plan &p) { return std::string("{\"limit\":\"") + sel_names[p.sel] + "\",\"which_need\":" + std::to_string(p.which) + ",\"policy\":\"" + policy_names[p.policy] + "\",\"probe_lower\":" + (p.probe_lower ? "true" : "false") + ",\"schedule\":" + p.sch.describe() + "}"; }

static void check_chosen(const Dec &d, const RunOut &C, uint64_t L0, const Plan &p, const std::vector<uint64_t> &ladder, const drv::Result *R0) {
	const char *kn = kind_names[d.kind];
	if (C.env) return;
	if (C.governed) { count("chosen_governed_big_need_not_raised"); return; }
	uint64_t maxneed = ladder.empty() ? 0 : ladder.back();
	if (C.R.ret == LZMA_MEMLIMIT_ERROR) {
		if (p.policy != P_STOP) violation("C09:memlimit-error-after-raise", "%s decoder: run ended with LZMA_MEMLIMIT_ERROR although the limit is raised after every such error", kn);
		if (R0 && !R0->capped && !C.R.capped) {
			if (C.R.out.size() > R0->out.size() || (C.R.out.size() && memcmp(C.R.out.data(), R0->out.data(), C.R.out.size())) || C.R.total_in > R0->total_in)
				violation("C09:output-before-memlimit-error", "%s decoder: the %zu bytes produced before LZMA_MEMLIMIT_ERROR are not a prefix of the unlimited run's %zu bytes (total_in %llu vs %llu)", kn, C.R.out.size(), R0->out.size(), (unsigned long long)C.R.total_in, (unsigned long long)R0->total_in);
		}
		count("chosen_stopped_at_memlimit");
	} else {
		if (R0 && R0->ret == LZMA_STREAM_END && maxneed > C.final_limit && !C.R.capped && !C.R.call_bound)
			violation("C09:limit-not-enforced", "%s decoder: finished with %s under limit %llu (initially %llu) although the discovery run needed %llu for some Block/Index of this file", kn, drv::retname(C.R.ret),
				(unsigned long long)C.final_limit, (unsigned long long)std::max<uint64_t>(1, L0), (unsigned long long)maxneed);
		if (R0) same_result(C.events ? "after raising the limit" : "limit never hit", kn, *R0, C.R, d.kind != K_MT);
		if (C.events) count("chosen_restarted");
	}
}

#include "c09_modes.h"

extern "C" size_t vfresh_max(void) { return 200; }

extern "C" int LLVMFuzzerTestOneInput(const uint8_t *data, size_t size) {
	begin_case("C09");
	{ static bool reg = false; if (!reg) { reg = true; atexit(report_atexit); } }
	Case c(data, size);
	unsigned m = c.u(16);
	static const bool timing = getenv("VERIF_C09_REPORT") != nullptr;   // diagnostics only: never influences a case
	struct timespec t0, t1; if (timing) clock_gettime(CLOCK_MONOTONIC, &t0);
	const char *mn;
	if (m < 6) { mn = "limit"; mode_limit(c); }
	else if (m < 10) { mn = "mt"; mode_mt(c); }
	else if (m < 12) { mn = "index"; mode_index(c); }
	else if (m < 15) { mn = "est"; mode_est(c); }
	else { mn = "estx"; mode_estx(c); }
	count(std::string("mode_") + mn);
	if (timing) { clock_gettime(CLOCK_MONOTONIC, &t1); uint64_t us = (uint64_t)((t1.tv_sec - t0.tv_sec) * 1000000ll + (t1.tv_nsec - t0.tv_nsec) / 1000); count(std::string("zz_us_mode_") + mn, us);
		if (us > 200000) fprintf(stderr, "C09-SLOW %llu us: %s\n", (unsigned long long)us, g_stats.current.substr(0, 600).c_str()); }
	return 0;
}
