// alloc.h - instrumented lzma_allocator: counting, failing, live-block table, hard cap.
// Thread-safe (worker threads allocate too) through a plain spinlock that is not
// routed through the controlled scheduler.
#pragma once
#include <lzma.h>
#include <stdlib.h>
#include <stdint.h>
#include <string.h>
#include <atomic>
#include <unordered_map>
#include <vector>
#include "vgen.h"

namespace va {

struct Alloc {
	lzma_allocator a;
	std::atomic_flag lock = ATOMIC_FLAG_INIT;
	std::unordered_map<void *, size_t> live;
	uint64_t live_bytes = 0, peak = 0, calls = 0, frees = 0;
	uint64_t cap = 1ull << 31;      // requests above: refused, counted as environment
	uint64_t refused_cap = 0;
	// failure plan
	uint64_t fail_at = 0;           // 1-based index of the allocation to fail (0: none)
	bool fail_from = false;         // fail fail_at and all later
	std::vector<uint8_t> fail_mask; // bit k-1 set => k-th allocation fails (if non-empty)
	std::atomic<uint64_t> failed{0};   // failures delivered (atomic: harnesses read it while worker threads allocate)
	bool double_free = false, unknown_free = false;
	bool poison = true;

	Alloc() { a.alloc = &s_alloc; a.free = &s_free; a.opaque = this; }
	Alloc(const Alloc &) = delete;
	void lk() { while (lock.test_and_set(std::memory_order_acquire)) {} }
	void ul() { lock.clear(std::memory_order_release); }

	static void *s_alloc(void *opaque, size_t nmemb, size_t size) {
		Alloc *self = (Alloc *)opaque;
		size_t n = nmemb * size; // liblzma always passes nmemb == 1
		self->lk();
		uint64_t k = ++self->calls;
		bool fail = false;
		if (self->fail_at && (k == self->fail_at || (self->fail_from && k > self->fail_at))) fail = true;
		if (!self->fail_mask.empty() && (k - 1) / 8 < self->fail_mask.size() && (self->fail_mask[(k - 1) / 8] >> ((k - 1) & 7) & 1)) fail = true;
		if (fail) { ++self->failed; self->ul(); return NULL; }
		if (n > self->cap) { ++self->refused_cap; self->ul(); return NULL; }
		self->ul();
		void *p = malloc(n ? n : 1);
		if (!p) return NULL;
		if (self->poison && n) memset(p, 0xA5, n < 4096 ? n : 4096); // make reliance on zeroed memory visible (cheaply)
		self->lk();
		self->live[p] = n; self->live_bytes += n; if (self->live_bytes > self->peak) self->peak = self->live_bytes;
		self->ul();
		return p;
	}
	static void s_free(void *opaque, void *p) {
		Alloc *self = (Alloc *)opaque;
		if (!p) return; // liblzma's lzma_free may pass NULL; documented as allowed
		self->lk();
		auto it = self->live.find(p);
		if (it == self->live.end()) { self->unknown_free = true; self->ul(); return; }
		self->live_bytes -= it->second; self->live.erase(it); ++self->frees;
		self->ul();
		free(p);
	}
	void reset_counters() { lk(); calls = 0; failed = 0; peak = live_bytes; refused_cap = 0; ul(); }
	void plan_none() { fail_at = 0; fail_from = false; fail_mask.clear(); }
	bool balanced() const { return live.empty() && live_bytes == 0; }
	// free whatever is still live (after reporting) so that ASan's leak checker stays quiet
	void drop_all() { for (auto &kv : live) free(kv.first); live.clear(); live_bytes = 0; }
	~Alloc() { drop_all(); }
};

} // namespace va
