// vmut.cc - LLVMFuzzerCustomMutator shared by all targets.
// With probability ~1/3 throw the input away and emit a fresh random case
// derived from Seed (so `-runs=N -seed=S` on an empty corpus is a seeded
// random structured generator); otherwise use libFuzzer's own mutations.
// A target may define  size_t vfix(uint8_t*, size_t size, size_t max, unsigned seed)
// (weak) to repair checksums etc. after a mutation.
#include <stdint.h>
#include <stddef.h>
#include <string.h>

extern "C" size_t LLVMFuzzerMutate(uint8_t *Data, size_t Size, size_t MaxSize);
extern "C" __attribute__((weak)) size_t vfix(uint8_t *Data, size_t Size, size_t MaxSize, unsigned Seed);
extern "C" __attribute__((weak)) size_t vfresh_max(void);

static inline uint64_t sm64(uint64_t &s) { s += 0x9E3779B97F4A7C15ull; uint64_t z = s;
	z = (z ^ (z >> 30)) * 0xBF58476D1CE4E5B9ull; z = (z ^ (z >> 27)) * 0x94D049BB133111EBull; return z ^ (z >> 31); }

extern "C" size_t LLVMFuzzerCustomMutator(uint8_t *Data, size_t Size, size_t MaxSize, unsigned int Seed) {
	uint64_t s = Seed * 0x2545F4914F6CDD1Dull + 1;
	uint64_t r = sm64(s);
	if (Size == 0 || (r % 3) == 0) {
		size_t cap = vfresh_max ? vfresh_max() : 96;
		if (cap > MaxSize) cap = MaxSize;
		size_t n = cap ? 8 + (size_t)(sm64(s) % cap) : 0;
		if (n > MaxSize) n = MaxSize;
		for (size_t i = 0; i < n; i += 8) { uint64_t v = sm64(s); size_t k = n - i < 8 ? n - i : 8; memcpy(Data + i, &v, k); }
		// make small values more common: zero some bytes
		size_t z = n / 4; for (size_t i = 0; i < z; ++i) Data[sm64(s) % n] = (uint8_t)(sm64(s) % 4);
		Size = n;
	} else {
		Size = LLVMFuzzerMutate(Data, Size, MaxSize);
	}
	if (vfix) Size = vfix(Data, Size, MaxSize, Seed);
	return Size;
}
