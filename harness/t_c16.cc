// t_c16.cc - C16: .lzma, .lz and auto-detection follow their format rules.
//
// Files are synthesised by construction (.lzma: 13-byte header written here + raw LZMA1 payload from liblzma's raw
// encoder, with or without end marker; .lz: header/footer written here + raw LZMA1 lc3/lp0/pb2 payload; .xz: 1-3
// Streams from lzma_stream_buffer_encode with Stream Padding / garbage), every header/footer field is varied, and the
// result is given to lzma_alone_decoder / lzma_lzip_decoder / lzma_stream_decoder(_mt) / lzma_auto_decoder under
// generated flags, final action (LZMA_RUN only vs LZMA_FINISH) and slicing.
//
// Oracle: independent models (ref::alone_decode, ref::lzip_decode, ref::xz_decode): liblzma succeeds exactly when
// the model accepts, with the same bytes and the same stop position; unrecognised formats => LZMA_FORMAT_ERROR;
// .lzma + anything under auto|CONCATENATED => LZMA_DATA_ERROR; auto == specific decoder (status, bytes, total_in,
// informational codes with the documented extra NO_CHECK/GET_CHECK for .lzma).
// Not asserted: which error code a rejected file gets (only FORMAT_ERROR where the documentation fixes it), bytes
// and total_in of rejected files, LZMA_MEM_ERROR from the capped allocator (environment).
#include "vgen.h"
#include "drv.h"
#include "common.h"
#include "alloc.h"
#include "ref/xzparse.h"
#include "ref/containers.h"
#include "ref/lzip.h"

using namespace vg;

static va::Alloc *g_alp;
static const lzma_allocator *AL() { if (!g_alp) { g_alp = new va::Alloc(); g_alp->cap = 600ull << 20; g_alp->poison = false; } return &g_alp->a; }
extern "C" size_t vfresh_max(void) { return 220; }

// true with probability ~num/256; false when the case bytes have run out (0 = the simplest choice)
static bool rare(Case &c, unsigned num) { return c.byte() >= 256 - num; }
static void put32(std::vector<uint8_t> &v, uint32_t x) { for (int i = 0; i < 4; ++i) v.push_back((uint8_t)(x >> (8 * i))); }
static void put64(std::vector<uint8_t> &v, uint64_t x) { for (int i = 0; i < 8; ++i) v.push_back((uint8_t)(x >> (8 * i))); }
static void wr32(uint8_t *p, uint32_t x) { for (int i = 0; i < 4; ++i) p[i] = (uint8_t)(x >> (8 * i)); }

enum Kind { K_ALONE, K_LZIP, K_XZ, K_GARBAGE };
static const char *kind_names[] = {"lzma", "lz", "xz", "garbage"};
enum Dec { D_ALONE, D_LZIP, D_STREAM, D_AUTO, D_STREAM_MT, D_N };
static const char *dec_names[] = {"alone", "lzip", "stream", "auto", "stream_mt"};
enum Fmt { F_ALONE, F_LZIP, F_XZ };

struct Built { std::vector<uint8_t> bytes; std::vector<size_t> marks; std::string desc; };

// ---------------------------------------------------------------- payloads
static void draw_enc_opts(Case &c, lzma_options_lzma &o, bool lzip) {
	memset(&o, 0, sizeof o);
	o.dict_size = c.pick<uint32_t>({4096, 4096, 8192, 1u << 16, 6144, 12288, 1u << 18, 1u << 20});
	o.lc = 3; o.lp = 0; o.pb = 2;
	if (!lzip && rare(c, 110)) { unsigned k = c.u(15), i = 0; for (unsigned lc = 0; lc <= 4; ++lc) for (unsigned lp = 0; lc + lp <= 4; ++lp) if (i++ == k) { o.lc = lc; o.lp = lp; } o.pb = c.u(5); }
	o.mode = c.flag() ? LZMA_MODE_FAST : LZMA_MODE_NORMAL;
	o.mf = c.pick({LZMA_MF_HC3, LZMA_MF_HC4, LZMA_MF_BT2, LZMA_MF_BT4});
	o.nice_len = c.pick<uint32_t>({8, 32, 64, 273});
	o.depth = c.pick<uint32_t>({0, 1, 4});
}

static std::vector<uint8_t> draw_plain(Case &c, uint32_t dict) {
	uint8_t b = c.byte();
	uint32_t maxlen = b < 170 ? 400 : (b < 235 ? (1u << 13) : 70000);
	Recipe r = draw_recipe(c, maxlen, dict);
	return expand(r);
}

// raw LZMA1 stream; marker=false => LZMA1EXT without ALLOW_EOPM (no end marker written)
static std::vector<uint8_t> enc_lzma1(const std::vector<uint8_t> &plain, lzma_options_lzma o, bool marker) {
	lzma_filter f[2]; f[0].id = marker ? LZMA_FILTER_LZMA1 : LZMA_FILTER_LZMA1EXT; f[0].options = &o; f[1].id = LZMA_VLI_UNKNOWN; f[1].options = NULL;
	if (!marker) { o.ext_flags = 0; o.ext_size_low = (uint32_t)plain.size(); o.ext_size_high = 0; }
	std::vector<uint8_t> out(plain.size() + plain.size() / 2 + 512); size_t pos = 0;
	static const uint8_t z[1] = {0};
	lzma_ret r = lzma_raw_buffer_encode(f, NULL, plain.empty() ? z : plain.data(), plain.size(), out.data(), &pos, out.size());
	if (r != LZMA_OK) harness_bug("raw LZMA1 encoder failed: %s (len %zu)", drv::retname(r), plain.size());
	out.resize(pos); return out;
}

static void maybe_damage(Case &c, Built &B) {
	if (rare(c, 28) && !B.bytes.empty()) { size_t t = c.u32() % (B.bytes.size() + 1); B.bytes.resize(t); B.desc += ",\"trunc\":" + std::to_string(t); count("damage_truncated"); }
	if (rare(c, 12) && !B.bytes.empty()) { size_t p = c.u32() % B.bytes.size(); unsigned bit = c.u(8); B.bytes[p] ^= (uint8_t)(1u << bit); B.desc += ",\"flip\":\"" + std::to_string(p) + "." + std::to_string(bit) + "\""; count("damage_bitflip"); }
}

// ---------------------------------------------------------------- .lzma
static Built build_alone(Case &c) {
	Built B; lzma_options_lzma o; draw_enc_opts(c, o, false);
	std::vector<uint8_t> plain = draw_plain(c, o.dict_size);
	const bool marker = c.chance(150);
	std::vector<uint8_t> pay = enc_lzma1(plain, o, marker);
	uint8_t props = (uint8_t)((o.pb * 5 + o.lp) * 9 + o.lc);
	const char *pcls = "props_correct";
	switch (c.u(9)) {
	case 6: props = c.pick<uint8_t>({225, 255, 0x4C, 13, 8, 21, 44, 230}); pcls = "props_invalid"; break;   // > 224 or lc + lp > 4
	case 7: props = c.pick<uint8_t>({0x5D, 0, 0x5E, 0x66, 224}); pcls = "props_other_valid"; break;
	default: break;
	}
	uint32_t dict = o.dict_size; const char *dcls = "dict_as_encoded";
	switch (c.u(12)) {
	case 5: { unsigned k = 12 + c.u(15); dict = c.flag() ? (1u << k) : (3u << (k - 1)); dcls = "dict_plausible_form"; break; }
	case 6: dict = o.dict_size + c.pick<int>({1, -1, 5, 4096 * 5, 1000}); dcls = "dict_implausible_near"; break;
	case 7: dict = c.u32() >> (5 + c.u(12)); dcls = "dict_random"; break;
	case 8: dict = c.pick<uint32_t>({0, 1, 2, 3, 5, 4095, 4097}); dcls = "dict_tiny"; break;
	case 9: dict = !rare(c, 190) ? 0xFFFFFFFFu : c.pick<uint32_t>({0xFFFFFFFEu, 0x80000000u, 0xC0000000u, 0x40000000u}); dcls = "dict_huge"; break;
	case 10: dict = 4096; dcls = "dict_4096"; break;
	case 11: { unsigned k = 2 + c.u(10); dict = c.flag() ? (1u << k) : (3u << (k - 1)); dcls = "dict_small_plausible"; break; }
	default: break;
	}
	uint64_t size = UINT64_MAX; const char *scls = "size_unknown";
	const uint64_t n = plain.size();
	switch (c.u(10)) {
	case 0: case 1: case 2: break;
	case 3: case 4: case 5: size = n; scls = "size_exact"; break;
	case 6: size = n ? (c.flag() ? n - 1 : n / 2) : 0; scls = "size_too_small"; if (rare(c, 40)) size = 0; break;
	case 7: size = c.flag() ? n + 1 : 2 * n + 7; scls = "size_too_large"; break;
	case 8: size = c.pick<uint64_t>({(1ull << 38) - 1, 1ull << 38, (1ull << 38) + 1}); scls = "size_at_2^38"; break;
	default: size = c.pick<uint64_t>({1ull << 40, 1ull << 63, UINT64_MAX - 1, (1ull << 38) + n, 1ull << 39}); scls = "size_ge_2^38"; break;
	}
	B.bytes.push_back(props); put32(B.bytes, dict); put64(B.bytes, size);
	B.bytes.insert(B.bytes.end(), pay.begin(), pay.end());
	B.marks = {13, B.bytes.size()};
	const char *tcls = "trail_none";
	switch (c.u(7)) {
	case 3: { unsigned k = 1 + c.u(8); for (unsigned i = 0; i < k; ++i) B.bytes.push_back(c.byte()); tcls = "trail_random"; break; }
	case 4: { unsigned k = 1 + c.u(8); B.bytes.insert(B.bytes.end(), k, 0); tcls = "trail_zeros"; break; }
	case 5: { std::vector<uint8_t> copy = B.bytes; B.bytes.insert(B.bytes.end(), copy.begin(), copy.end()); tcls = "trail_second_lzma"; break; }
	default: break;
	}
	count(std::string("lzma_") + pcls); count(std::string("lzma_") + dcls); count(std::string("lzma_") + scls); count(std::string("lzma_") + tcls); count(marker ? "lzma_with_marker" : "lzma_without_marker");
	char b[256]; snprintf(b, sizeof b, "\"props\":%u,\"enc\":[%u,%u,%u,%u],\"dict\":%u,\"size\":\"%llx\",\"plain\":%zu,\"marker\":%d,\"fields\":\"%s %s %s %s\"", props, o.lc, o.lp, o.pb, o.dict_size, dict, (unsigned long long)size, plain.size(), (int)marker, pcls, dcls, scls, tcls);
	B.desc = b;
	maybe_damage(c, B);
	return B;
}

// ---------------------------------------------------------------- .lz
static uint8_t lzip_canonical_dict_byte(uint32_t dict) {
	unsigned lg = 12; while (((uint64_t)1 << lg) < dict) ++lg;
	// exact representation with a fraction when possible: dict = 2^lg - frac * 2^(lg-4)
	uint64_t diff = ((uint64_t)1 << lg) - dict, unit = (uint64_t)1 << (lg - 4);
	unsigned frac = (diff % unit == 0 && diff / unit <= 7) ? (unsigned)(diff / unit) : 0;
	return (uint8_t)((frac << 5) | lg);
}

static Built build_lzip(Case &c) {
	Built B; uint8_t mb = c.byte(); unsigned nm = mb < 170 ? 1 : (mb < 230 ? 2 : 3);
	std::string d = "\"members\":[";
	for (unsigned i = 0; i < nm; ++i) {
		lzma_options_lzma o; draw_enc_opts(c, o, true);
		std::vector<uint8_t> plain = draw_plain(c, o.dict_size);
		const bool marker = !rare(c, 8);
		std::vector<uint8_t> pay = enc_lzma1(plain, o, marker);
		uint8_t vb = c.byte(); unsigned version = vb < 110 ? 1 : (vb < 225 ? 0 : c.pick<unsigned>({2, 3, 4, 255}));
		uint8_t db = c.byte(), dbyte; const char *dcls;
		if (db < 140) { dbyte = lzip_canonical_dict_byte(o.dict_size); dcls = "dictbyte_canonical"; }
		else if (db < 190) { dbyte = (uint8_t)((c.u(8) << 5) | (12 + c.u(13))); dcls = "dictbyte_valid_range"; }
		else if (db < 248) { dbyte = c.byte(); dcls = "dictbyte_any"; }
		else { dbyte = (uint8_t)((c.u(8) << 5) | (25 + c.u(7))); dcls = "dictbyte_big"; }
		const size_t start = B.bytes.size();
		B.bytes.insert(B.bytes.end(), {0x4C, 0x5A, 0x49, 0x50}); B.bytes.push_back((uint8_t)version); B.bytes.push_back(dbyte);
		B.bytes.insert(B.bytes.end(), pay.begin(), pay.end());
		uint32_t crc = ref::crc32_fast(plain.data(), plain.size()); uint64_t dsize = plain.size();
		bool v1foot = version != 0;
		uint64_t msize = 6 + pay.size() + 20;
		const char *fcls = "footer_correct";
		switch (c.u(11)) {
		case 6: crc ^= 1u << c.u(32); fcls = "footer_bad_crc"; break;
		case 7: dsize = c.flag() ? dsize + 1 : (c.flag() ? dsize - 1 : dsize | (1ull << (32 + c.u(31)))); fcls = "footer_bad_data_size"; break;
		case 8: if (v1foot) { msize = c.flag() ? msize + 1 : (c.flag() ? msize - 1 : msize | (1ull << (32 + c.u(31)))); fcls = "footer_bad_member_size"; } else { v1foot = true; fcls = "footer_v1_on_v0"; } break;
		case 9: if (v1foot) { v1foot = false; fcls = "footer_v0_on_v1"; } break;
		default: break;
		}
		put32(B.bytes, crc); put64(B.bytes, dsize); if (v1foot) put64(B.bytes, msize);
		B.marks.push_back(start + 6); B.marks.push_back(B.bytes.size());
		count(std::string("lz_") + dcls); count(std::string("lz_") + fcls); count("lz_version_" + std::to_string(version > 1 ? 2 : version) + (version > 1 ? "plus" : "")); if (!marker) count("lz_payload_without_marker");
		char b[200]; snprintf(b, sizeof b, "%s{\"v\":%u,\"dictbyte\":%u,\"enc_dict\":%u,\"plain\":%zu,\"marker\":%d,\"fields\":\"%s %s\"}", i ? "," : "", version, dbyte, o.dict_size, plain.size(), (int)marker, dcls, fcls);
		d += b;
	}
	d += "]"; count("lz_members_" + std::to_string(nm));
	unsigned tv = c.u(9);
	if (tv >= 2 && tv <= 6) {
		unsigned k = tv - 2; static const uint8_t M[4] = {0x4C, 0x5A, 0x49, 0x50};
		B.bytes.insert(B.bytes.end(), M, M + k);
		unsigned tail = c.u(4); const char *tn = "none";
		if (tail == 1) { unsigned l = 1 + c.u(6); for (unsigned i = 0; i < l; ++i) B.bytes.push_back(c.byte()); tn = "random"; }
		else if (tail == 2) { B.bytes.insert(B.bytes.end(), 1 + c.u(6), 0); tn = "zeros"; }
		else if (tail == 3) { B.bytes.push_back((uint8_t)c.u(3)); B.bytes.push_back(0x0C); unsigned l = c.u(12); for (unsigned i = 0; i < l; ++i) B.bytes.push_back(c.byte()); tn = "headerlike"; }
		d += ",\"trailing\":{\"magic_prefix\":" + std::to_string(k) + ",\"tail\":\"" + tn + "\"}";
		count("lz_trailing_prefix_" + std::to_string(k));
	} else if (tv == 7) { static const uint8_t X[6] = {0xFD, '7', 'z', 'X', 'Z', 0}; B.bytes.insert(B.bytes.end(), X, X + 6); d += ",\"trailing\":\"xz-magic\""; count("lz_trailing_other"); }
	else count("lz_trailing_none");
	B.desc = d;
	maybe_damage(c, B);
	return B;
}

// ---------------------------------------------------------------- .xz
static Built build_xz(Case &c) {
	Built B; uint8_t sb = c.byte(); unsigned ns = sb < 120 ? 1 : (sb < 210 ? 2 : 3);
	std::string d = "\"streams\":[";
	for (unsigned i = 0; i < ns; ++i) {
		lzma_options_lzma o; lzma_lzma_preset(&o, 0); o.dict_size = c.pick<uint32_t>({4096, 1u << 16, 1u << 20});
		std::vector<uint8_t> plain = draw_plain(c, o.dict_size);
		lzma_options_delta dl; memset(&dl, 0, sizeof dl); dl.type = LZMA_DELTA_TYPE_BYTE; dl.dist = 1 + c.u(4);
		lzma_filter f[3]; unsigned nf = 0;
		if (rare(c, 40)) { f[nf].id = LZMA_FILTER_DELTA; f[nf].options = &dl; ++nf; }
		f[nf].id = LZMA_FILTER_LZMA2; f[nf].options = &o; ++nf; f[nf].id = LZMA_VLI_UNKNOWN; f[nf].options = NULL;
		lzma_check check = c.pick({LZMA_CHECK_CRC32, LZMA_CHECK_NONE, LZMA_CHECK_CRC64, LZMA_CHECK_SHA256});
		size_t bound = lzma_stream_buffer_bound(plain.size()); std::vector<uint8_t> out(bound); size_t pos = 0;
		static const uint8_t z[1] = {0};
		lzma_ret r = lzma_stream_buffer_encode(f, check, NULL, plain.empty() ? z : plain.data(), plain.size(), out.data(), &pos, bound);
		if (r != LZMA_OK) harness_bug("lzma_stream_buffer_encode failed: %s", drv::retname(r));
		out.resize(pos);
		unsigned id = (unsigned)check;
		if (check != LZMA_CHECK_NONE && rare(c, 50)) {
			// same Check size, ID this build cannot verify: decodable, check skipped
			id = check == LZMA_CHECK_CRC32 ? 2 + c.u(2) : (check == LZMA_CHECK_CRC64 ? 5 + c.u(2) : 11 + c.u(2));
			out[7] = (uint8_t)id; wr32(&out[8], ref::crc32(&out[6], 2));
			out[pos - 3] = (uint8_t)id; wr32(&out[pos - 12], ref::crc32(&out[pos - 8], 6));
			count("xz_unsupported_check_id");
		}
		B.bytes.insert(B.bytes.end(), out.begin(), out.end());
		B.marks.push_back(B.bytes.size());
		uint8_t pb = c.byte(); unsigned pad = pb < 100 ? 0 : (pb < 150 ? 4 * (1 + c.u(3)) : 1 + c.u(13));
		B.bytes.insert(B.bytes.end(), pad, 0);
		if (pad) B.marks.push_back(B.bytes.size());
		count("xz_padding_mod4_" + std::to_string(pad % 4)); if (pad) count("xz_padding_nonzero_len");
		char b[120]; snprintf(b, sizeof b, "%s{\"plain\":%zu,\"check\":%u,\"delta\":%d,\"padding\":%u}", i ? "," : "", plain.size(), id, (int)(nf == 2), pad); d += b;
	}
	d += "]"; count("xz_streams_" + std::to_string(ns));
	if (rare(c, 56)) { unsigned l = 1 + c.u(16); for (unsigned i = 0; i < l; ++i) B.bytes.push_back((uint8_t)(c.byte() | (i == 0 ? 1 : 0))); d += ",\"garbage\":" + std::to_string(l); count("xz_garbage_after"); }
	B.desc = d;
	maybe_damage(c, B);
	return B;
}

static Built build_garbage(Case &c) {
	Built B; unsigned l = c.u(24);
	for (unsigned i = 0; i < l; ++i) B.bytes.push_back(c.byte());
	if (l && rare(c, 150)) B.bytes[0] = c.pick<uint8_t>({0xFD, 0x4C, 0x5D, 0x00, 0xE0, 0xFF});
	if (l >= 6 && rare(c, 60)) { static const uint8_t X[6] = {0xFD, '7', 'z', 'X', 'Z', 0}; memcpy(B.bytes.data(), X, 6); }
	if (l >= 4 && rare(c, 60)) { B.bytes[0] = 0x4C; B.bytes[1] = 0x5A; B.bytes[2] = 0x49; B.bytes[3] = 0x50; }
	B.desc = "\"len\":" + std::to_string(l);
	return B;
}

// ---------------------------------------------------------------- model
struct Model {
	int status = ref::RS_OK; std::string rule; std::vector<uint8_t> out; size_t in_used = 0;
	bool valid_so_far = false;     // CONCATENATED without LZMA_FINISH: everything given is valid, the decoder waits for more
	bool short_header = false;     // too few bytes for the first header check of this format
	bool trailing_stop = false;    // .lz: stopped in front of trailing data
};

static Model run_model(Fmt f, const std::vector<uint8_t> &file, bool concatenated, bool ignore_check, bool finish, bool picky) {
	Model M; static const uint8_t z[1] = {0};
	const uint8_t *p = file.empty() ? z : file.data(); const size_t n = file.size();
	const size_t lim = 8u << 20;
	if (f == F_ALONE) {
		ref::AloneResult R = ref::alone_decode(p, n, picky, lim);
		M.status = R.status; M.rule = R.rule; M.out.swap(R.out); M.in_used = R.in_used; /* FORMAT_ERROR from the props byte is immediate: never "short" */
	} else if (f == F_LZIP) {
		ref::LzipOpts o; o.concatenated = concatenated; o.ignore_check = ignore_check; o.finish = finish; o.out_limit = lim;
		ref::LzipResult R = ref::lzip_decode(p, n, o);
		M.status = R.status; M.rule = R.rule; M.out.swap(R.out); M.in_used = R.in_used; M.trailing_stop = R.trailing && R.in_used < n;
		M.valid_so_far = R.status == ref::RS_TRUNCATED && concatenated && !finish && !R.members.empty() && R.rule.compare(0, 10, "more input") == 0;
	} else {
		ref::XzOpts o; o.concatenated = concatenated; o.ignore_check = ignore_check; o.finish = finish; o.out_limit = lim;
		ref::XzResult R = ref::xz_decode(p, n, o);
		M.status = R.status; M.rule = R.rule; M.out.swap(R.out); M.in_used = R.in_used; M.short_header = n < 12;
		M.valid_so_far = R.status == ref::RS_TRUNCATED && concatenated && !finish && !R.streams.empty() && R.rule.compare(0, 10, "more input") == 0;
	}
	return M;
}

static bool xz_header_ok(const std::vector<uint8_t> &f) {
	static const uint8_t X[6] = {0xFD, '7', 'z', 'X', 'Z', 0};
	return f.size() >= 12 && memcmp(f.data(), X, 6) == 0 && ref::crc32(&f[6], 2) == ref::rd32(&f[8]) && f[6] == 0 && !(f[7] & 0xF0);
}
static bool lzip_header_ok(const std::vector<uint8_t> &f) { uint64_t d; return f.size() >= 6 && f[0] == 0x4C && f[1] == 0x5A && f[2] == 0x49 && f[3] == 0x50 && f[4] <= 1 && ref::lzip_dict(f[5], d); }
static bool alone_header_ok(const std::vector<uint8_t> &f) { unsigned a, b, cc; return f.size() >= 13 && ref::props_decode(f[0], a, b, cc); }

// ---------------------------------------------------------------- liblzma side
static lzma_ret init_dec_kind(lzma_stream *s, int dec, uint32_t flags) {
	switch (dec) {
	case D_ALONE: return lzma_alone_decoder(s, UINT64_MAX);
	case D_LZIP: return lzma_lzip_decoder(s, UINT64_MAX, flags);
	case D_STREAM: return lzma_stream_decoder(s, UINT64_MAX, flags);
	case D_AUTO: return lzma_auto_decoder(s, UINT64_MAX, flags);
	default: { lzma_mt mt; memset(&mt, 0, sizeof mt); mt.flags = flags; mt.threads = 2; mt.timeout = 0; mt.memlimit_threading = UINT64_MAX; mt.memlimit_stop = UINT64_MAX; return lzma_stream_decoder_mt(s, &mt); }
	}
}
// "warm handle" (a quarter of the cases, last case byte): the lzma_stream has just decoded another file of the suite with the same
// kind of decoder - completely or half - and is re-initialised without lzma_end(), as xz and lzmadec do for the next operand
static unsigned g_warm = 0;
static void warm_up(lzma_stream *s, int dec, uint32_t flags) {
	static const char *const lzmas[] = {"good-known_size-without_eopm.lzma", "good-unknown_size-with_eopm.lzma", "good-known_size-with_eopm.lzma"};
	const char *name = dec == D_ALONE ? lzmas[g_warm % 3] : dec == D_LZIP ? "good-1-v1.lz" : (dec == D_AUTO ? (g_warm % 3 == 0 ? lzmas[(g_warm >> 2) % 3] : g_warm % 3 == 1 ? "good-2-v1-v1.lz" : "good-1-check-crc64.xz") : "good-1-check-crc64.xz");
	const cm::TestFile *tf = nullptr; for (auto &t : cm::test_files()) if (t.name == name) tf = &t;
	if (!tf || init_dec_kind(s, dec, flags) != LZMA_OK) return;
	drv::Opts o; o.out_cap = 1u << 20; if (dec == D_STREAM_MT) o.idle_limit = 1u << 30; if (g_warm & 8) o.final_action = LZMA_RUN;
	(void)drv::run(s, tf->data.data(), (g_warm & 8) ? tf->data.size() / 2 : tf->data.size(), drv::Schedule(), o);
	count("warm_decoder_handle");
}

static drv::Result run_dec(int dec, uint32_t flags, const std::vector<uint8_t> &f, const drv::Schedule &sch, lzma_action fin) {
	lzma_stream s = LZMA_STREAM_INIT; s.allocator = AL(); lzma_ret r;
	if (g_warm) warm_up(&s, dec, flags);
	drv::Opts o; o.final_action = fin; o.out_cap = 8u << 20;
	switch (dec) {
	case D_ALONE: r = lzma_alone_decoder(&s, UINT64_MAX); break;
	case D_LZIP: r = lzma_lzip_decoder(&s, UINT64_MAX, flags); break;
	case D_STREAM: r = lzma_stream_decoder(&s, UINT64_MAX, flags); break;
	case D_AUTO: r = lzma_auto_decoder(&s, UINT64_MAX, flags); break;
	default: { lzma_mt mt; memset(&mt, 0, sizeof mt); mt.flags = flags; mt.threads = 2; mt.timeout = 0; mt.memlimit_threading = UINT64_MAX; mt.memlimit_stop = UINT64_MAX;
		r = lzma_stream_decoder_mt(&s, &mt); o.idle_limit = 1u << 30; break; }
	}
	if (r != LZMA_OK) { lzma_end(&s); if (r == LZMA_MEM_ERROR) { drv::Result R; R.ret = r; return R; } violation("C16:init-failed", "%s decoder initialisation returned %s (flags 0x%x)", dec_names[dec], drv::retname(r), flags); }
	drv::Result R = drv::run(&s, f.data(), f.size(), sch, o);
	lzma_end(&s);
	return R;
}

static bool has(const std::vector<int> &v, int x) { return std::find(v.begin(), v.end(), x) != v.end(); }

// Compare one liblzma run with the model of the format that decoder handles.
static void judge(const char *who, Fmt f, bool is_auto, bool auto_on_alone, uint32_t flags, bool finish, const Model &M, const drv::Result &L, size_t n) {
	if (L.ret == LZMA_MEM_ERROR) { count("environment_alloc_cap"); return; }
	if (L.call_bound) violation("C04:call-bound", "%s: call bound exceeded (calls=%zu, ret=%s)", who, L.calls, drv::retname(L.ret));
	if (L.ret == LZMA_PROG_ERROR || L.ret == LZMA_MEMLIMIT_ERROR || L.ret == LZMA_SEEK_NEEDED || (int)L.ret > 12)
		violation("C16:undocumented-status", "%s: lzma_code returned %s", who, drv::retname(L.ret));
	if (L.capped || M.status == ref::RS_TOO_BIG || M.status == ref::RS_REF_UNSUPPORTED) { count("inconclusive_large_or_ref_unsupported"); return; }
	const bool concat = (flags & LZMA_CONCATENATED) != 0;
	const bool ok = L.ret == LZMA_STREAM_END;
	const bool same_out = L.out == M.out;
	auto lib = [&]() { static char b[160]; snprintf(b, sizeof b, "liblzma {ret=%s total_in=%llu out=%zu} model {status=%d rule='%s' in_used=%zu out=%zu} file=%zu", drv::retname(L.ret), (unsigned long long)L.total_in, L.out.size(), M.status, M.rule.c_str(), M.in_used, M.out.size(), n); return b; };
	if (M.status == ref::RS_OK) {
		if (auto_on_alone && concat) {
			// container.h: trailing data after one .lzma stream => LZMA_DATA_ERROR; otherwise STREAM_END needs LZMA_FINISH
			if (M.in_used < n) { if (L.ret != LZMA_DATA_ERROR) violation("C16:auto-lzma-concatenated-trailing", "%s: .lzma followed by %zu bytes under CONCATENATED must give LZMA_DATA_ERROR: %s", who, n - M.in_used, lib()); if (!same_out) violation("C16:content", "%s: bytes before the trailing-data error differ: %s", who, lib()); count("expect_lzma_concat_trailing_data_error"); return; }
			if (!finish) { if (L.ret != LZMA_BUF_ERROR || !same_out || L.total_in != n) violation("C16:concatenated-needs-finish", "%s: complete .lzma, CONCATENATED, LZMA_RUN only: expected no STREAM_END and all output: %s", who, lib()); count("expect_valid_so_far"); return; }
		}
		if (is_auto && f == F_LZIP && concat && M.in_used < n && L.ret == LZMA_DATA_ERROR && same_out) {
			// fixed finding: the auto decoder applied its ".lzma must not be followed by anything" test to .lz files too
			const char *sig = "C16:auto-lzip-trailing-data";
			if (known_finding(sig)) return;
			violation(sig, "%s: .lz members followed by trailing data under CONCATENATED: the .lz rules say success with the trailing data unread: %s", who, lib());
		}
		if (concat && !finish && f == F_LZIP && M.trailing_stop && !auto_on_alone) {
			// lzip doc: STREAM_END in front of trailing data; flag doc: no STREAM_END without LZMA_FINISH - both readings accepted
			if ((L.ret != LZMA_STREAM_END && L.ret != LZMA_BUF_ERROR) || !same_out || L.total_in != M.in_used) violation("C16:lz-trailing-data", "%s: members + trailing data, LZMA_RUN only: %s", who, lib());
			count("expect_ok_trailing_run_only"); return;
		}
		if (!ok) violation("C16:valid-rejected", "%s: file is valid by the format model but was not accepted: %s", who, lib());
		if (!same_out) violation("C16:content", "%s: decoded content differs from the model: %s", who, lib());
		if (L.total_in != M.in_used) {
			const char *sig = (f == F_LZIP && concat) ? "C16:lz-trailing-position" : "C16:stop-position";
			violation(sig, "%s: input position after success differs: %s", who, lib());
		}
		count("expect_ok"); return;
	}
	if (M.valid_so_far) {
		if (L.ret != LZMA_BUF_ERROR || !same_out || L.total_in != n) violation("C16:concatenated-needs-finish", "%s: valid complete input, CONCATENATED, LZMA_RUN only: expected no STREAM_END, all output, all input consumed: %s", who, lib());
		count("expect_valid_so_far"); return;
	}
	if (ok) {
		const char *sig = "C16:invalid-accepted";
		if (M.status == ref::RS_FORMAT_ERROR && f == F_ALONE) sig = "C16:lzma-implausible-header-accepted";
		violation(sig, "%s: file is not valid by the format model (%s) but was accepted: %s", who, M.rule.c_str(), lib());
	}
	if (M.status == ref::RS_FORMAT_ERROR && !M.short_header) {
		if (L.ret != LZMA_FORMAT_ERROR) violation("C16:unrecognised-format-code", "%s: unrecognised format must be reported as LZMA_FORMAT_ERROR: %s", who, lib());
		count("expect_format_error"); return;
	}
	count(M.status == ref::RS_TRUNCATED ? "expect_failure_truncated" : "expect_failure_invalid");
}

static void check_info(const char *who, int dec, Fmt f, bool is_auto, uint32_t flags, const std::vector<uint8_t> &file, const drv::Result &L) {
	if (L.ret == LZMA_MEM_ERROR) return;
	for (int code : L.info) {
		uint32_t need = code == LZMA_NO_CHECK ? LZMA_TELL_NO_CHECK : (code == LZMA_UNSUPPORTED_CHECK ? LZMA_TELL_UNSUPPORTED_CHECK : LZMA_TELL_ANY_CHECK);
		if (dec == D_ALONE || !(flags & need)) violation("C16:info-code-without-flag", "%s returned %s although the flag asking for it was not given (flags 0x%x)", who, drv::retname(code), flags);
		if (f == F_LZIP && code != LZMA_GET_CHECK) violation("C16:info-code-lzip", "%s returned %s for a .lz file (container.h: these flags do nothing)", who, drv::retname(code));
	}
	if (f == F_XZ && xz_header_ok(file) && L.total_in >= 12) {
		unsigned id = file[7] & 0x0F; bool unsup = !(id == 0 || id == 1 || id == 4 || id == 10);
		bool want_no = (flags & LZMA_TELL_NO_CHECK) && id == 0, want_unsup = (flags & LZMA_TELL_UNSUPPORTED_CHECK) && unsup;
		if (want_no && !has(L.info, LZMA_NO_CHECK)) violation("C16:info-code-missing", "%s: TELL_NO_CHECK and Check ID 0 but no LZMA_NO_CHECK", who);
		if (want_unsup && !has(L.info, LZMA_UNSUPPORTED_CHECK)) violation("C16:info-code-missing", "%s: TELL_UNSUPPORTED_CHECK and Check ID %u but no LZMA_UNSUPPORTED_CHECK", who, id);
		if ((flags & LZMA_TELL_ANY_CHECK) && !want_no && !want_unsup && !has(L.info, LZMA_GET_CHECK)) violation("C16:info-code-missing", "%s: TELL_ANY_CHECK but no LZMA_GET_CHECK", who);
		if (!L.info.empty()) count("info_codes_seen_xz");
	}
	if (f == F_LZIP && (flags & LZMA_TELL_ANY_CHECK) && file.size() >= 5 && file[0] == 0x4C && file[1] == 0x5A && file[2] == 0x49 && file[3] == 0x50 && file[4] <= 1 && L.total_in >= 5 && !has(L.info, LZMA_GET_CHECK))
		violation("C16:info-code-missing", "%s: TELL_ANY_CHECK on a .lz member header but no LZMA_GET_CHECK", who);
	if (is_auto && f == F_ALONE && !file.empty()) {
		// container.h (LZMA_TELL_NO_CHECK): with lzma_auto_decoder all .lzma files trigger LZMA_NO_CHECK
		std::vector<int> want; if (flags & LZMA_TELL_NO_CHECK) want.push_back(LZMA_NO_CHECK); else if (flags & LZMA_TELL_ANY_CHECK) want.push_back(LZMA_GET_CHECK);
		unsigned lc, lp, pb;
		const bool is_lzma = file.size() >= 13 && ref::props_decode(file[0], lc, lp, pb) && ref::alone_header_plausible(ref::rd32(&file[1]), ref::rd64(&file[5]));
		// required for files that pass as .lzma; for everything else the code may or may not have been sent before the rejection
		if (L.info != want && (is_lzma || !L.info.empty())) violation("C16:auto-lzma-info-codes", "%s: informational codes for a .lzma file: got %zu codes (first %s), expected %zu (flags 0x%x)", who, L.info.size(), L.info.empty() ? "-" : drv::retname(L.info[0]), want.size(), flags);
		if (!want.empty()) count("info_codes_auto_lzma");
	}
}

// auto == specific decoder
static void compare_auto(Fmt f, uint32_t flags, bool finish, const std::vector<uint8_t> &file, const drv::Result &A, const drv::Result &S) {
	if (A.ret == LZMA_MEM_ERROR || S.ret == LZMA_MEM_ERROR) { count("environment_alloc_cap"); return; }
	if (A.capped || S.capped) { count("inconclusive_large_or_ref_unsupported"); return; }
	const size_t n = file.size();
	auto both = [&]() { static char b[200]; snprintf(b, sizeof b, "auto {ret=%s total_in=%llu out=%zu info=%zu} specific {ret=%s total_in=%llu out=%zu info=%zu}", drv::retname(A.ret), (unsigned long long)A.total_in, A.out.size(), A.info.size(),
		drv::retname(S.ret), (unsigned long long)S.total_in, S.out.size(), S.info.size()); return b; };
	if (f != F_ALONE) {
		if (A.ret == S.ret && A.out == S.out && A.total_in == S.total_in && A.info == S.info) { count(f == F_XZ ? "auto_pair_xz_equal" : "auto_pair_lz_equal"); return; }
		const char *sig = "C16:auto-differs-from-specific";
		if (f == F_LZIP && (flags & LZMA_CONCATENATED) && S.ret == LZMA_STREAM_END && A.ret == LZMA_DATA_ERROR && S.total_in < n && A.out == S.out) sig = "C16:auto-lzip-trailing-data";
		if (known_finding(sig)) return;
		violation(sig, "%s file: %s", f == F_XZ ? ".xz" : ".lz", both());
	}
	// .lzma: only files whose header passes the documented plausibility test are the same for both
	unsigned lc, lp, pb;
	if (n < 13 || !ref::props_decode(file[0], lc, lp, pb) || !ref::alone_header_plausible(ref::rd32(&file[1]), ref::rd64(&file[5]))) { count("auto_pair_lzma_implausible"); return; }
	lzma_ret want = S.ret;
	if ((flags & LZMA_CONCATENATED) && S.ret == LZMA_STREAM_END) want = S.total_in < n ? LZMA_DATA_ERROR : (finish ? LZMA_STREAM_END : LZMA_BUF_ERROR);
	if (A.ret != want || A.out != S.out || A.total_in != S.total_in) violation("C16:auto-differs-from-specific", ".lzma file with plausible header: expected %s from auto; %s", drv::retname(want), both());
	count("auto_pair_lzma_equal");
}

extern "C" int LLVMFuzzerTestOneInput(const uint8_t *data, size_t size) {
	begin_case("C16");
	Case c(data, size);
	g_warm = size && (data[size - 1] & 3) == 3 ? 1 + (data[size - 1] >> 2) : 0;
	// ---- file
	uint8_t kb = c.byte(); Kind kind = kb < 95 ? K_ALONE : (kb < 195 ? K_LZIP : (kb < 245 ? K_XZ : K_GARBAGE));
	Built B = kind == K_ALONE ? build_alone(c) : (kind == K_LZIP ? build_lzip(c) : (kind == K_XZ ? build_xz(c) : build_garbage(c)));
	const std::vector<uint8_t> &F = B.bytes; const size_t n = F.size();
	// ---- decoder, flags, action, slicing
	static const int matching[] = {D_ALONE, D_LZIP, D_STREAM, D_AUTO};
	uint8_t db = c.byte(); int dec = db < 100 ? matching[kind] : (db < 215 ? D_AUTO : (int)(db % 4));
	if (dec == D_STREAM && rare(c, 24)) dec = D_STREAM_MT;
	uint8_t fb = c.byte(); uint32_t flags = 0;
	if (fb & 0x03) { if ((fb & 0x03) != 3) flags |= LZMA_CONCATENATED; }
	if (fb & 0x04) flags |= LZMA_TELL_NO_CHECK; if (fb & 0x08) flags |= LZMA_TELL_UNSUPPORTED_CHECK; if (fb & 0x10) flags |= LZMA_TELL_ANY_CHECK;
	if ((fb & 0x60) == 0x60) flags |= LZMA_IGNORE_CHECK;
	if (dec == D_ALONE) flags = 0;
	const lzma_action fin = rare(c, 70) ? LZMA_RUN : LZMA_FINISH; const bool finish = fin == LZMA_FINISH;
	drv::Schedule sch; unsigned style = c.u(5); const char *sname = "oneshot";
	if (style == 1 || style == 4) { sch = drv::draw_schedule(c, false); sname = "generic"; }
	else if (style == 2) { drv::Piece p; p.in = c.u(9); p.out = 1u << 20; sch.pieces.push_back(p); if (c.flag()) { sch.tail_in = 1; sch.tail_out = 1u << 20; } sname = "cut_in_magic"; }
	else if (style == 3 && !B.marks.empty()) {
		size_t m = B.marks[c.u((uint32_t)B.marks.size())]; int dlt = (int)c.u(10) - 3; int64_t at = (int64_t)m + dlt; if (at < 0) at = 0;
		drv::Piece p; p.in = (uint32_t)at; p.out = 1u << 20; sch.pieces.push_back(p);
		unsigned k = 1 + c.u(8); for (unsigned i = 0; i < k; ++i) { drv::Piece q; q.in = 1; q.out = 1u << 20; sch.pieces.push_back(q); }
		sname = "cut_at_boundary";
	}
	char hd[200]; snprintf(hd, sizeof hd, "{\"kind\":\"%s\",\"decoder\":\"%s\",\"flags\":%u,\"final\":\"%s\",\"slicing\":\"%s\",\"size\":%zu,", kind_names[kind], dec_names[dec], flags, finish ? "FINISH" : "RUN", sname, n);
	set_desc(std::string(hd) + B.desc + ",\"schedule\":" + sch.describe() + ",\"head\":\"" + hex(F.data(), n, 24) + "\"}");
	count(std::string("kind_") + kind_names[kind]); count(std::string("dec_") + dec_names[dec]); count(finish ? "final_FINISH" : "final_RUN_only"); count(std::string("slicing_") + sname);
	if (flags & LZMA_CONCATENATED) count("flag_concatenated"); if (flags & LZMA_IGNORE_CHECK) count("flag_ignore_check"); if (flags & (LZMA_TELL_NO_CHECK | LZMA_TELL_UNSUPPORTED_CHECK | LZMA_TELL_ANY_CHECK)) count("flag_tell_any_of");

	// ---- which format does this decoder see?
	Fmt f; bool is_auto = dec == D_AUTO, unrecognised_empty = false;
	if (dec == D_ALONE) f = F_ALONE; else if (dec == D_LZIP) f = F_LZIP; else if (dec == D_STREAM || dec == D_STREAM_MT) f = F_XZ;
	else { if (n == 0) { unrecognised_empty = true; f = F_XZ; } else f = F[0] == 0xFD ? F_XZ : (F[0] == 0x4C ? F_LZIP : F_ALONE); }
	const bool concat = (flags & LZMA_CONCATENATED) != 0, auto_on_alone = is_auto && f == F_ALONE;
	const bool ign = (flags & LZMA_IGNORE_CHECK) != 0;

	drv::Result L = run_dec(dec, flags, F, sch, fin);
	if (unrecognised_empty) { if (L.ret == LZMA_STREAM_END) violation("C16:invalid-accepted", "auto decoder accepted an empty file"); count("empty_file"); return 0; }
	Model M = run_model(f, F, concat && f != F_ALONE, ign, finish, auto_on_alone);
	char who[48]; snprintf(who, sizeof who, "%s decoder", dec_names[dec]);
	judge(who, f, is_auto, auto_on_alone, flags, finish, M, L, n);
	check_info(who, dec, f, is_auto, flags, F, L);
	if (is_auto) {
		int sdec = f == F_XZ ? D_STREAM : (f == F_LZIP ? D_LZIP : D_ALONE);
		drv::Result S = run_dec(sdec, sdec == D_ALONE ? 0 : flags, F, sch, fin);
		compare_auto(f, flags, finish, F, L, S);
	}
	if (M.status == ref::RS_OK) count(std::string("model_accepts_") + (f == F_XZ ? "xz" : f == F_LZIP ? "lz" : "lzma"));
	if (g_alp && (!g_alp->balanced() || g_alp->double_free || g_alp->unknown_free)) violation("C04:allocator-balance", "after lzma_end: live=%llu double_free=%d unknown_free=%d", (unsigned long long)g_alp->live_bytes, (int)g_alp->double_free, (int)g_alp->unknown_free);
	if (xz_header_ok(F) || lzip_header_ok(F) || alone_header_ok(F)) nontrivial(hcomb(hash_bytes(F.data(), n), hcomb(flags, (uint64_t)fin)));
	return 0;
}
