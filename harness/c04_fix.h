// c04_fix.h - checksum repair after byte mutations (used by vfix in t_c04.cc): the real, un-weakened liblzma is
// fuzzed, so mutated containers need valid CRC32 fields to get past header validation.  Uses the ref/ parsers to
// find the first failing field, patches it, and repeats a few times.
#pragma once
#include "ref/xzparse.h"
#include "ref/lzip.h"

namespace c04 {

static inline void wr32(uint8_t *p, uint32_t x) { for (int i = 0; i < 4; ++i) p[i] = (uint8_t)(x >> (8 * i)); }
static inline void wr64(uint8_t *p, uint64_t x) { for (int i = 0; i < 8; ++i) p[i] = (uint8_t)(x >> (8 * i)); }

// Find the start of an Index field whose CRC32 field is at `crc_pos`: a position s (same alignment) with in[s] == 0x00
// from which indicator, count and 2*count VLIs and zero padding parse exactly up to crc_pos.
static inline bool find_index_start(const uint8_t *in, size_t crc_pos, size_t &start) {
	for (size_t k = 1; k <= 256 && 4 * k <= crc_pos; ++k) {
		size_t s = crc_pos - 4 * k;
		if (in[s] != 0) continue;
		size_t p = s + 1; uint64_t count, v; bool ok = true;
		if (ref::vli_decode(in, crc_pos, p, count) || count > 600) continue;
		for (uint64_t i = 0; i < 2 * count && ok; ++i) if (ref::vli_decode(in, crc_pos, p, v)) ok = false;
		if (!ok || crc_pos - p > 3) continue;
		for (size_t q = p; q < crc_pos; ++q) if (in[q]) ok = false;
		if (ok) { start = s; return true; }
	}
	return false;
}

// returns true if IGNORE_CHECK would help (a Check field mismatch was the first problem)
static inline bool fix_xz(uint8_t *p, size_t n) {
	static const uint8_t MAGIC[6] = {0xFD, '7', 'z', 'X', 'Z', 0x00};
	if (n >= 6 && p[0] == 0xFD && memcmp(p, MAGIC, 6) != 0 && (p[1] == '7' || p[4] == 'Z')) memcpy(p, MAGIC, 6);
	for (int round = 0; round < 6; ++round) {
		ref::XzOpts o; o.concatenated = true; o.out_limit = 1u << 20;
		ref::XzResult R = ref::xz_decode(p, n, o);
		if (R.status != ref::RS_DATA_ERROR) return false;
		const size_t at = R.in_used;
		if (R.rule == "stream header CRC32" && at + 12 <= n) wr32(p + at + 8, ref::crc32(p + at + 6, 2));
		else if (R.rule == "block header CRC32" && at < n) { size_t hs = ((size_t)p[at] + 1) * 4; if (at + hs > n) return false; wr32(p + at + hs - 4, ref::crc32(p + at, hs - 4)); }
		else if (R.rule == "index CRC32" && at + 4 <= n) { size_t s; if (!find_index_start(p, at, s)) return false; wr32(p + at, ref::crc32(p + s, at - s)); }
		else if (R.rule == "footer CRC32" && at + 12 <= n) wr32(p + at, ref::crc32(p + at + 4, 6));
		else if (R.rule == "footer magic" && at + 12 <= n) { p[at + 10] = 'Y'; p[at + 11] = 'Z'; }
		else if (R.rule == "check mismatch") return true;
		else return false;
	}
	return false;
}

static inline void fix_lzip(uint8_t *p, size_t n) {
	for (int round = 0; round < 4; ++round) {
		ref::LzipOpts o; o.concatenated = true; o.out_limit = 1u << 20;
		ref::LzipResult R = ref::lzip_decode(p, n, o);
		if (R.status != ref::RS_DATA_ERROR || !R.footer_seen) return;
		const ref::LzipMember &m = R.bad;
		if (R.rule == "CRC32") wr32(p + m.footer_off, m.crc);
		else if (R.rule == "data size") wr64(p + m.footer_off + 4, m.plain_size);
		else if (R.rule == "member size") wr64(p + m.footer_off + 12, m.end() - m.off);
		else return;
	}
}

static inline void fix_block_header(uint8_t *p, size_t n) {
	if (n < 1 || p[0] == 0) return;
	size_t hs = ((size_t)p[0] + 1) * 4; if (hs > n) return;
	wr32(p + hs - 4, ref::crc32(p, hs - 4));
}

static inline void fix_index(uint8_t *p, size_t n) {
	if (n < 8 || p[0] != 0) return;
	size_t pos = 1; uint64_t count, v;
	if (ref::vli_decode(p, n, pos, count) == 0 && count <= 600) {
		bool ok = true;
		for (uint64_t i = 0; i < 2 * count && ok; ++i) if (ref::vli_decode(p, n, pos, v)) ok = false;
		if (ok) { while (pos & 3) { if (pos >= n) return; p[pos++] = 0; } if (pos + 4 <= n) { wr32(p + pos, ref::crc32(p, pos)); return; } }
	}
	if (n % 4 == 0) wr32(p + n - 4, ref::crc32(p, n - 4));
}

} // namespace c04
