// t_c15.cc - C15: BCJ and delta filters are exact inverses, size preserving, and pinned.
//
// The transformation liblzma applies is observed through the public API only:
//   F_enc(x): raw-encode x with [F, LZMA2], raw-decode the result with [LZMA2] alone;
//   F_dec(y): raw-encode y with [LZMA2], raw-decode the result with [F, LZMA2];
//   plus the one-shot lzma_bcj_{x86,arm64,riscv}_{encode,decode}().
// Oracles: (1) both equal the independent references in ref/bcj.h for arbitrary input,
// (2) the opposite direction returns the original bytes, (3) lengths never change,
// (4) any slicing of the streaming coder (drv schedules on the filtering side) gives the
// whole-buffer result, and one-shot == streaming (both == reference, tail untouched),
// misaligned start offsets are refused with LZMA_OPTIONS_ERROR, (5) on a sample: the
// released liblzma 5.4.1 of the system (dlopen, RTLD_LOCAL) produces the same bytes.
#include "vgen.h"
#include "drv.h"
#include "common.h"
#include "ref/bcj.h"
#include <dlfcn.h>
#include <sanitizer/asan_interface.h>
#include <unordered_map>

using namespace vg;

// Every coder is created from scratch for every case (a case stays a pure function of its
// bytes), but its memory comes from a pool keyed by exact block size: the LZ encoder asks for
// > 512 KiB per instance and going through ASan's large-block path (mmap, shadow poisoning,
// quarantine) for ~8 coders per case costs more than the coding itself.  Blocks resting in
// the pool are poisoned, so use-after-free inside liblzma is still reported; redzones stay.
struct Pool {
	lzma_allocator a;
	std::unordered_map<size_t, std::vector<void *>> idle; std::unordered_map<void *, size_t> live;
	Pool() { a.alloc = &s_alloc; a.free = &s_free; a.opaque = this; }
	static void *s_alloc(void *o, size_t nmemb, size_t size) {
		Pool *self = (Pool *)o; size_t n = nmemb * size; if (!n) n = 1;
		void *p; auto it = self->idle.find(n);
		if (it != self->idle.end() && !it->second.empty()) { p = it->second.back(); it->second.pop_back(); ASAN_UNPOISON_MEMORY_REGION(p, n); memset(p, 0xA5, n < 256 ? n : 256); }
		else { p = malloc(n); if (!p) return NULL; memset(p, 0xA5, n < 256 ? n : 256); }
		self->live[p] = n; return p;
	}
	static void s_free(void *o, void *p) {
		if (!p) return; Pool *self = (Pool *)o; auto it = self->live.find(p);
		if (it == self->live.end()) harness_bug("liblzma freed a block it did not get from the allocator");
		size_t n = it->second; self->live.erase(it);
		if (n < 4096) { free(p); return; }
		ASAN_POISON_MEMORY_REGION(p, n); self->idle[n].push_back(p);
	}
};
static const lzma_allocator *POOL() { static Pool *p = new Pool(); return &p->a; }

enum { F_X86, F_POWERPC, F_IA64, F_ARM, F_ARMTHUMB, F_ARM64, F_SPARC, F_RISCV, F_DELTA, F_N };
typedef size_t (*ref_fn)(uint8_t *, size_t, uint32_t, bool, ref::BcjStats *);
struct FilterInfo { const char *name; lzma_vli id; uint32_t align; ref_fn fn; };
static const FilterInfo FI[F_N] = {
	{"x86", LZMA_FILTER_X86, 1, ref::bcj_x86}, {"powerpc", LZMA_FILTER_POWERPC, 4, ref::bcj_powerpc}, {"ia64", LZMA_FILTER_IA64, 16, ref::bcj_ia64},
	{"arm", LZMA_FILTER_ARM, 4, ref::bcj_arm}, {"armthumb", LZMA_FILTER_ARMTHUMB, 2, ref::bcj_armthumb}, {"arm64", LZMA_FILTER_ARM64, 4, ref::bcj_arm64},
	{"sparc", LZMA_FILTER_SPARC, 4, ref::bcj_sparc}, {"riscv", LZMA_FILTER_RISCV, 2, ref::bcj_riscv}, {"delta", LZMA_FILTER_DELTA, 1, nullptr}};
// true with probability num/256; false when the case has run out of bytes (so that short cases are plain ones)
static bool rare(Case &c, unsigned num) { return c.byte() >= 256 - num; }
static int filter_by_id(lzma_vli id) { for (int i = 0; i < F_N; ++i) if (FI[i].id == id) return i; return -1; }

static size_t ref_apply(int f, std::vector<uint8_t> &v, uint32_t param, bool enc, ref::BcjStats *st = nullptr) {
	if (v.empty()) return 0;
	if (f == F_DELTA) return ref::delta(v.data(), v.size(), param, enc);
	return FI[f].fn(v.data(), v.size(), param, enc, st);
}

// ---- the chain under test --------------------------------------------------------------------
struct Chain {
	lzma_options_lzma lz; lzma_options_bcj bcj; lzma_options_delta del, pre;
	lzma_filter with[4], without[2];
	// pre_dist != 0: a Delta filter in front, [Delta(pre_dist), F, LZMA2] - F is then fed by another filter instead of by the
	// application (the encoders' "in place" paths) and, when decoding, feeds another filter instead of the application's buffer
	Chain(int f, uint32_t param, bool null_opts, uint32_t pre_dist = 0) {
		if (lzma_lzma_preset(&lz, 0)) harness_bug("lzma_lzma_preset(0) failed");
		lz.dict_size = 4096;
		memset(&bcj, 0, sizeof bcj); memset(&del, 0, sizeof del);
		bcj.start_offset = param; del.type = LZMA_DELTA_TYPE_BYTE; del.dist = param;
		memset(&pre, 0, sizeof pre); pre.type = LZMA_DELTA_TYPE_BYTE; pre.dist = pre_dist;
		unsigned n = 0; if (pre_dist) { with[n].id = LZMA_FILTER_DELTA; with[n++].options = &pre; }
		with[n].id = FI[f].id; with[n++].options = f == F_DELTA ? (void *)&del : (null_opts ? nullptr : (void *)&bcj);
		with[n].id = LZMA_FILTER_LZMA2; with[n].options = &lz; without[0] = with[n++]; with[n].id = LZMA_VLI_UNKNOWN; with[n].options = nullptr;
		without[1] = with[n];
	}
	Chain(const Chain &) = delete; Chain &operator=(const Chain &) = delete;
};

// "warm handle": the lzma_stream has already coded other data with the same kind of coder and is re-initialised without
// lzma_end() (as xz does for the next file / a Block coder for the next Block): per-stream filter state must start afresh.
static unsigned g_warm = 0;
static void warm_up(lzma_stream *s, bool encoder, const lzma_filter *chain) {
	std::vector<uint8_t> w(200 + 37 * g_warm); for (size_t i = 0; i < w.size(); ++i) w[i] = (uint8_t)(i * 131 + (i >> 3) * 17 + g_warm);
	// x86 / ARM-like opcodes so that BCJ filters keep state too
	for (size_t i = 5; i + 5 < w.size(); i += 9) { w[i] = 0xE8; w[i + 4] = (i & 1) ? 0xFF : 0x00; }
	std::vector<uint8_t> input = w;
	if (!encoder) { lzma_stream e = LZMA_STREAM_INIT; e.allocator = POOL(); if (lzma_raw_encoder(&e, chain) != LZMA_OK) { lzma_end(&e); return; } drv::Result r = drv::run(&e, w.data(), w.size(), drv::Schedule()); lzma_end(&e); if (r.ret != LZMA_STREAM_END) return; input = r.out; }
	if ((encoder ? lzma_raw_encoder(s, chain) : lzma_raw_decoder(s, chain)) != LZMA_OK) return;
	drv::Opts o; o.out_cap = 1u << 16; if (g_warm & 1) o.final_action = LZMA_RUN;   // sometimes the warm-up is abandoned in the middle
	size_t n = (g_warm & 2) ? input.size() : input.size() / 2; (void)drv::run(s, input.data(), n, drv::Schedule(), o);
	count("warm_handle_reinit");
}

static std::vector<uint8_t> raw_run(bool encoder, const lzma_filter *chain, const std::vector<uint8_t> &in, const drv::Schedule &sch, size_t out_cap, const char *what) {
	lzma_stream s = LZMA_STREAM_INIT; s.allocator = POOL();
	if (g_warm && chain[1].id != LZMA_VLI_UNKNOWN) warm_up(&s, encoder, chain);
	lzma_ret ir = encoder ? lzma_raw_encoder(&s, chain) : lzma_raw_decoder(&s, chain);
	if (ir != LZMA_OK) violation("C15:init", "%s: init returned %s", what, drv::retname(ir));
	drv::Opts o; o.out_cap = out_cap; o.out_hint = std::min<size_t>(out_cap, in.size() + 4096);
	drv::Result r = drv::run(&s, in.data(), in.size(), sch, o); lzma_end(&s);
	if (r.call_bound) violation("C04:call-bound", "%s: call bound exceeded after %zu calls", what, r.calls);
	if (r.ret != LZMA_STREAM_END || r.capped) violation("C15:coder-status", "%s: %s after %llu of %zu input bytes, %zu output bytes%s", what, drv::retname(r.ret), (unsigned long long)r.total_in, in.size(), r.out.size(), r.capped ? " (more output than input: capped)" : "");
	return std::move(r.out);
}
static size_t comp_cap(size_t n) { return n + n / 2 + 4096; }

// liblzma's F in the given direction, the filtering coder driven by `sch`
static std::vector<uint8_t> lib_transform(Chain &ch, const std::vector<uint8_t> &x, bool enc, const drv::Schedule &sch, std::vector<uint8_t> *lzma2_of_input = nullptr) {
	std::vector<uint8_t> y;
	if (enc) {
		std::vector<uint8_t> comp = raw_run(true, ch.with, x, sch, comp_cap(x.size()), "raw encoder [F,LZMA2]");
		y = raw_run(false, ch.without, comp, drv::Schedule(), x.size() + 4096, "raw decoder [LZMA2]");
	} else {
		std::vector<uint8_t> comp = raw_run(true, ch.without, x, drv::Schedule(), comp_cap(x.size()), "raw encoder [LZMA2]");
		y = raw_run(false, ch.with, comp, sch, x.size() + 4096, "raw decoder [F,LZMA2]");
		if (lzma2_of_input) lzma2_of_input->swap(comp);
	}
	return y;
}

// ---- (5) the system's released liblzma ----------------------------------------------------------
struct SysLzma {
	bool ok = false; std::string ver;
	decltype(&lzma_raw_encoder) raw_encoder = nullptr; decltype(&lzma_raw_decoder) raw_decoder = nullptr;
	decltype(&lzma_code) code = nullptr; decltype(&lzma_end) end = nullptr; decltype(&lzma_version_string) version = nullptr;
	SysLzma() {
		const char *path = getenv("VERIF_SYSLZMA"); if (!path || !*path) path = "/usr/lib/x86_64-linux-gnu/liblzma.so.5";
		if (!strcmp(path, "none")) return;
		void *h = dlopen(path, RTLD_NOW | RTLD_LOCAL); if (!h) return;
		raw_encoder = (decltype(raw_encoder))dlsym(h, "lzma_raw_encoder"); raw_decoder = (decltype(raw_decoder))dlsym(h, "lzma_raw_decoder");
		code = (decltype(code))dlsym(h, "lzma_code"); end = (decltype(end))dlsym(h, "lzma_end"); version = (decltype(version))dlsym(h, "lzma_version_string");
		if (!raw_encoder || !raw_decoder || !code || !end || !version) return;
		// must really be a different copy of the library
		if ((void *)code == (void *)&lzma_code) return;
		ver = version(); ok = true;
	}
};
static SysLzma &sys() { static SysLzma s; return s; }

// one-shot run through the system library's lzma_code; false if that library refuses the chain
static bool sys_run(bool encoder, const lzma_filter *chain, const std::vector<uint8_t> &in, size_t cap, std::vector<uint8_t> &out, const char *what) {
	SysLzma &S = sys(); static uint8_t dummy[1];
	lzma_stream s = LZMA_STREAM_INIT; s.allocator = POOL();
	lzma_ret ir = encoder ? S.raw_encoder(&s, chain) : S.raw_decoder(&s, chain);
	if (ir == LZMA_OPTIONS_ERROR) { S.end(&s); return false; }
	if (ir != LZMA_OK) harness_bug("system liblzma %s: %s init returned %d", S.ver.c_str(), what, (int)ir);
	out.resize(cap ? cap : 1);
	s.next_in = in.empty() ? dummy : in.data(); s.avail_in = in.size(); s.next_out = out.data(); s.avail_out = cap;
	lzma_ret r = LZMA_OK;
	for (int k = 0; k < 64 && r == LZMA_OK; ++k) r = S.code(&s, LZMA_FINISH);
	size_t got = cap - s.avail_out; S.end(&s);
	if (r != LZMA_STREAM_END) violation("C15:sys541-status", "system liblzma %s: %s returned %d on data the tree's coder handles", S.ver.c_str(), what, (int)r);
	out.resize(got);
	return true;
}

// ---- generators ---------------------------------------------------------------------------------
static void p16(std::vector<uint8_t> &v, uint32_t h) { v.push_back((uint8_t)h); v.push_back((uint8_t)(h >> 8)); }
static void p32le(std::vector<uint8_t> &v, uint32_t w) { for (int i = 0; i < 4; ++i) v.push_back((uint8_t)(w >> (8 * i))); }
static void p32be(std::vector<uint8_t> &v, uint32_t w) { for (int i = 3; i >= 0; --i) v.push_back((uint8_t)(w >> (8 * i))); }
// a pc-relative field value: small forward / small backward / anything, in `bits` bits
static uint32_t rel_field(Rng &g, unsigned bits) {
	uint32_t m = bits >= 32 ? 0xFFFFFFFFu : ((1u << bits) - 1);
	switch (g.below(5)) { case 0: return g.below(4096) & m; case 1: return (0u - g.below(4096)) & m; case 2: return (uint32_t)g.next() & m & 0xFFFFF; default: return (uint32_t)g.next() & m; }
}

static void emit_x86(Rng &g, std::vector<uint8_t> &v) {
	if (g.below(2)) { // a proper CALL/JMP rel32
		v.push_back(g.below(4) ? 0xE8 : 0xE9);
		uint32_t rel = (uint32_t)g.next();
		unsigned k = g.below(8);
		if (k < 3) rel &= 0x00FFFFFF; else if (k < 6) rel |= 0xFF000000u;     // MS byte 00 / FF: convertible
		if (g.below(3) == 0) { static const uint8_t sp[] = {0x00, 0xFF, 0xE8, 0xE9}; unsigned b = g.below(3); rel = (rel & ~(0xFFu << (8 * b))) | ((uint32_t)sp[g.below(4)] << (8 * b)); }
		p32le(v, rel);
	} else { // soup that drives the previous-candidates mask: E8/E9 close to each other between 00/FF bytes
		unsigned n = 1 + g.below(12);
		for (unsigned i = 0; i < n; ++i) { unsigned k = g.below(13); v.push_back(k < 3 ? 0xE8 : k < 4 ? 0xE9 : k < 7 ? 0x00 : k < 10 ? 0xFF : g.byte()); }
	}
}
static void emit_arm(Rng &g, std::vector<uint8_t> &v) {
	unsigned k = g.below(10); uint8_t top = k < 8 ? 0xEB : (k == 8 ? 0xEA : (uint8_t)((g.below(16) << 4) | 0x0B));
	p32le(v, ((uint32_t)top << 24) | rel_field(g, 24));
}
static void emit_armthumb(Rng &g, std::vector<uint8_t> &v) {
	unsigned k = g.below(10); uint32_t f = rel_field(g, 22);
	if (k < 7) { p16(v, 0xF000 | (f >> 11)); p16(v, 0xF800 | (f & 0x7FF)); }
	else if (k == 7) { p16(v, 0xF000 | (f >> 11)); p16(v, 0xE800 | (f & 0x7FF)); }        // BLX: not converted
	else if (k == 8) { p16(v, 0xF000 | (f >> 11)); p16(v, 0xF000 | (f & 0x7FF)); p16(v, 0xF800 | g.below(0x800)); }
	else p16(v, 0xF800 | (f & 0x7FF));
}
static void emit_powerpc(Rng &g, std::vector<uint8_t> &v) {
	unsigned k = g.below(10); uint32_t li = rel_field(g, 26) & 0x03FFFFFCu;
	if (k < 7) p32be(v, 0x48000001u | li); else if (k < 9) p32be(v, 0x48000000u | li | g.below(4)); else p32be(v, ((uint32_t)(0x10 + g.below(4)) << 26) | li | 1);
}
static void emit_sparc(Rng &g, std::vector<uint8_t> &v) {
	unsigned k = g.below(10); uint32_t d = rel_field(g, 22);
	if (k < 4) p32be(v, 0x40000000u | d); else if (k < 8) p32be(v, 0x7FC00000u | d);
	else if (k == 8) p32be(v, 0x40000000u | (((uint32_t)g.next()) & 0x3FFFFFFFu));                 // any 30-bit displacement
	else p32be(v, (g.below(2) ? 0x40400000u : 0x7F800000u) | d);                                    // just outside the accepted shape
}
static void emit_ia64(Rng &g, std::vector<uint8_t> &v) {
	uint8_t b[16]; for (auto &x : b) x = g.byte();
	static const uint8_t br_templates[] = {0x10, 0x11, 0x12, 0x13, 0x16, 0x17, 0x18, 0x19, 0x1C, 0x1D};
	unsigned t = g.below(4) ? br_templates[g.below(10)] : g.below(32);
	b[0] = (uint8_t)((b[0] & 0xE0) | t);
	auto set = [&](unsigned pos, unsigned cnt, uint64_t val) { for (unsigned k = 0; k < cnt; ++k) { unsigned bit = pos + k; if ((val >> k) & 1) b[bit >> 3] |= (uint8_t)(1u << (bit & 7)); else b[bit >> 3] &= (uint8_t)~(1u << (bit & 7)); } };
	for (unsigned s = 0; s < 3; ++s) {
		unsigned base = 5 + 41 * s;
		if (g.below(4)) set(base + 37, 4, 5);
		if (g.below(5)) set(base + 9, 3, 0);
		if (g.below(2)) { uint32_t f = rel_field(g, 21); set(base + 13, 20, f & 0xFFFFF); set(base + 36, 1, f >> 20); }
	}
	v.insert(v.end(), b, b + 16);
}
static void emit_arm64(Rng &g, std::vector<uint8_t> &v, uint32_t pc) {
	unsigned k = g.below(12);
	if (k < 4) { p32le(v, 0x94000000u | rel_field(g, 26)); return; }
	if (k == 4) { p32le(v, (g.below(2) ? 0x14000000u : 0x10000000u) | rel_field(g, 24)); return; }   // B / ADR: untouched
	uint32_t imm;
	unsigned e = g.below(10);
	static const uint32_t edges[] = {0x1FFFF, 0x20000, 0x1DFFFF, 0x1E0000, 0, 0x1FFFFF, 0x1FFFE, 0x20001, 0x1E0001, 0x1DFFFE};
	if (e < 3) imm = edges[g.below(10)];
	else if (e < 5) imm = g.below(0x20000);                                   // inside, forward
	else if (e < 7) imm = 0x1E0000 + g.below(0x20000);                        // inside, backward
	else if (e == 7) imm = ((g.below(2) ? 0x20000u : 0x1E0000u) - (pc >> 12) + g.below(5) - 2) & 0x1FFFFF;  // result lands on the edge (encoder)
	else if (e == 8) imm = ((g.below(2) ? 0x20000u : 0x1E0000u) + (pc >> 12) + g.below(5) - 2) & 0x1FFFFF;  // result lands on the edge (decoder)
	else imm = (uint32_t)g.next() & 0x1FFFFF;
	p32le(v, 0x90000000u | ((imm & 3) << 29) | ((imm >> 2) << 5) | g.below(32));
}
static void emit_riscv(Rng &g, std::vector<uint8_t> &v) {
	static const uint32_t common_rd[] = {1, 5, 6, 10, 11, 15, 28, 31};
	auto pick_rd = [&]() -> uint32_t { unsigned k = g.below(10); return k < 6 ? common_rd[g.below(8)] : k < 7 ? 0 : k < 8 ? 2 : g.below(32); };
	auto inst2 = [&](uint32_t rs1) -> uint32_t {
		static const uint32_t ops[] = {0x67, 0x03, 0x23, 0x13, 0x07, 0x27, 0x1B};
		uint32_t op = g.below(8) ? ops[g.below(7)] : (g.below(128));        // sometimes anything (incl. compressed: low bits != 11)
		uint32_t imm12 = g.below(3) == 0 ? 0x800 + g.below(0x800) : g.below(4) == 0 ? g.below(2) * 0xFFF : g.below(0x1000);
		return op | (g.below(32) << 7) | (g.below(8) << 12) | (rs1 << 15) | (imm12 << 20); };
	auto imm20 = [&]() -> uint32_t { return rel_field(g, 20) << 12; };
	unsigned k = g.below(16);
	if (k < 4) { // JAL
		unsigned r = g.below(8); uint32_t rd = r < 4 ? 1 : r < 6 ? 5 : g.below(32);
		p32le(v, 0x6F | (rd << 7) | ((uint32_t)g.next() & 0xFFFFF000u & (g.below(3) ? 0xFFFFFFFFu : 0x801FF000u)));
	} else if (k < 10) { // AUIPC + inst2
		uint32_t rd = pick_rd(); uint32_t rs1 = g.below(8) ? rd : g.below(32);
		p32le(v, 0x17 | (rd << 7) | imm20());
		if (g.below(10) == 0) p16(v, (uint32_t)g.next() & 0xFFFC);             // a compressed instruction in between
		p32le(v, inst2(rs1));
	} else if (k < 13) { // the special packed form (what an encoded pair looks like), incl. the refused rs1 values
		unsigned r = g.below(8); uint32_t rs1 = r == 0 ? 0 : r == 1 ? 2 : g.below(32);
		uint32_t low2 = g.below(6) ? 3 : g.below(4);
		p32le(v, 0x17 | (2u << 7) | (low2 << 12) | (((uint32_t)g.next() & 0x1FFF) << 14) | (rs1 << 27));
		p32le(v, g.below(3) ? (uint32_t)g.next() : g.below(0x2000));
	} else if (k < 15) { // AUIPC followed by AUIPC whose bits 19..15 match (the false pair the spec talks about)
		uint32_t rd = pick_rd();
		p32le(v, 0x17 | (rd << 7) | imm20());
		uint32_t second = 0x17 | (pick_rd() << 7) | imm20(); if (g.below(2)) second = (second & ~(0x1Fu << 15)) | (rd << 15);
		p32le(v, second); p32le(v, inst2((second >> 7) & 0x1F));
	} else p16(v, (uint32_t)g.next() & 0xFFFC & ~(g.below(2) ? 0u : 1u));
}

static std::vector<uint8_t> gen_code(int f, uint32_t len, uint32_t start, uint64_t seed, unsigned density) {
	Rng g(seed * 0x9E3779B97F4A7C15ull + 15 + f);
	std::vector<uint8_t> v; v.reserve((size_t)len + 64);
	const uint32_t al = FI[f].align;
	while (v.size() < len) {
		unsigned r = g.below(16);
		if (r < density) {
			if (al > 1 && g.below(16)) while (v.size() % al) v.push_back(g.byte());   // mostly aligned, sometimes not
			unsigned cnt = 1 + g.below(6);
			for (unsigned i = 0; i < cnt; ++i) switch (f) {
				case F_X86: emit_x86(g, v); break; case F_POWERPC: emit_powerpc(g, v); break; case F_IA64: emit_ia64(g, v); break;
				case F_ARM: emit_arm(g, v); break; case F_ARMTHUMB: emit_armthumb(g, v); break; case F_ARM64: emit_arm64(g, v, start + (uint32_t)v.size()); break;
				case F_SPARC: emit_sparc(g, v); break; default: emit_riscv(g, v); break; }
		} else if (r < 14) { unsigned n = 1 + g.below(r < 12 ? 6 : 40); for (unsigned i = 0; i < n; ++i) v.push_back(g.byte()); }
		else { unsigned n = 1 + g.below(24); uint8_t b = g.below(2) ? 0x00 : 0xFF; for (unsigned i = 0; i < n; ++i) v.push_back(b); }
	}
	v.resize(len);
	return v;
}

// ---- reporting ------------------------------------------------------------------------------------
static std::string diff_text(const std::vector<uint8_t> &got, const std::vector<uint8_t> &want) {
	char b[96]; if (got.size() != want.size()) { snprintf(b, sizeof b, "length %zu instead of %zu", got.size(), want.size()); return b; }
	size_t i = 0; while (i < got.size() && got[i] == want[i]) ++i;
	if (i == got.size()) return "equal";
	size_t from = i >= 8 ? i - 8 : 0, n = std::min<size_t>(24, got.size() - from);
	snprintf(b, sizeof b, "first difference at offset %zu; bytes from %zu: got ", i, from);
	return std::string(b) + hex(got.data() + from, n) + " want " + hex(want.data() + from, n);
}

// does some input-piece boundary of the schedule fall inside a converted instruction?
static bool straddles(const drv::Schedule &s, const std::vector<uint8_t> &x, const std::vector<uint8_t> &y) {
	size_t n = x.size(); if (s.one_shot() || n < 2) return false;
	auto changed = [&](size_t lo, size_t hi) { for (size_t i = lo; i < hi && i < n; ++i) if (x[i] != y[i]) return true; return false; };
	size_t pos = 0; unsigned checked = 0;
	auto test = [&](size_t b) { return b > 0 && b < n && changed(b >= 4 ? b - 4 : 0, b) && changed(b, b + 4); };
	for (auto &p : s.pieces) { pos += p.in; if (pos >= n) return false; if (p.in && test(pos)) return true; if (++checked > 4096) return false; }
	if (!s.tail_in) return false;
	for (pos += s.tail_in; pos < n && checked < 20000; pos += s.tail_in, ++checked) if (test(pos)) return true;
	return false;
}

static void count_stats(int f, const ref::BcjStats &st) {
	if (st.converted) count(std::string(FI[f].name) + "_converted_case");
	count(std::string(FI[f].name) + "_instructions_converted", st.converted);
	if (f == F_X86) { count("x86_mask_reject", st.x86_mask_reject); count("x86_masked_convert", st.x86_masked_convert); count("x86_second_pass", st.x86_second_pass); }
	if (f == F_ARM64) { count("arm64_bl", st.a64_bl); count("arm64_adrp_converted", st.a64_adrp); count("arm64_adrp_outside_gate", st.a64_adrp_out_of_range);
		count("arm64_gate_edge_inside", st.a64_gate_edge_inside); count("arm64_gate_edge_outside", st.a64_gate_edge_outside); }
	if (f == F_RISCV) { count("riscv_jal", st.rv_jal); count("riscv_jal_other_rd", st.rv_jal_other_rd); count("riscv_pair", st.rv_pair); count("riscv_pair_negative_imm12", st.rv_pair_negative_imm12);
		count("riscv_not_pair", st.rv_not_pair); count("riscv_special_form", st.rv_special); count("riscv_special_refused", st.rv_special_refused); count("riscv_auipc_x0", st.rv_auipc_x0); }
	if (f == F_IA64) count("ia64_branch_slots_seen", st.ia64_slots_seen);
}

// ---- golden data: real ARM64 code / delta-coded data shipped in tests/files ----------------------
static void run_golden() {
	static const char *const names[] = {"good-1-arm64-lzma2-1.xz", "good-1-arm64-lzma2-2.xz", "good-1-delta-lzma2.tiff.xz", "good-1-3delta-lzma2.xz"};
	for (const char *nm : names) {
		std::vector<uint8_t> file;
		if (!cm::read_file(cm::repo_dir() + "/tests/files/" + nm, file) || file.size() < 32) { count("golden_file_missing"); continue; }
		g_stats.current = std::string("{\"mode\":\"golden\",\"file\":\"") + nm + "\"}";
		uint8_t *plain = (uint8_t *)malloc(4u << 20); if (!plain) harness_bug("oom");
		uint64_t memlimit = UINT64_MAX; size_t ip = 0, op = 0;
		lzma_ret r = lzma_stream_buffer_decode(&memlimit, 0, NULL, file.data(), &ip, file.size(), plain, &op, 4u << 20);
		if (r != LZMA_OK) violation("C15:golden", "%s: stream decoder returned %s", nm, drv::retname(r));
		std::vector<uint8_t> want(plain, plain + op); free(plain);
		lzma_block blk; memset(&blk, 0, sizeof blk); lzma_filter fl[LZMA_FILTERS_MAX + 1]; blk.filters = fl; blk.version = 1; blk.check = (lzma_check)(file[7] & 0x0F);
		blk.header_size = lzma_block_header_size_decode(file[12]);
		if (lzma_block_header_decode(&blk, NULL, file.data() + 12) != LZMA_OK) harness_bug("golden: Block Header of %s not decodable", nm);
		unsigned nf = 0; while (fl[nf].id != LZMA_VLI_UNKNOWN) ++nf;
		if (nf < 2 || fl[nf - 1].id != LZMA_FILTER_LZMA2) harness_bug("golden: unexpected chain in %s", nm);
		lzma_filter last[2] = {fl[nf - 1], {LZMA_VLI_UNKNOWN, NULL}};
		std::vector<uint8_t> comp(file.begin() + 12 + blk.header_size, file.end());
		lzma_stream s = LZMA_STREAM_INIT; if (lzma_raw_decoder(&s, last) != LZMA_OK) harness_bug("golden: raw decoder init");
		drv::Opts o; o.out_cap = 4u << 20; drv::Result R = drv::run(&s, comp.data(), comp.size(), drv::Schedule(), o); lzma_end(&s);
		if (R.ret != LZMA_STREAM_END) violation("C15:golden", "%s: LZMA2 layer alone: %s", nm, drv::retname(R.ret));
		std::vector<uint8_t> y = R.out; bool any = false;
		for (unsigned i = nf - 1; i-- > 0;) {
			int f = filter_by_id(fl[i].id); if (f < 0) harness_bug("golden: unknown filter");
			uint32_t param = f == F_DELTA ? ((lzma_options_delta *)fl[i].options)->dist : (fl[i].options ? ((lzma_options_bcj *)fl[i].options)->start_offset : 0);
			std::vector<uint8_t> before = y; ref_apply(f, y, param, false); if (before != y) any = true;
		}
		lzma_filters_free(fl, NULL);
		if (y != want) violation("C15:golden", "%s: reference filters applied to the LZMA2 output do not give the file's content (%s)", nm, diff_text(y, want).c_str());
		count("golden_files_ok"); ++g_stats.evals;
		if (any) nontrivial(hcomb(0x601d, hash_bytes(nm, strlen(nm))));
	}
	g_stats.current.clear();
}

// ---- one case ---------------------------------------------------------------------------------------
static void one_case(Case &c) {
	int f = (int)c.u(F_N + 3); if (f >= F_N) f = f == F_N ? F_X86 : f == F_N + 1 ? F_RISCV : F_ARM64;   // the three stateful / intricate ones more often
	const uint32_t al = FI[f].align;
	// length: 0..64 KiB, mostly a few hundred bytes (throughput under ASan is ~1.5 MB/s per coder pass and a case makes four)
	uint32_t len; { uint8_t b = c.byte();
		if (b < 40) len = c.u(40); else if (b < 200) len = 16 + c.u16() % 600; else if (b < 232) len = c.len_exp(2048); else if (b < 250) len = c.len_exp(8192); else len = c.len_exp(1u << 16); }
	uint32_t param; bool null_opts = false, bad_param = false;
	if (f == F_DELTA) {
		unsigned k = c.u(8); param = k == 0 ? 1 : k == 1 ? 256 : k == 2 ? c.pick<uint32_t>({2, 3, 4, 8, 127, 128, 129, 255}) : 1 + c.u(256);
		if (rare(c, 6)) { param = c.flag() ? 0 : 257 + c.u(1000); bad_param = true; }
	} else {
		unsigned k = c.u(10); uint32_t r = c.u32();
		if (k < 3) { param = 0; null_opts = c.flag(); }
		else if (k < 5) param = (r & 0xFFFF) * al;
		else if (k < 8) param = (0u - (1 + r % (len + 2 * al))) & ~(al - 1);   // just below 2^32: the position wraps inside (or right after) the buffer
		else param = r & ~(al - 1);
		if (al > 1 && rare(c, 8)) { param += 1 + c.u(al - 1); null_opts = false; bad_param = true; }
	}
	uint64_t seed = c.u32();
	unsigned density = c.pick<unsigned>({12, 12, 9, 6, 3, 0});
	bool enc_first = c.flag();
	drv::Schedule s1 = drv::draw_schedule(c), s2 = drv::draw_schedule(c);
	bool use_sys = rare(c, 64);
	{ char t[256]; snprintf(t, sizeof t, "{\"filter\":\"%s\",\"%s\":%u,\"null_options\":%s,\"len\":%u,\"seed\":%llu,\"density\":%u,\"first\":\"%s\",\"sys\":%s,\"sched1\":",
			FI[f].name, f == F_DELTA ? "dist" : "start_offset", param, null_opts ? "true" : "false", len, (unsigned long long)seed, density, enc_first ? "encode" : "decode", use_sys ? "true" : "false");
		set_desc(std::string(t) + s1.describe() + ",\"sched2\":" + s2.describe() + "}"); }

	const uint32_t pre_dist = (!bad_param && rare(c, 56)) ? (c.flag() ? 1 : 1 + c.u(256)) : 0;
	if (pre_dist) { std::string &d = g_stats.current; if (!d.empty() && d.back() == '}') { d.pop_back(); d += ",\"delta_in_front\":" + std::to_string(pre_dist) + "}"; } count("filter_fed_by_another_filter"); }
	Chain ch(f, param, null_opts, pre_dist);
	if (bad_param) { // must be refused by both initialisers
		lzma_stream s = LZMA_STREAM_INIT; lzma_ret a = lzma_raw_encoder(&s, ch.with); lzma_end(&s);
		lzma_stream d = LZMA_STREAM_INIT; lzma_ret b = lzma_raw_decoder(&d, ch.with); lzma_end(&d);
		if (a != LZMA_OPTIONS_ERROR || b != LZMA_OPTIONS_ERROR)
			violation(f == F_DELTA ? "C15:delta-distance-accepted" : "C15:misaligned-offset-accepted", "%s with %s %u: encoder init %s, decoder init %s (expected OPTIONS_ERROR)", FI[f].name, f == F_DELTA ? "dist" : "start_offset", param, drv::retname(a), drv::retname(b));
		count(f == F_DELTA ? "delta_bad_distance_refused" : "misaligned_offset_refused");
		return;
	}

	std::vector<uint8_t> x;
	if (f == F_DELTA || density == 0) { Recipe r; r.kind = (int)(seed % RK_NKINDS); if (r.kind == RK_LITERAL) r.kind = RK_RANDOM; r.len = len; r.seed = seed; r.period = 1 + (uint32_t)((seed >> 8) % 300); r.alpha = 256; x = expand(r); }
	else x = gen_code(f, len, param, seed, density);

	const char *d1 = enc_first ? "encode" : "decode", *d2 = enc_first ? "decode" : "encode";
	// reference
	ref::BcjStats st;
	// encoding applies the chain front to back (Delta in front first), decoding back to front
	std::vector<uint8_t> y_ref = x; if (pre_dist && enc_first) ref_apply(F_DELTA, y_ref, pre_dist, true);
	const size_t processed = ref_apply(f, y_ref, param, enc_first, &st); if (pre_dist && !enc_first) ref_apply(F_DELTA, y_ref, pre_dist, false);
	std::vector<uint8_t> z_ref = y_ref; if (pre_dist && !enc_first) ref_apply(F_DELTA, z_ref, pre_dist, true);
	ref_apply(f, z_ref, param, !enc_first); if (pre_dist && enc_first) ref_apply(F_DELTA, z_ref, pre_dist, false);
	// (1) pinned + (3) length + (4) slicing, first direction
	std::vector<uint8_t> lz2;
	std::vector<uint8_t> y = lib_transform(ch, x, enc_first, s1, &lz2);
	if (y.size() != x.size()) violation("C15:length", "%s %s: %zu bytes in, %zu bytes out", FI[f].name, d1, x.size(), y.size());
	if (y != y_ref) { std::string sig = std::string("C15:pinned-") + FI[f].name + "-" + d1;
		violation(sig.c_str(), "%s %s differs from the reference algorithm: %s", FI[f].name, d1, diff_text(y, y_ref).c_str()); }
	// (2) the opposite direction gives the input back (and is pinned too, on filtered-looking data)
	std::vector<uint8_t> z = lib_transform(ch, y, !enc_first, s2);
	if (z.size() != x.size()) violation("C15:length", "%s %s: %zu bytes in, %zu bytes out", FI[f].name, d2, y.size(), z.size());
	if (z != x) { std::string sig = std::string("C15:roundtrip-") + FI[f].name;
		violation(sig.c_str(), "%s: %s after %s does not return the original: %s (reference round trip %s)", FI[f].name, d2, d1, diff_text(z, x).c_str(), z_ref == x ? "ok" : "also differs"); }
	if (z_ref != x) violation("C15:reference-roundtrip", "%s: liblzma round trip is fine but the reference %s does not invert its %s: %s", FI[f].name, d2, d1, diff_text(z_ref, x).c_str());
	// (4) one-shot functions
	if ((f == F_X86 || f == F_ARM64 || f == F_RISCV) && !pre_dist) {
		std::vector<uint8_t> b = x; static uint8_t dummy[8]; uint8_t *p = b.empty() ? dummy : b.data(); size_t got;
		if (f == F_X86) got = enc_first ? lzma_bcj_x86_encode(param, p, b.size()) : lzma_bcj_x86_decode(param, p, b.size());
		else if (f == F_ARM64) got = enc_first ? lzma_bcj_arm64_encode(param, p, b.size()) : lzma_bcj_arm64_decode(param, p, b.size());
		else got = enc_first ? lzma_bcj_riscv_encode(param, p, b.size()) : lzma_bcj_riscv_decode(param, p, b.size());
		if (b != y_ref || got != processed) { std::string sig = std::string("C15:oneshot-") + FI[f].name + "-" + d1;
			violation(sig.c_str(), "lzma_bcj_%s_%s: processed %zu (reference %zu); %s", FI[f].name, d1, got, processed, diff_text(b, y_ref).c_str()); }
		size_t tail = x.size() - got; if (got > x.size() || tail > (f == F_X86 ? 4u : f == F_ARM64 ? 3u : 7u)) violation("C15:oneshot-tail", "lzma_bcj_%s_%s left %zu bytes unprocessed", FI[f].name, d1, tail);
		count("oneshot_compared");
	}
	// (5) released liblzma
	if (use_sys && sys().ok) {
		std::vector<uint8_t> ys; bool have;
		if (enc_first) { std::vector<uint8_t> comp; have = sys_run(true, ch.with, x, comp_cap(x.size()), comp, "raw encoder [F,LZMA2]");
			if (have) ys = raw_run(false, ch.without, comp, drv::Schedule(), x.size() + 4096, "raw decoder [LZMA2] on the system encoder's output"); }
		else have = sys_run(false, ch.with, lz2, x.size() + 4096, ys, "raw decoder [F,LZMA2]");
		if (!have) { if (f != F_RISCV) violation("C15:sys541-status", "system liblzma %s refuses the %s filter", sys().ver.c_str(), FI[f].name); count("sys_no_riscv_filter"); }
		else { if (ys != y_ref) { std::string sig = std::string("C15:sys541-") + FI[f].name + "-" + d1;
				violation(sig.c_str(), "released liblzma %s gives different bytes for %s %s: %s", sys().ver.c_str(), FI[f].name, d1, diff_text(ys, y_ref).c_str()); }
			count("sys_compared"); count(std::string("sys_compared_") + FI[f].name); if (y_ref != x) count("sys_compared_nontrivial"); }
	} else if (use_sys) count("sys_library_unavailable");

	// bookkeeping
	count(std::string("filter_") + FI[f].name); count(enc_first ? "first_encode" : "first_decode");
	if (f != F_DELTA) count_stats(f, st);
	if (f == F_DELTA) { if (param == 1) count("delta_dist_1"); if (param == 256) count("delta_dist_256"); if (x.size() > param) count("delta_longer_than_distance"); }
	else { if ((uint64_t)param + x.size() > 0xFFFFFFFFull && param) count("offset_wraps_inside_buffer"); if (null_opts) count("null_options"); }
	if (!s1.one_shot()) count("sliced_first"); if (!s2.one_shot()) count("sliced_second");
	bool changed = y_ref != x;
	if (changed && f != F_DELTA && (straddles(s1, x, y_ref) || straddles(s2, x, y_ref))) count("boundary_straddles_converted_instruction");
	if (f == F_X86 && st.x86_masked_convert + st.x86_mask_reject > 0 && (!s1.one_shot() || !s2.one_shot())) count("x86_prev_mask_active_in_sliced_case");
	if (processed < x.size() && x.size()) count("unprocessed_tail");
	if (changed) nontrivial(hcomb(hcomb(f, param), hcomb(hash_bytes(x.data(), x.size()), enc_first)));
}

extern "C" size_t vfresh_max(void) { return 120; }

extern "C" int LLVMFuzzerTestOneInput(const uint8_t *data, size_t size) {
	begin_case("C15");
	static bool once = false;
	if (!once) { once = true; if (!getenv("VERIF_C15_SKIP_GOLDEN")) run_golden(); /* the variable exists for sensitivity experiments only */ count(sys().ok ? "sys_library_loaded" : "sys_library_not_loaded"); }
	Case c(data, size);
	// the last case byte decides (for ~1/4 of the cases) that every filtering coder runs on a "warm" handle, see warm_up()
	g_warm = size && (data[size - 1] & 3) == 3 ? 1 + ((data[size - 1] >> 2) & 3) : 0;
	one_case(c);
	return 0;
}
