// minidrv.cc - a tiny stand-in for the libFuzzer driver, used for the ThreadSanitizer builds:
// coverage counters (non-atomic increments from several threads) are themselves data races for TSan, so those
// binaries carry no coverage instrumentation and no libFuzzer.  Same command line subset as libFuzzer:
//   t_xxx -runs=N -seed=S -max_len=L -artifact_prefix=P [corpus dir | input files ...]
// Generation = the "fresh case" generator of vmut.cc (seeded PRNG => a pure function of the seed) plus simple
// byte mutations of corpus inputs.  The current input is written to <P>crash-current-<pid> before each case and
// removed after it, so whatever kills the process (TSan with halt_on_error, a trap, an assert) leaves the
// reproducer behind, renamed by the orchestrator like a libFuzzer artifact.
#include <stdint.h>
#include <stdio.h>
#include <stdlib.h>
#include <string.h>
#include <string>
#include <vector>
#include <algorithm>
#include <dirent.h>
#include <sys/stat.h>
#include <unistd.h>
#include <signal.h>

extern "C" int LLVMFuzzerTestOneInput(const uint8_t *data, size_t size);
extern "C" __attribute__((weak)) size_t vfresh_max(void);

static uint64_t sm64(uint64_t &s) { s += 0x9E3779B97F4A7C15ull; uint64_t z = s; z = (z ^ (z >> 30)) * 0xBF58476D1CE4E5B9ull; z = (z ^ (z >> 27)) * 0x94D049BB133111EBull; return z ^ (z >> 31); }

static bool read_file(const std::string &p, std::vector<uint8_t> &v) { FILE *f = fopen(p.c_str(), "rb"); if (!f) return false; v.clear(); uint8_t b[4096]; size_t n; while ((n = fread(b, 1, sizeof b, f)) > 0) v.insert(v.end(), b, b + n); fclose(f); return true; }

static std::string g_cur;
static unsigned g_timeout = 60;
// a case that does not return within the time limit (deadlock, lost wake-up, unbounded loop): say so and leave the
// reproducer (crash-current file) behind.  The orchestrator replays it three times before it believes it.
static void on_alarm(int) {
	static const char m[] = "\n=== VERIF-VIOLATION property=NA signature=hang:case-did-not-return-within-time-limit\n=== reason: the case did not return within the per-case time limit of the plain driver (deadlock / lost wake-up / unbounded loop)\n";
	ssize_t r = write(2, m, sizeof m - 1); (void)r; _exit(86);
}
static void run_one(const std::vector<uint8_t> &in) {
	if (!g_cur.empty()) { FILE *f = fopen(g_cur.c_str(), "wb"); if (f) { if (!in.empty()) fwrite(in.data(), 1, in.size(), f); fclose(f); } }
	static uint8_t z[1];
	alarm(g_timeout);
	LLVMFuzzerTestOneInput(in.empty() ? z : in.data(), in.size());
	alarm(0);
	if (!g_cur.empty()) unlink(g_cur.c_str());
}

int main(int argc, char **argv) {
	long runs = -1; uint64_t seed = 1; size_t max_len = 256; std::string prefix; std::vector<std::string> paths;
	for (int i = 1; i < argc; ++i) { std::string a = argv[i];
		if (a.compare(0, 6, "-runs=") == 0) runs = atol(a.c_str() + 6); else if (a.compare(0, 6, "-seed=") == 0) seed = strtoull(a.c_str() + 6, NULL, 10);
		else if (a.compare(0, 9, "-max_len=") == 0) max_len = (size_t)atol(a.c_str() + 9); else if (a.compare(0, 17, "-artifact_prefix=") == 0) prefix = a.substr(17); else if (a.compare(0, 9, "-timeout=") == 0) g_timeout = (unsigned)atoi(a.c_str() + 9);
		else if (a[0] == '-') continue; else paths.push_back(a); }
	signal(SIGALRM, on_alarm);
	std::vector<std::vector<uint8_t>> corpus; bool replay_only = false;
	for (auto &p : paths) { struct stat st; if (stat(p.c_str(), &st) != 0) continue;
		if (S_ISDIR(st.st_mode)) { DIR *d = opendir(p.c_str()); if (!d) continue; std::vector<std::string> names; while (struct dirent *e = readdir(d)) if (e->d_name[0] != '.') names.push_back(e->d_name); closedir(d);
			std::sort(names.begin(), names.end()); for (auto &n : names) { std::vector<uint8_t> v; if (read_file(p + "/" + n, v)) corpus.push_back(v); } }
		else { std::vector<uint8_t> v; if (read_file(p, v)) { corpus.push_back(v); replay_only = true; } } }
	if (!prefix.empty()) g_cur = prefix + "crash-current-" + std::to_string((long)getpid());
	if (replay_only && runs < 0) { fprintf(stderr, "%s: Running %zu inputs\n", argv[0], corpus.size()); for (auto &c : corpus) run_one(c); fprintf(stderr, "Executed %zu inputs\n", corpus.size()); return 0; }
	for (auto &c : corpus) run_one(c);
	uint64_t s = seed * 0x2545F4914F6CDD1Dull + 1;
	size_t cap = vfresh_max ? vfresh_max() : 96; if (cap > max_len) cap = max_len;
	for (long r = 0; r < runs; ++r) {
		std::vector<uint8_t> in;
		uint64_t k = sm64(s);
		if (!corpus.empty() && (k % 4) == 0) { in = corpus[sm64(s) % corpus.size()]; size_t m = 1 + sm64(s) % 4; for (size_t j = 0; j < m && !in.empty(); ++j) in[sm64(s) % in.size()] = (uint8_t)sm64(s); if (in.size() > max_len) in.resize(max_len); }
		else { size_t n = cap ? 8 + (size_t)(sm64(s) % cap) : 0; if (n > max_len) n = max_len; in.resize(n); for (size_t i = 0; i < n; ++i) in[i] = (uint8_t)sm64(s); size_t zc = n / 4; for (size_t i = 0; i < zc; ++i) in[sm64(s) % n] = (uint8_t)(sm64(s) % 4); }
		run_one(in);
	}
	fprintf(stderr, "Done %ld runs\n", runs);
	return 0;
}
