// c10_scen2.h - lzma_filters_update scenario, scenario drawing, and the fault-plan driver of t_c10.
#pragma once
#include <memory>

// ---- lzma_filters_update in the middle of encoding --------------------------------------------------------------------------------
struct UpdSpec { int enc = 0; /* 0 stream, 1 stream_mt, 2 raw */ Chain a, b; std::vector<uint8_t> p1, p2; lzma_check check = LZMA_CHECK_CRC32; bool skip_on_fail = false; UpdSpec() {} UpdSpec(const UpdSpec &) = delete; };
static const char *upd_names[] = {"stream_encoder", "stream_encoder_mt", "raw_encoder"};
static lzma_ret upd_init(lzma_stream *s, UpdSpec &S) {
	if (S.enc == 0) return lzma_stream_encoder(s, S.a.f, S.check);
	if (S.enc == 1) { lzma_mt m; memset(&m, 0, sizeof m); m.threads = 2; m.block_size = 4096; m.filters = S.a.f; m.check = S.check; return lzma_stream_encoder_mt(s, &m); }
	return lzma_raw_encoder(s, S.a.f);
}
static void scen_update(Run &r, UpdSpec &S) {
	lzma_stream s = LZMA_STREAM_INIT; s.allocator = &r.al.a; const char *api = upd_names[S.enc];
	const lzma_action mid = S.enc == 2 ? LZMA_SYNC_FLUSH : (S.enc == 1 ? LZMA_FULL_BARRIER : LZMA_FULL_FLUSH);
	std::vector<uint8_t> out; bool skipped = false, redo = false;
	auto part = [&](const std::vector<uint8_t> &p, lzma_action fin) -> drv::Result { drv::Opts o; o.final_action = fin; o.idle_limit = 100000; return drv::run(&s, p.data(), p.size(), drv::Schedule(), o); };
	for (unsigned t = 0;; ++t) { lzma_ret ir = upd_init(&s, S); S.a.check_unchanged(r, api); if (ir != LZMA_MEM_ERROR) { r.result(api, (uint64_t)ir); if (ir != LZMA_OK) harness_bug("%s init %s", api, drv::retname(ir)); break; }
		r.memfail(api); r.expect_live(api, 0, "a failed initialisation must leave nothing allocated"); r.next_try(t, api); }
	drv::Result R1 = part(S.p1, mid);
	if (R1.ret == LZMA_MEM_ERROR) { r.memfail("lzma_code"); redo = true; }
	else {
		if (R1.ret != LZMA_STREAM_END) harness_bug("%s: part 1 ended with %s", api, drv::retname(R1.ret));
		out = R1.out;
		for (unsigned t = 0;; ++t) { lzma_ret q = lzma_filters_update(&s, S.b.f); S.b.check_unchanged(r, "lzma_filters_update");
			if (q != LZMA_MEM_ERROR) { r.result("lzma_filters_update", (uint64_t)q); if (q != LZMA_OK) harness_bug("lzma_filters_update: %s", drv::retname(q)); break; }
			r.memfail("lzma_filters_update");
			if (S.skip_on_fail) { skipped = true; break; }   // the update was refused: the encoder carries on with the old chain
			r.next_try(t, "lzma_filters_update"); }
		drv::Result R2 = part(S.p2, LZMA_FINISH);
		if (R2.ret == LZMA_MEM_ERROR) { r.memfail("lzma_code"); redo = true; }
		else { if (R2.ret != LZMA_STREAM_END) violation("C10:encoder-broken-after-refused-update", "%s: part 2 ended with %s (update %s)", r.where("lzma_code").c_str(), drv::retname(R2.ret), skipped ? "refused" : "accepted"); out.insert(out.end(), R2.out.begin(), R2.out.end()); }
	}
	if (redo) { // the handle is re-initialised without lzma_end and the whole program repeated with memory available again
		r.al.plan_none(); skipped = false;
		if (S.enc == 1 && known_finding(SIG_MT_STALE)) lzma_end(&s);
		if (upd_init(&s, S) != LZMA_OK) violation("C10:handle-unusable-after-failure", "%s: re-initialisation after LZMA_MEM_ERROR failed", r.where(api).c_str());
		drv::Result A = part(S.p1, mid); if (A.ret != LZMA_STREAM_END) violation(S.enc == 1 && A.ret == LZMA_MEM_ERROR ? SIG_MT_STALE : "C10:handle-unusable-after-failure", "%s: part 1 after re-initialisation: %s", r.where(api).c_str(), drv::retname(A.ret));
		if (lzma_filters_update(&s, S.b.f) != LZMA_OK) violation("C10:handle-unusable-after-failure", "%s: lzma_filters_update after re-initialisation failed", r.where(api).c_str());
		drv::Result B = part(S.p2, LZMA_FINISH); if (B.ret != LZMA_STREAM_END) violation(S.enc == 1 && B.ret == LZMA_MEM_ERROR ? SIG_MT_STALE : "C10:handle-unusable-after-failure", "%s: part 2 after re-initialisation: %s", r.where(api).c_str(), drv::retname(B.ret));
		out = A.out; out.insert(out.end(), B.out.begin(), B.out.end());
		// the transcript of the fault-free run has the update entry; keep in step
		if (r.rec.size() < 2) r.result("lzma_filters_update", (uint64_t)LZMA_OK);
	} else if (skipped) r.skip("lzma_filters_update");
	lzma_end(&s);
	r.expect_live("lzma_end", 0, "after lzma_end");
	S.a.check_unchanged(r, "lzma_end"); S.b.check_unchanged(r, "lzma_end");
	// whatever happened, the produced stream decodes to the input (decoded with malloc, outside the fault plan)
	lzma_stream d = LZMA_STREAM_INIT; lzma_ret dr = S.enc == 2 ? lzma_raw_decoder(&d, S.a.f) : lzma_stream_decoder(&d, UINT64_MAX, 0);
	if (dr != LZMA_OK) harness_bug("decoder init");
	drv::Result D = drv::run(&d, out.data(), out.size(), drv::Schedule()); lzma_end(&d);
	std::vector<uint8_t> want = S.p1; want.insert(want.end(), S.p2.begin(), S.p2.end());
	if (D.ret != LZMA_STREAM_END || D.out != want) violation("C10:encoder-broken-after-refused-update", "%s: output of the encoder (update %s) decodes to %s / %zu bytes, input was %zu bytes", r.where("roundtrip").c_str(), skipped ? "refused" : "accepted", drv::retname(D.ret), D.out.size(), want.size());
	if (!skipped) r.result("output", out.empty() ? 1 : hash_bytes(out.data(), out.size())); else r.skip("output");
}

// ---- a scenario = family + parameters ---------------------------------------------------------------------------------------------
enum Family { F_CODER, F_REUSE, F_BUFFER, F_INDEX, F_FILTERS, F_UPDATE, F_N };
static const char *family_names[] = {"coder", "reuse", "buffer", "index", "filters", "update"};
struct Scenario {
	int family = F_CODER; std::string desc; uint64_t hash = 0; std::string label;
	Coder coder; unsigned after_fail = 0; ReuseSpec reuse; BufSpec buf; IndexSpec idx; FilterSpec fil; UpdSpec upd;
	void run(Run &r) { switch (family) { case F_CODER: scen_coder(r, coder, after_fail); break; case F_REUSE: scen_reuse(r, reuse); break; case F_BUFFER: scen_buffer(r, buf); break;
		case F_INDEX: scen_index(r, idx); break; case F_FILTERS: scen_filters(r, fil); break; default: scen_update(r, upd); break; } }
};

static std::vector<uint8_t> small_plain(Case &c, uint32_t maxlen) { Recipe r; r.kind = c.pick({RK_TEXT, RK_RANDOM, RK_CONST, RK_COPY_EDITS}); r.seed = c.u16(); r.alpha = 16; r.period = 9; r.len = c.len_exp(maxlen); return expand(r); }

static void draw_scenario(Case &c, Scenario &S) {
	uint8_t fb = c.byte();
	S.family = fb < 110 ? F_CODER : fb < 150 ? F_REUSE : fb < 185 ? F_BUFFER : fb < 210 ? F_INDEX : fb < 235 ? F_FILTERS : F_UPDATE;
	switch (S.family) {
	case F_CODER: { int kind = c.u(CK_N); make_coder(c, S.coder, kind); S.after_fail = c.u(4); S.label = ck_names[kind];
		S.desc = "\"coder\":" + coder_desc(S.coder) + ",\"after_fail\":" + std::to_string(S.after_fail); S.hash = hcomb(coder_hash(S.coder), S.after_fail); break; }
	case F_REUSE: { unsigned n = 2 + c.u(3); S.desc = "\"coders\":["; S.reuse.end_between_failures = c.flag();
		for (unsigned i = 0; i < n; ++i) { std::unique_ptr<Coder> k(new Coder()); int kind = c.u(CK_N); make_coder(c, *k, kind); uint8_t how = (uint8_t)c.u(3); if (kind == CK_ENC_MICRO && how == 1) how = 2;
			S.desc += (i ? "," : "") + ("{\"how\":" + std::to_string(how) + ",\"c\":" + coder_desc(*k) + "}"); S.hash = hcomb(S.hash, hcomb(coder_hash(*k), how)); S.label += (i ? "," : "") + std::string(ck_names[kind]);
			S.reuse.coders.push_back(std::move(k)); S.reuse.how.push_back(how); }
		S.desc += "],\"end_between_failures\":" + std::string(S.reuse.end_between_failures ? "true" : "false"); S.hash = hcomb(S.hash, S.reuse.end_between_failures); break; }
	case F_BUFFER: { BufSpec &B = S.buf; B.fn = c.u(9); B.check = c.pick({LZMA_CHECK_CRC32, LZMA_CHECK_CRC64, LZMA_CHECK_SHA256, LZMA_CHECK_NONE}); B.preset = c.u(2); B.plain = small_plain(c, 4000);
		unsigned ck = c.u(4); if ((B.fn == 3 || B.fn == 6) && c.flag()) ck = 4 + c.u(2); B.ch.make(ck, c.u(4)); S.label = buf_names[B.fn];
		const uint8_t *ip = B.plain.empty() ? NOTHING : B.plain.data();
		memset(&B.blk, 0, sizeof B.blk); B.blk.version = 1; B.blk.check = B.check; B.blk.filters = B.ch.f;
		if (B.fn >= 4) { B.enc.resize(B.plain.size() * 2 + 4096); size_t op = 0; lzma_ret er = LZMA_OK;
			if (B.fn == 4) er = lzma_stream_buffer_encode(B.ch.f, B.check, NULL, ip, B.plain.size(), B.enc.data(), &op, B.enc.size());
			else if (B.fn == 5 || B.fn == 8) { er = lzma_block_buffer_encode(&B.blk, NULL, ip, B.plain.size(), B.enc.data(), &op, B.enc.size()); B.hdr = B.blk.header_size;
				// lzma_block_buffer_encode may have fallen back to stored chunks with its own one-filter chain: decode with what the header says
				if (B.fn == 5 && (B.enc[1] & 3u) + 1 != B.ch.n) B.fn = 8; }
			else if (B.fn == 6) er = lzma_raw_buffer_encode(B.ch.f, NULL, ip, B.plain.size(), B.enc.data(), &op, B.enc.size());
			else { lzma_index *i = make_index(c, c.pick<unsigned>({0, 1, 3, 600}), NULL); if (!i) harness_bug("prep: index"); B.enc.resize((size_t)lzma_index_size(i)); er = lzma_index_buffer_encode(i, B.enc.data(), &op, B.enc.size()); lzma_index_end(i, NULL); }
			if (er != LZMA_OK) harness_bug("prep: buffer encode %s", drv::retname(er)); B.enc.resize(op); }
		if (B.ch.bytes() != B.ch.snap) harness_bug("prep modified the chain");
		S.desc = "\"fn\":\"" + std::string(buf_names[B.fn]) + "\",\"plain\":" + std::to_string(B.plain.size()) + ",\"chain_filters\":" + std::to_string(B.ch.n) + ",\"check\":" + std::to_string((int)B.check);
		S.hash = hcomb(hcomb(B.fn, (unsigned)B.check), hcomb(hash_bytes(B.ch.snap.data(), B.ch.snap.size()), B.plain.empty() ? 3 : hash_bytes(B.plain.data(), B.plain.size()))); break; }
	case F_INDEX: { IndexSpec &I = S.idx; I.na = c.pick<unsigned>({0, 1, 2, 5, 512, 513, 700}); I.nb = c.pick<unsigned>({0, 1, 3, 512, 600}); I.nc = c.pick<unsigned>({0, 1, 2, 513}); I.flags_a = c.flag(); I.dup_first = c.flag(); I.enc_dec = !rare(c, 60); I.pad = 4 * c.u(5); I.salt = c.u(200); S.label = "index";
		S.desc = "\"na\":" + std::to_string(I.na) + ",\"nb\":" + std::to_string(I.nb) + ",\"nc\":" + std::to_string(I.nc) + ",\"flags_a\":" + std::to_string(I.flags_a) + ",\"dup_first\":" + std::to_string(I.dup_first) + ",\"enc_dec\":" + std::to_string(I.enc_dec) + ",\"pad\":" + std::to_string(I.pad) + ",\"salt\":" + std::to_string(I.salt);
		S.hash = hcomb(hcomb(I.na * 1000 + I.nb, I.nc * 8 + I.flags_a * 4 + I.dup_first * 2 + I.enc_dec), hcomb(I.pad, I.salt)); break; }
	case F_FILTERS: { FilterSpec &T = S.fil; T.ch.make(c.u(6), c.u(4)); S.label = "filters";
		static const char *strs[] = {"6", "0e", "lzma2:dict=4KiB", "delta:dist=4 lzma2:preset=1,lc=0,lp=2", "x86:start=16--lzma2:dict=64KiB,mf=hc3,mode=fast,nice=16", "arm64 delta:dist=256 lzma2:preset=0", "lzma1:dict=8KiB,lc=1,lp=1,pb=1", "riscv powerpc=start=8 sparc lzma2"};
		unsigned si = c.u(8); T.str = strs[si]; T.str_flags = si == 6 ? LZMA_STR_ALL_FILTERS : (c.flag() ? LZMA_STR_ALL_FILTERS : 0); if (c.flag()) T.str_flags |= LZMA_STR_NO_VALIDATION;
		T.from_flags = c.pick<uint32_t>({0, LZMA_STR_ENCODER, LZMA_STR_DECODER, LZMA_STR_ENCODER | LZMA_STR_GETOPT_LONG, LZMA_STR_DECODER | LZMA_STR_NO_SPACES});
		T.list_flags = c.pick<uint32_t>({0, LZMA_STR_ENCODER, LZMA_STR_DECODER, LZMA_STR_ALL_FILTERS | LZMA_STR_ENCODER}); T.list_id = c.pick<lzma_vli>({LZMA_VLI_UNKNOWN, LZMA_FILTER_LZMA2, LZMA_FILTER_DELTA, LZMA_FILTER_X86});
		unsigned pk = c.u(4);
		if (pk == 0) { T.props_id = LZMA_FILTER_LZMA2; T.props = {(uint8_t)c.u(41)}; } else if (pk == 1) { T.props_id = LZMA_FILTER_LZMA1; T.props = {0x5D, 0, 0, 1, 0}; } else if (pk == 2) { T.props_id = LZMA_FILTER_DELTA; T.props = {(uint8_t)c.byte()}; } else { T.props_id = LZMA_FILTER_X86; T.props = {0, 1, 0, 0}; }
		{ lzma_filter one; one.id = T.ch.f[0].id; one.options = T.ch.f[0].options; if (one.id == LZMA_FILTER_LZMA1) one.id = LZMA_FILTER_LZMA2; /* LZMA1 has no Filter Flags form */ uint32_t sz = 0; if (lzma_filter_flags_size(&sz, &one) != LZMA_OK) harness_bug("filter_flags_size"); T.fflags.resize(sz); size_t p = 0; if (lzma_filter_flags_encode(&one, T.fflags.data(), &p, sz) != LZMA_OK) harness_bug("filter_flags_encode"); }
		{ lzma_block b; memset(&b, 0, sizeof b); b.version = 1; b.check = T.check; b.filters = T.ch.f; b.compressed_size = c.flag() ? LZMA_VLI_UNKNOWN : 1000; b.uncompressed_size = c.flag() ? LZMA_VLI_UNKNOWN : 5000;
			// LZMA1 is not allowed in a Block Header
			Chain hc; hc.make(T.ch.f[T.ch.n - 1].id == LZMA_FILTER_LZMA1 ? 3 : 0); if (T.ch.f[T.ch.n - 1].id == LZMA_FILTER_LZMA1) b.filters = hc.f;
			if (lzma_block_header_size(&b) != LZMA_OK) harness_bug("block_header_size"); T.bhdr.resize(b.header_size); if (lzma_block_header_encode(&b, T.bhdr.data()) != LZMA_OK) harness_bug("block_header_encode"); }
		if (T.ch.bytes() != T.ch.snap) harness_bug("prep modified the chain");
		S.desc = "\"str\":" + jstr(T.str) + ",\"str_flags\":" + std::to_string(T.str_flags) + ",\"from_flags\":" + std::to_string(T.from_flags) + ",\"list_flags\":" + std::to_string(T.list_flags) + ",\"props_id\":" + std::to_string((unsigned)T.props_id) + ",\"chain_filters\":" + std::to_string(T.ch.n);
		S.hash = hcomb(hcomb(si, T.str_flags * 64 + T.from_flags), hcomb(hash_bytes(T.ch.snap.data(), T.ch.snap.size()), hcomb(T.list_flags * 16 + pk, T.list_id))); break; }
	default: { UpdSpec &U = S.upd; U.enc = c.u(3); U.check = c.pick({LZMA_CHECK_CRC32, LZMA_CHECK_CRC64, LZMA_CHECK_NONE}); U.skip_on_fail = c.flag(); S.label = std::string("update:") + upd_names[U.enc];
		unsigned ka = c.u(4), kb = c.u(4), la = c.u(4), lb = c.u(4);
		if (U.enc == 2) { ka &= 1; kb = ka; }  // (BCJ filters do not support LZMA_SYNC_FLUSH)            // raw encoder after LZMA_SYNC_FLUSH: same filters, only lc/lp/pb of LZMA2 may change
		U.a.make(ka, la); U.b.make(kb, lb);
		if (U.enc == 2) { U.b.dl = U.a.dl; U.b.bcj = U.a.bcj; U.b.snap = U.b.bytes(); }
		U.p1 = small_plain(c, U.enc == 1 ? 9000 : 3000); U.p2 = small_plain(c, U.enc == 1 ? 9000 : 3000);
		S.desc = "\"encoder\":\"" + std::string(upd_names[U.enc]) + "\",\"chain_a\":" + std::to_string(ka) + ",\"chain_b\":" + std::to_string(kb) + ",\"lclppb\":[" + std::to_string(la) + "," + std::to_string(lb) + "],\"p1\":" + std::to_string(U.p1.size()) + ",\"p2\":" + std::to_string(U.p2.size()) + ",\"skip_on_fail\":" + (U.skip_on_fail ? "true" : "false");
		S.hash = hcomb(hcomb(U.enc * 100 + ka * 10 + kb, la * 10 + lb), hcomb(hcomb(U.p1.size(), U.p2.size()), (unsigned)U.check * 2 + U.skip_on_fail)); break; }
	}
}

// ---- the fault-plan driver --------------------------------------------------------------------------------------------------------
static const uint64_t K_CAP = 400;

static void run_plan(Scenario &S, va::Alloc &al, const std::vector<Step> &ref, const std::string &plan, uint64_t fail_at, bool from, const std::vector<uint8_t> *mask, uint64_t distinct_key) {
	if (!al.balanced()) harness_bug("allocator not balanced before a fault run");
	al.plan_none(); al.reset_counters(); al.fail_at = fail_at; al.fail_from = from; if (mask) al.fail_mask = *mask;
	Run r(al, &ref, S.label.c_str()); r.plan = plan;
	S.run(r); ++g_stats.evals;          // one evaluation = one execution of the scenario under one failure plan (plus one per case for the fault-free run)
	const uint64_t delivered = al.failed;
	al.plan_none();
	if (r.rec.size() != ref.size()) violation("C10:harness-transcript", "%s [%s]: %zu results recorded, fault-free run has %zu", S.label.c_str(), plan.c_str(), r.rec.size(), ref.size());
	if (!al.balanced()) violation("C10:leak", "%s [%s]: %llu bytes in %zu blocks live at the end of the scenario", S.label.c_str(), plan.c_str(), (unsigned long long)al.live_bytes, al.live.size());
	if (al.double_free || al.unknown_free) violation("C10:bad-free", "%s [%s]: double free / unknown pointer", S.label.c_str(), plan.c_str());
	count("fault_runs");
	if (delivered) { count("fault_runs_failure_delivered"); if (g_stats.distinct.size() < g_stats.max_distinct) g_stats.distinct.insert(distinct_key); }
	if (r.reports) count("fault_runs_memory_error_reported"); else if (delivered) count("fault_runs_failure_absorbed_result_equal");
}

extern "C" size_t vfresh_max(void) { return 120; }

extern "C" int LLVMFuzzerTestOneInput(const uint8_t *data, size_t size) {
	begin_case("C10");
	Case c(data, size);
	va::Alloc &al = AL();
	if (!al.balanced()) { al.drop_all(); }
	al.double_free = al.unknown_free = false;
	Scenario S; draw_scenario(c, S);
	std::vector<uint8_t> m1 = c.blob(8), m2 = c.blob(24);
	set_desc("{\"family\":\"" + std::string(family_names[S.family]) + "\"," + S.desc + "}");
	// 1. fault free
	al.plan_none(); al.reset_counters();
	Run r0(al, nullptr, S.label.c_str()); r0.plan = "fault-free";
	S.run(r0);
	const uint64_t K = al.calls;
	if (al.failed) harness_bug("failure delivered in the fault-free run");
	if (!al.balanced()) violation("C10:leak", "%s [fault-free]: %llu bytes in %zu blocks live at the end of the scenario", S.label.c_str(), (unsigned long long)al.live_bytes, al.live.size());
	const std::vector<Step> ref = r0.rec;
	g_stats.current.pop_back(); g_stats.current += ",\"K\":" + std::to_string(K) + ",\"results\":" + std::to_string(ref.size()) + "}";
	count(std::string("family_") + family_names[S.family]); count("scenario_" + S.label.substr(0, S.label.find(',')));
	count(K <= 4 ? "K_1-4" : K <= 16 ? "K_5-16" : K <= 64 ? "K_17-64" : K <= 200 ? "K_65-200" : K <= K_CAP ? "K_201-400" : "K_over_cap");
	count("K_sum", K);
	// 2. exhaustive single-point and tail failures
	const bool threaded = S.family == F_CODER ? (S.coder.kind == CK_ENC_MT || S.coder.kind == CK_DEC_MT) : (S.family == F_UPDATE ? S.upd.enc == 1 : S.family == F_REUSE);
	const uint64_t kmax = std::min<uint64_t>(K + (threaded ? 2 : 0), K_CAP);   // threaded scenarios: the count can vary by a few between runs
	for (uint64_t k = 1; k <= kmax; ++k) {
		run_plan(S, al, ref, "fail only allocation " + std::to_string(k) + " of " + std::to_string(K), k, false, nullptr, hcomb(S.hash, k * 4 + 1));
		run_plan(S, al, ref, "fail allocation " + std::to_string(k) + " and all later of " + std::to_string(K), k, true, nullptr, hcomb(S.hash, k * 4 + 2));
	}
	if (K > K_CAP) count("K_capped_scenarios");
	// 3. case-chosen masks
	run_plan(S, al, ref, "mask " + hex(m1.data(), m1.size()), 0, false, &m1, hcomb(S.hash, hash_bytes(m1.data(), m1.size())));
	run_plan(S, al, ref, "mask " + hex(m2.data(), m2.size()), 0, false, &m2, hcomb(S.hash, hash_bytes(m2.data(), m2.size())));
	if (K > 0) nontrivial(S.hash);
	return 0;
}
