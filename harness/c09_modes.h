// c09_modes.h - the case families of t_c09 (included by t_c09.cc after the runner/oracle core).
#pragma once

static std::string ladder_str(const std::vector<uint64_t> &l) { std::string s = "["; for (size_t i = 0; i < l.size() && i < 12; ++i) s += (i ? "," : "") + std::to_string(l[i]); return s + "]"; }

// ---- single-threaded decoders with a limit ------------------------------------------------------------------
static const uint64_t RAISE_CAP = 80u << 20;
static void limit_checks(Case &c, const Dec &d, const std::vector<uint8_t> &file, uint64_t fhash, const Plan &p, size_t out_hint, bool really) {
	const char *kn = kind_names[d.kind];
	const uint64_t cap = really ? UINT64_MAX : RAISE_CAP;
	// 1. discovery: limit 1, raised to exactly the reported need every time
	RunOut D = run_dec(d, file.data(), file.size(), 1, P_NEED, nullptr, drv::Schedule(), false, out_hint, cap);
	const std::vector<uint64_t> ladder = D.needs;
	annotate("needs", ladder_str(ladder));
	if (!D.env) note_slack(0, D.peak, D.final_limit);
	// 2. unlimited reference
	RunOut U; bool have_ref = false;
	if (D.governed) count("discovery_governed_big_need_not_raised");
	if (really && !D.env) { U = D; have_ref = true; if (D.events) count("restart_from_limit_1"); count("really_allocated_big_discovery_only"); }   // one really-big allocation per Block is enough
	else if (!D.env && !D.governed) {
		U = run_dec(d, file.data(), file.size(), UINT64_MAX, P_STOP, &ladder, drv::Schedule(), false, out_hint);
		if (!U.env) {
			have_ref = true;
			if (U.R.ret != LZMA_STREAM_END && !U.R.capped) harness_bug("generated file rejected by the %s decoder: %s", kn, drv::retname(U.R.ret));
			same_result("discovery run (limit 1, raised to each need)", kn, U.R, D.R, true);
			if (D.events) count("restart_from_limit_1");
			// the need the decoder reports at the end is covered by what was allocated +A the other way round: usage reported >= live bytes is (4)-like
		}
	}
	// 3. the case-chosen limit
	uint64_t N = ladder.empty() ? D.end_usage : ladder[p.which % ladder.size()];
	if (N == 0) N = 1;
	uint64_t L0 = sel_limit(p.sel, N);
	if (L0 > RAISE_CAP) L0 = N > RAISE_CAP ? N - 1 : RAISE_CAP;   // governed: never hand out a limit that lets the decoder allocate more than the cap unasked
	annotate("limit_value", std::to_string(L0));
	const int set_first = c09::rare(c, 90) ? 1 + (int)c.u(2) : 0;   // the chosen limit is installed with lzma_memlimit_set() before any input instead of at initialisation
	annotate("limit_set_before_input", std::to_string(set_first));
	RunOut C = run_dec(d, file.data(), file.size(), L0, p.policy, (D.env || D.governed) ? nullptr : &ladder, p.sch, p.probe_lower, out_hint, RAISE_CAP, set_first);
	if (D.governed && !C.env && C.events && !ladder.empty()) {
		// the truncated ladder is still binding up to its last entry
		for (uint64_t n : C.needs) { bool found = false; for (uint64_t m : ladder) if (m == n) found = true; if (!found && n <= ladder.back()) violation("C09:need-differs-between-runs", "%s decoder: need %llu not reported by the discovery run %s", kn, (unsigned long long)n, ladder_str(ladder).c_str()); }
	}
	if (!C.env) note_slack(0, C.peak, C.final_limit);
	check_chosen(d, C, L0, p, ladder, have_ref ? &U.R : nullptr);
	count(std::string("limit_") + kn); count(std::string("limit_sel_") + sel_names[p.sel]);
	if (D.env || C.env) count("case_with_environment_refusal");
	if (!ladder.empty() && ladder.size() >= 2) count("several_needs_in_one_file");
	uint64_t Leff = std::max<uint64_t>(1, L0);
	bool near = !ladder.empty() && Leff >= N / 2 && Leff <= sat_add(N, N);
	if (near || (C.events && p.policy != P_STOP)) nontrivial(hcomb(hcomb(fhash, d.kind * 977 + d.flags), hcomb(L0, p.policy * 31 + p.sch.hash())));
}

static void mode_limit(Case &c) {
	uint8_t fk = c.byte();
	Dec d; std::vector<uint8_t> file; uint64_t fhash = 0; std::string fdesc; size_t hint = 0;
	uint8_t fb = c.byte(); uint32_t flags = 0;
	if (fb & 1) flags |= LZMA_TELL_ANY_CHECK; if ((fb & 6) == 6) flags |= LZMA_TELL_NO_CHECK; if ((fb & 0x18) == 0x18) flags |= LZMA_IGNORE_CHECK; if ((fb & 0x60) == 0x60) flags |= LZMA_TELL_UNSUPPORTED_CHECK;
	bool use_auto = c09::rare(c, 64);
	const bool really = c09::rare(c, 4);   // needs above 80 MiB are really allocated only in these cases
	if (fk < 170) {
		c09::XzFile F; c09::BuildOpts bo; c09::build_xz(c, F, bo);
		file.swap(F.bytes); fhash = F.hash; fdesc = "\"xz\":{" + F.desc + "}"; hint = F.plain_total;
		d.kind = use_auto ? K_AUTO : K_STREAM; if (F.streams > 1 || c09::rare(c, 40)) flags |= LZMA_CONCATENATED; d.flags = flags;
		if (F.big) count("file_declares_over_64MiB_possible");
	} else if (fk < 215) {
		c09::OneFile F; c09::build_alone(c, F, use_auto);
		file.swap(F.bytes); fhash = F.hash; fdesc = "\"lzma\":{" + F.desc + "}";
		d.kind = use_auto ? K_AUTO : K_ALONE; d.flags = use_auto ? (flags & ~(uint32_t)(LZMA_TELL_ANY_CHECK | LZMA_TELL_NO_CHECK)) : 0;
	} else {
		c09::OneFile F; c09::build_lzip(c, F);
		file.swap(F.bytes); fhash = F.hash; fdesc = "\"lz\":{" + F.desc + "}";
		d.kind = use_auto ? K_AUTO : K_LZIP; if (F.members > 1 || c.flag()) flags |= LZMA_CONCATENATED; d.flags = flags;
	}
	Plan p = draw_plan(c);
	set_desc("{\"mode\":\"limit\",\"decoder\":\"" + std::string(kind_names[d.kind]) + "\",\"flags\":" + std::to_string(d.flags) + ",\"really_allocate_big\":" + (really ? "true" : "false") + "," + fdesc + ",\"plan\":" + plan_desc(p) + "}");
	limit_checks(c, d, file, fhash, p, hint, really);
}

// ---- threaded decoder -----------------------------------------------------------------------------------------
static void mode_mt(Case &c) {
	c09::XzFile F; c09::BuildOpts bo; bo.maxb = 28; bo.big_payload_chance = 70; bo.max_blocks = 10; bo.uniform = c09::rare(c, 56); c09::build_xz(c, F, bo);
	uint32_t flags = (F.streams > 1 || c09::rare(c, 40)) ? LZMA_CONCATENATED : 0;
	Dec st; st.kind = K_STREAM; st.flags = flags;
	Dec d; d.kind = K_MT; d.flags = flags; uint8_t tb = c.byte(); d.threads = tb < 230 ? 1 + tb % 4 : 5 + tb % 4;
	unsigned tsel = c.u(12), ssel = c.u(16);
	if (bo.uniform) { static const unsigned tight[] = {2, 2, 11, 3, 6, 4, 2, 11}; uint8_t q = c.byte(); if (q < 200) tsel = tight[q % 8]; if (d.threads < 3 && (q & 1)) d.threads += 2; }   // cache pressure needs a tight threading limit and a few threads
	Plan p = draw_plan(c); if (p.policy == P_STOP && c.flag()) p.policy = P_NEED;
	set_desc("{\"mode\":\"mt\",\"threads\":" + std::to_string(d.threads) + ",\"flags\":" + std::to_string(flags) + ",\"threading_sel\":" + std::to_string(tsel) + ",\"stop_sel\":" + std::to_string(ssel) + ",\"xz\":{" + F.desc + "},\"plan\":" + plan_desc(p) + "}");
	// needs and reference through the single-threaded decoder (public API only)
	RunOut D = run_dec(st, F.bytes.data(), F.bytes.size(), 1, P_NEED, nullptr, drv::Schedule(), false, F.plain_total);
	if (D.env) { count("mt_skipped_environment"); return; }
	if (D.R.ret != LZMA_STREAM_END && !D.R.capped) { if (D.events) violation("C09:restart-after-memlimit-fails", "stream decoder started with limit 1, limit raised to each reported need (%u times): a valid file then ends with %s", D.events, drv::retname(D.R.ret)); harness_bug("generated file rejected by the stream decoder: %s", drv::retname(D.R.ret)); }
	const std::vector<uint64_t> ladder = D.needs;
	const uint64_t maxneed = ladder.empty() ? D.end_usage : ladder.back();
	const uint64_t maxtot = std::max<uint64_t>(F.max_tot_est, maxneed);
	uint64_t thr;
	switch (tsel) { case 0: case 1: thr = UINT64_MAX; break; case 2: thr = maxtot + 1024; break; case 3: thr = maxtot + maxtot / 2; break; case 4: thr = 2 * maxtot + 4096; break; case 5: thr = 3 * maxtot; break;
	case 6: thr = (uint64_t)d.threads * maxtot + 8192; break; case 7: thr = maxneed; break; case 8: thr = maxneed - 1; break; case 9: thr = 1; break; case 10: thr = maxtot - 1; break; default: thr = maxtot + (F.max_tot_est - F.max_need_est) + 2048; break; }
	uint64_t N = ladder.empty() ? maxneed : ladder[p.which % ladder.size()];
	uint64_t stop;
	switch (ssel) { case 0: case 1: case 2: case 3: case 4: case 5: case 6: case 7: stop = UINT64_MAX; break; case 8: stop = maxneed; break; case 9: stop = maxneed - 1; break; case 10: stop = N / 2; break; case 11: stop = sat_add(maxneed, maxneed); break;
	case 12: stop = 1; break; case 13: stop = N - 1; break; case 14: stop = N; break; default: stop = thr; break; }
	d.threading = thr;
	annotate("needs", ladder_str(ladder)); annotate("maxtot_est", std::to_string(maxtot)); annotate("memlimit_threading", std::to_string(thr)); annotate("memlimit_stop", std::to_string(stop));
	const uint64_t thr_eff = std::max<uint64_t>(1, std::min(thr, std::max<uint64_t>(1, stop)));
	const uint64_t A = allowance(d.threads);
	// 0: within the limits, 1: above memlimit_stop + A, 2: above memlimit_threading + A although a single thread could stay within it
	auto over = [&](const RunOut &r) -> int { if (r.env) return 0; if (r.mt_over_peak) return 1; if (maxneed <= thr_eff && r.peak > sat_add(thr_eff, A)) return 2; return 0; };
	RunOut C = run_dec(d, F.bytes.data(), F.bytes.size(), stop, p.policy, &ladder, p.sch, false, F.plain_total);
	count("mt_runs"); count("mt_threads_" + std::to_string(d.threads));
	if (C.env) { count("case_with_environment_refusal"); return; }
	if (int ov = over(C)) {
		// the peak of a threaded run depends on timing: run the same decode three more times to tell a reproducible excess from a race
		int rep = 0; uint64_t worst = ov == 1 ? C.mt_over_peak : C.peak;
		for (int i = 0; i < 3; ++i) { RunOut C2 = run_dec(d, F.bytes.data(), F.bytes.size(), stop, p.policy, &ladder, p.sch, false, F.plain_total); if (over(C2)) { ++rep; worst = std::max(worst, C2.mt_over_peak ? C2.mt_over_peak : C2.peak); } }
		const uint64_t lim = ov == 1 ? C.mt_over_limit : thr_eff;
		if (rep >= 2) violation(ov == 1 ? "C09:mt-peak-above-stop-limit" : "C09:mt-peak-above-threading-limit", "threaded decoder (%u threads): peak live bytes %llu > %s %llu + allowance %llu (excess %llu; largest single-Block need %llu; reproduced in %d of 3 more runs)", d.threads,
			(unsigned long long)worst, ov == 1 ? "memlimit_stop" : "memlimit_threading", (unsigned long long)lim, (unsigned long long)A, (unsigned long long)(worst - lim), (unsigned long long)maxneed, rep);
		if (!known_finding("C09:mt-threading-limit-cache-race"))
			violation("C09:mt-threading-limit-cache-race", "threaded decoder (%u threads): peak live bytes %llu > %s %llu + allowance %llu (excess %llu; largest single-Block need %llu) in one run, reproduced in %d of 3 more runs: timing dependent", d.threads,
				(unsigned long long)worst, ov == 1 ? "memlimit_stop" : "memlimit_threading", (unsigned long long)lim, (unsigned long long)A, (unsigned long long)(worst - lim), (unsigned long long)maxneed, rep);
	}
	check_chosen(d, C, stop, p, ladder, &D.R);
	note_slack(1, C.peak, C.final_limit);
	if (maxneed <= thr_eff) { note_slack(2, C.peak, thr_eff); if (thr_eff != UINT64_MAX) count(thr_eff < (uint64_t)d.threads * maxtot ? "mt_threading_limit_binding" : "mt_threading_limit_loose"); }
	else count("mt_threading_limit_below_single_block_need");
	if (C.events) count("mt_memlimit_stop_hit");
	size_t nsizes = 0; for (auto &b : F.blk) nsizes += b.sizes; if (nsizes != F.blk.size()) count("mt_file_with_direct_mode_blocks"); if (nsizes) count("mt_file_with_threadable_blocks");
	if (bo.uniform) count("mt_file_uniform_blocks");
	bool hetero = false; for (auto &b : F.blk) if (b.need_est != F.blk[0].need_est) hetero = true; if (hetero) count("mt_blocks_with_different_needs");
	if (F.blk.size() >= 2 && (thr_eff != UINT64_MAX || C.events)) nontrivial(hcomb(hcomb(F.hash, d.threads), hcomb(hcomb(thr, stop), p.policy * 31 + p.sch.hash())));
}

#include "c09_modes2.h"
