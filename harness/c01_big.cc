// c01_big.cc - C01, thorough tier: one *natural* > 4 GiB streaming round trip (no hook), so that the match finder's
// 32-bit position counter wraps (normalize() at read_pos + offset == UINT32_MAX) the way it does in production.
// Data comes from a generator function, the encoder's output is fed straight into the decoder and the decoder's
// output is compared against a second instance of the generator: nothing is stored.
// usage: c01_big <GiB*10 (default 43 = 4.3 GiB)> ; prints one JSON line; exit 0 ok, 1 violation, 2 harness problem.
#include <lzma.h>
#include <stdio.h>
#include <stdlib.h>
#include <string.h>
#include <stdint.h>
#include <vector>

struct Gen { uint64_t s = 88172645463325252ull; uint64_t n = 0; uint8_t hist[1 << 16];
	// compressible stream with matches at many distances: mostly copies from a 64 KiB history, some fresh bytes
	uint8_t next() { uint8_t b; uint64_t i = n & 0xFFFF;
		if ((n & 0x3F) == 0) { s ^= s << 13; s ^= s >> 7; s ^= s << 17; }
		if (n < 4096 || (s >> (n & 31) & 7) == 0) { s ^= s << 13; s ^= s >> 7; s ^= s << 17; b = (uint8_t)(s >> 24); }
		else b = hist[(i - 1 - ((s >> 8) & 0x3FF)) & 0xFFFF];
		hist[i] = b; ++n; return b; } };

int main(int argc, char **argv) {
	uint64_t total = (uint64_t)(argc > 1 ? atoi(argv[1]) : 43) * ((1ull << 30) / 10);
	lzma_options_lzma o; if (lzma_lzma_preset(&o, 0)) return 2; o.dict_size = 1u << 16; o.mf = LZMA_MF_HC3; o.depth = 1; o.nice_len = 16; o.mode = LZMA_MODE_FAST;
	const char *mfs = argc > 2 ? argv[2] : "hc3"; if (!strcmp(mfs, "hc4")) o.mf = LZMA_MF_HC4; else if (!strcmp(mfs, "bt2")) o.mf = LZMA_MF_BT2; else if (!strcmp(mfs, "bt3")) o.mf = LZMA_MF_BT3; else if (!strcmp(mfs, "bt4")) o.mf = LZMA_MF_BT4;
	lzma_filter f[2] = {{LZMA_FILTER_LZMA2, &o}, {LZMA_VLI_UNKNOWN, NULL}};
	lzma_stream e = LZMA_STREAM_INIT, d = LZMA_STREAM_INIT;
	if (lzma_stream_encoder(&e, f, LZMA_CHECK_CRC32) != LZMA_OK || lzma_stream_decoder(&d, UINT64_MAX, 0) != LZMA_OK) return 2;
	static Gen g1, g2; std::vector<uint8_t> in(1 << 20), comp(1 << 20), out(1 << 20);
	uint64_t fed = 0, verified = 0; lzma_ret er = LZMA_OK, dr = LZMA_OK;
	while (er == LZMA_OK) {
		lzma_action a = LZMA_RUN;
		if (e.avail_in == 0) { if (fed < total) { size_t n = (size_t)((total - fed) < in.size() ? (total - fed) : in.size()); for (size_t i = 0; i < n; ++i) in[i] = g1.next(); e.next_in = in.data(); e.avail_in = n; fed += n; } }
		if (fed == total) a = LZMA_FINISH;
		e.next_out = comp.data(); e.avail_out = comp.size();
		er = lzma_code(&e, a);
		if (er != LZMA_OK && er != LZMA_STREAM_END) { printf("{\"ok\":false,\"what\":\"encoder returned %d after %llu bytes\"}\n", (int)er, (unsigned long long)e.total_in); return 1; }
		d.next_in = comp.data(); d.avail_in = comp.size() - e.avail_out;
		while (d.avail_in > 0 || (er == LZMA_STREAM_END && dr == LZMA_OK)) {
			d.next_out = out.data(); d.avail_out = out.size();
			dr = lzma_code(&d, er == LZMA_STREAM_END ? LZMA_FINISH : LZMA_RUN);
			size_t got = out.size() - d.avail_out;
			for (size_t i = 0; i < got; ++i) if (out[i] != g2.next()) { printf("{\"ok\":false,\"what\":\"decoded byte differs at offset %llu\"}\n", (unsigned long long)(verified + i)); return 1; }
			verified += got;
			if (dr != LZMA_OK) break;
		}
		if (dr != LZMA_OK && dr != LZMA_STREAM_END) { printf("{\"ok\":false,\"what\":\"decoder returned %d after %llu output bytes\"}\n", (int)dr, (unsigned long long)verified); return 1; }
	}
	bool ok = er == LZMA_STREAM_END && dr == LZMA_STREAM_END && verified == total && e.total_in == total;
	printf("{\"ok\":%s,\"input_bytes\":%llu,\"compressed_bytes\":%llu,\"verified_bytes\":%llu,\"mf\":\"%s\"}\n", ok ? "true" : "false", (unsigned long long)total, (unsigned long long)e.total_out, (unsigned long long)verified, mfs);
	lzma_end(&e); lzma_end(&d);
	return ok ? 0 : 1;
}
