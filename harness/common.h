// common.h - small shared helpers for targets: tests/files loader, mutations.
#pragma once
#include <dirent.h>
#include <stdio.h>
#include <string>
#include <vector>
#include <algorithm>
#include "vgen.h"

namespace cm {

struct TestFile { std::string name; std::vector<uint8_t> data; };

static inline std::string repo_dir() { const char *e = getenv("VERIF_REPO"); return e && *e ? e : "/repo"; }

static inline bool read_file(const std::string &path, std::vector<uint8_t> &out) {
	FILE *f = fopen(path.c_str(), "rb"); if (!f) return false;
	out.clear(); uint8_t buf[65536]; size_t n;
	while ((n = fread(buf, 1, sizeof buf, f)) > 0) out.insert(out.end(), buf, buf + n);
	fclose(f); return true;
}

// All regular files of $VERIF_REPO/tests/files whose name ends in one of the suffixes, sorted by name.
static inline const std::vector<TestFile> &test_files() {
	static std::vector<TestFile> files; static bool init = false;
	if (init) return files; init = true;
	std::string dir = repo_dir() + "/tests/files";
	DIR *d = opendir(dir.c_str()); if (!d) return files;
	std::vector<std::string> names;
	while (struct dirent *e = readdir(d)) { std::string n = e->d_name;
		auto ends = [&](const char *s) { size_t l = strlen(s); return n.size() >= l && n.compare(n.size() - l, l, s) == 0; };
		if (ends(".xz") || ends(".lzma") || ends(".lz") || ends(".lzma2")) names.push_back(n); }
	closedir(d);
	std::sort(names.begin(), names.end());
	for (auto &n : names) { TestFile t; t.name = n; if (read_file(dir + "/" + n, t.data) && t.data.size() <= (1u << 20)) files.push_back(std::move(t)); }
	return files;
}

static inline bool name_has(const std::string &n, const char *s) { return n.find(s) != std::string::npos; }
static inline bool name_ends(const std::string &n, const char *s) { size_t l = strlen(s); return n.size() >= l && n.compare(n.size() - l, l, s) == 0; }

// Blind mutations of a byte string decided by the case.
static inline std::string mutate(vg::Case &c, std::vector<uint8_t> &v) {
	if (v.empty()) return "none";
	unsigned k = c.u(6); char b[96];
	switch (k) {
	case 0: return "none";
	case 1: { size_t p = c.u32() % v.size(); unsigned bit = c.u(8); v[p] ^= (uint8_t)(1u << bit); snprintf(b, sizeof b, "flip@%zu.%u", p, bit); return b; }
	case 2: { size_t t = c.u32() % v.size(); v.resize(t); snprintf(b, sizeof b, "trunc@%zu", t); return b; }
	case 3: { size_t p = c.u32() % v.size(); size_t l = 1 + c.u(8); for (size_t i = 0; i < l && p + i < v.size(); ++i) v[p + i] = c.byte(); snprintf(b, sizeof b, "overwrite@%zu+%zu", p, l); return b; }
	case 4: { size_t p = c.u32() % (v.size() + 1); size_t l = 1 + c.u(8); std::vector<uint8_t> ins = c.blob(l); v.insert(v.begin() + p, ins.begin(), ins.end()); snprintf(b, sizeof b, "insert@%zu+%zu", p, l); return b; }
	default: { size_t p = c.u32() % v.size(); size_t l = 1 + c.u(8); if (p + l > v.size()) l = v.size() - p; v.erase(v.begin() + p, v.begin() + p + l); snprintf(b, sizeof b, "delete@%zu+%zu", p, l); return b; }
	}
}

} // namespace cm
