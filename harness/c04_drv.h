// c04_drv.h - C04's variant of the drv.h loop: the same protocol (same Schedule / Opts / Result types, same rules
// for actions, LZMA_BUF_ERROR, informational codes, cap and call bound), but every call gets its input piece and
// its output window in *exact-size heap blocks of their own*, so that ASan sees any read past avail_in and any
// write past avail_out (oracle 5: "output never exceeds the window given").  Only pointers differ between calls;
// the *amount* of pending input is never changed by the driver once the final action is in use (base.h).
#pragma once
#include "drv.h"

namespace c04 {

#define C04B(x) (1u << (x))
static const uint32_t M_OK = C04B(LZMA_OK), M_END = C04B(LZMA_STREAM_END), M_NOCHK = C04B(LZMA_NO_CHECK), M_UNSUP = C04B(LZMA_UNSUPPORTED_CHECK),
	M_GETCHK = C04B(LZMA_GET_CHECK), M_MEM = C04B(LZMA_MEM_ERROR), M_MEMLIMIT = C04B(LZMA_MEMLIMIT_ERROR), M_FORMAT = C04B(LZMA_FORMAT_ERROR),
	M_OPTIONS = C04B(LZMA_OPTIONS_ERROR), M_DATA = C04B(LZMA_DATA_ERROR), M_BUF = C04B(LZMA_BUF_ERROR), M_PROG = C04B(LZMA_PROG_ERROR), M_SEEK = C04B(LZMA_SEEK_NEEDED);

static inline std::string mask_names(uint32_t m) { std::string s; for (int i = 0; i <= 12; ++i) if ((m >> i) & 1) { if (!s.empty()) s += "|"; s += drv::retname(i); } return s; }

// every return value of every call goes through here
static inline void check_code(const char *fn, int r, uint32_t mask) {
	if (r < 0 || r > 12 || !((mask >> r) & 1)) {
		std::string sig = std::string("C04:return-code:") + fn;
		vg::violation(sig.c_str(), "%s returned %s; documented for this call: %s", fn, drv::retname(r), mask_names(mask).c_str());
	}
	if (r == LZMA_MEM_ERROR) vg::count("environment_mem_error");
}

struct Heap { uint8_t *p; size_t n; explicit Heap(size_t n_) : p((uint8_t *)malloc(n_)), n(n_) { if (!p) vg::harness_bug("out of memory in harness"); } ~Heap() { free(p); }
	Heap(const Heap &) = delete; Heap &operator=(const Heap &) = delete; };

static inline drv::Result run_exact(lzma_stream *strm, const uint8_t *in, size_t n, const drv::Schedule &sch, const drv::Opts &o) {
	drv::Result r;
	size_t produced = 0, given = 0, pi = 0, idle_everything = 0;
	const uint64_t tin0 = strm->total_in, tout0 = strm->total_out;
	const size_t bound_base = 64 + 2 * sch.pieces.size();
	for (;;) {
		uint32_t ip, op;
		if (pi < sch.pieces.size()) { ip = sch.pieces[pi].in; op = sch.pieces[pi].out; ++pi; }
		else if ((sch.tail_in || sch.tail_out) && r.calls < o.small_call_budget) { ip = sch.tail_in; op = sch.tail_out; }
		else { ip = UINT32_MAX; op = UINT32_MAX; }
		const size_t consumed = (size_t)(strm->total_in - tin0);
		if (given < n) given += std::min<size_t>(ip, n - given);
		const size_t avail = given - consumed;
		Heap ib(avail); if (avail) memcpy(ib.p, in + consumed, avail);
		const lzma_action act = (given == n) ? o.final_action : LZMA_RUN;
		const size_t room = o.out_cap - produced;
		const size_t win = std::min<size_t>(std::min<size_t>(op, room), 1u << 20);   // windows of at most 1 MiB (fresh block per call)
		Heap ob(win);
		strm->next_in = ib.p; strm->avail_in = avail; strm->next_out = ob.p; strm->avail_out = win;
		const bool everything = (given == n) && win > 0;
		lzma_ret ret = lzma_code(strm, act);
		++r.calls;
		const size_t cons2 = (size_t)(strm->total_in - tin0);
		if (cons2 < consumed || cons2 > given || strm->avail_in != given - cons2 || strm->next_in != ib.p + (cons2 - consumed)
				|| strm->avail_out > win || strm->next_out != ob.p + (win - strm->avail_out) || strm->total_out - tout0 != produced + (win - strm->avail_out))
			vg::violation("C11:accounting", "after call %zu: consumed %zu->%zu given %zu avail_in %zu next_in off %td, window %zu avail_out %zu next_out off %td", r.calls, consumed, cons2, given, strm->avail_in,
				strm->next_in - ib.p, win, strm->avail_out, strm->next_out - ob.p);
		if (avail && memcmp(ib.p, in + consumed, avail) != 0) vg::violation("C04:input-modified", "lzma_code wrote into the input buffer (call %zu)", r.calls);
		const size_t got = win - strm->avail_out;
		if (got) r.out.insert(r.out.end(), ob.p, ob.p + got);
		produced += got;
		if (o.hook && !o.hook(strm, ret, o.hook_arg)) { r.ret = ret; break; }
		if (ret == LZMA_OK) {
			if (produced == o.out_cap) { r.capped = true; r.ret = LZMA_OK; break; }   // cap reached: the caller continues with starve()
		} else if (ret == LZMA_NO_CHECK || ret == LZMA_UNSUPPORTED_CHECK || ret == LZMA_GET_CHECK) {
			r.info.push_back((int)ret);
		} else if (ret == LZMA_BUF_ERROR) {
			if (avail > 0 && win > 0 && !o.input_beyond_declared_size)   // same rule as drv.h: no-progress-possible cannot be the answer to a call that has input and output space
				vg::violation("C11:buf-error-with-input-and-output-space", "call %zu returned LZMA_BUF_ERROR although it was given %zu bytes of unread input and %zu bytes of output space", r.calls, avail, win);
			if (everything) { r.ret = ret; break; }
		} else if (ret == LZMA_MEMLIMIT_ERROR && !o.stop_on_memlimit) {
			// the hook has raised the limit
		} else { r.ret = ret; break; }
		if (room == 0) { r.capped = true; r.ret = LZMA_OK; break; }
		if (got == 0 && cons2 == consumed && everything) ++idle_everything; else if (everything) idle_everything = 0;
		if (idle_everything > o.idle_limit || r.calls > bound_base + 2 * (n + produced) + 16) { r.call_bound = true; r.ret = ret; break; }
	}
	r.total_in = strm->total_in - tin0; r.total_out = strm->total_out - tout0;
	// the stream keeps pointing into blocks that are gone: park the pointers on the caller's buffer with the same amounts
	strm->next_in = in + (size_t)r.total_in; strm->next_out = NULL; strm->avail_out = 0;
	return r;
}

// The caller stops supplying output space (and supplies no new input): after finitely many calls liblzma must say
// so (LZMA_BUF_ERROR), finish, or fail.  `in`/`n` as given to run_exact(); the action rule is the driver's.
// Returns that final code (coders that need no output space, e.g. the Index decoder, simply finish).
static inline lzma_ret starve(const char *fn, lzma_stream *strm, const uint8_t *in, size_t n, lzma_action final_action, uint32_t mask, uint64_t tin0 = 0) {
	unsigned idle_ok = 0;
	for (unsigned k = 0;; ++k) {
		const size_t consumed = (size_t)(strm->total_in - tin0), avail = strm->avail_in;
		const lzma_action act = (consumed + avail == n) ? final_action : LZMA_RUN;
		Heap ib(avail); if (avail) memcpy(ib.p, in + consumed, avail);
		Heap ob(0);
		strm->next_in = ib.p; strm->next_out = ob.p; strm->avail_out = 0;
		lzma_ret r = lzma_code(strm, act);
		check_code(fn, r, mask);
		if (strm->avail_out != 0 || strm->next_out != ob.p) vg::violation("C04:output-beyond-window", "%s: avail_out was 0 but the output side moved", fn);
		const size_t cons2 = (size_t)(strm->total_in - tin0);
		if (cons2 < consumed || cons2 - consumed > avail || strm->avail_in != avail - (cons2 - consumed)) vg::violation("C11:accounting", "%s (starved): avail_in %zu -> %zu, total_in %zu -> %zu", fn, avail, strm->avail_in, consumed, cons2);
		strm->next_in = in + cons2;
		if (r == LZMA_NO_CHECK || r == LZMA_UNSUPPORTED_CHECK || r == LZMA_GET_CHECK) continue;
		if (r != LZMA_OK) { vg::count(std::string("starved_told_") + drv::retname(r)); return r; }
		if (cons2 == consumed) { if (++idle_ok >= 3) vg::violation("C04:no-buf-error-when-starved", "%s: %u consecutive calls with avail_out == 0 made no progress and still returned LZMA_OK", fn, idle_ok); }
		else idle_ok = 0;
		if (k > 2 * n + 64) vg::violation("C04:call-bound", "%s: starved loop exceeded its call bound", fn);
	}
}

} // namespace c04
