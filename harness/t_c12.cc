// t_c12.cc - C12: flush actions make all prior input decodable; mid-stream option changes are safe.
//
// case = encoder (stream, stream_mt, raw, block) x chain (LZMA2 | delta+LZMA2 | BCJ+LZMA2 | LZMA1 for raw)
// x op sequence: feed(n) with LZMA_RUN, SYNC_FLUSH / FULL_FLUSH / FULL_BARRIER (optionally carrying new input),
// back-to-back flushes, flush as first call, lzma_filters_update(new lc/lp/pb | new chain | invalid), FINISH
// x output slicing (a flush completing over many calls).  The action loop below is protocol-correct: the same
// action and an untouched avail_in until LZMA_STREAM_END.
//
// Oracle (model = input so far + expected Block cut points + expected chain / lc,lp,pb at every offset):
//  * a completed flush: the output so far, given alone to a fresh liblzma decoder with LZMA_RUN only, yields
//    exactly the input so far and then wants more input (FULL_BARRIER on the threaded encoder: a prefix only,
//    base.h says it need not flush);  encoding continues and the final output round-trips through the liblzma
//    decoder and (.xz) through ref::xz_decode;
//  * FULL_FLUSH / FULL_BARRIER end the Block: the final layout has Blocks exactly at the offsets where such an
//    action had input since the previous boundary (threaded encoder: further cut every block_size bytes);
//  * SYNC_FLUSH on a chain with a BCJ filter or LZMA1 is refused with LZMA_OPTIONS_ERROR when the current Block /
//    raw stream holds data (nothing to flush: STREAM_END is accepted as well) and the output so far is a decodable
//    prefix; LZMA2 and delta+LZMA2 must honour it; the threaded encoder answers LZMA_PROG_ERROR (unsupported action);
//  * lzma_filters_update: must be accepted in the situations filter.h documents, must be refused for invalid chains
//    and for changed Filter IDs inside a Block / raw stream, either outcome elsewhere; after an accepted change the
//    next Block Header / the next LZMA2 chunk shows it; after a refusal the encoder carries on.
// Deliberately open (either outcome accepted, only decodability asserted): updates at moments filter.h does not
// mention (data fed since the last flush, zero-input calls between flush and update, LZMA1 chains); SYNC_FLUSH on a
// non-flushable chain when there is nothing to flush; whether the handle survives the refused SYNC_FLUSH on the
// threaded encoder.
#include "vgen.h"
#include "drv.h"
#include "enccfg.h"
#include "common.h"
#include "alloc.h"
#include "ref/xzparse.h"
#include <memory>

using namespace vg;

static va::Alloc *g_alp;
static const lzma_allocator *AL() { if (!g_alp) { g_alp = new va::Alloc(); g_alp->cap = 256u << 20; g_alp->poison = false; } return &g_alp->a; }

enum EncKind { EK_STREAM, EK_MT, EK_RAW, EK_BLOCK, EK_N };
static const char *const ek_names[] = {"stream", "stream_mt", "raw", "block"};
enum ChainKind { CK_LZMA2, CK_DELTA, CK_BCJ, CK_LZMA1 };
static const char *const ck_names[] = {"lzma2", "delta+lzma2", "bcj+lzma2", "lzma1"};
enum OpKind { OP_FEED, OP_SYNC, OP_FULL, OP_BARRIER, OP_UPDATE, OP_FINISH };
static const char *const op_names[] = {"feed", "sync_flush", "full_flush", "full_barrier", "update", "finish"};
enum UpdKind { U_LCLP, U_CHAIN, U_INVALID };

struct Op { int kind = OP_FEED; uint32_t n = 0; int ukind = 0; uint32_t lc = 0, lp = 0, pb = 0; int alt = 0; int inv = 0; };

static inline uint8_t props_byte(uint32_t lc, uint32_t lp, uint32_t pb) { return (uint8_t)((pb * 5 + lp) * 9 + lc); }

static void build_chain(Case &c, ec::Config &g, int ck) {
	g.use_preset = false; g.nfilters = 0; g.has_bcj = g.has_delta = false;
	ec::draw_lzma_opts(c, g.lz, false);
	if (g.lz.dict_size > (1u << 20)) g.lz.dict_size = 1u << 20;
	if (g.lz.depth > 48) g.lz.depth = 48;
	if (ck == CK_DELTA) { g.filters[0].id = LZMA_FILTER_DELTA; g.delta[0].type = LZMA_DELTA_TYPE_BYTE; uint8_t b = c.byte(); g.delta[0].dist = b < 128 ? 1 + (b & 3) : 1 + c.u(256); g.nfilters = 1; g.has_delta = true; }
	if (ck == CK_BCJ) { lzma_vli id = ec::bcj_ids[c.u(8)]; g.filters[0].id = id; memset(&g.bcj[0], 0, sizeof g.bcj[0]); uint8_t b = c.byte(); g.bcj_null[0] = b < 64;
		g.bcj[0].start_offset = b < 160 ? 0 : ec::bcj_align(id) * c.u(64); g.nfilters = 1; g.has_bcj = true; }
	g.filters[g.nfilters++].id = ck == CK_LZMA1 ? LZMA_FILTER_LZMA1 : LZMA_FILTER_LZMA2;
	g.link();
}

// ---------------------------------------------------------------------------------------------- model
struct PropEvent { uint64_t off; uint8_t props; std::vector<uint8_t> alts; };   // alts: further properties bytes that are tolerated from here on
struct Segment {            // input between two flush boundaries: one Block (threaded encoder: ceil(len/block_size) Blocks)
	uint64_t start = 0, len = 0; int chain = 0; std::vector<PropEvent> ev; bool uncertain = false;
};

struct Run {
	int ek = 0; int ck0 = 0;
	std::unique_ptr<ec::Config> chains[3];          // [0] initial, [1],[2] alternatives with other Filter IDs
	int cks[3] = {0, 0, 0};
	std::vector<Op> ops; std::vector<uint8_t> P;
	lzma_stream s; std::vector<uint8_t> out;
	Rng slicer; int style = 0;
	// model
	uint64_t fed = 0, block_start = 0;
	int cur_chain = 0; uint32_t lc = 0, lp = 0, pb = 0;
	bool header_started = false;    // the encoder has begun to write the current Block's header (the Block is open from its point of view) although no input of the Block has been consumed yet
	bool since_sync = false;        // a SYNC_FLUSH completed and no input has been supplied since
	bool any_data = false;          // some input byte has been supplied to the encoder
	unsigned calls_since_flush = 0; // lzma_code calls since the last completed flush / since init
	bool open_seg = false; std::vector<Segment> segs;
	bool chain_uncertain = false; std::vector<uint8_t> pending_alts;
	uint64_t mt_block_size = 0;
	// stats
	uint64_t fed_at_last_flush = 0; int last_flush = -1;
	unsigned flushes_done = 0; bool fed_before_flush = false, fed_after_flush = false, dead = false;
	uint64_t hash = 0;
	Run() : slicer(1) { lzma_stream z = LZMA_STREAM_INIT; s = z; s.allocator = AL(); }
	ec::Config &cfg(int i) { return *chains[i]; }
	bool flushable() const { return cks[cur_chain] == CK_LZMA2 || cks[cur_chain] == CK_DELTA; }
	bool is_xz() const { return ek == EK_STREAM || ek == EK_MT; }
	uint64_t in_block() const { return is_xz() ? fed - block_start : fed; }
};

static size_t next_window(Run &r, unsigned calls_in_op) {
	if (calls_in_op > 400) return 1u << 16;
	switch (r.style) {
	case 0: return 1u << 16;
	case 1: return 1 + r.slicer.below(16);
	case 2: { uint32_t k = r.slicer.below(8); return k == 0 ? 0 : (k < 4 ? 1 + r.slicer.below(8) : (k < 7 ? 1 + r.slicer.below(300) : 1u << 16)); }
	default: return 1 + r.slicer.below(3);
	}
}

// Decode `bytes` (the encoder's output so far) with a fresh matching decoder using LZMA_RUN only.
static drv::Result decode_prefix(Run &r, const std::vector<uint8_t> &bytes, lzma_action fin) {
	drv::Result R; lzma_stream d = LZMA_STREAM_INIT; d.allocator = AL();
	drv::Opts o; o.final_action = fin; o.out_hint = r.fed + 64;
	ec::Config &g0 = r.cfg(0);
	if (r.ek == EK_BLOCK) {
		lzma_block b; memset(&b, 0, sizeof b); lzma_filter fl[LZMA_FILTERS_MAX + 1]; b.filters = fl; b.version = 1; b.check = g0.check;
		const std::vector<uint8_t> &h = g0.block_header;
		b.header_size = lzma_block_header_size_decode(h[0]);
		if (lzma_block_header_decode(&b, AL(), h.data()) != LZMA_OK) harness_bug("own block header does not decode");
		lzma_ret ir = lzma_block_decoder(&d, &b);
		if (ir != LZMA_OK) { lzma_filters_free(fl, AL()); R.ret = ir; return R; }
		R = drv::run(&d, bytes.data(), bytes.size(), drv::Schedule(), o);
		lzma_end(&d); lzma_filters_free(fl, AL()); return R;
	}
	lzma_ret ir;
	if (r.ek == EK_RAW) { g0.link(); ir = lzma_raw_decoder(&d, g0.filters); } else ir = lzma_stream_decoder(&d, UINT64_MAX, 0);
	if (ir != LZMA_OK) { R.ret = ir; lzma_end(&d); return R; }
	R = drv::run(&d, bytes.data(), bytes.size(), drv::Schedule(), o);
	lzma_end(&d); return R;
}

// The flush point check: the output so far alone reproduces every input byte so far (exact) or a prefix (weak).
static void check_flush_point(Run &r, const char *what, bool exact) {
	drv::Result D = decode_prefix(r, r.out, LZMA_RUN);
	if (D.ret == LZMA_MEM_ERROR) { count("environment_alloc_cap"); return; }
	// LZMA_RUN only: a decoder that consumed everything and wants more ends the driver loop with the non-fatal BUF_ERROR
	if (D.ret != LZMA_BUF_ERROR && D.ret != LZMA_OK)
		violation("C12:flush-point-undecodable", "%s: output so far (%zu bytes) given to a fresh decoder: %s after %zu of %llu input bytes", what, r.out.size(), drv::retname(D.ret), D.out.size(), (unsigned long long)r.fed);
	if (D.out.size() > r.fed || (D.out.size() && memcmp(D.out.data(), r.P.data(), D.out.size()) != 0))
		violation("C12:flush-point-bytes", "%s: decoder produced %zu bytes that are not a prefix of the %llu input bytes", what, D.out.size(), (unsigned long long)r.fed);
	if (exact && D.out.size() != r.fed)
		violation("C12:flush-point-incomplete", "%s completed after %llu input bytes but the output so far (%zu bytes) decodes to only %zu", what, (unsigned long long)r.fed, r.out.size(), D.out.size());
	if (exact && D.total_in != r.out.size())
		violation("C12:flush-point-incomplete", "%s: decoder left %zu of %zu output bytes unconsumed", what, r.out.size() - (size_t)D.total_in, r.out.size());
}

enum LoopEnd { LE_DONE, LE_OPTIONS_ERROR, LE_PROG_ERROR, LE_DEAD, LE_MT_BOUNDARY, LE_HEADER_PARTLY_OUT };

// One action with `n` new input bytes, repeated protocol-correctly until it completes.
static LoopEnd action_loop(Run &r, lzma_action action, size_t n, const char *what, bool stop_at_mt_boundary = false, bool stop_in_header = false) {
	lzma_stream &s = r.s;
	static uint8_t dummy[1];
	const uint8_t *in = r.P.data() ? r.P.data() + r.fed : dummy;
	s.next_in = in; s.avail_in = n;
	std::vector<uint8_t> win;
	unsigned calls = 0; bool last_zero = false; size_t out_in_this_op = 0;
	const size_t bound = 30000 + 8 * n;
	for (;;) {
		size_t w = next_window(r, calls); if (w == 0 && last_zero) w = 1; last_zero = w == 0;
		win.resize(w ? w : 1);
		s.next_out = win.data(); s.avail_out = w;
		const size_t ain = s.avail_in;
		lzma_ret ret = lzma_code(&s, action);
		++calls; ++r.calls_since_flush;
		size_t got = w - s.avail_out;
		if (s.avail_in > ain || s.avail_out > w || s.next_in != in + (n - s.avail_in)) violation("C11:accounting", "%s: inconsistent buffer accounting", what);
		r.out.insert(r.out.end(), win.data(), win.data() + got); out_in_this_op += got;
		const size_t consumed = n - s.avail_in;
		if (ret == LZMA_STREAM_END) {
			if (action == LZMA_RUN) violation("C12:stream-end-on-run", "%s: LZMA_RUN returned LZMA_STREAM_END", what);
			if (s.avail_in != 0) violation("C12:flush-left-input", "%s returned LZMA_STREAM_END with %zu input bytes pending", what, s.avail_in);
			r.fed += consumed; return LE_DONE;
		}
		if (ret == LZMA_OK) {
			if (action == LZMA_RUN && s.avail_in == 0) { r.fed += consumed; return LE_DONE; }
			// threaded encoder: the call came back (output full / time-out) with input still pending exactly where a Block of block_size
			// bytes has just been completed - no Block is open, the next one has not been started
			// single-threaded .xz encoder at the start of a Block: the call came back for lack of output space after it has begun to write the
			// Block Header (1..11 bytes) and before any input of the Block was consumed
			if (stop_in_header && consumed == 0 && out_in_this_op >= 1 && out_in_this_op <= 11 && r.in_block() == 0) return LE_HEADER_PARTLY_OUT;
			if (stop_at_mt_boundary && consumed > 0 && r.mt_block_size && (r.fed + consumed - r.block_start) % r.mt_block_size == 0) { r.fed += consumed; return LE_MT_BOUNDARY; }
		} else if (ret == LZMA_BUF_ERROR) {
			if (action == LZMA_RUN && s.avail_in == 0) { r.fed += consumed; return LE_DONE; }   // idle LZMA_RUN calls in a row: documented, harmless
			// non-fatal; legitimate only when this call had no room (the drawn windows may be empty or already full)
			if (w != 0 && s.avail_out != 0) violation("C12:stuck", "%s: LZMA_BUF_ERROR with %zu bytes of output space and %zu input bytes pending after %llu input bytes: the action never completes", what, s.avail_out, s.avail_in, (unsigned long long)(r.fed + consumed));
		} else if (ret == LZMA_OPTIONS_ERROR) { r.fed += consumed; return LE_OPTIONS_ERROR; }
		else if (ret == LZMA_PROG_ERROR) { r.fed += consumed; return LE_PROG_ERROR; }
		else if (ret == LZMA_MEM_ERROR) { count("environment_alloc_cap"); r.fed += consumed; return LE_DEAD; }
		else violation("C12:unexpected-code", "%s returned %s after %llu input bytes", what, drv::retname(ret), (unsigned long long)(r.fed + consumed));
		if (calls > bound) violation("C12:stuck", "%s: %u calls without completing (%zu input bytes pending)", what, calls, s.avail_in);
	}
}

static void note_fed(Run &r, uint64_t before) {
	if (r.fed == before) return;
	r.any_data = true; r.since_sync = false;
	if (!r.open_seg) { Segment sg; sg.start = before; sg.chain = r.cur_chain; sg.ev.push_back({before, props_byte(r.lc, r.lp, r.pb), r.pending_alts}); sg.uncertain = r.chain_uncertain; r.segs.push_back(sg); r.open_seg = true; }
	r.segs.back().len = r.fed - r.segs.back().start;
	if (r.flushes_done) r.fed_after_flush = true; else r.fed_before_flush = true;
}
static void close_segment(Run &r) { if (r.open_seg) { r.open_seg = false; r.block_start = r.fed; } }

// Walk the LZMA2 chunk headers of one Block / raw stream: every LZMA chunk must use the lc/lp/pb that the model says
// is in effect at the chunk's uncompressed offset.
static void walk_props(Run &r, const uint8_t *d, size_t n, const std::vector<PropEvent> &ev, uint64_t base_off, const char *what) {
	size_t pos = 0; uint64_t o = 0; int active = -1;
	while (pos < n) {
		uint8_t c = d[pos]; if (c == 0) break;
		if (c >= 0x80) {
			if (pos + 5 > n) return;
			uint32_t unc = (((uint32_t)c & 0x1F) << 16) + ((uint32_t)d[pos + 1] << 8) + d[pos + 2] + 1, comp = ((uint32_t)d[pos + 3] << 8) + d[pos + 4] + 1; size_t hdr = 5;
			if (c >= 0xC0) { if (pos + 6 > n) return; active = d[pos + 5]; hdr = 6; }
			int expect = -1; const std::vector<uint8_t> *alts = nullptr; for (auto &e : ev) if (e.off <= base_off + o) { expect = e.props; alts = &e.alts; }   // events carry absolute input offsets, ascending
			if (active != expect && alts && active >= 0 && std::find(alts->begin(), alts->end(), (uint8_t)active) != alts->end()) count("refused_update_side_effect_observed");
			else if (active != expect) violation("C12:update-props-not-in-effect", "%s: LZMA2 chunk at uncompressed offset %llu uses properties byte %d, the model expects %d (lc/lp/pb accepted by lzma_filters_update must take effect from that point)", what, (unsigned long long)(base_off + o), active, expect);
			pos += hdr + comp; o += unc;
		} else { if (c > 2 || pos + 3 > n) return; uint32_t unc = ((uint32_t)d[pos + 1] << 8) + d[pos + 2] + 1; pos += 3 + unc; o += unc; }
	}
}

static std::string filter_sig(const lzma_filter *f) {
	std::string s;
	for (; f->id != LZMA_VLI_UNKNOWN; ++f) { uint32_t sz = 0; if (lzma_properties_size(&sz, f) != LZMA_OK) harness_bug("properties_size"); std::vector<uint8_t> p(sz ? sz : 1);
		if (sz && lzma_properties_encode(f, p.data()) != LZMA_OK) harness_bug("properties_encode");
		s += std::to_string((unsigned long long)f->id) + ":" + hex(p.data(), sz) + ";"; }
	return s;
}
static std::string filter_sig(const std::vector<ref::Filter> &fl) { std::string s; for (auto &f : fl) s += std::to_string((unsigned long long)f.id) + ":" + hex(f.props.data(), f.props.size()) + ";"; return s; }

// ---------------------------------------------------------------------------------------------- update op
enum Expect { MUST_ACCEPT, MUST_REFUSE, EITHER };
static const char *const ex_names[] = {"must_accept", "must_refuse", "either"};

static void do_update(Run &r, const Op &op) {
	// build the filter array
	lzma_filter f[LZMA_FILTERS_MAX + 1]; lzma_options_lzma lz; lzma_options_delta dl;
	ec::Config &cur = r.cfg(r.cur_chain); cur.link();
	unsigned nf = 0; bool ids_differ = false, invalid = false; int new_chain = r.cur_chain; uint32_t nlc = r.lc, nlp = r.lp, npb = r.pb;
	auto copy_cur = [&]() { for (nf = 0; nf < cur.nfilters; ++nf) f[nf] = cur.filters[nf]; f[nf].id = LZMA_VLI_UNKNOWN; f[nf].options = NULL; lz = cur.lz; lz.lc = r.lc; lz.lp = r.lp; lz.pb = r.pb; f[nf - 1].options = &lz; };
	switch (op.ukind) {
	case U_LCLP: copy_cur(); lz.lc = nlc = op.lc; lz.lp = nlp = op.lp; lz.pb = npb = op.pb; break;
	case U_CHAIN: { new_chain = op.alt; ec::Config &a = r.cfg(new_chain); a.link(); for (nf = 0; nf < a.nfilters; ++nf) f[nf] = a.filters[nf]; f[nf].id = LZMA_VLI_UNKNOWN; f[nf].options = NULL;
		ids_differ = new_chain != r.cur_chain; nlc = a.lz.lc; nlp = a.lz.lp; npb = a.lz.pb; if (!ids_differ) { lz = a.lz; lz.lc = nlc = r.lc; lz.lp = nlp = r.lp; lz.pb = npb = r.pb; f[nf - 1].options = &lz; } break; }
	default: invalid = true; copy_cur();
		// the late-failing chains are only offered where the chain is initialised at once (between the Blocks of the single-threaded .xz
		// encoder).  Elsewhere liblzma does not look at BCJ options during an update: it accepts the call and stores the chain, and the
		// *next* Block then fails with LZMA_OPTIONS_ERROR - a truthful answer to an invalid chain, which this history model does not follow
		switch (op.inv >= 6 && !(r.ek == EK_STREAM && r.in_block() == 0 && !r.header_started) ? 0 : op.inv) {
		case 0: lz.lc = 3; lz.lp = 2; break;
		case 1: lz.pb = 5; break;
		case 2: f[0].id = f[nf - 1].id; f[0].options = &lz; dl.type = LZMA_DELTA_TYPE_BYTE; dl.dist = 1; f[1].id = LZMA_FILTER_DELTA; f[1].options = &dl; f[2].id = LZMA_VLI_UNKNOWN; f[2].options = NULL; nf = 2; break; // last filter not last
		case 3: f[0].id = 0x123456; f[0].options = NULL; f[1].id = LZMA_FILTER_LZMA2; f[1].options = &lz; f[2].id = LZMA_VLI_UNKNOWN; f[2].options = NULL; nf = 2; break;
		case 4: lz.lc = 5; lz.lp = 0; break;
		case 6: case 7: {
			// a chain that every early validation accepts (known IDs, right order, BCJ memory usage is a constant) and that is refused
			// only when the filter is initialised: a BCJ start offset that is not a multiple of the filter's alignment
			static const lzma_vli ids[6] = {LZMA_FILTER_ARM, LZMA_FILTER_ARMTHUMB, LZMA_FILTER_POWERPC, LZMA_FILTER_SPARC, LZMA_FILTER_ARM64, LZMA_FILTER_IA64};
			static lzma_options_bcj ob; memset(&ob, 0, sizeof ob); ob.start_offset = op.inv == 6 ? 1 : 2 + 4 * (op.lc & 3); if (ids[op.pb % 6] == LZMA_FILTER_ARMTHUMB) ob.start_offset = 1;
			f[0].id = ids[op.pb % 6]; f[0].options = &ob; f[1].id = f[nf - 1].id; f[1].options = &lz; f[2].id = LZMA_VLI_UNKNOWN; f[2].options = NULL; nf = 2; break; }
		default: dl.type = LZMA_DELTA_TYPE_BYTE; dl.dist = 257; f[0].id = LZMA_FILTER_DELTA; f[0].options = &dl; f[1].id = LZMA_FILTER_LZMA2; f[1].options = &lz; f[2].id = LZMA_VLI_UNKNOWN; f[2].options = NULL; nf = 2; break;
		}
		break;
	}
	// what filter.h says about this moment
	const bool lzma1 = r.cks[r.cur_chain] == CK_LZMA1;
	const bool immediate = r.calls_since_flush == 0;
	Expect ex;
	// inv 6/7 (BCJ start offset not aligned) is only noticed where the chain is really initialised, i.e. between the Blocks of the
	// single-threaded .xz encoder; elsewhere BCJ options are not re-read (same ID: ignored) or the ID differs (refused): either
	if (invalid) ex = MUST_REFUSE;
	else if (r.is_xz()) {
		if (r.in_block() == 0) ex = (!r.any_data || (immediate && (r.last_flush == OP_FULL || r.last_flush == OP_BARRIER))) ? MUST_ACCEPT : EITHER;   // between Blocks: whole chain
		else if (r.ek == EK_MT) ex = EITHER;                                                          // threaded: nothing documented inside a Block
		else if (ids_differ) ex = MUST_REFUSE;                                                        // "Filter IDs must not be changed"
		else ex = (r.since_sync && immediate && r.last_flush == OP_SYNC) ? MUST_ACCEPT : EITHER;      // lc/lp/pb after SYNC_FLUSH
	} else {
		if (ids_differ) ex = MUST_REFUSE;
		else if (lzma1) ex = EITHER;                                                                  // "(not LZMA1)"
		else if (!r.any_data) ex = MUST_ACCEPT;                                                       // "when no data has been compressed yet"
		else ex = (r.since_sync && immediate && r.last_flush == OP_SYNC) ? MUST_ACCEPT : EITHER;
	}
	// a quarter of the updates: one of the first allocations made inside lzma_filters_update() fails - a change refused for lack of memory
	// must leave the encoder usable like any other refused change
	const bool inject = ((r.hash >> 7) + r.fed + (uint64_t)op.alt * 3 + op.lc) % 4 == 0;
	uint64_t failed0 = g_alp->failed;
	if (inject) { g_alp->plan_none(); g_alp->fail_at = g_alp->calls + 1 + ((r.hash >> 11) + r.fed) % 3; }
	if (r.header_started && ex == MUST_ACCEPT) ex = EITHER;   // (the documented moments are over once the encoder has begun the Block)
	lzma_ret ret = lzma_filters_update(&r.s, f);
	if (inject) g_alp->plan_none();
	if (ret == LZMA_MEM_ERROR && !(inject && g_alp->failed > failed0)) { count("environment_alloc_cap"); r.dead = true; return; }
	if (ret == LZMA_MEM_ERROR) count("update_refused_by_injected_allocation_failure");
	const bool accepted = ret == LZMA_OK;
	count(std::string("update_") + ex_names[ex] + (accepted ? "_accepted" : "_refused"));
	count(std::string("update_kind_") + (op.ukind == U_LCLP ? "lclppb" : op.ukind == U_CHAIN ? "chain" : "invalid"));
	if (ex == MUST_ACCEPT && !accepted && ret != LZMA_MEM_ERROR) violation("C12:update-refused", "lzma_filters_update (%s) at a documented moment (%s, %llu bytes in the current Block, since_sync=%d) returned %s",
		op.ukind == U_LCLP ? "lc/lp/pb" : "new chain", ek_names[r.ek], (unsigned long long)r.in_block(), (int)r.since_sync, drv::retname(ret));
	if (ex == MUST_REFUSE && accepted) violation("C12:update-accepted", "lzma_filters_update with %s returned LZMA_OK (%s, %llu bytes in the current Block)",
		invalid ? "an invalid chain" : "changed Filter IDs inside a Block / raw stream", ek_names[r.ek], (unsigned long long)r.in_block());
	if (!accepted) {
		// A refusal must leave the encoder usable; whether it is free of side effects is not documented.  liblzma applies
		// the LZMA2 lc/lp/pb of a chain that it then rejects because of its changed Filter IDs (lz_encoder_update() updates
		// the last filter before the IDs of the other filters are compared): tolerate both property bytes from here on.
		// (Between the Blocks of a .xz encoder the whole chain is validated first, so nothing can leak there.)
		if (!invalid && ids_differ && !lzma1 && (nlc != r.lc || nlp != r.lp || npb != r.pb) && (!r.is_xz() || r.in_block() > 0 || r.header_started)) {
			if (r.open_seg) { std::vector<uint8_t> a = r.segs.back().ev.back().alts; a.push_back(props_byte(nlc, nlp, npb));
				// input supplied since the last flush may still be buffered in front of LZMA2: the leak can reach back to that point
				r.segs.back().ev.push_back({std::max(r.segs.back().start, r.fed_at_last_flush), props_byte(r.lc, r.lp, r.pb), a}); }
			else r.pending_alts.push_back(props_byte(nlc, nlp, npb));
			count("update_refused_lclppb_side_effect_possible");
		}
		return;
	}
	r.pending_alts.clear();
	// effect
	if (r.in_block() == 0 || !r.any_data) {
		if (r.is_xz()) r.cur_chain = new_chain;
		r.lc = nlc; r.lp = nlp; r.pb = npb;
	} else if (ex == MUST_ACCEPT) {
		r.lc = nlc; r.lp = nlp; r.pb = npb;
		if (r.open_seg) r.segs.back().ev.push_back({r.fed, props_byte(nlc, nlp, npb), {}});
	} else {
		// accepted at an undocumented moment: the model cannot say from where it applies
		r.lc = nlc; r.lp = nlp; r.pb = npb; r.chain_uncertain = true; if (r.is_xz()) r.cur_chain = new_chain;
		if (r.open_seg) r.segs.back().uncertain = true;
		count("update_effect_unmodelled");
	}
}

// ---------------------------------------------------------------------------------------------- final checks
static void final_checks(Run &r) {
	// liblzma decoder, LZMA_FINISH
	drv::Result D = decode_prefix(r, r.out, LZMA_FINISH);
	if (D.ret == LZMA_MEM_ERROR) { count("environment_alloc_cap"); return; }
	if (D.ret != LZMA_STREAM_END) violation("C12:final-undecodable", "finished stream (%zu bytes): liblzma decoder returned %s after %zu of %llu bytes", r.out.size(), drv::retname(D.ret), D.out.size(), (unsigned long long)r.fed);
	if (D.out.size() != r.fed || (r.fed && memcmp(D.out.data(), r.P.data(), (size_t)r.fed) != 0)) violation("C12:final-bytes", "finished stream decodes to %zu bytes, input was %llu", D.out.size(), (unsigned long long)r.fed);
	if (D.total_in != r.out.size()) violation("C12:final-undecodable", "decoder consumed %llu of %zu bytes", (unsigned long long)D.total_in, r.out.size());
	if (r.ek == EK_RAW) {
		if (r.cks[0] != CK_LZMA1 && !r.segs.empty() && !r.segs[0].uncertain) walk_props(r, r.out.data(), r.out.size(), r.segs[0].ev, r.segs[0].start, "raw stream");
		return;
	}
	if (r.ek == EK_BLOCK) { if (!r.segs.empty() && !r.segs[0].uncertain) walk_props(r, r.out.data(), r.out.size(), r.segs[0].ev, r.segs[0].start, "Block"); return; }
	// .xz: independent parser: bytes + layout
	ref::XzResult X = ref::xz_decode(r.out.data(), r.out.size());
	if (X.status == ref::RS_REF_UNSUPPORTED) { count("ref_unsupported_filter"); return; }
	if (!X.ok()) violation("C12:final-undecodable", "reference parser rejects the finished stream: %s (status %d)", X.rule.c_str(), X.status);
	if (X.out.size() != r.fed || (r.fed && memcmp(X.out.data(), r.P.data(), (size_t)r.fed) != 0)) violation("C12:final-bytes", "reference decoder: %zu bytes, input was %llu", X.out.size(), (unsigned long long)r.fed);
	if (X.in_used != r.out.size() || X.streams.size() != 1) violation("C12:final-undecodable", "reference parser used %zu of %zu bytes", X.in_used, r.out.size());
	// expected Blocks
	struct EB { uint64_t start, len; const Segment *sg; };
	std::vector<EB> eb;
	for (auto &sg : r.segs) {
		if (sg.len == 0) continue;
		if (r.ek == EK_MT && r.mt_block_size) { for (uint64_t o = 0; o < sg.len; o += r.mt_block_size) eb.push_back({sg.start + o, std::min<uint64_t>(r.mt_block_size, sg.len - o), &sg}); }
		else eb.push_back({sg.start, sg.len, &sg});
	}
	const auto &bl = X.streams[0].blocks;
	std::string got, want; for (auto &b : bl) got += std::to_string((unsigned long long)b.unc_size) + ","; for (auto &e : eb) want += std::to_string((unsigned long long)e.len) + ",";
	for (auto &b : bl) if (b.unc_size == 0) violation("C12:empty-block", "the stream contains a Block with no data (Blocks: %s)", got.c_str());
	if (got != want) violation("C12:block-boundaries", "Block sizes in the stream [%s] differ from the flush points of the history [%s]", got.c_str(), want.c_str());
	for (size_t i = 0; i < bl.size(); ++i) {
		const Segment &sg = *eb[i].sg; if (sg.uncertain) continue;
		ec::Config &g = r.cfg(sg.chain); g.link();
		// lc/lp/pb are not part of the Block Header; the dictionary size and the other filters are
		std::string a = filter_sig(bl[i].filters), b = filter_sig(g.filters);
		if (a != b) violation("C12:update-chain-not-in-effect", "Block %zu (input offset %llu) has filters [%s], the model expects [%s]", i, (unsigned long long)eb[i].start, a.c_str(), b.c_str());
		walk_props(r, r.out.data() + bl[i].data_off, bl[i].data_size, sg.ev, eb[i].start, "Block");
	}
}

// ---------------------------------------------------------------------------------------------- aimed flush offsets
// LZMA2 chunk ends (cumulative uncompressed offsets) of a raw LZMA2 stream; limit[i] = chunk i is an LZMA chunk that was closed
// because of the chunk size limits (64 KiB compressed / 2 MiB uncompressed) and is followed by more data
struct ChunkEnds { std::vector<uint64_t> end; std::vector<bool> limit; };
static ChunkEnds lzma2_chunk_ends(const uint8_t *p, size_t n) {
	ChunkEnds C; size_t i = 0; uint64_t unc = 0;
	while (i < n && p[i] != 0) {
		const uint8_t ct = p[i]; uint32_t u, cs = 0; bool lz = ct >= 0x80;
		if (lz) { if (i + 5 > n) break; u = (((uint32_t)ct & 0x1F) << 16 | (uint32_t)p[i + 1] << 8 | p[i + 2]) + 1; cs = ((uint32_t)p[i + 3] << 8 | p[i + 4]) + 1; i += 5 + (ct >= 0xC0 ? 1 : 0) + cs; }
		else { if (i + 3 > n) break; u = ((uint32_t)p[i + 1] << 8 | p[i + 2]) + 1; i += 3 + u; }
		unc += u; C.end.push_back(unc); C.limit.push_back(lz && (cs >= 61000 || u > (1u << 21) - 400) && i < n && p[i] != 0);
	}
	return C;
}
static ChunkEnds chunk_ends_of_output(int ek, const std::vector<uint8_t> &out) {
	if (ek == EK_RAW) return lzma2_chunk_ends(out.data(), out.size());
	ref::XzOpts xo; xo.out_limit = 1u << 22; ref::XzResult X = ref::xz_decode(out.data(), out.size(), xo);
	if (X.streams.empty() || X.streams[0].blocks.empty()) return ChunkEnds();
	const ref::BlockLayout &b = X.streams[0].blocks[0];
	if (b.data_off + b.data_size > out.size()) return ChunkEnds();
	return lzma2_chunk_ends(out.data() + b.data_off, b.data_size);
}

// ---------------------------------------------------------------------------------------------- case
static uint32_t draw_feed(Case &c, uint32_t nice) {
	uint8_t k = c.byte();
	if (k < 50) return k & 3;
	if (k < 110) return 1 + c.u(std::max<uint32_t>(nice, 2) - 1);       // fewer than nice_len bytes
	if (k < 185) return c.u(600);
	if (k < 235) return c.u16() % 8192;
	return 4097 + c.u16() % 36000;                                     // more than a 4 KiB window, up to 40 KiB
}

extern "C" size_t vfresh_max(void) { return 200; }

extern "C" int LLVMFuzzerTestOneInput(const uint8_t *data, size_t size) {
	begin_case("C12");
	Case c(data, size);
	Run r;
	r.ek = c.u(EK_N);
	// "aimed" cases: a probe encoding of the same input finds where an LZMA2 chunk is closed by the chunk size limit; the history
	// then flushes or finishes within -3..+8 bytes of that offset (the encoder has read-ahead pending there)
	const bool aimed = c.rare(10);
	if (aimed) r.ek = c.flag() ? EK_RAW : EK_STREAM;
	// chain kinds: initial + two alternatives with other Filter IDs
	{ int perm[3] = {CK_LZMA2, CK_DELTA, CK_BCJ}; unsigned p = c.u(6); int a = p % 3, b = (a + 1 + (p / 3)) % 3, d = 3 - a - b; r.cks[0] = perm[a]; r.cks[1] = perm[b]; r.cks[2] = perm[d]; }
	if (r.ek == EK_RAW && c.chance(50)) r.cks[0] = CK_LZMA1;
	if (aimed) { r.cks[0] = CK_LZMA2; r.cks[1] = CK_DELTA; r.cks[2] = CK_BCJ; }   // (never LZMA1 <-> LZMA2 as an update: filter.h makes unchanged Filter IDs the caller's obligation and the last filter's ID is not checked)
	for (int i = 0; i < 3; ++i) { r.chains[i].reset(new ec::Config()); build_chain(c, r.cfg(i), r.cks[i]); }
	ec::Config &g = r.cfg(0);
	g.entry = r.ek == EK_STREAM ? ec::E_STREAM : r.ek == EK_MT ? ec::E_STREAM_MT : r.ek == EK_RAW ? ec::E_RAW : ec::E_BLOCK;
	g.check = c.pick({LZMA_CHECK_CRC32, LZMA_CHECK_CRC64, LZMA_CHECK_SHA256, LZMA_CHECK_NONE});
	if (r.ek == EK_MT) { g.threads = 1 + c.u(3); g.block_size = c.pick<uint64_t>({0, 4096, 8192, 16384, 1 + 4 * (uint64_t)c.u16()}); if (c.chance(40)) g.block_size = 1 + c.u(3000); g.timeout = c.pick<uint32_t>({0, 0, 0, 1}); }
	r.style = c.u(4); r.slicer = Rng(c.u32() | 1);
	// ops
	unsigned nops = 1 + c.u(18); uint64_t total = 0; const uint64_t cap = 160u << 10;
	for (unsigned i = 0; i < nops && !c.empty(); ++i) {
		Op op; uint8_t b = c.byte();
		if (b < 80) op.kind = OP_FEED; else if (b < 125) op.kind = OP_SYNC; else if (b < 160) op.kind = OP_FULL; else if (b < 185) op.kind = OP_BARRIER; else if (b < 235) op.kind = OP_UPDATE;
		else if (!r.ops.empty()) { r.ops.push_back(r.ops.back()); r.ops.back().n = 0; continue; } else op.kind = OP_SYNC;   // back-to-back repeat
		if (op.kind == OP_FEED || (op.kind != OP_UPDATE && c.chance(80))) { op.n = draw_feed(c, g.lz.nice_len); if (total + op.n > cap) op.n = 0; total += op.n; }
		if (op.kind == OP_UPDATE) { uint8_t u = c.byte(); op.ukind = u < 130 ? U_LCLP : (u < 205 ? U_CHAIN : U_INVALID);
			uint32_t k = c.u(15), lc = 0, lp = 0, n = 0; for (uint32_t a = 0; a <= 4; ++a) for (uint32_t bq = 0; a + bq <= 4; ++bq) if (n++ == k) { lc = a; lp = bq; }
			op.lc = lc; op.lp = lp; op.pb = c.u(5); op.alt = c.u(3); op.inv = c.u(8); }
		r.ops.push_back(op);
		if (r.ek == EK_MT && g.block_size && op.kind == OP_FEED && op.n > g.block_size && c.rare(110)) { Op u; u.kind = OP_UPDATE; u.ukind = U_CHAIN; u.alt = c.u(3); r.ops.push_back(u); }   // candidates for the mid-feed update at a Block boundary
	}
	{ Op fin; fin.kind = OP_FINISH; if (c.chance(90)) { fin.n = draw_feed(c, g.lz.nice_len); if (total + fin.n > cap) fin.n = 0; total += fin.n; } r.ops.push_back(fin); }
	Recipe rec = draw_recipe(c, 1, g.lz.dict_size); rec.len = (uint32_t)total; if (rec.kind == RK_LITERAL) { rec.kind = RK_COPY_EDITS; rec.lit.clear(); }
	uint64_t aim_T = 0; std::vector<uint8_t> P_aimed; bool have_P_aimed = false;
	if (aimed) {
		// input that compresses, but to more than 64 KiB: symbols from a 64-letter alphabet with some repetition
		rec.kind = RK_MIXED; rec.len = (130u << 10) + c.u16(); rec.alpha = c.pick<uint32_t>({16, 32, 64, 64}); rec.lit.clear();
		std::vector<uint8_t> P0(rec.len);
		{ Rng q(rec.seed * 0x9E3779B97F4A7C15ull + 12); size_t i = 0; while (i < P0.size()) {
			if (i > 64 && q.below(4) == 0) { size_t d = 1 + q.below((uint32_t)std::min<size_t>(i, 60000)), l = 4 + q.below(40); for (size_t k = 0; k < l && i < P0.size(); ++k, ++i) P0[i] = P0[i - d]; }
			else { size_t l = 8 + q.below(56); for (size_t k = 0; k < l && i < P0.size(); ++k, ++i) P0[i] = (uint8_t)(48 + q.below(rec.alpha)); } } }
		ec::govern_cost(g, P0.size());
		ec::Encoded E0 = ec::encode_all(g, P0, drv::Schedule(), AL());
		ChunkEnds C0; if (E0.ret == LZMA_STREAM_END) C0 = chunk_ends_of_output(r.ek, E0.bytes);
		std::vector<uint64_t> cand; for (size_t i = 0; i < C0.end.size(); ++i) if (C0.limit[i]) cand.push_back(C0.end[i]);
		if (cand.empty()) { count("aimed_no_chunk_closed_by_size_limit"); if (getenv("VERIF_C12_DEBUG")) fprintf(stderr, "aimed: kind %d alpha %u len %u ret %d out %zu chunks %zu\n", (int)rec.kind, rec.alpha, rec.len, (int)E0.ret, E0.bytes.size(), C0.end.size()); }
		else {
			const uint64_t B = cand[c.u((uint32_t)cand.size())]; const int delta = (int)c.u(12) - 3;
			aim_T = std::min<uint64_t>(std::max<int64_t>(1, (int64_t)B + delta), P0.size());
			r.ops.clear(); const bool fin_there = c.flag();
			Op f; f.kind = OP_FEED; f.n = (uint32_t)(c.flag() ? 0 : aim_T - std::min<uint64_t>(aim_T, 1 + c.u(300))); r.ops.push_back(f);
			if (fin_there) { Op e; e.kind = OP_FINISH; e.n = (uint32_t)(aim_T - f.n); r.ops.push_back(e); }
			else { Op y; y.kind = OP_SYNC; y.n = (uint32_t)(aim_T - f.n); r.ops.push_back(y); Op e; e.kind = OP_FINISH; e.n = (uint32_t)(P0.size() - aim_T); r.ops.push_back(e); }
			P_aimed = P0; if (fin_there) P_aimed.resize((size_t)aim_T); have_P_aimed = true; rec.len = (uint32_t)P_aimed.size();
			total = rec.len; count(fin_there ? "aimed_finish_near_chunk_limit" : "aimed_sync_flush_near_chunk_limit");
		}
		if (cand.empty()) { rec.len = (uint32_t)total; }
	}
	r.P = have_P_aimed ? P_aimed : expand(rec);
	if (r.ek == EK_MT && g.block_size && total / g.block_size > 64) g.block_size = total / 64 + 1;   // cost: at most ~64 Blocks
	// description + hash
	std::string d = std::string("{\"encoder\":\"") + ek_names[r.ek] + "\",\"chains\":[\"" + ck_names[r.cks[0]] + "\",\"" + ck_names[r.cks[1]] + "\",\"" + ck_names[r.cks[2]] + "\"],\"cfg\":" + g.describe() + ",\"input\":" + rec.describe() + ",\"slicing\":" + std::to_string(r.style) + ",\"ops\":[";
	r.hash = hcomb(hcomb(r.ek, g.hash()), hcomb(r.style, rec.hash()));
	for (size_t i = 0; i < r.ops.size(); ++i) { const Op &o = r.ops[i]; char b[96];
		if (o.kind == OP_UPDATE) snprintf(b, sizeof b, "%s[\"update\",%s]", i ? "," : "", o.ukind == U_LCLP ? ("\"lclppb " + std::to_string(o.lc) + std::to_string(o.lp) + std::to_string(o.pb) + "\"").c_str() : o.ukind == U_CHAIN ? ("\"chain " + std::to_string(o.alt) + "\"").c_str() : ("\"invalid " + std::to_string(o.inv) + "\"").c_str());
		else snprintf(b, sizeof b, "%s[\"%s\",%u]", i ? "," : "", op_names[o.kind], o.n);
		d += b; r.hash = hcomb(r.hash, hcomb(hcomb(o.kind, o.n), hcomb(o.ukind * 1000 + o.lc * 100 + o.lp * 10 + o.pb, o.alt * 8 + o.inv))); }
	d += "]}";
	set_desc(d);
	// init
	lzma_ret ir = ec::init_encoder(&r.s, g);
	if (ir == LZMA_MEM_ERROR) { count("environment_alloc_cap"); lzma_end(&r.s); return 0; }
	if (ir != LZMA_OK) harness_bug("encoder init failed: %s", drv::retname(ir));
	r.lc = g.lz.lc; r.lp = g.lz.lp; r.pb = g.lz.pb;
	if (r.ek == EK_MT) { r.mt_block_size = g.block_size ? g.block_size : lzma_mt_block_size(g.filters); }
	count(std::string("enc_") + ek_names[r.ek]); count(std::string("chain_") + ck_names[r.cks[0]]);

	bool finished = false; int prev_kind = -1; bool prev_completed_flush = false;
	for (size_t i = 0; i < r.ops.size() && !r.dead && !finished; ++i) {
		const Op &op = r.ops[i]; const uint64_t before = r.fed;
		char what[64]; snprintf(what, sizeof what, "op %zu %s(%u)", i, op_names[op.kind], op.n);
		bool completed_flush = false;
		switch (op.kind) {
		case OP_FEED: {
			// threaded encoder, a feed followed by a chain update: the update may also be made in the middle of the feed, at a moment when
			// lzma_code has returned with input pending right at an automatic Block boundary (the encoder accepts it: no Block is open)
			const bool mid = r.ek == EK_MT && r.mt_block_size && i + 1 < r.ops.size() && r.ops[i + 1].kind == OP_UPDATE && r.ops[i + 1].ukind == U_CHAIN && op.n > r.mt_block_size;
			const bool hdr = r.ek == EK_STREAM && r.in_block() == 0 && op.n > 0 && (r.style == 1 || r.style == 3) && i + 1 < r.ops.size() && r.ops[i + 1].kind == OP_UPDATE && r.ops[i + 1].ukind == U_CHAIN;
			LoopEnd e = action_loop(r, LZMA_RUN, op.n, what, mid, hdr); note_fed(r, before);
			if (e == LE_HEADER_PARTLY_OUT) {
				// a whole-chain update offered while the Block Header of the old chain is half way out: refused or not, Header and data of this Block must belong together
				count("update_offered_while_block_header_is_partly_written");
				r.header_started = true; do_update(r, r.ops[i + 1]); r.header_started = false; r.ops[i + 1].kind = OP_FEED; r.ops[i + 1].n = 0;
				e = action_loop(r, LZMA_RUN, op.n, what); note_fed(r, before);
			}
			if (e == LE_MT_BOUNDARY) {
				const uint64_t rest = before + op.n - r.fed; count("mt_update_offered_at_automatic_block_boundary_with_input_pending");
				close_segment(r); do_update(r, r.ops[i + 1]); r.ops[i + 1].kind = OP_FEED; r.ops[i + 1].n = 0;   // the update has been made; the op is spent
				const uint64_t b2 = r.fed; e = action_loop(r, LZMA_RUN, (size_t)rest, what); note_fed(r, b2);
			}
			if (e == LE_PROG_ERROR) violation("C12:unexpected-code", "%s returned LZMA_PROG_ERROR", what);
			if (e == LE_OPTIONS_ERROR) violation("C12:unexpected-code", "%s returned LZMA_OPTIONS_ERROR", what);
			if (e == LE_DEAD) r.dead = true;
			break; }
		case OP_SYNC: case OP_FULL: case OP_BARRIER: {
			const lzma_action a = op.kind == OP_SYNC ? LZMA_SYNC_FLUSH : op.kind == OP_FULL ? LZMA_FULL_FLUSH : LZMA_FULL_BARRIER;
			const bool xz_only = a != LZMA_SYNC_FLUSH;
			if (xz_only && !r.is_xz()) { // raw/block encoders: unsupported action => PROG_ERROR (C11); do not provoke it here, feed instead
				LoopEnd e = action_loop(r, LZMA_RUN, op.n, what); note_fed(r, before); if (e != LE_DONE) { if (e == LE_DEAD) r.dead = true; else violation("C12:unexpected-code", "%s (as LZMA_RUN) failed", what); } break; }
			const uint64_t in_block_with_carry = r.in_block() + op.n;
			const uint64_t new_bytes = r.fed + op.n - r.fed_at_last_flush;
			const bool no_new_input = new_bytes == 0, pending_small = new_bytes > 0 && new_bytes < g.lz.nice_len;
			if (r.ek == EK_MT && a == LZMA_SYNC_FLUSH) {
				// container.h: the threaded encoder does not support LZMA_SYNC_FLUSH
				r.s.next_in = r.P.data() ? r.P.data() + r.fed : (const uint8_t *)"" ; r.s.avail_in = op.n; uint8_t ob[64]; r.s.next_out = ob; r.s.avail_out = sizeof ob;
				lzma_ret ret = lzma_code(&r.s, LZMA_SYNC_FLUSH);
				if (ret != LZMA_PROG_ERROR || r.s.avail_in != op.n || r.s.avail_out != sizeof ob) violation("C12:mt-sync-flush-not-refused", "threaded encoder: LZMA_SYNC_FLUSH returned %s", drv::retname(ret));
				count("mt_sync_flush_refused");
				// base.h leaves open whether the handle survives a refused call: carry on, tolerate an immediate PROG_ERROR
				++r.calls_since_flush; LoopEnd e = action_loop(r, LZMA_RUN, op.n, what); note_fed(r, before);
				if (e == LE_PROG_ERROR && r.fed == before) { count("handle_dead_after_refused_call_open"); r.dead = true; }
				else if (e != LE_DONE) { if (e == LE_DEAD) r.dead = true; else violation("C12:unexpected-code", "%s: LZMA_RUN after the refused LZMA_SYNC_FLUSH failed", what); }
				break;
			}
			const bool must_refuse = a == LZMA_SYNC_FLUSH && !r.flushable() && in_block_with_carry > 0;
			const bool may_refuse = a == LZMA_SYNC_FLUSH && !r.flushable();
			LoopEnd e = action_loop(r, a, op.n, what); note_fed(r, before);
			if (e == LE_DEAD) { r.dead = true; break; }
			if (e == LE_OPTIONS_ERROR) {
				if (!may_refuse) violation("C12:flush-refused", "%s on a chain that supports it (%s) returned LZMA_OPTIONS_ERROR", what, ck_names[r.cks[r.cur_chain]]);
				count(std::string("sync_flush_refused_") + ck_names[r.cks[r.cur_chain]]);
				check_flush_point(r, "refused LZMA_SYNC_FLUSH", false);     // what was output before is still a decodable prefix
				r.dead = true; break;
			}
			if (e == LE_PROG_ERROR) violation("C12:unexpected-code", "%s returned LZMA_PROG_ERROR", what);
			if (must_refuse) violation("C12:sync-flush-not-refused", "%s completed on chain %s with %llu bytes in the current Block / stream: a chain that cannot honour a sync flush must return LZMA_OPTIONS_ERROR", what, ck_names[r.cks[r.cur_chain]], (unsigned long long)in_block_with_carry);
			// completed
			completed_flush = true; ++r.flushes_done; r.calls_since_flush = 0; r.last_flush = op.kind;
			count(std::string("flush_") + op_names[op.kind]); if (r.ek == EK_MT) count("mt_flush");
			if (no_new_input) count("flush_with_no_new_input"); if (pending_small) count("flush_with_fewer_than_nice_len_new_bytes");
			if (i == 0) count("flush_as_first_call"); if (prev_completed_flush && prev_kind != OP_UPDATE) count("flush_back_to_back");
			if (a == LZMA_SYNC_FLUSH) r.since_sync = true; else { close_segment(r); r.since_sync = false; }
			const bool exact = !(r.ek == EK_MT && a == LZMA_FULL_BARRIER);
			check_flush_point(r, what, exact);
			r.fed_at_last_flush = r.fed;
			break; }
		case OP_UPDATE: do_update(r, op); break;
		default: { LoopEnd e = action_loop(r, LZMA_FINISH, op.n, what); note_fed(r, before);
			if (e == LE_DEAD) { r.dead = true; break; }
			if (e != LE_DONE) { violation("C12:unexpected-code", "%s returned %s", what, e == LE_OPTIONS_ERROR ? "LZMA_OPTIONS_ERROR" : "LZMA_PROG_ERROR"); }
			close_segment(r); finished = true; break; }
		}
		prev_completed_flush = completed_flush; prev_kind = op.kind;
	}
	lzma_end(&r.s); lzma_verif_mf_offset_bias = 0;
	if (finished) { final_checks(r); count("finished_and_verified"); }
	if (finished && aim_T) {   // did the aim work?  a chunk closed by the size limit ends 1..8 bytes before the flush/finish offset
		ChunkEnds C1 = chunk_ends_of_output(r.ek, r.out); bool hit = false, exact = false;
		for (size_t i = 0; i < C1.end.size(); ++i) if (C1.limit[i] || (i + 1 < C1.end.size() && C1.end[i] < aim_T)) { if (C1.end[i] < aim_T && aim_T - C1.end[i] <= 8 && C1.limit[i]) hit = true; if (C1.end[i] == aim_T) exact = true; }
		if (hit) count("flush_or_finish_1_to_8_bytes_after_chunk_closed_by_size_limit"); (void)exact;
	}
	else count("history_ended_early");
	if (r.flushes_done >= 1 && r.fed_before_flush && r.fed_after_flush && finished) nontrivial(r.hash);
	return 0;
}
