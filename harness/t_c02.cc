// t_c02.cc - C02: encoder output is a valid instance of the published formats, as judged by the
// independent ref/ parser+decoder; stored metadata is truthful; bound() is never too small.
#include "vgen.h"
#include "drv.h"
#include "enccfg.h"
#include "common.h"
#include "alloc.h"
#include "ref/xzparse.h"
#include "ref/containers.h"

using namespace vg;

static va::Alloc *g_alp;
static const lzma_allocator *AL() { if (!g_alp) { g_alp = new va::Alloc(); g_alp->cap = 1200u << 20; g_alp->poison = false; } return &g_alp->a; }
extern "C" size_t vfresh_max(void) { return 96; }

static uint64_t ref_filter_id(lzma_vli id) { return (uint64_t)id; } // IDs are the on-disk values (filter.h documents them as such)

static bool chain_has_bcj(const ec::Config &g) { return g.has_bcj; }

// undo the non-last filters on raw output using ref (delta always; BCJ when the reference is available)
static int ref_unfilter(const ec::Config &g, std::vector<uint8_t> &data) {
	std::vector<ref::Filter> fl;
	unsigned nd = 0, nb = 0;
	for (unsigned i = 0; i < g.nfilters; ++i) { ref::Filter f; f.id = ref_filter_id(g.filters[i].id);
		if (g.filters[i].id == LZMA_FILTER_DELTA) f.props.push_back((uint8_t)(g.delta[nd++].dist - 1));
		else if (i + 1 < g.nfilters) { uint32_t so = g.bcj_null[nb] ? 0 : g.bcj[nb].start_offset; ++nb; if (so) { f.props.resize(4); for (int k = 0; k < 4; ++k) f.props[k] = (uint8_t)(so >> (8 * k)); } }
		fl.push_back(f); }
	return ref::apply_nonlast_decode(fl, data);
}

static uint32_t draw_len_boundary(Case &c) {
	uint8_t b = c.byte();
	if (b < 90) return c.len_exp(1u << 14);
	if (b < 130) return c.len_exp(3u << 19);
	int d = (int)c.u(5) - 2;
	int64_t v;
	if (b < 215) v = (int64_t)c.u(34) * 65536 + d;            // LZMA2 uncompressed-chunk boundary
	else if (b < 235) v = (int64_t)(1u << 21) * (1 + c.u(1)) + d; // LZMA chunk boundary (2 MiB)
	else v = (int64_t)c.u(8) * 4096 * (1 + c.u(16)) + d;         // block_size multiples
	if (v < 0) v = 0; if (v > (5 << 20) / 2) v = (5 << 20) / 2;
	return (uint32_t)v;
}

extern "C" int LLVMFuzzerTestOneInput(const uint8_t *data, size_t size) {
	begin_case("C02");
	Case c(data, size);
	ec::Config g; ec::DrawFlags f; f.allow_big = false;
	ec::draw_config(c, g, f);
	if (size && (data[size - 1] & 7) == 7) g.warm = 1 + ((data[size - 1] >> 3) & 3);   // 1/8 of the cases: the encoder runs on a handle that has just encoded something else
	Recipe r = draw_recipe(c, 1u << 14, g.lz.dict_size);
	r.len = draw_len_boundary(c);
	if (r.kind == RK_LITERAL) r.kind = RK_RANDOM;
	if (c.chance(100)) r.kind = RK_RANDOM;          // incompressible: the case the bound clause is about
	std::vector<uint8_t> in = expand(r);
	if (!g.pdict.empty() && c.rare(140) && ec::input_from_pdict_tail(c, g, in, 1u << 15)) { r.len = (uint32_t)in.size(); r.seed = hash_bytes(in.data(), in.size()); count("input_from_preset_dict_tail"); }
	g.prepare_for_len(in.size()); ec::govern_cost(g, in.size());
	drv::Schedule esch = drv::draw_schedule(c, true);
	set_desc("{\"cfg\":" + g.describe() + ",\"input\":" + r.describe() + ",\"enc_schedule\":" + esch.describe() + "}");
	const ec::Entry e = g.entry;

	ec::Encoded E = ec::encode_all(g, in, esch, AL());
	if (E.ret == LZMA_MEM_ERROR) { count("environment_alloc_cap"); return 0; }
	if (E.capped) { count("inconclusive_capped"); return 0; }
	if (e == ec::E_MICROLZMA && in.empty()) { count("micro_empty_input"); return 0; }
	if (ec::is_buf(e) && e != ec::E_RAW_BUF && E.ret == LZMA_BUF_ERROR) violation("C02:bound-too-small", "single-call encoder returned BUF_ERROR with out_size = bound(%zu)", in.size());
	if (E.ret != LZMA_STREAM_END) violation("C01:encode-failed", "encoder returned %s", drv::retname(E.ret));
	const std::vector<uint8_t> &B = E.bytes;
	const uint8_t *bp = B.empty() ? (const uint8_t *)"" : B.data();
	size_t plain_len = e == ec::E_MICROLZMA ? (size_t)E.total_in : in.size();
	auto same_as_input = [&](const std::vector<uint8_t> &o) { return o.size() == plain_len && (plain_len == 0 || memcmp(o.data(), in.data(), plain_len) == 0); };
	count(std::string("entry_") + ec::entry_names[e]);
	if (ec::is_buf(e) && e != ec::E_RAW_BUF) { count("bound_checked"); if (in.size() >= 65534 && ((in.size() + 2) % 65536) <= 4) count("bound_at_chunk_boundary"); }

	if (ec::is_xz(e)) {
		ref::XzOpts o; o.concatenated = true; o.out_limit = in.size() + 16;
		ref::XzResult R = ref::xz_decode(bp, B.size(), o);
		if (R.status == ref::RS_REF_UNSUPPORTED) { count("inconclusive_ref_lacks_filter"); return 0; }
		if (R.status != ref::RS_OK) violation("C02:xz-invalid", "reference parser rejects the encoder's output: %s (status %d) at offset %zu of %zu", R.rule.c_str(), R.status, R.in_used, B.size());
		if (!same_as_input(R.out)) violation("C02:xz-content", "reference decoder recovers %zu bytes, input %zu bytes", R.out.size(), in.size());
		if (R.streams.size() != 1 || R.in_used != B.size() || R.streams[0].padding_after != 0) violation("C02:xz-one-stream", "%zu streams, used %zu of %zu", R.streams.size(), R.in_used, B.size());
		if (B.size() % 4) violation("C02:xz-size-multiple-of-4", "stream size %zu", B.size());
		const ref::StreamLayout &S = R.streams[0];
		if (S.check_id != (unsigned)g.check) violation("C02:xz-check-id", "stream flags say check %u, configured %d", S.check_id, (int)g.check);
		uint64_t total_unc = 0;
		for (auto &b : S.blocks) {
			uint64_t declared = ref::lzma2_dict_from_byte(b.filters.back().props[0]);
			if (b.lz.max_dist_plus1 > declared) violation("C02:lzma2-dict-too-small", "match distance %llu reaches beyond the declared dictionary %llu", (unsigned long long)b.lz.max_dist_plus1, (unsigned long long)declared);
			if (b.unc_size == 0) violation("C02:empty-block", "encoder emitted an empty Block");
			total_unc += b.unc_size;
			if (b.has_comp) count("block_with_size_fields");
			if (b.lz.uncompressed_chunks) count("uncompressed_chunk_fallback");
		}
		if (S.blocks.size() > 1) count("multi_block");
		if (e == ec::E_STREAM_MT) { for (auto &b : S.blocks) if (!b.has_comp || !b.has_unc) violation("C02:mt-size-fields", "threaded encoder Block without size fields"); }
		if (g.nfilters == 4) count("four_filter_header");
	} else if (e == ec::E_ALONE) {
		ref::AloneResult R = ref::alone_decode(bp, B.size(), true, in.size() + 16);
		if (R.status != ref::RS_OK) violation("C02:lzma-invalid", "reference .lzma decoder: %s (status %d)", R.rule.c_str(), R.status);
		if (!same_as_input(R.out)) violation("C02:lzma-content", "reference decoder recovers %zu bytes, input %zu", R.out.size(), in.size());
		if (R.in_used != B.size()) violation("C02:lzma-trailing", "used %zu of %zu bytes", R.in_used, B.size());
		if (R.lc != g.lz.lc || R.lp != g.lz.lp || R.pb != g.lz.pb) violation("C02:lzma-props", "header lc/lp/pb %u/%u/%u", R.lc, R.lp, R.pb);
		if (R.size != UINT64_MAX || !R.saw_marker) violation("C02:lzma-size-field", "size field %llx marker %d", (unsigned long long)R.size, (int)R.saw_marker);
		if (R.max_dist_plus1 > R.dict) violation("C02:lzma-dict", "declared %u, configured %u, max distance+1 %llu", R.dict, g.lz.dict_size, (unsigned long long)R.max_dist_plus1);
	} else if (ec::is_raw(e) || e == ec::E_MICROLZMA) {
		std::vector<uint8_t> out; int st; size_t used = 0; uint64_t maxd = 0;
		const uint8_t *pd = g.pdict.empty() ? nullptr : g.pdict.data();
		if (e == ec::E_MICROLZMA) {
			std::vector<uint8_t> t = B; unsigned lc, lp, pb;
			if (t.empty() || !ref::props_decode((uint8_t)~t[0], lc, lp, pb) || lc != g.lz.lc || lp != g.lz.lp || pb != g.lz.pb) violation("C02:micro-props", "first byte is not the negated props byte");
			t[0] = 0x00;
			ref::Lzma1Result L = ref::lzma1_decode(t.data(), t.size(), lc, lp, pb, g.lz.dict_size, plain_len, false, out, nullptr, 0, plain_len + 16);
			st = L.status; used = L.in_used; maxd = L.max_dist_plus1;
			if (B.size() > g.micro_limit) violation("C01:micro-limit", "output %zu > limit %u", B.size(), g.micro_limit);
		} else if (g.last_id() == LZMA_FILTER_LZMA2) {
			ref::Lzma2Result L = ref::lzma2_decode(bp, B.size(), g.lz.dict_size, out, pd, g.pdict.size(), in.size() + 16);
			st = L.status; used = L.in_used; maxd = L.max_dist_plus1; if (L.uncompressed_chunks) count("uncompressed_chunk_fallback");
		} else {
			bool ext = g.last_id() == LZMA_FILTER_LZMA1EXT; bool marker = !ext || (g.lz.ext_flags & LZMA_LZMA1EXT_ALLOW_EOPM);
			ref::Lzma1Result L = ref::lzma1_decode(bp, B.size(), g.lz.lc, g.lz.lp, g.lz.pb, g.lz.dict_size, marker ? UINT64_MAX : in.size(), marker, out, pd, g.pdict.size(), in.size() + 16);
			st = L.status; used = L.in_used; maxd = L.max_dist_plus1;
			if (marker != L.saw_marker) violation("C02:lzma1-marker", "end marker present=%d expected=%d", (int)L.saw_marker, (int)marker);
		}
		if (st != ref::RS_OK) violation("C02:raw-invalid", "reference raw decoder status %d", st);
		if (used != B.size()) violation("C02:raw-trailing", "used %zu of %zu", used, B.size());
		if (maxd > g.lz.dict_size) violation("C02:raw-dict", "distance %llu beyond dictionary %u", (unsigned long long)maxd, g.lz.dict_size);
		int fst = ref_unfilter(g, out);
		if (fst == ref::RS_REF_UNSUPPORTED) { count("inconclusive_ref_lacks_filter"); return 0; }
		if (!same_as_input(out)) violation("C02:raw-content", "reference decoder recovers %zu bytes, expected %zu", out.size(), plain_len);
	} else if (ec::is_block(e)) {
		ref::XzResult R; ref::BlockLayout b;
		if (B.empty() || B[0] == 0 || !ref::parse_block_header(bp, B.size(), 0, b, R)) violation("C02:block-header-invalid", "reference rejects the Block Header: %s", R.rule.c_str());
		if (b.hdr_size != g.block.header_size) violation("C02:block-header-size", "header size %zu vs lzma_block.header_size %u", b.hdr_size, g.block.header_size);
		std::vector<uint8_t> out;
		uint64_t declared = ref::lzma2_dict_from_byte(b.filters.back().props[0]);
		ref::Lzma2Result L = ref::lzma2_decode(bp + b.hdr_size, B.size() - b.hdr_size, declared, out, nullptr, 0, in.size() + 16);
		if (L.status != ref::RS_OK) violation("C02:block-data-invalid", "reference LZMA2 decoder status %d", L.status);
		if (L.max_dist_plus1 > declared) violation("C02:lzma2-dict-too-small", "max distance+1 %llu declared %llu configured %u", (unsigned long long)L.max_dist_plus1, (unsigned long long)declared, g.lz.dict_size);
		size_t pos = b.hdr_size + L.in_used; size_t pad = (4 - (L.in_used & 3)) & 3;
		unsigned cs = ref::check_sizes[(unsigned)g.check];
		if (B.size() != pos + pad + cs) violation("C02:block-size", "block is %zu bytes, header+data+padding+check = %zu", B.size(), pos + pad + cs);
		for (size_t i = 0; i < pad; ++i) if (B[pos + i]) violation("C02:block-padding", "non-zero Block Padding");
		if (g.block.compressed_size != L.in_used || g.block.uncompressed_size != out.size()) violation("C02:block-struct-sizes", "lzma_block says %llu/%llu, measured %zu/%zu",
			(unsigned long long)g.block.compressed_size, (unsigned long long)g.block.uncompressed_size, L.in_used, out.size());
		if (b.has_comp && b.comp_field != L.in_used) violation("C02:block-comp-field", "Compressed Size field %llu, measured %zu", (unsigned long long)b.comp_field, L.in_used);
		if (b.has_unc && b.unc_field != out.size()) violation("C02:block-unc-field", "Uncompressed Size field %llu, measured %zu", (unsigned long long)b.unc_field, out.size());
		{ std::vector<ref::Filter> fl = b.filters; int fst = ref::apply_nonlast_decode(fl, out); if (fst == ref::RS_REF_UNSUPPORTED) { count("inconclusive_ref_lacks_filter"); return 0; } }
		if (!same_as_input(out)) violation("C02:block-content", "reference decoder recovers %zu bytes, input %zu", out.size(), in.size());
		const uint8_t *ck = bp + pos + pad; bool good = true;
		if (g.check == LZMA_CHECK_CRC32) good = ref::crc32_fast(in.data(), in.size()) == ref::rd32(ck);
		else if (g.check == LZMA_CHECK_CRC64) good = ref::crc64_fast(in.data(), in.size()) == ref::rd64(ck);
		else if (g.check == LZMA_CHECK_SHA256) { uint8_t h[32]; ref::sha256(in.data(), in.size(), h); good = memcmp(h, ck, 32) == 0; }
		if (!good) violation("C02:block-check", "Check field is not the standard check of the data");
		if (L.uncompressed_chunks) count("uncompressed_chunk_fallback");
	}
	if (!in.empty()) nontrivial(hcomb(hcomb(g.hash(), r.hash()), esch.hash()));
	return 0;
}
