// t_c01.cc - C01: compression is lossless for every input and every accepted configuration.
// case = input recipe x encoder configuration (built by construction from the documented ranges)
// x entry point x slicing.  Oracle: init OK, encode ends in STREAM_END, the matching liblzma decoder
// returns STREAM_END with exactly the input and consumes every produced byte.  MicroLZMA: output within
// the limit and decodes to exactly the reported prefix.
#include "vgen.h"
#include "drv.h"
#include "enccfg.h"
#include "common.h"
#include "alloc.h"

using namespace vg;

static va::Alloc *g_alp;
static const lzma_allocator *AL() { if (!g_alp) { g_alp = new va::Alloc(); g_alp->cap = 1200u << 20; g_alp->poison = false; } return &g_alp->a; }

extern "C" size_t vfresh_max(void) { return 96; }

extern "C" int LLVMFuzzerTestOneInput(const uint8_t *data, size_t size) {
	begin_case("C01");
	Case c(data, size);
	ec::Config g; ec::DrawFlags f;
	uint8_t sizeclass = c.byte();
	f.allow_big = sizeclass >= 250;               // 16 MiB dictionaries / presets 7-9: rare (cost)
	ec::draw_config(c, g, f);
	if (size && (data[size - 1] & 7) == 7) g.warm = 1 + ((data[size - 1] >> 3) & 3);   // 1/8 of the cases: the encoder runs on a handle that has just encoded something else
	uint32_t maxlen = sizeclass < 150 ? (1u << 14) : (sizeclass < 235 ? (1u << 18) : (3u << 20));
	Recipe r = draw_recipe(c, maxlen, g.lz.dict_size);
	const bool plan_case = (hash_bytes(data, size) % 11) < 3;    // ~27 %: encoded with flush actions between the pieces (see below)
	if (plan_case && (hash_bytes(data, size) >> 8) % 2 == 0) {   // half of them on repetitive, word-like data of a few KiB (tree neighbours with equal prefixes)
		if (r.kind == RK_RANDOM || r.kind == RK_CONST || r.kind == RK_LITERAL || r.kind == RK_ZERO_RUNS) r.kind = RK_TEXT;
		r.alpha = 2 + (uint32_t)((hash_bytes(data, size) >> 12) & 3); if (r.len < 3000) r.len = 3000 + (r.seed % 9000);
	}
	if (sizeclass >= 235 && sizeclass < 250 && !g.use_preset && g.lz.dict_size <= (1u << 16) && r.len < (600u << 10)) r.len = (600u << 10) + (r.len & 0xFFFFF); // window slides: > 1.5*dict + 0.5 MiB
	if (sizeclass >= 225 && sizeclass < 235) {
		// > 2 MiB of input that compresses better than 32:1: the LZMA2 encoder closes a chunk because of the 2 MiB *uncompressed*
		// size limit of the chunk header (the 64 KiB compressed-size limit is what ends chunks for all other inputs)
		if (r.kind != RK_CONST && r.kind != RK_SHORT_PERIOD && r.kind != RK_ZERO_RUNS) r.kind = (r.seed & 1) ? RK_SHORT_PERIOD : RK_CONST;
		if (r.kind == RK_SHORT_PERIOD) r.period = 1 + (r.period % 300);
		r.len = (2u << 20) + 1 + (r.seed >> 8) % (1u << 20); count("input_over_2MiB_compressing_better_than_32_to_1");
	}
	std::vector<uint8_t> in = expand(r);
	if (!g.pdict.empty() && c.rare(140) && ec::input_from_pdict_tail(c, g, in, 1u << 15)) { r.kind = RK_LITERAL; r.len = (uint32_t)in.size(); r.seed = hash_bytes(in.data(), in.size()); count("input_from_preset_dict_tail"); }
	g.prepare_for_len(in.size()); ec::govern_cost(g, in.size());
	drv::Schedule esch = drv::draw_schedule(c, true), dsch = drv::draw_schedule(c, true);
	const bool micro = g.entry == ec::E_MICROLZMA;
	set_desc("{\"cfg\":" + g.describe() + ",\"input\":" + r.describe() + ",\"enc_schedule\":" + esch.describe() + ",\"dec_schedule\":" + dsch.describe() + "}");

	// a multi-call encoder may be driven with flush actions between the pieces of its input and may be told new LZMA2 lc/lp/pb after a
	// sync flush: still "an encoder configuration the library accepts", and the whole output must still decode to the whole input.
	// Plan: 1..12 cut points, at each LZMA_SYNC_FLUSH (LZMA2 / delta+LZMA2 chains) or, for the .xz encoders, LZMA_FULL_FLUSH /
	// LZMA_FULL_BARRIER; after one of the sync flushes optionally lzma_filters_update() with other lc/lp/pb.
	const bool flushable_chain = g.use_preset || (g.last_id() == LZMA_FILTER_LZMA2 && !g.has_bcj);   // (a preset is LZMA2 alone)
	const bool xz_multi = g.entry == ec::E_STREAM || g.entry == ec::E_STREAM_MT || g.entry == ec::E_EASY;
	const bool mid_update = ((g.entry == ec::E_STREAM || g.entry == ec::E_RAW) && flushable_chain || xz_multi) && in.size() >= 2 && plan_case;
	ec::Encoded E;
	if (mid_update) {
		lzma_stream s = LZMA_STREAM_INIT; s.allocator = AL();
		lzma_ret ir = ec::init_encoder(&s, g);
		if (ir == LZMA_MEM_ERROR) { lzma_end(&s); count("environment_alloc_cap"); return 0; }
		if (ir != LZMA_OK) violation("C01:encode-failed", "encoder init returned %s", drv::retname(ir));
		const bool can_sync = flushable_chain && g.entry != ec::E_STREAM_MT;     // (the threaded encoder has no LZMA_SYNC_FLUSH)
		// (the plan is drawn from a PRNG seeded with the case: most cases have used up their bytes by now, and exhausted draws are constants)
		Rng pr(hash_bytes(data, size) ^ 0xF1A5);
		unsigned ncut = 1 + pr.below(12); if (pr.below(5) == 0) ncut = 40 + pr.below(260);   // sometimes hundreds of flushes in one stream
		if (ncut > in.size() - 1) ncut = (unsigned)(in.size() - 1); std::vector<size_t> cuts; for (unsigned i = 0; i < ncut; ++i) cuts.push_back(1 + (size_t)(pr.next() % (in.size() - 1))); std::sort(cuts.begin(), cuts.end());
		for (unsigned i = 1; i < ncut; ++i) if (pr.below(3) == 0) cuts[i] = std::min(in.size() - 1, cuts[i - 1] + 1 + pr.below(4));   // flushes only a few bytes apart (fewer new bytes than nice_len)
		std::sort(cuts.begin(), cuts.end());
		if (pr.below(3) == 0) {   // dense: a flush every 1..8 bytes for a few hundred flushes
			size_t at = 1 + (size_t)(pr.next() % (in.size() - 1)); cuts.clear(); for (unsigned i = 0; i < 400 && at < in.size(); ++i) { cuts.push_back(at); at += 1 + pr.below(8); } ncut = (unsigned)cuts.size(); count("dense_flushes"); }
		const int upd_at = can_sync && !g.use_preset && pr.below(2) ? (int)pr.below(ncut) : -1; std::string plan; size_t pos = 0; bool bad = false; drv::Opts o1; o1.out_cap = 48u << 20; if (g.entry == ec::E_STREAM_MT) { o1.idle_limit = 1u << 30; if (g.timeout) { o1.small_call_budget = 1500; o1.extra_calls = 100000; } }
		for (unsigned i = 0; i < ncut && !bad; ++i) {
			lzma_action a = can_sync && (!xz_multi || pr.below(3) != 0) ? LZMA_SYNC_FLUSH : (pr.below(2) ? LZMA_FULL_FLUSH : LZMA_FULL_BARRIER);
			if (!can_sync && !xz_multi) break;
			o1.final_action = a; drv::Result r1 = drv::run(&s, in.data() + pos, cuts[i] - pos, esch, o1); pos = cuts[i];
			E.bytes.insert(E.bytes.end(), r1.out.begin(), r1.out.end()); E.total_in += r1.total_in; E.capped |= r1.capped;
			plan += (a == LZMA_SYNC_FLUSH ? "S" : a == LZMA_FULL_FLUSH ? "F" : "B") + std::to_string(cuts[i]) + " ";
			if (r1.ret == LZMA_MEM_ERROR) { lzma_end(&s); count("environment_alloc_cap"); return 0; }
			if (r1.ret != LZMA_STREAM_END) violation("C01:encode-failed", "flush action %d after %zu bytes returned %s", (int)a, cuts[i], drv::retname(r1.ret));
			if ((int)i == upd_at && a == LZMA_SYNC_FLUSH) {
				uint32_t nlc = pr.below(5), nlp = pr.below(5 - nlc), npb = pr.below(5);
				lzma_options_lzma lz2 = g.lz; lz2.lc = nlc; lz2.lp = nlp; lz2.pb = npb;
				lzma_filter f2[LZMA_FILTERS_MAX + 1]; unsigned nf = 0; for (; nf < g.nfilters; ++nf) f2[nf] = g.filters[nf]; f2[nf].id = LZMA_VLI_UNKNOWN; f2[nf].options = NULL; f2[nf - 1].options = &lz2;
				lzma_ret ur = lzma_filters_update(&s, f2);
				if (ur != LZMA_OK) violation("C12:update-refused", "lzma_filters_update(lc=%u lp=%u pb=%u) right after a completed LZMA_SYNC_FLUSH returned %s", nlc, nlp, npb, drv::retname(ur));
				plan += "U" + std::to_string(nlc) + std::to_string(nlp) + std::to_string(npb) + " "; count("lclppb_changed_after_sync_flush");
			}
		}
		drv::Opts o2 = o1; o2.final_action = LZMA_FINISH;
		drv::Result b = drv::run(&s, in.data() + pos, in.size() - pos, esch, o2); lzma_end(&s); lzma_verif_mf_offset_bias = 0;
		E.ret = b.ret; E.bytes.insert(E.bytes.end(), b.out.begin(), b.out.end()); E.total_in += b.total_in; E.capped |= b.capped;
		{ std::string &d = g_stats.current; if (!d.empty() && d.back() == '}') { d.pop_back(); d += ",\"flush_plan\":\"" + plan + "\"}"; } }
		count("encoded_with_flush_actions_between_pieces"); if (getenv("VERIF_C01_DEBUG")) fprintf(stderr, "PLAN entry=%s preset=%d mf=%d mode=%d nice=%u in=%zu ncut=%u plan=%.60s\n", ec::entry_names[g.entry], (int)g.use_preset, (int)g.lz.mf, (int)g.lz.mode, g.lz.nice_len, in.size(), ncut, plan.c_str());
	} else E = ec::encode_all(g, in, esch, AL());
	if (E.ret == LZMA_MEM_ERROR) { count("environment_alloc_cap"); return 0; }
	if (E.capped) { count("inconclusive_capped"); return 0; }
	if (micro) {
		if (in.empty()) { count("micro_empty_input"); return 0; } // nothing to encode: the encoder reports an error, which the API documents
		if (E.ret != LZMA_STREAM_END) violation("C01:micro-encode-status", "MicroLZMA encoder returned %s", drv::retname(E.ret));
		if (E.bytes.size() > g.micro_limit) violation("C01:micro-limit", "output %zu > limit %u", E.bytes.size(), g.micro_limit);
		if (E.total_in > in.size()) violation("C01:micro-total-in", "total_in %llu > input %zu", (unsigned long long)E.total_in, in.size());
		if (E.total_in == 0) violation("C01:micro-no-progress", "limit %u allowed at least one literal but total_in == 0", g.micro_limit);
		drv::Result D = ec::decode_matching(g, E.bytes, dsch, E.total_in, AL());
		if (D.ret != LZMA_STREAM_END) violation("C01:micro-decode-status", "MicroLZMA decoder returned %s (comp %zu, uncomp %llu)", drv::retname(D.ret), E.bytes.size(), (unsigned long long)E.total_in);
		if (D.out.size() != E.total_in || memcmp(D.out.data(), in.data(), D.out.size())) violation("C01:micro-prefix", "decoded bytes are not the reported prefix");
		count("entry_microlzma"); if (E.total_in < in.size()) count("micro_truncated_by_limit");
		nontrivial(hcomb(g.hash(), r.hash()));
		return 0;
	}
	if (E.ret != LZMA_STREAM_END) violation("C01:encode-failed", "encoder returned %s after %llu of %zu input bytes", drv::retname(E.ret), (unsigned long long)E.total_in, in.size());
	if (E.total_in != in.size()) violation("C01:encode-total-in", "encoder consumed %llu of %zu", (unsigned long long)E.total_in, in.size());
	drv::Result D = ec::decode_matching(g, E.bytes, dsch, in.size(), AL());
	if (D.ret == LZMA_MEM_ERROR) { count("environment_alloc_cap"); return 0; }
	if (D.capped) { count("inconclusive_capped"); return 0; }
	if (D.ret != LZMA_STREAM_END) violation("C01:decode-status", "matching decoder returned %s at %llu/%zu after %zu output bytes", drv::retname(D.ret), (unsigned long long)D.total_in, E.bytes.size(), D.out.size());
	if (D.out.size() != in.size() || (in.size() && memcmp(D.out.data(), in.data(), in.size()))) {
		size_t k = 0; while (k < D.out.size() && k < in.size() && D.out[k] == in[k]) ++k;
		violation("C01:roundtrip-bytes", "decoded %zu bytes, input %zu, first difference at %zu", D.out.size(), in.size(), k);
	}
	if (D.total_in != E.bytes.size()) violation("C01:decode-consumed", "decoder consumed %llu of %zu produced bytes", (unsigned long long)D.total_in, E.bytes.size());
	// classes
	count(std::string("entry_") + ec::entry_names[g.entry]);
	if (!g.use_preset) { count(std::string("mf_") + (g.lz.mf == LZMA_MF_HC3 ? "hc3" : g.lz.mf == LZMA_MF_HC4 ? "hc4" : g.lz.mf == LZMA_MF_BT2 ? "bt2" : g.lz.mf == LZMA_MF_BT3 ? "bt3" : "bt4")); }
	else count("preset");
	for (unsigned i = 0; i + 1 < g.nfilters; ++i) count(std::string("filter_") + ec::filter_name(g.filters[i].id));
	if (g.nfilters) count(std::string("last_") + ec::filter_name(g.last_id()));
	if (!g.pdict.empty()) count("preset_dict");
	if (g.norm_after && in.size() > g.norm_after) count("normalize_reached_by_hook");
	if (in.size() > (uint64_t)g.lz.dict_size * 3 / 2 + (1u << 19) + (1u << 16)) count("window_slid");
	if (in.size() > g.lz.dict_size) count("dictionary_wrapped");
	if (E.bytes.size() >= in.size() && in.size() > 64) count("incompressible_output");
	if (in.empty()) count("empty_input");
	if (!in.empty()) nontrivial(hcomb(hcomb(g.hash(), r.hash()), hcomb(esch.hash(), dsch.hash())));
	return 0;
}
