// t_c11.cc - C11: the lzma_code() calling protocol is enforced and accounted exactly.
//
// case = handle kind (every public initialiser that takes an lzma_stream, with a small valid workload
// behind it; decoders sometimes get a mutated workload) x history of <= 64 steps (legal coding calls with
// drawn input/output pieces, flush/finish starts, supply-nothing calls, out-of-range / unsupported actions,
// action or avail_in changed while a flush/finish is in progress, NULL buffers with non-zero lengths,
// reserved members set, calls before init / after lzma_end / after end of stream / after a fatal error,
// lzma_end, re-init without lzma_end, application-modified total_in/total_out) + a protocol-correct
// completion phase that drives the coder to the end of the stream whenever the model says it is alive.
//
// Oracle = reference model written from api/lzma/base.h (NOT_INIT, RUN, IN_ACTION(a, avail_in), END, ERROR)
// that yields per call the set of allowed return codes and the post-state; per-call accounting of
// next/avail/total; guard bytes (or exactly sized heap blocks under ASan) around both buffers; input
// unmodified; end-to-end: at END the concatenated output round-trips (encoders) / equals the one-shot
// result (decoders).
//
// Where the documents leave the outcome open the model allows every documented continuation:
//  * after a refused call (PROG_ERROR for bad arguments, OPTIONS_ERROR/PROG_ERROR for reserved members)
//    the coder is either unchanged or in the error state (`maybe_error`, resolved by the next legal call);
//  * END + invalid arguments / reserved members: PROG_ERROR, OPTIONS_ERROR or STREAM_END;
//  * invalid arguments + reserved members: PROG_ERROR or OPTIONS_ERROR;
//  * a no-progress LZMA_OK is always allowed for threaded coders with a timeout (container.h: lzma_mt.timeout);
//  * decoders given LZMA_FINISH before the whole stream has been supplied, and decoders on a mutated
//    workload, may return their documented error codes; then only safety, accounting and the state rules apply;
//  * MicroLZMA encoder called with no input: any outcome.
#include "vgen.h"
#include "drv.h"
#include "enccfg.h"
#include "common.h"
#include "alloc.h"

#include <atomic>
#include <chrono>
#include <thread>

using namespace vg;

// Watchdog for the threaded coders: a lzma_code()/initialiser call that does not return within 60 s on a workload
// of a few KiB is a hang (libFuzzer's own -timeout would only say "timeout" after 20 minutes).
static std::atomic<int64_t> g_call_started{0};   // steady-clock ms when the guarded call began, 0: none
static std::atomic<bool> g_wd_running{false};
static std::atomic<const char *> g_wd_sig{"C11:mt-hang"};
static int64_t now_ms() { return std::chrono::duration_cast<std::chrono::milliseconds>(std::chrono::steady_clock::now().time_since_epoch()).count() + 1; }
static void watchdog_main() {
	for (;;) { std::this_thread::sleep_for(std::chrono::milliseconds(250)); int64_t t = g_call_started.load();
		if (t && now_ms() - t > 60000) violation(g_wd_sig.load(), "a call on a threaded coder did not return within 60 s (all worker threads idle or lost?)"); }
}
struct Guarded { bool on; explicit Guarded(bool threaded) : on(threaded) { if (!on) return; if (!g_wd_running.exchange(true)) std::thread(watchdog_main).detach(); g_call_started.store(now_ms()); }
	~Guarded() { if (on) g_call_started.store(0); } };

static va::Alloc *g_alp;
static const lzma_allocator *AL() { if (!g_alp) { g_alp = new va::Alloc(); g_alp->cap = 96u << 20; g_alp->poison = false; } return &g_alp->a; }

enum Kind { K_EASY_ENC, K_STREAM_ENC, K_MT_ENC, K_ALONE_ENC, K_RAW_ENC, K_BLOCK_ENC, K_INDEX_ENC, K_MICRO_ENC,
	K_STREAM_DEC, K_MT_DEC, K_AUTO_DEC, K_ALONE_DEC, K_LZIP_DEC, K_RAW_DEC, K_BLOCK_DEC, K_INDEX_DEC, K_FILEINFO_DEC, K_MICRO_DEC, K_N };
static const char *const kind_names[] = {"easy_enc", "stream_enc", "mt_enc", "alone_enc", "raw_enc", "block_enc", "index_enc", "micro_enc",
	"stream_dec", "mt_dec", "auto_dec", "alone_dec", "lzip_dec", "raw_dec", "block_dec", "index_dec", "fileinfo_dec", "micro_dec"};
static inline bool is_enc(int k) { return k <= K_MICRO_ENC; }

// ------------------------------------------------------------------------------------------ workload
struct Work {
	int kind = 0; bool enc = false, valid = true, timed = false;
	ec::Config g;
	std::vector<uint8_t> plain, feed, expect;    // feed: what the coder reads; expect: one-shot output (decoders)
	uint64_t expect_total_in = 0;
	bool sup[5] = {false, false, false, false, false};
	uint32_t flags = 0, threads = 1, timeout = 0;
	lzma_index *idx_in = nullptr, *idx_out = nullptr;
	uint64_t idx_blocks = 0, idx_usize = 0, idx_tsize = 0; std::vector<uint8_t> idx_bytes;
	lzma_block blk; lzma_filter blk_filters[LZMA_FILTERS_MAX + 1]; bool blk_ok = false;
	bool sync_flushable = true;
	uint64_t micro_uncomp = 0;
	std::vector<uint64_t> aim; unsigned aim_delta = 0;   // file info decoder: positions the decoder jumps forward to, see aim_file_info()
	std::string desc; uint64_t hash = 0;
	Work() { memset(&blk, 0, sizeof blk); for (auto &f : blk_filters) { f.id = LZMA_VLI_UNKNOWN; f.options = NULL; } }
	~Work() { lzma_index_end(idx_in, NULL); lzma_index_end(idx_out, AL()); if (blk_ok) lzma_filters_free(blk_filters, AL()); }
	Work(const Work &) = delete;
};

static void set_supported(Work &w) {
	auto S = [&](std::initializer_list<int> l) { for (int a : l) w.sup[a] = true; };
	switch (w.kind) {
	case K_EASY_ENC: case K_STREAM_ENC: S({0, 1, 2, 3, 4}); break;
	case K_MT_ENC: S({0, 2, 3, 4}); break;
	case K_RAW_ENC: case K_BLOCK_ENC: S({0, 1, 3}); break;
	case K_MICRO_ENC: S({3}); break;
	default: S({0, 3}); break;             // alone/index encoders, every decoder
	}
}

static lzma_ret init_handle(Work &w, lzma_stream *s) {
	switch (w.kind) {
	case K_EASY_ENC: case K_STREAM_ENC: case K_MT_ENC: case K_ALONE_ENC: case K_RAW_ENC: case K_BLOCK_ENC: case K_MICRO_ENC:
		return ec::init_encoder(s, w.g);
	case K_INDEX_ENC: return lzma_index_encoder(s, w.idx_in);
	case K_STREAM_DEC: return lzma_stream_decoder(s, UINT64_MAX, w.flags);
	case K_MT_DEC: { lzma_mt mt; memset(&mt, 0, sizeof mt); mt.flags = w.flags; mt.threads = w.threads; mt.timeout = w.timeout;
		mt.memlimit_threading = UINT64_MAX; mt.memlimit_stop = UINT64_MAX; return lzma_stream_decoder_mt(s, &mt); }
	case K_AUTO_DEC: return lzma_auto_decoder(s, UINT64_MAX, w.flags);
	case K_ALONE_DEC: return lzma_alone_decoder(s, UINT64_MAX);
	case K_LZIP_DEC: return lzma_lzip_decoder(s, UINT64_MAX, w.flags);
	case K_RAW_DEC: w.g.link(); return lzma_raw_decoder(s, w.g.filters);
	case K_BLOCK_DEC: return lzma_block_decoder(s, &w.blk);
	case K_INDEX_DEC: lzma_index_end(w.idx_out, AL()); w.idx_out = nullptr; return lzma_index_decoder(s, &w.idx_out, UINT64_MAX);
	case K_FILEINFO_DEC: lzma_index_end(w.idx_out, AL()); w.idx_out = nullptr; return lzma_file_info_decoder(s, &w.idx_out, UINT64_MAX, w.feed.size());
	case K_MICRO_DEC: return lzma_microlzma_decoder(s, w.feed.size(), w.micro_uncomp, true, w.g.lz.dict_size);
	default: return LZMA_PROG_ERROR;
	}
}

static Recipe small_recipe(Case &c, uint32_t period_hint) {
	uint32_t maxlen = c.chance(26) ? (1u << 16) : (1u << 12);
	return draw_recipe(c, maxlen, period_hint);
}

// encode `plain` with a configuration for the given entries; appends to out; returns false on environment trouble
// File info decoder, an eighth of its cases (last case byte): the file is made longer than the decoder's 8 KiB window by a
// leading Stream of incompressible data, the positions the decoder jumps *forward* to are learnt from a dry run in 64-byte reads,
// and the history's reads are sized so that they end 0..14 bytes before such a position: the decoder has to choose between moving
// inside the caller's slice and LZMA_SEEK_NEEDED exactly at the edge of the slice.
static uint8_t g_last_byte = 0;
static void aim_file_info(Work &w) {
	Rng r(hcomb(w.hash, 0xF11E));
	std::vector<uint8_t> big(8300 + r.below(12000)); for (auto &b : big) b = r.byte();
	std::vector<uint8_t> enc(lzma_stream_buffer_bound(big.size())); size_t op = 0;
	if (lzma_easy_buffer_encode(0, r.below(2) ? LZMA_CHECK_CRC32 : LZMA_CHECK_NONE, NULL, big.data(), big.size(), enc.data(), &op, enc.size()) != LZMA_OK) return;
	w.feed.insert(w.feed.begin(), enc.begin(), enc.begin() + op);
	lzma_stream s = LZMA_STREAM_INIT; lzma_index *idx = NULL;
	if (lzma_file_info_decoder(&s, &idx, UINT64_MAX, w.feed.size()) != LZMA_OK) return;
	size_t pos = 0;
	for (unsigned i = 0; i < 20000; ++i) {
		size_t n = std::min<size_t>(64, w.feed.size() - pos); s.next_in = w.feed.data() + pos; s.avail_in = n;
		lzma_ret q = lzma_code(&s, LZMA_RUN); size_t used = n - s.avail_in;
		if (q == LZMA_SEEK_NEEDED) { if (s.seek_pos > pos + used && s.seek_pos <= w.feed.size()) w.aim.push_back(s.seek_pos); if (s.seek_pos > w.feed.size()) break; pos = (size_t)s.seek_pos; continue; }
		pos += used; if (q != LZMA_OK) break;
	}
	lzma_end(&s); lzma_index_end(idx, NULL);
	w.aim_delta = (g_last_byte >> 3) % 15;
	w.desc += ",\"leading_stream_bytes\":" + std::to_string(op) + ",\"reads_end_before_forward_jump_by\":" + std::to_string(w.aim_delta);
	w.hash = hcomb(w.hash, hcomb(op, w.aim_delta));
	if (!w.aim.empty()) count("fileinfo_reads_aimed_at_forward_jump");
}

static bool gen_encoded(Case &c, Work &w, uint32_t entries_mask, std::vector<uint8_t> &out, bool append_plain) {
	ec::DrawFlags f; f.allow_big = false; f.allow_norm_hook = false; f.entries_mask = entries_mask;
	ec::draw_config(c, w.g, f);
	Recipe r = small_recipe(c, w.g.lz.dict_size);
	std::vector<uint8_t> in = expand(r);
	if (w.g.entry == ec::E_MICROLZMA && in.empty()) in.push_back((uint8_t)r.seed);
	w.g.prepare_for_len(in.size());
	ec::Encoded E = ec::encode_all(w.g, in, drv::Schedule(), AL());
	if (E.ret == LZMA_MEM_ERROR) return false;
	if (E.ret != LZMA_STREAM_END || E.capped) { set_desc("{\"workload_cfg\":" + w.g.describe() + ",\"input\":" + r.describe() + "}"); violation("C01:encode-failed", "workload encoder returned %s", drv::retname(E.ret)); }
	if (w.g.entry == ec::E_MICROLZMA) { in.resize((size_t)E.total_in); w.micro_uncomp = E.total_in; }
	out.insert(out.end(), E.bytes.begin(), E.bytes.end());
	if (append_plain) w.plain.insert(w.plain.end(), in.begin(), in.end());
	w.desc += ",\"cfg\":" + w.g.describe() + ",\"input\":" + r.describe();
	w.hash = hcomb(w.hash, hcomb(w.g.hash(), r.hash()));
	return true;
}

static void make_index(Case &c, Work &w) {
	w.idx_in = lzma_index_init(NULL); if (!w.idx_in) harness_bug("index_init");
	unsigned n = c.small(120);
	for (unsigned i = 0; i < n; ++i) { lzma_vli u = 5 + c.u16() * (c.chance(20) ? 65537ull : 1); lzma_vli v = c.u32() >> (c.byte() % 32); if (lzma_index_append(w.idx_in, NULL, u, v) != LZMA_OK) break; }
	w.idx_blocks = lzma_index_block_count(w.idx_in); w.idx_usize = lzma_index_uncompressed_size(w.idx_in); w.idx_tsize = lzma_index_total_size(w.idx_in);
	size_t sz = (size_t)lzma_index_size(w.idx_in); w.idx_bytes.assign(sz, 0); size_t pos = 0;
	if (lzma_index_buffer_encode(w.idx_in, w.idx_bytes.data(), &pos, sz) != LZMA_OK || pos != sz) harness_bug("index buffer encode");
	w.desc += ",\"index_records\":" + std::to_string(w.idx_blocks); w.hash = hcomb(w.hash, hash_bytes(w.idx_bytes.data(), sz));
}

static const uint32_t XZ_ENTRIES = (1u << ec::E_EASY) | (1u << ec::E_STREAM) | (1u << ec::E_STREAM_MT);

// returns false: environment (allocation cap); the case is dropped
static bool make_work(Case &c, Work &w) {
	w.kind = c.u(K_N); w.enc = is_enc(w.kind); set_supported(w);
	w.desc = std::string("\"kind\":\"") + kind_names[w.kind] + "\""; w.hash = w.kind;
	uint8_t fb = c.byte();
	auto dec_flags = [&](bool all) { uint32_t f = 0; if (fb & 1) f |= LZMA_CONCATENATED; if (fb & 2) f |= LZMA_TELL_NO_CHECK; if (fb & 4) f |= LZMA_TELL_UNSUPPORTED_CHECK;
		if (fb & 8) f |= LZMA_TELL_ANY_CHECK; if ((fb & 0x30) == 0x30) f |= LZMA_IGNORE_CHECK; if (all && (fb & 0xC0) == 0xC0) f |= LZMA_FAIL_FAST; return f; };
	switch (w.kind) {
	case K_EASY_ENC: case K_STREAM_ENC: case K_MT_ENC: case K_ALONE_ENC: case K_RAW_ENC: case K_BLOCK_ENC: case K_MICRO_ENC: {
		static const ec::Entry map[] = {ec::E_EASY, ec::E_STREAM, ec::E_STREAM_MT, ec::E_ALONE, ec::E_RAW, ec::E_BLOCK, ec::E_N, ec::E_MICROLZMA};
		ec::DrawFlags f; f.allow_big = false; f.allow_norm_hook = false; f.entries_mask = 1u << map[w.kind];
		ec::draw_config(c, w.g, f);
		Recipe r = small_recipe(c, w.g.lz.dict_size); w.plain = expand(r);
		if (w.kind == K_MICRO_ENC && w.plain.empty()) w.plain.push_back(7);
		w.feed = w.plain;
		w.g.prepare_for_len(w.plain.size());
		for (unsigned i = 0; i < w.g.nfilters; ++i) if (w.g.filters[i].id != LZMA_FILTER_LZMA2 && w.g.filters[i].id != LZMA_FILTER_DELTA) w.sync_flushable = false;
		w.timed = w.kind == K_MT_ENC && w.g.timeout != 0;
		w.desc += ",\"cfg\":" + w.g.describe() + ",\"input\":" + r.describe(); w.hash = hcomb(w.hash, hcomb(w.g.hash(), r.hash()));
		break; }
	case K_INDEX_ENC: make_index(c, w); break;
	case K_INDEX_DEC: make_index(c, w); w.feed = w.idx_bytes; break;
	case K_STREAM_DEC: case K_MT_DEC: case K_FILEINFO_DEC: {
		if (w.kind != K_FILEINFO_DEC) w.flags = dec_flags(true);
		unsigned nstreams = ((w.flags & LZMA_CONCATENATED) || w.kind == K_FILEINFO_DEC) && c.chance(90) ? 2 : 1;
		for (unsigned i = 0; i < nstreams; ++i) {
			Work tmp; // each stream gets its own configuration; the last one stays in w.g for the description only
			if (!gen_encoded(c, i + 1 == nstreams ? w : tmp, XZ_ENTRIES, w.feed, false)) return false;
			if (i + 1 < nstreams) { w.desc += ",\"first_stream\":{\"n\":0" + tmp.desc + "}"; w.hash = hcomb(w.hash, tmp.hash); }
			unsigned pad = c.chance(80) ? 4 * (1 + c.u(3)) : 0;
			if (nstreams > 1 || w.kind == K_FILEINFO_DEC || (w.flags & LZMA_CONCATENATED)) w.feed.insert(w.feed.end(), pad, 0);
		}
		if (w.kind == K_FILEINFO_DEC && (g_last_byte & 7) == 3) aim_file_info(w);
		if (w.kind == K_MT_DEC) { w.threads = 1 + c.u(3); w.timeout = c.pick<uint32_t>({0, 0, 0, 1}); w.timed = w.timeout != 0; w.desc += ",\"threads\":" + std::to_string(w.threads) + ",\"timeout\":" + std::to_string(w.timeout); }
		break; }
	case K_AUTO_DEC: {
		w.flags = dec_flags(true); unsigned sub = c.u(3);
		if (sub == 2) { std::vector<const cm::TestFile *> lz; for (auto &t : cm::test_files()) if (cm::name_ends(t.name, ".lz") && t.name.compare(0, 5, "good-") == 0) lz.push_back(&t);
			if (lz.empty()) harness_bug("no good-*.lz in tests/files"); const cm::TestFile *t = lz[c.u((uint32_t)lz.size())]; w.feed = t->data; w.desc += ",\"file\":" + jstr(t->name); w.hash = hcomb(w.hash, hash_bytes(t->name.data(), t->name.size())); }
		else if (!gen_encoded(c, w, sub == 0 ? XZ_ENTRIES : (1u << ec::E_ALONE), w.feed, false)) return false;
		break; }
	case K_LZIP_DEC: {
		w.flags = dec_flags(false);
		std::vector<const cm::TestFile *> lz; for (auto &t : cm::test_files()) if (cm::name_ends(t.name, ".lz") && t.name.compare(0, 5, "good-") == 0) lz.push_back(&t);
		if (lz.empty()) harness_bug("no good-*.lz in tests/files");
		const cm::TestFile *t = lz[c.u((uint32_t)lz.size())]; w.feed = t->data; w.desc += ",\"file\":" + jstr(t->name); w.hash = hcomb(w.hash, hash_bytes(t->name.data(), t->name.size()));
		break; }
	case K_ALONE_DEC: if (!gen_encoded(c, w, 1u << ec::E_ALONE, w.feed, false)) return false; break;
	case K_RAW_DEC: if (!gen_encoded(c, w, 1u << ec::E_RAW, w.feed, false)) return false; break;
	case K_MICRO_DEC: if (!gen_encoded(c, w, 1u << ec::E_MICROLZMA, w.feed, false)) return false; break;
	case K_BLOCK_DEC: {
		std::vector<uint8_t> all; if (!gen_encoded(c, w, 1u << ec::E_BLOCK, all, false)) return false;
		w.blk.version = 1; w.blk.check = w.g.check; w.blk.filters = w.blk_filters;
		w.blk.header_size = lzma_block_header_size_decode(all[0]);
		if (w.blk.header_size > all.size() || lzma_block_header_decode(&w.blk, AL(), all.data()) != LZMA_OK) harness_bug("block header of the workload does not decode");
		w.blk_ok = true; w.feed.assign(all.begin() + w.blk.header_size, all.end());
		break; }
	default: break;
	}
	w.desc += ",\"flags\":" + std::to_string(w.flags);
	// mutated workload for decoders (about 1 in 7): only the model's safety/state rules apply then
	if (!w.enc && w.kind != K_INDEX_ENC && c.chance(36)) { std::string m = cm::mutate(c, w.feed); if (m != "none") { w.valid = false; w.desc += ",\"mutation\":\"" + m + "\""; w.hash = hcomb(w.hash, hash_bytes(m.data(), m.size())); } }
	// one-shot reference for decoders on valid workloads
	if (!w.enc && w.valid) {
		lzma_stream s = LZMA_STREAM_INIT; s.allocator = AL();
		lzma_ret ir = init_handle(w, &s); if (ir != LZMA_OK) { set_desc("{" + w.desc + "}"); harness_bug("decoder init failed: %s", drv::retname(ir)); }
		drv::Opts o; if (w.kind == K_MT_DEC) { o.idle_limit = 1u << 30; }
		drv::Result R = drv::run(&s, w.feed.data(), w.feed.size(), drv::Schedule(), o); lzma_end(&s);
		if (R.ret == LZMA_MEM_ERROR) return false;
		if (R.ret != LZMA_STREAM_END || R.capped) { set_desc("{" + w.desc + "}"); violation("C01:decode-status", "one-shot reference decode of the valid workload returned %s", drv::retname(R.ret)); }
		w.expect.swap(R.out); w.expect_total_in = R.total_in;
		if (w.kind == K_FILEINFO_DEC) { if (!w.idx_out) harness_bug("file info decoder set no index"); w.idx_blocks = lzma_index_block_count(w.idx_out); w.idx_usize = lzma_index_uncompressed_size(w.idx_out); w.idx_tsize = lzma_index_file_size(w.idx_out); }
		if (w.kind == K_INDEX_DEC || w.kind == K_FILEINFO_DEC) { lzma_index_end(w.idx_out, AL()); w.idx_out = nullptr; }
	}
	return true;
}

// ------------------------------------------------------------------------------------------ model
enum MState { M_NOT_INIT, M_RUN, M_INACT, M_END, M_ERROR };
static const char *const ms_names[] = {"NOT_INIT", "RUN", "IN_ACTION", "END", "ERROR"};
struct Model {
	int st = M_NOT_INIT; int act = 0; size_t avail = 0;
	bool maybe_error = false;     // a refused call happened: coder is unchanged or in the error state
	unsigned idle_run = 0;        // length of the current run of acting calls without progress that returned OK/BUF_ERROR
	bool early_finish = false;    // decoder: FINISH started before the whole stream was supplied
	bool after_buf_error = false;
};

struct CallSpec { int action = 0; size_t avail_in = 0, avail_out = 0; bool null_in = false, null_out = false, null_zero_in = false, null_zero_out = false; int reserved = -1; const char *what = "code"; };
struct Obs { lzma_ret ret = LZMA_OK; size_t d_in = 0, d_out = 0; bool unchanged = true; uint64_t seek_pos = 0; };

struct Harness {
	Work &w; lzma_stream s; Model m; bool exact = false;
	size_t pos = 0;               // file offset of next_in
	std::vector<uint8_t> out;     // concatenated output since (re)init
	unsigned legal_calls = 0, illegal = 0, buf_errors = 0, calls = 0, ends_verified = 0;
	uint64_t hhash = 0; std::string base_desc, log;
	explicit Harness(Work &w_) : w(w_) { lzma_stream z = LZMA_STREAM_INIT; s = z; s.allocator = AL(); }
};

static inline uint8_t pat(size_t i) { return (uint8_t)(0xA7 ^ (i * 29)); }
enum { GUARD = 32 };

// One lzma_code() call with instrumented buffers + the accounting and memory rules.
static Obs do_call(Harness &h, const CallSpec &cs) {
	Work &w = h.w; lzma_stream &s = h.s; Obs o;
	const size_t G = h.exact ? 0 : GUARD;
	const size_t in_tot = G + cs.avail_in + G, out_tot = G + cs.avail_out + G;
	uint8_t *ibase = (uint8_t *)malloc(in_tot ? in_tot : 1), *obase = (uint8_t *)malloc(out_tot ? out_tot : 1);
	if (!ibase || !obase) harness_bug("out of memory");
	for (size_t i = 0; i < G; ++i) { ibase[i] = pat(i); ibase[G + cs.avail_in + i] = pat(i + 7); obase[i] = pat(i + 3); obase[G + cs.avail_out + i] = pat(i + 11); }
	size_t real = h.pos < w.feed.size() ? std::min(cs.avail_in, w.feed.size() - h.pos) : 0;
	if (real) memcpy(ibase + G, w.feed.data() + h.pos, real);
	for (size_t i = real; i < cs.avail_in; ++i) ibase[G + i] = 0x5A;
	for (size_t i = 0; i < cs.avail_out; ++i) obase[G + i] = pat(i + 17);
	uint8_t *icopy = (uint8_t *)malloc(in_tot ? in_tot : 1); if (!icopy) harness_bug("out of memory"); if (in_tot) memcpy(icopy, ibase, in_tot);
	uint8_t *ip = ibase + G, *op = obase + G;
	s.next_in = cs.null_in ? NULL : ((cs.avail_in == 0 && cs.null_zero_in) ? NULL : ip); s.avail_in = cs.avail_in;
	s.next_out = cs.null_out ? NULL : ((cs.avail_out == 0 && cs.null_zero_out) ? NULL : op); s.avail_out = cs.avail_out;
	static int dummy_target;
	switch (cs.reserved) { case 0: s.reserved_ptr1 = &dummy_target; break; case 1: s.reserved_ptr2 = &dummy_target; break; case 2: s.reserved_ptr3 = &dummy_target; break; case 3: s.reserved_ptr4 = &dummy_target; break;
		case 4: s.reserved_int2 = 1; break; case 5: s.reserved_int3 = 1; break; case 6: s.reserved_int4 = 1u << 20; break;
		case 7: { int one = 1; memcpy(&s.reserved_enum1, &one, sizeof one); break; } case 8: { int one = 1; memcpy(&s.reserved_enum2, &one, sizeof one); break; } default: break; }
	alignas(lzma_stream) unsigned char before[sizeof(lzma_stream)], after[sizeof(lzma_stream)];
	const uint8_t *nin0 = s.next_in; uint8_t *nout0 = s.next_out; const uint64_t tin0 = s.total_in, tout0 = s.total_out;
	{ lzma_stream t; memcpy(&t, &s, sizeof t); t.seek_pos = 0; memcpy(before, &t, sizeof t); }
	volatile int av = cs.action;
	{ Guarded wd(w.kind == K_MT_ENC || w.kind == K_MT_DEC); o.ret = lzma_code(&s, (lzma_action)av); }
	++h.calls;
	{ lzma_stream t; memcpy(&t, &s, sizeof t); o.seek_pos = t.seek_pos; t.seek_pos = 0; memcpy(after, &t, sizeof t); }
	o.unchanged = memcmp(before, after, sizeof before) == 0;
	if (cs.reserved >= 0) { s.reserved_ptr1 = s.reserved_ptr2 = s.reserved_ptr3 = s.reserved_ptr4 = NULL; s.reserved_int2 = 0; s.reserved_int3 = 0; s.reserved_int4 = 0;
		int zero = 0; memcpy(&s.reserved_enum1, &zero, sizeof zero); memcpy(&s.reserved_enum2, &zero, sizeof zero); }
	// ---- accounting: pointers, counters and totals move together and stay inside the buffers
	if (s.avail_in > cs.avail_in || s.avail_out > cs.avail_out)
		violation("C11:accounting", "%s: avail grew: avail_in %zu->%zu avail_out %zu->%zu (ret %s)", cs.what, cs.avail_in, s.avail_in, cs.avail_out, s.avail_out, drv::retname(o.ret));
	o.d_in = cs.avail_in - s.avail_in; o.d_out = cs.avail_out - s.avail_out;
	bool in_ok = nin0 ? s.next_in == nin0 + o.d_in : (s.next_in == NULL && o.d_in == 0);
	bool out_ok = nout0 ? s.next_out == nout0 + o.d_out : (s.next_out == NULL && o.d_out == 0);
	if (!in_ok || !out_ok || s.total_in - tin0 != o.d_in || s.total_out - tout0 != o.d_out)
		violation("C11:accounting", "%s (action %d, ret %s): avail_in -%zu next_in %+td total_in +%llu; avail_out -%zu next_out %+td total_out +%llu",
			cs.what, cs.action, drv::retname(o.ret), o.d_in, nin0 ? s.next_in - nin0 : (ptrdiff_t)0, (unsigned long long)(s.total_in - tin0),
			o.d_out, nout0 ? s.next_out - nout0 : (ptrdiff_t)0, (unsigned long long)(s.total_out - tout0));
	// ---- memory: input (and its guards) unmodified, output guards intact
	if (in_tot && memcmp(icopy, ibase, in_tot) != 0) violation("C11:input-modified", "%s: the input buffer or its guard bytes were written (ret %s)", cs.what, drv::retname(o.ret));
	for (size_t i = 0; i < G; ++i) if (obase[i] != pat(i + 3) || obase[G + cs.avail_out + i] != pat(i + 11))
		violation("C11:output-guard", "%s: byte %s the output window was written (avail_out %zu, produced %zu, ret %s)", cs.what, obase[i] != pat(i + 3) ? "before" : "beyond", cs.avail_out, o.d_out, drv::retname(o.ret));
	if (o.d_out && !cs.null_out) h.out.insert(h.out.end(), op, op + o.d_out);
	h.pos += o.d_in;
	free(ibase); free(obase); free(icopy);
	return o;
}

static bool is_fatal(lzma_ret r) { return r == LZMA_MEM_ERROR || r == LZMA_FORMAT_ERROR || r == LZMA_OPTIONS_ERROR || r == LZMA_DATA_ERROR || r == LZMA_PROG_ERROR; }

static void verify_end(Harness &h);

// Judge one call against the model and move the model.
static void judge(Harness &h, const CallSpec &cs, const Obs &o) {
	Work &w = h.w; Model &m = h.m;
	const bool bad_action = cs.action < 0 || cs.action > 4;
	const bool invalid = cs.null_in || cs.null_out || bad_action || !w.sup[cs.action];
	const bool reserved = cs.reserved >= 0;
	const bool progress = o.d_in || o.d_out;
	const int st0 = m.st;
	auto must_unchanged = [&](const char *why) { if (!o.unchanged) violation("C11:refused-call-changed-stream", "%s: %s returned %s but fields of the lzma_stream changed (in -%zu, out -%zu)", why, cs.what, drv::retname(o.ret), o.d_in, o.d_out); };
	auto refused_after = [&]() { if (m.st == M_RUN || m.st == M_INACT || m.st == M_END) m.maybe_error = true; };

	if (m.st == M_NOT_INIT || m.st == M_ERROR) {
		count(m.st == M_NOT_INIT ? "rule_not_initialised" : "rule_after_fatal_error");
		if (o.ret != LZMA_PROG_ERROR && !(reserved && o.ret == LZMA_OPTIONS_ERROR))
			violation(m.st == M_NOT_INIT ? "C11:not-init-not-refused" : "C11:after-error-not-refused", "state %s: %s (action %d) returned %s, expected PROG_ERROR", ms_names[m.st], cs.what, cs.action, drv::retname(o.ret));
		must_unchanged(ms_names[m.st]); ++h.illegal; return;
	}
	if (invalid || reserved) {
		bool ok = (invalid && o.ret == LZMA_PROG_ERROR) || (reserved && (o.ret == LZMA_OPTIONS_ERROR || o.ret == LZMA_PROG_ERROR)) || (m.st == M_END && o.ret == LZMA_STREAM_END);
		count(cs.null_in ? "rule_null_next_in" : cs.null_out ? "rule_null_next_out" : bad_action ? "rule_action_out_of_range" : invalid ? "rule_unsupported_action" : "rule_reserved_member");
		if (!ok) violation(reserved && !invalid ? "C11:reserved-not-refused" : "C11:invalid-args-not-refused", "state %s: %s (action %d%s%s%s) returned %s", ms_names[m.st], cs.what, cs.action,
			cs.null_in ? ", next_in=NULL" : "", cs.null_out ? ", next_out=NULL" : "", reserved ? ", reserved member set" : "", drv::retname(o.ret));
		must_unchanged("invalid arguments"); ++h.illegal; refused_after(); return;
	}
	if (m.st == M_END) {
		count("rule_after_end");
		if (o.ret == LZMA_PROG_ERROR && m.maybe_error && o.unchanged) { m.st = M_ERROR; m.maybe_error = false; return; }
		if (o.ret != LZMA_STREAM_END) violation("C11:after-end", "after end of stream %s (action %d) returned %s", cs.what, cs.action, drv::retname(o.ret));
		must_unchanged("after end of stream"); m.maybe_error = false; return;
	}
	if (m.st == M_INACT && (cs.action != m.act || cs.avail_in != m.avail)) {
		count(cs.action != m.act ? "rule_action_changed_in_action" : "rule_avail_in_changed_in_action");
		if (o.ret != LZMA_PROG_ERROR) violation(cs.action != m.act ? "C11:action-change-not-refused" : "C11:avail-in-change-not-refused", "action %d in progress with avail_in %zu: call with action %d avail_in %zu returned %s",
			m.act, m.avail, cs.action, cs.avail_in, drv::retname(o.ret));
		must_unchanged("changed action/avail_in"); ++h.illegal; refused_after(); return;
	}
	// ---- the call is legal: the coder acts
	if (m.maybe_error && o.ret == LZMA_PROG_ERROR && o.unchanged && !(w.kind == K_MICRO_ENC && cs.avail_out < 6)) { m.st = M_ERROR; m.maybe_error = false; count("refused_call_was_fatal"); return; }
	if (m.maybe_error) count("coding_continued_after_refused_call");
	m.maybe_error = false;
	++h.legal_calls;
	const bool starts_action = m.st == M_RUN && cs.action != LZMA_RUN;
	if (starts_action && !w.enc && h.pos - o.d_in + cs.avail_in < w.feed.size()) m.early_finish = true;
	const bool open_errors = !w.valid || (!w.enc && m.early_finish);   // decoder error codes are possible
	auto enter = [&]() { if (cs.action == LZMA_RUN) m.st = M_RUN; else { m.st = M_INACT; m.act = cs.action; m.avail = cs.avail_in - o.d_in; } };
	if (w.kind == K_MICRO_ENC) {
		// container.h: single FINISH call; never LZMA_OK; PROG_ERROR if fewer than 6 bytes of output space
		if (cs.avail_in == 0) { count("micro_enc_no_input_open"); if (o.ret == LZMA_OK) violation("C11:micro-returned-ok", "MicroLZMA encoder returned LZMA_OK"); m.st = o.ret == LZMA_STREAM_END ? M_END : M_ERROR; m.early_finish = true; return; }
		if (cs.avail_out < 6) { if (o.ret != LZMA_PROG_ERROR) violation("C11:micro-small-output", "MicroLZMA encoder with avail_out %zu returned %s", cs.avail_out, drv::retname(o.ret)); m.st = M_ERROR; count("fatal_micro_small_output"); return; }
		if (o.ret != LZMA_STREAM_END) violation("C11:unexpected-code", "MicroLZMA encoder (avail_in %zu, avail_out %zu) returned %s", cs.avail_in, cs.avail_out, drv::retname(o.ret));
		m.st = M_END; m.idle_run = 0; verify_end(h); return;
	}
	switch (o.ret) {
	case LZMA_OK:
		if (!progress) {
			if (m.idle_run >= 1 && !w.timed) violation("C11:two-idle-ok", "two consecutive calls without progress both returned LZMA_OK (action %d, avail_in %zu, avail_out %zu)", cs.action, cs.avail_in, cs.avail_out);
			++m.idle_run;
		} else { if (m.after_buf_error) count("progress_after_buf_error"); m.idle_run = 0; m.after_buf_error = false; }
		enter(); break;
	case LZMA_BUF_ERROR:
		count("rule_buf_error"); ++h.buf_errors;
		if (progress) violation("C11:buf-error-with-progress", "LZMA_BUF_ERROR although the call consumed %zu and produced %zu bytes", o.d_in, o.d_out);
		if (m.idle_run < 1) violation("C11:premature-buf-error", "LZMA_BUF_ERROR on the first call without progress (action %d, avail_in %zu, avail_out %zu; previous call %s)", cs.action, cs.avail_in, cs.avail_out, st0 == M_RUN ? "made progress or was not a coding call" : "in action");
		++m.idle_run; m.after_buf_error = true;
		enter(); break;               // not fatal: the state is what LZMA_OK would have left
	case LZMA_STREAM_END:
		m.idle_run = 0; m.after_buf_error = false;
		if (w.enc && cs.action == LZMA_RUN && w.kind != K_INDEX_ENC) violation("C11:stream-end-on-run", "encoder returned LZMA_STREAM_END for LZMA_RUN");
		if (w.enc && cs.avail_in - o.d_in != 0) violation("C11:stream-end-with-pending-input", "encoder returned LZMA_STREAM_END for action %d with %zu input bytes unconsumed", cs.action, cs.avail_in - o.d_in);
		if (cs.action == LZMA_SYNC_FLUSH || cs.action == LZMA_FULL_FLUSH || cs.action == LZMA_FULL_BARRIER) { m.st = M_RUN; count("flush_completed"); }
		else { m.st = M_END; verify_end(h); }
		break;
	case LZMA_NO_CHECK: case LZMA_UNSUPPORTED_CHECK: case LZMA_GET_CHECK: {
		uint32_t need = o.ret == LZMA_NO_CHECK ? LZMA_TELL_NO_CHECK : o.ret == LZMA_GET_CHECK ? LZMA_TELL_ANY_CHECK : LZMA_TELL_UNSUPPORTED_CHECK;
		if (w.enc || !(w.flags & need)) violation("C11:unexpected-code", "%s returned although the matching LZMA_TELL_* flag was not used", drv::retname(o.ret));
		m.idle_run = 0; m.after_buf_error = false; enter(); count("informational_code"); break; }
	case LZMA_SEEK_NEEDED:
		if (w.kind != K_FILEINFO_DEC) violation("C11:unexpected-code", "LZMA_SEEK_NEEDED from a coder that does not seek");
		if (o.seek_pos > w.feed.size()) violation("C11:seek-pos", "seek_pos %llu exceeds the file size %zu", (unsigned long long)o.seek_pos, w.feed.size());
		h.pos = (size_t)o.seek_pos; m.st = M_RUN; m.idle_run = 0; m.after_buf_error = false; count("seek_needed"); break;
	default: {
		bool ok = false;
		if (o.ret == LZMA_OPTIONS_ERROR && w.enc && cs.action == LZMA_SYNC_FLUSH && !w.sync_flushable) { ok = true; count("fatal_sync_flush_unsupported_chain"); }
		if (open_errors && (o.ret == LZMA_DATA_ERROR || o.ret == LZMA_FORMAT_ERROR || o.ret == LZMA_OPTIONS_ERROR || o.ret == LZMA_MEM_ERROR)) { ok = true; count(w.valid ? "fatal_decoder_early_finish" : "fatal_decoder_mutated_input"); }
		if (o.ret == LZMA_MEM_ERROR && !ok) { ok = true; count("environment_alloc_cap"); }
		if (!ok) violation("C11:unexpected-code", "legal call (%s, action %d, avail_in %zu, avail_out %zu, state %s) on a valid workload returned %s", cs.what, cs.action, cs.avail_in, cs.avail_out, ms_names[st0], drv::retname(o.ret));
		if (!is_fatal(o.ret)) harness_bug("unclassified return code %d", (int)o.ret);
		m.st = M_ERROR; m.idle_run = 0; break; }
	}
}

// ------------------------------------------------------------------------------------------ end-to-end
// The history reached END on a valid workload: "coding continued normally" through every refused call and
// BUF_ERROR iff the concatenated output is the right one.
static void verify_end(Harness &h) {
	Work &w = h.w;
	count("reached_end");
	if (!w.valid || h.m.early_finish) { count("end_not_compared_open_outcome"); return; }
	const size_t consumed = h.pos;
	if (w.enc) {
		if (w.kind == K_INDEX_ENC) {
			if (h.out != w.idx_bytes) violation("C11:end-to-end", "index encoder: %zu output bytes differ from lzma_index_buffer_encode (%zu bytes)", h.out.size(), w.idx_bytes.size());
		} else {
			std::vector<uint8_t> bytes;
			if (w.kind == K_BLOCK_ENC) bytes = w.g.block_header;
			bytes.insert(bytes.end(), h.out.begin(), h.out.end());
			w.g.prepare_for_len(consumed);
			drv::Result D = ec::decode_matching(w.g, bytes, drv::Schedule(), consumed, AL());
			if (D.ret == LZMA_MEM_ERROR) { count("environment_alloc_cap"); return; }
			if (D.ret != LZMA_STREAM_END) violation("C11:end-to-end", "output of the history does not decode: %s at %llu/%zu after %zu bytes (input %zu)", drv::retname(D.ret), (unsigned long long)D.total_in, bytes.size(), D.out.size(), consumed);
			if (D.out.size() != consumed || (consumed && memcmp(D.out.data(), w.feed.data(), consumed) != 0)) violation("C11:end-to-end", "output of the history decodes to %zu bytes that are not the %zu input bytes consumed", D.out.size(), consumed);
			if (D.total_in != bytes.size()) violation("C11:end-to-end", "decoder consumed %llu of %zu output bytes", (unsigned long long)D.total_in, bytes.size());
		}
	} else {
		if (w.kind == K_INDEX_DEC || w.kind == K_FILEINFO_DEC) {
			if (!w.idx_out) violation("C11:end-to-end", "decoder returned LZMA_STREAM_END but did not set the index pointer");
			uint64_t t = w.kind == K_INDEX_DEC ? lzma_index_total_size(w.idx_out) : lzma_index_file_size(w.idx_out);
			if (lzma_index_block_count(w.idx_out) != w.idx_blocks || lzma_index_uncompressed_size(w.idx_out) != w.idx_usize || t != w.idx_tsize)
				violation("C11:end-to-end", "decoded index differs from the one-shot result (blocks %llu vs %llu)", (unsigned long long)lzma_index_block_count(w.idx_out), (unsigned long long)w.idx_blocks);
		}
		if (h.out != w.expect) violation("C11:end-to-end", "concatenated output (%zu bytes) differs from the one-shot result (%zu bytes)", h.out.size(), w.expect.size());
		if (w.kind != K_FILEINFO_DEC && consumed != w.expect_total_in) violation("C11:end-to-end", "history consumed %zu input bytes, one-shot run %llu", consumed, (unsigned long long)w.expect_total_in);
	}
	++h.ends_verified; count("end_verified");
}

// ------------------------------------------------------------------------------------------ history
static bool do_init(Harness &h, const char *how) {
	Work &w = h.w;
	lzma_ret r; { Guarded wd(w.kind == K_MT_ENC || w.kind == K_MT_DEC); r = init_handle(w, &h.s); }
	h.log += std::string(",\"") + how + "\""; g_stats.current = h.base_desc + h.log;
	if (g_verbose) fprintf(stderr, "    %s -> %s\n", how, drv::retname(r));
	h.hhash = hcomb(h.hhash, 0x1111);
	if (r == LZMA_MEM_ERROR) { count("environment_alloc_cap"); return false; }
	if (r != LZMA_OK) harness_bug("initialiser of %s returned %s", kind_names[w.kind], drv::retname(r));
	if (h.s.total_in != 0 || h.s.total_out != 0) violation("C11:init-totals", "initialiser left total_in=%llu total_out=%llu", (unsigned long long)h.s.total_in, (unsigned long long)h.s.total_out);
	if (h.m.st != M_NOT_INIT) count(std::string("reinit_from_") + ms_names[h.m.st]);
	h.m = Model(); h.m.st = M_RUN; h.pos = 0; h.out.clear();
	return true;
}

static void one_call(Harness &h, const CallSpec &cs) {
	char b[160]; snprintf(b, sizeof b, ",[\"%s\",%d,%zu,%zu%s%s%s]", cs.what, cs.action, cs.avail_in, cs.avail_out, cs.null_in ? ",\"in=NULL\"" : "", cs.null_out ? ",\"out=NULL\"" : "", cs.reserved >= 0 ? ",\"reserved\"" : "");
	h.log += b; g_stats.current = h.base_desc + h.log;
	h.hhash = hcomb(h.hhash, hcomb(hcomb((uint64_t)(uint32_t)cs.action, cs.avail_in), hcomb(cs.avail_out, cs.null_in * 4 + cs.null_out * 2 + cs.null_zero_in + cs.null_zero_out * 1024 + (uint64_t)(cs.reserved + 1) * 8)));
	Obs o = do_call(h, cs);
	if (g_verbose) fprintf(stderr, "    %s action=%d in=%zu out=%zu -> %s (-%zu, +%zu) state %s", cs.what, cs.action, cs.avail_in, cs.avail_out, drv::retname(o.ret), o.d_in, o.d_out, ms_names[h.m.st]);
	judge(h, cs, o);
	if (g_verbose) fprintf(stderr, " -> %s%s\n", ms_names[h.m.st], h.m.maybe_error ? "?" : "");
}

static bool step(Case &c, Harness &h) {
	Work &w = h.w; Model &m = h.m;
	uint8_t b = c.byte();
	if (m.st == M_NOT_INIT && b < 110) return do_init(h, "init");
	// END / ERROR are absorbing: a few calls there are enough, then start over on the same handle
	if ((m.st == M_END || m.st == M_ERROR) && b < 70) b = 220;
	const size_t remaining = h.pos < w.feed.size() ? w.feed.size() - h.pos : 0;
	auto draw_in = [&]() -> size_t { uint8_t k = c.byte(); size_t n; if (k < 100) n = c.small(300); else if (k < 130) n = 0; else if (k < 200) n = c.u16(); else n = SIZE_MAX;
		if (w.kind == K_MICRO_ENC && n == 0 && k >= 8) n = SIZE_MAX; return std::min(n, remaining); };
	auto draw_out = [&]() -> size_t { uint8_t k = c.byte(); size_t n; if (k < 110) n = c.small(300); else if (k < 135) n = 0; else if (k < 200) n = c.u16(); else n = 1u << 16;
		if (w.kind == K_MICRO_ENC && k >= 8) n += 6; return n; };
	// a supported action other than RUN (FINISH for the many coders that have nothing else)
	auto nonrun = [&]() -> int { int cand[4], n = 0; for (int a = 1; a <= 4; ++a) if (w.sup[a]) cand[n++] = a; return n ? cand[c.u(n)] : LZMA_FINISH; };
	CallSpec cs; { uint8_t nz = c.byte(); cs.null_zero_in = nz >= 216; cs.null_zero_out = nz >= 196 && nz < 236; }
	auto legal = [&](bool want_nonrun) {
		if (m.st == M_INACT) { cs.action = m.act; cs.avail_in = m.avail; cs.avail_out = draw_out(); cs.what = "continue"; return; }
		cs.avail_in = draw_in(); cs.avail_out = draw_out();
		for (uint64_t t : w.aim) if (t > h.pos + w.aim_delta && t - w.aim_delta - h.pos <= remaining) { cs.avail_in = (size_t)(t - w.aim_delta - h.pos); break; }
		int a = w.sup[0] ? LZMA_RUN : LZMA_FINISH;
		if (want_nonrun || c.chance(40)) a = nonrun();
		// decoders: LZMA_FINISH before the whole stream has been supplied makes the outcome open; keep that rare
		if (!w.enc && a == LZMA_FINISH && cs.avail_in < remaining) { if (c.chance(200)) cs.avail_in = remaining; else if (!c.chance(24)) a = LZMA_RUN; }
		cs.action = a; cs.what = a == LZMA_RUN ? "run" : "start";
	};
	if (b < 120) legal(false);
	else if (b < 140) { legal(false); cs.avail_out = 0; if (m.st != M_INACT) cs.avail_in = 0; cs.what = "nothing"; }
	else if (b < 156) { legal(false); int unsup[5], n = 0; for (int a = 0; a <= 4; ++a) if (!w.sup[a]) unsup[n++] = a;
		if (n && c.flag()) cs.action = unsup[c.u(n)]; else cs.action = c.pick<int>({5, 6, 7, 100, -1, 0x7fffffff, 8, 255}); cs.what = "bad_action"; }
	else if (b < 172) { legal(true); if (m.st == M_INACT) { size_t d = 1 + c.small(40); if (c.flag() && cs.avail_in >= d) cs.avail_in -= d; else if (cs.avail_in) { if (c.flag()) cs.avail_in += d; else cs.avail_in -= 1 + (d - 1) % cs.avail_in; } else cs.avail_in += d; cs.what = "mutate_avail_in"; } }
	else if (b < 186) { legal(true); if (m.st == M_INACT) { int cand[5], n = 0; for (int a = 0; a <= 4; ++a) if (w.sup[a] && a != m.act) cand[n++] = a; if (n) { cs.action = cand[c.u(n)]; cs.what = "change_action"; } } }
	else if (b < 198) { legal(false); if (c.flag()) { cs.null_in = true; if (!cs.avail_in) cs.avail_in = 1 + c.u(8); } else { cs.null_out = true; if (!cs.avail_out) cs.avail_out = 1 + c.u(8); } cs.what = "null_buffer"; }
	else if (b < 208) { legal(false); cs.reserved = c.u(9); cs.what = "reserved"; }
	else if (b < 216) { lzma_end(&h.s); if (g_verbose) fprintf(stderr, "    lzma_end\n"); if (h.s.internal != NULL) violation("C11:end-internal", "strm->internal is not NULL after lzma_end()"); h.log += ",\"end\""; h.hhash = hcomb(h.hhash, 0x2222); count("lzma_end_mid_history"); m = Model(); return true; }
	else if (b < 228) {
		// known defect: re-initialising a threaded encoder without lzma_end() can lose a worker thread (hang)
		if (w.kind == K_MT_ENC && m.st != M_NOT_INIT) { if (known_finding("C11:mt-encoder-reinit-lost-worker")) { lzma_end(&h.s); return do_init(h, "end+reinit"); }
			g_wd_sig.store("C11:mt-encoder-reinit-lost-worker"); count("mt_encoder_reinit_without_end"); }
		return do_init(h, "reinit"); }
	else if (b < 234) { h.s.total_in = c.u64(); h.s.total_out = c.u64(); h.log += ",\"set_totals\""; h.hhash = hcomb(h.hhash, 0x3333); count("application_modified_totals"); return true; }
	else legal(true);
	// known defect: NULL next_in with avail_in == 0 (legal) makes the LZMA decoder compute NULL + 0
	if (cs.null_zero_in && cs.avail_in == 0 && !cs.null_in && !w.enc && w.kind != K_INDEX_DEC && w.kind != K_FILEINFO_DEC && known_finding("C11:null-next-in-zero-length-ub")) cs.null_zero_in = false;
	if (cs.avail_in == 0 && cs.null_zero_in && !cs.null_in) count("legal_null_next_in_zero_length");
	if (cs.avail_out == 0 && cs.null_zero_out && !cs.null_out) count("legal_null_next_out_zero_length");
	one_call(h, cs);
	return true;
}

static void completion(Harness &h) {
	Work &w = h.w; Model &m = h.m;
	const unsigned limit = w.timed ? 6000 : 1500;
	for (unsigned it = 0; it < limit && (m.st == M_RUN || m.st == M_INACT); ++it) {
		CallSpec cs; cs.what = "completion";
		const size_t remaining = h.pos < w.feed.size() ? w.feed.size() - h.pos : 0;
		if (m.st == M_INACT) { cs.action = m.act; cs.avail_in = m.avail; } else { cs.action = LZMA_FINISH; cs.avail_in = remaining; }
		cs.avail_out = 1u << 16;
		const bool everything = w.valid && !m.early_finish && !m.maybe_error && (m.st == M_RUN || w.enc || cs.avail_in == remaining);
		const unsigned be = h.buf_errors; const int st = m.st;
		one_call(h, cs);
		if (h.buf_errors != be) {
			// no progress is possible although everything was supplied and there was room
			if (everything && (st == M_RUN || m.st == M_INACT) && !(w.kind == K_MICRO_ENC)) violation("C11:no-completion", "valid workload, all input and 64 KiB of output space supplied, action %d: LZMA_BUF_ERROR", cs.action);
			break;
		}
	}
}

extern "C" size_t vfresh_max(void) { return 360; }

extern "C" int LLVMFuzzerTestOneInput(const uint8_t *data, size_t size) {
	begin_case("C11");
	g_wd_sig.store("C11:mt-hang");
	Case c(data, size);
	g_last_byte = size ? data[size - 1] : 0;
	Work w;
	if (!make_work(c, w)) { count("environment_alloc_cap"); return 0; }
	Harness h(w);
	h.exact = c.flag();
	h.base_desc = "{" + w.desc + ",\"valid\":" + (w.valid ? "true" : "false") + ",\"buffers\":\"" + (h.exact ? "exact_heap_blocks" : "guard_bytes") + "\",\"history\":[\"start\"";
	set_desc(h.base_desc);
	bool alive = true;
	// an eighth of the cases (last case byte): the handle has been used before by a coder of *another* kind that supports every action
	// (lzma_easy_encoder) and is handed to the initialiser under test without lzma_end() - nothing of the old coder may survive
	const bool starts_with_init = c.byte() < 200;
	if (starts_with_init && size && (data[size - 1] & 7) == 6) {
		if (lzma_easy_encoder(&h.s, 0, LZMA_CHECK_CRC32) == LZMA_OK) {
			static uint8_t ib[16] = {1, 2, 3, 4, 5, 6, 7, 8}; uint8_t ob[128]; h.s.next_in = ib; h.s.avail_in = (data[size - 1] >> 3) & 15; h.s.next_out = ob; h.s.avail_out = sizeof ob;
			(void)lzma_code(&h.s, (data[size - 1] & 0x80) ? LZMA_SYNC_FLUSH : LZMA_RUN);
			h.s.next_in = NULL; h.s.avail_in = 0; h.s.next_out = NULL; h.s.avail_out = 0;
			h.log += ",\"handle previously used by lzma_easy_encoder\""; count("handle_previously_used_by_another_coder");
		}
	}
	if (starts_with_init) alive = do_init(h, "init"); else count("history_starts_before_init");
	unsigned nsteps = 1 + c.u(64);
	for (unsigned i = 0; alive && i < nsteps && !c.empty(); ++i) alive = step(c, h);   // an exhausted case ends the drawn history (the completion phase follows)
	if (alive) completion(h);
	// whatever was produced is a prefix of the right answer
	if (alive && !w.enc && w.valid && (h.out.size() > w.expect.size() || (h.out.size() && memcmp(h.out.data(), w.expect.data(), h.out.size()) != 0)))
		violation("C11:end-to-end", "decoder output (%zu bytes) is not a prefix of the one-shot result (%zu bytes)", h.out.size(), w.expect.size());
	lzma_end(&h.s);
	if (h.s.internal != NULL) violation("C11:end-internal", "strm->internal is not NULL after lzma_end()");
	lzma_verif_mf_offset_bias = 0;
	if (!alive) return 0;
	count(std::string("kind_") + kind_names[w.kind]);
	if (!w.valid) count("workload_mutated");
	if (h.m.st == M_END) count("history_ends_at_END"); else count(std::string("history_ends_in_") + ms_names[h.m.st]);
	g_stats.current = h.base_desc + h.log + "]}";
	if ((h.illegal >= 1 || h.buf_errors >= 1) && h.legal_calls >= 3) nontrivial(hcomb(hcomb(w.hash, h.exact), h.hhash));
	return 0;
}
