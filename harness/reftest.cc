// reftest.cc - validates ref/ against tests/files and liblzma on the unchanged tree (run by ./check --selftest-ref).
#include <lzma.h>
#include <stdio.h>
#include "common.h"
#include "drv.h"
#include "ref/xzparse.h"
#include "ref/containers.h"
int main() {
	int bad = 0, n = 0;
	for (auto &tf : cm::test_files()) {
		bool xz = cm::name_ends(tf.name, ".xz"), al = cm::name_ends(tf.name, ".lzma");
		if (!xz && !al) continue;
		++n;
		lzma_stream s = LZMA_STREAM_INIT;
		if (xz) lzma_stream_decoder(&s, UINT64_MAX, LZMA_CONCATENATED); else lzma_alone_decoder(&s, UINT64_MAX);
		drv::Result L = drv::run(&s, tf.data.data(), tf.data.size(), drv::Schedule()); lzma_end(&s);
		int rst; std::vector<uint8_t> rout; std::string rule; size_t used;
		if (xz) { ref::XzOpts o; o.concatenated = true; ref::XzResult R = ref::xz_decode(tf.data.data(), tf.data.size(), o); rst = R.status; rout = R.out; rule = R.rule; used = R.in_used; }
		else { ref::AloneResult R = ref::alone_decode(tf.data.data(), tf.data.size(), false); rst = R.status; rout = R.out; rule = R.rule; used = R.in_used; }
		bool lok = L.ret == LZMA_STREAM_END, rok = rst == ref::RS_OK;
		bool same = lok == rok && (!lok || L.out == rout);
		bool prefix = L.out.size() <= rout.size() && (L.out.empty() || memcmp(L.out.data(), rout.data(), L.out.size()) == 0);
		if (!lok && !rok && !prefix && !cm::name_has(tf.name, "arm64") && !cm::name_has(tf.name, "bcj")) same = false;
		if (rst == ref::RS_REF_UNSUPPORTED) { printf("SKIP %-45s (ref lacks filter)\n", tf.name.c_str()); continue; }
		printf("%s %-45s lib=%-12s out=%-6zu in=%-5llu | ref=%d out=%-6zu in=%-5zu %s\n", same ? "ok  " : "DIFF", tf.name.c_str(), drv::retname(L.ret), L.out.size(), (unsigned long long)L.total_in, rst, rout.size(), used, rule.c_str());
		if (!same) ++bad;
	}
	printf("%d files, %d differences\n", n, bad);
	return bad ? 1 : 0;
}
