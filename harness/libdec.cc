// libdec.cc - "direct library decode" helper for the CLI suites (C16 CLI, C17, C18).
// usage: libdec <decoder> <flags> <in-file> <out-file> [memlimit]
//   decoder: stream | stream_mt:<threads> | alone | lzip | auto
//   flags:   comma list of concatenated,ignore_check,tell_unsupported_check,tell_no_check,tell_any_check  (or "none")
// Decodes the whole file (LZMA_FINISH at the end), writes every byte produced (also before an error) to out-file,
// prints one JSON line: {"ret":N,"ret_name":"..","total_in":N,"total_out":N,"info":[..],"in_size":N}
#include <lzma.h>
#include <stdio.h>
#include <stdlib.h>
#include <string.h>
#include <string>
#include <vector>
#include "drv.h"
#include "common.h"

int main(int argc, char **argv) {
	if (argc < 5) { fprintf(stderr, "usage\n"); return 2; }
	std::string dec = argv[1], fl = argv[2];
	uint32_t flags = 0;
	if (fl.find("concatenated") != std::string::npos) flags |= LZMA_CONCATENATED;
	if (fl.find("ignore_check") != std::string::npos) flags |= LZMA_IGNORE_CHECK;
	if (fl.find("tell_unsupported_check") != std::string::npos) flags |= LZMA_TELL_UNSUPPORTED_CHECK;
	if (fl.find("tell_no_check") != std::string::npos) flags |= LZMA_TELL_NO_CHECK;
	if (fl.find("tell_any_check") != std::string::npos) flags |= LZMA_TELL_ANY_CHECK;
	uint64_t memlimit = argc > 5 ? strtoull(argv[5], NULL, 10) : UINT64_MAX;
	std::vector<uint8_t> in;
	if (!cm::read_file(argv[3], in)) { fprintf(stderr, "cannot read %s\n", argv[3]); return 2; }
	lzma_stream s = LZMA_STREAM_INIT; lzma_ret r;
	drv::Opts o; o.out_cap = (size_t)1 << 31;
	if (dec == "stream") r = lzma_stream_decoder(&s, memlimit, flags);
	else if (dec.compare(0, 9, "stream_mt") == 0) { lzma_mt mt; memset(&mt, 0, sizeof mt); mt.flags = flags; mt.threads = dec.size() > 10 ? atoi(dec.c_str() + 10) : 2; mt.memlimit_threading = memlimit; mt.memlimit_stop = memlimit; mt.timeout = 0; r = lzma_stream_decoder_mt(&s, &mt); o.idle_limit = 1u << 30; }
	else if (dec == "alone") r = lzma_alone_decoder(&s, memlimit);
	else if (dec == "lzip") r = lzma_lzip_decoder(&s, memlimit, flags);
	else if (dec == "auto") r = lzma_auto_decoder(&s, memlimit, flags);
	else { fprintf(stderr, "bad decoder\n"); return 2; }
	if (r != LZMA_OK) { printf("{\"ret\":%d,\"ret_name\":\"%s\",\"init_failed\":true,\"total_in\":0,\"total_out\":0,\"info\":[],\"in_size\":%zu}\n", (int)r, drv::retname(r), in.size()); return 0; }
	drv::Result R = drv::run(&s, in.data(), in.size(), drv::Schedule(), o);
	lzma_end(&s);
	FILE *f = fopen(argv[4], "wb"); if (!f) { fprintf(stderr, "cannot write\n"); return 2; }
	if (!R.out.empty()) fwrite(R.out.data(), 1, R.out.size(), f);
	fclose(f);
	std::string info;
	for (size_t i = 0; i < R.info.size(); ++i) { if (i) info += ","; info += std::to_string(R.info[i]); }
	printf("{\"ret\":%d,\"ret_name\":\"%s\",\"total_in\":%llu,\"total_out\":%llu,\"info\":[%s],\"in_size\":%zu,\"capped\":%s}\n", (int)R.ret, drv::retname(R.ret),
		(unsigned long long)R.total_in, (unsigned long long)R.total_out, info.c_str(), in.size(), R.capped ? "true" : "false");
	return 0;
}
