// t_c13.cc - C13: the Index and file-info APIs describe files exactly; random access is correct.
// Mode A: histories of lzma_index_* calls on up to 4 live indexes against ref/index_model.h.
// Mode B: multi-Stream .xz files built by construction -> lzma_file_info_decoder under every
//         chunking / seek behaviour == concatenation of the per-Stream models; Blocks decode
//         to the plaintext range the index gives.
#include "vgen.h"
#include "drv.h"
#include "common.h"
#include "alloc.h"
#include "ref/index_model.h"

using namespace vg;
namespace ix = ref::ix;
typedef ix::u128 u128;

static va::Alloc *g_alp;
static const lzma_allocator *AL() { if (!g_alp) { g_alp = new va::Alloc(); g_alp->cap = 64u << 20; g_alp->poison = true; } return &g_alp->a; }

static std::string u2s(u128 v) { if (v == 0) return "0"; char b[48]; int i = 47; b[i] = 0; while (v) { b[--i] = (char)('0' + (int)(v % 10)); v /= 10; } return b + i; }
static std::string x64(uint64_t v) { char b[24]; snprintf(b, sizeof b, "0x%llx", (unsigned long long)v); return b; }
static std::string n64(uint64_t v) { return v < 100000 ? std::to_string(v) : x64(v); }

static lzma_ret to_ret(ix::Res r) { switch (r) { case ix::RS_OK: return LZMA_OK; case ix::RS_OPTIONS_ERROR: return LZMA_OPTIONS_ERROR; case ix::RS_DATA_ERROR: return LZMA_DATA_ERROR; default: return LZMA_PROG_ERROR; } }

static const char *SIG_DUP = "C13:dup-loses-checks";
static const char *SIG_ITER_EMPTY = "C13:iter-skips-block-appended-to-empty-stream";
static const char *SIG_UNC_TOTAL = "C13:append-uncompressed-total-unchecked";
// the index decoder calls lzma_index_prealloc(i, 0) for an Index without Records; the next lzma_index_append() that has to
// allocate a Record group then allocates room for 0 Records and writes records[0].  ASan reports it by itself (this is the
// signature the orchestrator derives from that report); when it is listed as known the harness side-steps the trigger.
static const char *SIG_PREALLOC0 = "AddressSanitizer:heap-buffer-overflow:lzma_index_append";

// ---------------------------------------------------------------- comparing an index with its model
struct Cmp { const char *sig; std::string what; };

#define GET_EQ(name, libv, modv) do { uint64_t l_ = (uint64_t)(libv); u128 m_ = (u128)(modv); if ((u128)l_ != m_) \
	violation(sig, "%s: %s: library %llu (%s), model %s", ctx, name, (unsigned long long)l_, x64(l_).c_str(), u2s(m_).c_str()); } while (0)

// all getters; checks only if the model's checks are authoritative for this index
static void cmp_getters(const lzma_index *i, const ix::Index &m, bool checks_reliable, const char *ctx, const char *sig = "C13:getter") {
	GET_EQ("block_count", lzma_index_block_count(i), m.block_count());
	GET_EQ("stream_count", lzma_index_stream_count(i), m.stream_count());
	GET_EQ("size", lzma_index_size(i), m.size());
	GET_EQ("total_size", lzma_index_total_size(i), m.total_size());
	GET_EQ("stream_size", lzma_index_stream_size(i), m.stream_size());
	GET_EQ("file_size", lzma_index_file_size(i), m.file_size());
	GET_EQ("uncompressed_size", lzma_index_uncompressed_size(i), m.uncompressed_size());
	if (checks_reliable) GET_EQ("checks", lzma_index_checks(i), m.checks());
	uint64_t mu = lzma_index_memused(i), mg = lzma_index_memusage(m.stream_count(), m.block_count());
	if (mu != mg) violation(sig, "%s: memused %llu != memusage(streams=%llu, blocks=%llu) = %llu", ctx, (unsigned long long)mu,
		(unsigned long long)m.stream_count(), (unsigned long long)m.block_count(), (unsigned long long)mg);
}

// public fields of the iterator against the model's Info; returns NULL or the name of the first differing field
static const char *cmp_info(const lzma_index_iter &it, const ix::Info &I, std::string &detail) {
#define F_EQ(name, libv, modv) do { if ((u128)(uint64_t)(libv) != (u128)(modv)) { detail = std::string(name) + ": library " + std::to_string((unsigned long long)(libv)) + ", model " + u2s((u128)(modv)); return name; } } while (0)
	F_EQ("stream.number", it.stream.number, I.s_number);
	F_EQ("stream.block_count", it.stream.block_count, I.s_block_count);
	F_EQ("stream.compressed_offset", it.stream.compressed_offset, I.s_comp_off);
	F_EQ("stream.uncompressed_offset", it.stream.uncompressed_offset, I.s_unc_off);
	F_EQ("stream.compressed_size", it.stream.compressed_size, I.s_comp_size);
	F_EQ("stream.uncompressed_size", it.stream.uncompressed_size, I.s_unc_size);
	F_EQ("stream.padding", it.stream.padding, I.s_padding);
	if ((it.stream.flags != NULL) != I.flags.set) { detail = std::string("stream.flags is ") + (it.stream.flags ? "set" : "NULL") + ", model says " + (I.flags.set ? "set" : "unset"); return "stream.flags"; }
	if (it.stream.flags) {
		F_EQ("stream.flags.version", it.stream.flags->version, I.flags.version);
		F_EQ("stream.flags.check", (unsigned)it.stream.flags->check, I.flags.check);
		F_EQ("stream.flags.backward_size", it.stream.flags->backward_size, I.flags.backward_size);
	}
	if (I.has_block) {
		F_EQ("block.number_in_file", it.block.number_in_file, I.b_num_file);
		F_EQ("block.number_in_stream", it.block.number_in_stream, I.b_num_stream);
		F_EQ("block.compressed_file_offset", it.block.compressed_file_offset, I.b_comp_file_off);
		F_EQ("block.uncompressed_file_offset", it.block.uncompressed_file_offset, I.b_unc_file_off);
		F_EQ("block.compressed_stream_offset", it.block.compressed_stream_offset, I.b_comp_stream_off);
		F_EQ("block.uncompressed_stream_offset", it.block.uncompressed_stream_offset, I.b_unc_stream_off);
		F_EQ("block.uncompressed_size", it.block.uncompressed_size, I.b_unc_size);
		F_EQ("block.unpadded_size", it.block.unpadded_size, I.b_unpadded);
		F_EQ("block.total_size", it.block.total_size, I.b_total);
	}
#undef F_EQ
	return NULL;
}

static bool iter_public_equal(const lzma_index_iter &a, const lzma_index_iter &b) {
	return memcmp(&a.stream, &b.stream, sizeof a.stream) == 0 && memcmp(&a.block, &b.block, sizeof a.block) == 0;
}
static void iter_clear(lzma_index_iter &it) { memset(&it, 0, sizeof it); }

// full iteration in every mode with fresh iterators + a set of locate() probes
static void full_check(const lzma_index *i, const ix::Index &m, bool checks_reliable, const char *ctx, Case *c) {
	if (!m.caches_ok()) harness_bug("model cache out of sync");
	cmp_getters(i, m, checks_reliable, ctx);
	static const char *mn[] = {"ANY", "STREAM", "BLOCK", "NONEMPTY_BLOCK"};
	for (int mode = 0; mode < 4; ++mode) {
		lzma_index_iter it; iter_clear(it); lzma_index_iter_init(&it, i);
		ix::Pos p; ix::Walker w(m); uint64_t steps = 0;
		for (;;) {
			ix::Pos q = p; bool mend = m.next(q, mode);
			lzma_index_iter before = it;
			lzma_bool lend = lzma_index_iter_next(&it, (lzma_index_iter_mode)mode);
			if ((bool)lend != mend) violation("C13:iteration", "%s: full iteration mode %s step %llu: library says %s, model says %s (model position stream %lld block %lld)", ctx, mn[mode],
				(unsigned long long)steps, lend ? "end" : "more", mend ? "end" : "more", (long long)q.s, (long long)q.b);
			if (mend) { if (!iter_public_equal(before, it)) violation("C13:iteration", "%s: mode %s: iterator contents changed although iter_next returned true", ctx, mn[mode]); break; }
			p = q; ++steps;
			std::string d; if (cmp_info(it, w.at(p), d)) violation("C13:iteration", "%s: full iteration mode %s at stream %lld block %lld: %s", ctx, mn[mode], (long long)p.s + 1, (long long)p.b + 1, d.c_str());
		}
		count(std::string("full_iter_") + mn[mode]);
	}
	// locate probes: boundaries of a few blocks, the end, and beyond
	u128 tot = m.uncompressed_size();
	std::vector<uint64_t> probes = {0, 1, UINT64_MAX, ix::VLI_MAX};
	if (tot <= UINT64_MAX) { probes.push_back((uint64_t)tot); if (tot) probes.push_back((uint64_t)tot - 1); if (tot < UINT64_MAX) probes.push_back((uint64_t)tot + 1); }
	if (c && tot) { unsigned k = 1 + c->u(6); for (unsigned j = 0; j < k; ++j) { uint64_t r = c->u64(); probes.push_back(tot <= UINT64_MAX ? r % (uint64_t)tot : r); } }
	{ // boundaries of up to 12 blocks spread over the index
		uint64_t nb = m.block_count(); u128 off = 0; uint64_t k = 0, step = nb / 12 + 1;
		for (auto &s : m.streams) for (auto &r : s.recs) { if (k % step == 0 || k + 1 == nb) { if (off <= UINT64_MAX) { probes.push_back((uint64_t)off); if (off) probes.push_back((uint64_t)off - 1); } } off += r.uncompressed; ++k; }
	}
	for (uint64_t t : probes) {
		lzma_index_iter it; iter_clear(it); lzma_index_iter_init(&it, i);
		lzma_index_iter before = it;
		ix::Pos p; bool mf = m.locate(t, p);
		lzma_bool lf = lzma_index_iter_locate(&it, t);
		if ((bool)lf != mf) violation("C13:locate", "%s: locate(%s): library returns %d, model %d (uncompressed size %s)", ctx, x64(t).c_str(), (int)lf, (int)mf, u2s(tot).c_str());
		if (mf) { if (!iter_public_equal(before, it)) violation("C13:locate", "%s: locate(%s) failed but modified the iterator", ctx, x64(t).c_str()); continue; }
		std::string d; if (cmp_info(it, m.info(p), d)) violation("C13:locate", "%s: locate(%s) -> model stream %lld block %lld: %s", ctx, x64(t).c_str(), (long long)p.s + 1, (long long)p.b + 1, d.c_str());
		if (it.block.uncompressed_size == 0 || !(it.block.uncompressed_file_offset <= t && t - it.block.uncompressed_file_offset < it.block.uncompressed_size))
			violation("C13:locate", "%s: locate(%s) returned a Block that does not contain the offset", ctx, x64(t).c_str());
	}
	count("full_checks");
}

// ---------------------------------------------------------------- Mode A: histories
// checks_suspect: the index descends from an lzma_index_dup() of a multi-Stream index, whose copy may have lost the check bits of its
// non-last Streams (SIG_DUP); the loss becomes visible only when the last Stream's flags change or Streams are added.
struct Slot { lzma_index *idx = NULL; ix::Index m; bool checks_reliable = true; bool checks_suspect = false; bool over = false; bool prealloc0 = false; };
struct ItSlot { bool live = false; int slot = -1; lzma_index_iter it; ix::Pos p; bool risk = false; };

struct World {
	Slot s[4]; ItSlot it[4];
	std::string desc; uint64_t nops = 0; bool interesting = false;
	~World() { for (auto &x : s) if (x.idx) lzma_index_end(x.idx, AL()); }
	int live_count() const { int n = 0; for (auto &x : s) n += x.idx != NULL; return n; }
	int pick_live(Case &c) { int n = live_count(); if (!n) return -1; int k = (int)c.u((uint32_t)n); for (int j = 0; j < 4; ++j) if (s[j].idx && k-- == 0) return j; return -1; }
	int pick_free() { for (int j = 0; j < 4; ++j) if (!s[j].idx) return j; return -1; }
	void drop_iters(int slot) { for (auto &x : it) if (x.live && x.slot == slot) x.live = false; }
	void end(int j) { if (s[j].idx) lzma_index_end(s[j].idx, AL()); s[j] = Slot(); drop_iters(j); }
	void op(const std::string &o) { ++nops; if (desc.size() < 6000) { desc += (nops > 1 ? "," : ""); desc += "\"" + o + "\""; } g_stats.current = "{\"mode\":\"A\",\"ops\":[" + desc + "]}"; if (g_verbose) fprintf(stderr, "  op %s\n", o.c_str()); }
};

static void slot_checks(Slot &S, const char *ctx) {
	if (!S.checks_reliable) return;
	uint32_t l = lzma_index_checks(S.idx), m = S.m.checks();
	if (l == m) return;
	if (S.checks_suspect && (l & ~m) == 0) { // bits are missing, none invented: the known way a dup'ed index goes wrong
		if (!known_finding(SIG_DUP)) violation(SIG_DUP, "%s: lzma_index_checks() = 0x%x, model 0x%x; the index descends from an lzma_index_dup() copy of a multi-Stream index (the copy lost the check bits of its non-last Streams)", ctx, l, m);
		S.checks_reliable = false; return; }
	violation("C13:getter", "%s: checks: library 0x%x, model 0x%x", ctx, l, m);
}
static void check_slot(World &W, int j, const char *ctx) { cmp_getters(W.s[j].idx, W.s[j].m, false, ctx); slot_checks(W.s[j], ctx); }
static void full_check_slot(World &W, int j, const char *ctx, Case *c) { full_check(W.s[j].idx, W.s[j].m, false, ctx, c); slot_checks(W.s[j], ctx); }
static void check_all(World &W, const char *ctx) { for (int j = 0; j < 4; ++j) if (W.s[j].idx) check_slot(W, j, ctx); }

static uint64_t draw_unpadded(Case &c, const ix::Index &m) {
	uint8_t k = c.byte();
	if (k < 110) return 5 + (c.byte() & 63);
	if (k < 140) return 5 + (uint64_t)c.u16() * ((k & 1) ? 1 : 257);
	if (k < 160) { unsigned j = 1 + c.u(8); return ((uint64_t)1 << (7 * j)) - 2 + c.u(5); }          // VLI length boundaries
	if (k < 180) return ix::UNPADDED_MAX - c.u(200);                                                // near the top
	if (k < 205) { // around the biggest value the file-size limit still allows
		u128 fs = m.file_size(); if (fs + 64 >= ix::VLI_MAX) return 5 + c.u(64);
		uint64_t room = (uint64_t)(ix::VLI_MAX - fs); int d = (int)c.u(41) - 28; return d < 0 ? room - (uint64_t)(-d) : room + (uint64_t)d; }
	if (k < 220) return c.u(5);                                                                       // 0..4: invalid
	if (k < 232) return ix::UNPADDED_MAX + 1 + c.u(8);                                                // invalid
	if (k < 240) return c.u64();
	return c.u64() >> c.u(64);
}
static uint64_t draw_uncompressed(Case &c, const ix::Index &m) {
	uint8_t k = c.byte();
	if (k < 40) return 0;
	if (k < 120) return c.byte();
	if (k < 150) return (uint64_t)c.u32() >> (c.byte() & 31);
	if (k < 165) { unsigned j = 1 + c.u(8); return ((uint64_t)1 << (7 * j)) - 2 + c.u(5); }
	if (k < 185) { u128 u = m.streams.back().uncomp; uint64_t room = u > ix::VLI_MAX ? 0 : (uint64_t)(ix::VLI_MAX - u); int d = (int)c.u(9) - 6; return d < 0 ? (room >= (uint64_t)(-d) ? room - (uint64_t)(-d) : 0) : room + (uint64_t)d; } // stream limit
	if (k < 205) { u128 u = m.uncompressed_size(); uint64_t room = u > ix::VLI_MAX ? 0 : (uint64_t)(ix::VLI_MAX - u); int d = (int)c.u(9) - 6; return d < 0 ? (room >= (uint64_t)(-d) ? room - (uint64_t)(-d) : 0) : room + (uint64_t)d; } // file-wide limit
	if (k < 215) return ix::VLI_MAX - c.u(4);
	if (k < 225) return ix::VLI_MAX + 1 + c.u(4);                                                      // invalid
	if (k < 232) return UINT64_MAX - c.u(2);                                                           // LZMA_VLI_UNKNOWN and neighbour
	if (k < 244) return (uint64_t)1 << (40 + c.u(23));
	return c.u64() >> c.u(64);
}

// one lzma_index_append against the model; returns true if it was applied
static bool do_append(World &W, int j, uint64_t unp, uint64_t unc, bool check_after) {
	Slot &S = W.s[j];
	if (S.prealloc0 && known_finding(SIG_PREALLOC0)) { // continue on an equivalent index that does not carry the zero preallocation
		lzma_index *d = lzma_index_dup(S.idx, AL()); if (!d) harness_bug("dup"); W.drop_iters(j); lzma_index_end(S.idx, AL()); S.idx = d; S.prealloc0 = false;
		if (S.m.stream_count() > 1) S.checks_suspect = true; }
	size_t last_before = S.m.streams.back().recs.size();
	bool groups_before = last_before > 512;
	// Index::append only modifies the model on success
	uint64_t bc = S.m.block_count();
	ix::Res er = S.m.append(unp, unc, true);
	bool quirk = false;
	lzma_ret lr = lzma_index_append(S.idx, AL(), unp, unc);
	if (lr == LZMA_MEM_ERROR) harness_bug("append: LZMA_MEM_ERROR from the capped allocator");
	if (er == ix::RS_DATA_ERROR && lr == LZMA_OK && S.m.append(unp, unc, false) == ix::RS_OK) {
		// only the file-wide uncompressed total exceeds the VLI range
		quirk = true;
		if (!known_finding(SIG_UNC_TOTAL)) violation(SIG_UNC_TOTAL, "append(unpadded=%s, uncompressed=%s) to the last of %llu Streams returned LZMA_OK although lzma_index_uncompressed_size() becomes %s > LZMA_VLI_MAX",
			x64(unp).c_str(), x64(unc).c_str(), (unsigned long long)S.m.stream_count(), u2s(S.m.uncompressed_size()).c_str());
		S.over = true; er = ix::RS_OK;
	}
	if (lr != to_ret(er)) violation(er == ix::RS_OK ? "C13:append-rejected" : "C13:append-limit", "append(unpadded=%s, uncompressed=%s): library %s, model %s (stream uncompressed %s, file size %s)", x64(unp).c_str(), x64(unc).c_str(),
		drv::retname(lr), drv::retname(to_ret(er)), u2s(S.m.streams.back().uncomp).c_str(), u2s(S.m.file_size()).c_str());
	if (er == ix::RS_OK) {
		if (S.m.block_count() != bc + 1) harness_bug("model append did not add a record");
		// iterators standing on the (so far empty) last Stream are exposed to SIG_ITER_EMPTY
		if (last_before == 0) for (auto &x : W.it) if (x.live && x.slot == j && x.p.s == (int64_t)S.m.streams.size() - 1 && x.p.b == -1) x.risk = true;
		if (!groups_before && S.m.streams.back().recs.size() > 512) count("group_boundary_crossed");
		count(quirk ? "append_ok_quirk" : "append_ok");
	} else { count(er == ix::RS_PROG_ERROR ? "append_prog_error" : "append_data_error(limit)"); }
	if (check_after) check_slot(W, j, "after append");
	return er == ix::RS_OK;
}

// run an encoder/decoder stream through drv with a drawn schedule
static drv::Result run_sched(lzma_stream *s, const uint8_t *in, size_t n, const drv::Schedule &sch, lzma_action fin, drv::Opts *po = NULL) {
	drv::Opts o; if (po) o = *po; o.final_action = fin; o.out_cap = 4u << 20;
	return drv::run(s, in, n, sch, o);
}

static std::vector<uint8_t> do_encode(World &W, int j, Case &c) {
	Slot &S = W.s[j];
	std::vector<uint8_t> want = S.m.encode();
	if ((u128)want.size() != S.m.size()) harness_bug("model encode size != model size()");
	size_t sz = want.size();
	// single call: exact size, with an offset, too small
	{
		size_t off = c.u(4), extra = c.u(3);
		std::vector<uint8_t> buf(off + sz + extra, 0xCC); size_t pos = off;
		lzma_ret r = lzma_index_buffer_encode(S.idx, buf.data(), &pos, off + sz + extra);
		if (r != LZMA_OK || pos != off + sz) violation("C13:encode", "lzma_index_buffer_encode: %s, out_pos %zu (expected LZMA_OK, %zu)", drv::retname(r), pos, off + sz);
		if (memcmp(buf.data() + off, want.data(), sz)) violation("C13:encode-bytes", "lzma_index_buffer_encode output differs from the Index field defined by the format: got %s want %s", hex(buf.data() + off, sz).c_str(), hex(want.data(), sz).c_str());
		for (size_t k = 0; k < off; ++k) if (buf[k] != 0xCC) violation("C13:encode", "lzma_index_buffer_encode wrote before out_pos");
		for (size_t k = off + sz; k < buf.size(); ++k) if (buf[k] != 0xCC) violation("C13:encode", "lzma_index_buffer_encode wrote past the Index");
		size_t small = sz - 1 - c.u(3); if (small > sz) small = 0;
		std::vector<uint8_t> b2(small + 1, 0xCC); pos = 0;
		r = lzma_index_buffer_encode(S.idx, b2.data(), &pos, small);
		if (r != LZMA_BUF_ERROR || pos != 0) violation("C13:encode", "lzma_index_buffer_encode with %zu < %zu bytes of space: %s, out_pos %zu (expected LZMA_BUF_ERROR, 0)", small, sz, drv::retname(r), pos);
	}
	// multi-call encoder under a schedule
	{
		drv::Schedule sch = drv::draw_schedule(c);
		lzma_stream s = LZMA_STREAM_INIT; s.allocator = AL();
		if (lzma_index_encoder(&s, S.idx) != LZMA_OK) harness_bug("lzma_index_encoder init");
		drv::Result R = run_sched(&s, NULL, 0, sch, c.flag() ? LZMA_RUN : LZMA_FINISH); lzma_end(&s);
		if (R.ret != LZMA_STREAM_END || R.out != want) violation("C13:encode-bytes", "lzma_index_encoder (schedule %s): %s, %zu bytes; expected STREAM_END and the %zu bytes of the format's Index field", sch.describe().c_str(), drv::retname(R.ret), R.out.size(), sz);
	}
	// layout per spec, checked field by field with the bitwise CRC
	{
		const uint8_t *p = want.data(); size_t pos = 1; uint64_t cnt = 0;
		if (p[0] != 0 || ix::vli_get(p, sz, pos, cnt) || cnt != S.m.block_count() || (sz & 3) || sz < 8) harness_bug("model Index layout");
		uint32_t crc = ref::crc32(p, sz - 4), st = (uint32_t)p[sz - 4] | ((uint32_t)p[sz - 3] << 8) | ((uint32_t)p[sz - 2] << 16) | ((uint32_t)p[sz - 1] << 24);
		if (crc != st) harness_bug("model Index CRC32");
	}
	count("encode");
	return want;
}

struct MemHook { uint64_t limit; uint64_t need_expected; int raises = 0; bool bad = false; std::string why; };
static bool mem_hook(lzma_stream *s, lzma_ret r, void *arg) {
	MemHook *h = (MemHook *)arg;
	if (r != LZMA_MEMLIMIT_ERROR) return true;
	uint64_t need = lzma_memusage(s), cur = lzma_memlimit_get(s);
	if (cur != h->limit) { h->bad = true; h->why = "lzma_memlimit_get() = " + std::to_string(cur) + " but the limit set was " + std::to_string(h->limit); return false; }
	if (h->need_expected && need != h->need_expected) { h->bad = true; h->why = "lzma_memusage() = " + std::to_string(need) + " after LZMA_MEMLIMIT_ERROR, expected lzma_index_memusage(1, count) = " + std::to_string(h->need_expected); return false; }
	if (need <= cur) { h->bad = true; h->why = "LZMA_MEMLIMIT_ERROR although lzma_memusage() " + std::to_string(need) + " <= limit " + std::to_string(cur); return false; }
	if (need > 1 && lzma_memlimit_set(s, need - 1) != LZMA_MEMLIMIT_ERROR) { h->bad = true; h->why = "lzma_memlimit_set(need-1) did not fail"; return false; }
	if (lzma_memlimit_set(s, need) != LZMA_OK) { h->bad = true; h->why = "lzma_memlimit_set(need) failed"; return false; }
	h->limit = need; ++h->raises;
	return h->raises < 100;
}

// decode `bytes` with both decoders, compare with the model parser; on success install the index in a free slot (if any)
static void do_decode(World &W, const std::vector<uint8_t> &bytes, Case &c, const char *what) {
	ix::Parsed P = ix::parse_index(bytes.data(), bytes.size());
	uint64_t need = P.count_known ? lzma_index_memusage(1, P.count) : 0;
	bool huge = P.count_known && P.count > (1u << 20); // preallocation of the Record array would exceed the allocator cap
	// memory limit: unlimited / exact / one less / tiny
	unsigned mk = c.u(6); uint64_t memlimit = mk <= 2 ? UINT64_MAX : mk == 3 ? need : mk == 4 ? (need ? need - 1 : 0) : c.u(3);
	bool mem_fail = P.count_known && need > std::max<uint64_t>(memlimit, 1);
	// --- single call
	lzma_index *bi = (lzma_index *)(uintptr_t)0x10; // "the old value is ignored"
	size_t off = c.u(3); std::vector<uint8_t> buf(off, 0xEE); buf.insert(buf.end(), bytes.begin(), bytes.end());
	static const uint8_t none[1] = {0};
	size_t pos = off; uint64_t ml = memlimit;
	lzma_ret r = lzma_index_buffer_decode(&bi, &ml, AL(), buf.empty() ? none : buf.data(), &pos, buf.size());
	lzma_ret want = mem_fail ? LZMA_MEMLIMIT_ERROR : (P.status == 0 ? LZMA_OK : LZMA_DATA_ERROR);
	if (r == LZMA_MEM_ERROR && huge && !mem_fail) { count("decode_environment_alloc_cap"); if (bi) violation("C13:decode", "index set on LZMA_MEM_ERROR"); return; }
	if (r != want) violation(P.status == 0 && !mem_fail ? "C13:decode-rejected" : "C13:decode-accepted", "%s: lzma_index_buffer_decode (memlimit %llu): %s, expected %s (model parser status %d, count %llu) bytes %s", what, (unsigned long long)memlimit,
		drv::retname(r), drv::retname(want), P.status, (unsigned long long)P.count, hex(bytes.data(), bytes.size()).c_str());
	if (r != LZMA_OK) {
		if (bi != NULL) violation("C13:decode", "%s: *i not NULL after lzma_index_buffer_decode returned %s", what, drv::retname(r));
		if (pos != off) violation("C13:decode", "%s: *in_pos modified although decoding failed", what);
		if (r == LZMA_MEMLIMIT_ERROR) { if (ml != need) violation("C13:decode-memlimit", "%s: *memlimit = %llu after LZMA_MEMLIMIT_ERROR, expected lzma_index_memusage(1,%llu) = %llu", what, (unsigned long long)ml, (unsigned long long)P.count, (unsigned long long)need); }
		else if (ml != memlimit) violation("C13:decode-memlimit", "%s: *memlimit modified without LZMA_MEMLIMIT_ERROR", what);
	} else {
		if (!bi) violation("C13:decode", "%s: NULL index after LZMA_OK", what);
		if (pos != off + P.used) violation("C13:decode", "%s: *in_pos %zu, expected %zu", what, pos, off + P.used);
		if (ml != memlimit) violation("C13:decode-memlimit", "%s: *memlimit modified without LZMA_MEMLIMIT_ERROR", what);
		full_check(bi, P.idx, true, "index from lzma_index_buffer_decode", NULL);
	}
	// --- multi call with a schedule (the memory limit is raised when hit)
	drv::Schedule sch = drv::draw_schedule(c);
	lzma_index *si = (lzma_index *)(uintptr_t)0x10;
	lzma_stream s = LZMA_STREAM_INIT; s.allocator = AL();
	if (lzma_index_decoder(&s, &si, memlimit) != LZMA_OK) harness_bug("lzma_index_decoder init");
	if (si != NULL) violation("C13:decode", "lzma_index_decoder did not set *i to NULL at initialisation");
	MemHook mh; mh.limit = std::max<uint64_t>(memlimit, 1); mh.need_expected = need;
	drv::Opts o; o.stop_on_memlimit = false; o.hook = mem_hook; o.hook_arg = &mh;
	drv::Result R = run_sched(&s, bytes.data(), bytes.size(), sch, c.flag() ? LZMA_RUN : LZMA_FINISH, &o);
	if (mh.bad) violation("C13:decode-memlimit", "%s: lzma_index_decoder: %s", what, mh.why.c_str());
	if ((mh.raises > 0) != mem_fail && !(R.ret == LZMA_MEM_ERROR && huge)) violation("C13:decode-memlimit", "%s: lzma_index_decoder memlimit %llu: LZMA_MEMLIMIT_ERROR %s, model says need %llu", what, (unsigned long long)memlimit, mh.raises ? "seen" : "not seen", (unsigned long long)need);
	lzma_ret swant = P.status == 0 ? LZMA_STREAM_END : (P.status == 1 ? LZMA_BUF_ERROR : LZMA_DATA_ERROR);
	if (R.ret == LZMA_MEM_ERROR && huge) { count("decode_environment_alloc_cap"); lzma_end(&s); if (bi) lzma_index_end(bi, AL()); return; }
	if (R.ret != swant) violation(P.status == 0 ? "C13:decode-rejected" : "C13:decode-accepted", "%s: lzma_index_decoder (schedule %s): %s, expected %s (model parser status %d) bytes %s", what, sch.describe().c_str(),
		drv::retname(R.ret), drv::retname(swant), P.status, hex(bytes.data(), bytes.size()).c_str());
	if (R.ret == LZMA_STREAM_END) {
		if (!si) violation("C13:decode", "%s: NULL index after LZMA_STREAM_END", what);
		if (R.total_in != P.used) violation("C13:decode", "%s: lzma_index_decoder consumed %llu bytes, the Index field has %zu", what, (unsigned long long)R.total_in, P.used);
	} else if (si) violation("C13:index-decoder-output-on-error", "%s: index pointer set although the decoder returned %s", what, drv::retname(R.ret));
	lzma_end(&s);
	count(P.status == 0 ? "decode_valid" : (P.status == 1 ? "decode_truncated" : "decode_invalid"));
	if (mem_fail) count("decode_memlimit_hit");
	if (si) {
		full_check(si, P.idx, true, "index from lzma_index_decoder", &c);
		int f = W.pick_free();
		if (f >= 0) { W.s[f].idx = si; W.s[f].m = P.idx; W.s[f].prealloc0 = P.count == 0; if (P.count == 0) count("decoded_empty_index_kept"); si = NULL; }
	}
	if (si) lzma_index_end(si, AL());
	if (bi) lzma_index_end(bi, AL());
}

static std::string mutate_index_bytes(Case &c, std::vector<uint8_t> &v) {
	unsigned k = c.u(8); char b[64];
	switch (k) {
	case 0: { size_t t = c.u32() % v.size(); v.resize(t); snprintf(b, sizeof b, "trunc@%zu", t); return b; }
	case 1: { size_t p = v.size() - 1 - c.u(4); v[p] ^= (uint8_t)(1u << c.u(8)); snprintf(b, sizeof b, "crcflip@%zu", p); return b; }
	case 2: { // non-zero Index Padding (CRC recomputed)
		size_t p = v.size() - 5; if (v.size() >= 9 && v[p] == 0) { v[p] = 1 + c.u(255); uint32_t cr = ref::crc32(v.data(), v.size() - 4); for (int i = 0; i < 4; ++i) v[v.size() - 4 + i] = (uint8_t)(cr >> (8 * i)); return "padding-nonzero"; }
		v.push_back(0); return "append0"; }
	case 3: { // count changed, CRC recomputed
		if (v.size() >= 8 && v[1] < 0x7F) { v[1] = (uint8_t)(v[1] + (c.flag() ? 1 : (v[1] ? -1 : 1))); uint32_t cr = ref::crc32(v.data(), v.size() - 4); for (int i = 0; i < 4; ++i) v[v.size() - 4 + i] = (uint8_t)(cr >> (8 * i)); return "count+-1"; }
		return "none"; }
	case 4: { v[0] = 1 + c.u(255); return "indicator"; }
	case 5: { std::vector<uint8_t> t = c.blob(1 + c.u(6)); v.insert(v.end(), t.begin(), t.end()); return "trailing-bytes"; }
	default: return cm::mutate(c, v);
	}
}

static void iter_op_next(World &W, ItSlot &I, int mode) {
	Slot &S = W.s[I.slot];
	static const char *mn[] = {"ANY", "STREAM", "BLOCK", "NONEMPTY_BLOCK"};
	ix::Pos q = I.p; bool mend = S.m.next(q, mode);
	lzma_index_iter before = I.it;
	lzma_bool lend = lzma_index_iter_next(&I.it, (lzma_index_iter_mode)mode);
	std::string d; bool bad = false;
	if ((bool)lend != mend) { bad = true; d = std::string("library says ") + (lend ? "nothing left" : "found") + ", model says " + (mend ? "nothing left" : "found"); }
	else if (!mend && cmp_info(I.it, S.m.info(q), d)) bad = true;
	else if (mend && !iter_public_equal(before, I.it)) { bad = true; d = "iterator modified although iter_next returned true"; }
	if (bad) {
		const char *sig = I.risk ? SIG_ITER_EMPTY : "C13:iter-next";
		if (I.risk && known_finding(sig)) { lzma_index_iter_rewind(&I.it); I.p = ix::Pos(); I.risk = false; return; }
		violation(sig, "iter_next(%s) from stream %lld block %lld (model target stream %lld block %lld)%s: %s", mn[mode], (long long)I.p.s + 1, (long long)I.p.b + 1, (long long)q.s + 1, (long long)q.b + 1,
			I.risk ? " [iterator was standing on an empty last Stream to which Blocks were appended afterwards]" : "", d.c_str());
	}
	if (!mend) { I.p = q; I.risk = false; }
	count(std::string("iter_next_") + mn[mode]); if (mend) count("iter_next_end");
}

static void mode_a(Case &c) {
	World W;
	g_stats.current = "{\"mode\":\"A\",\"ops\":[]}";
	unsigned maxops = 4 + c.u(60);
	bool nt_op = false;
	for (unsigned n = 0; n < maxops && !c.empty(); ++n) {
		unsigned op = c.u(32);
		if (W.live_count() == 0) op = 0;
		switch (op) {
		case 0: case 1: { // init
			int f = W.pick_free(); if (f < 0) { f = (int)c.u(4); W.op("end(s" + std::to_string(f) + ")"); W.end(f); }
			W.op("init(s" + std::to_string(f) + ")");
			W.s[f].idx = lzma_index_init(AL()); if (!W.s[f].idx) harness_bug("lzma_index_init"); W.s[f].m = ix::Index();
			check_slot(W, f, "after init"); count("op_init"); break; }
		case 2: case 3: case 4: case 5: case 6: case 7: { // append one
			int j = W.pick_live(c); uint64_t unp = draw_unpadded(c, W.s[j].m), unc = draw_uncompressed(c, W.s[j].m);
			W.op("append(s" + std::to_string(j) + "," + n64(unp) + "," + n64(unc) + ")");
			do_append(W, j, unp, unc, true); count("op_append"); break; }
		case 8: case 9: case 10: { // append many small
			int j = W.pick_live(c); unsigned cnt = c.len_exp(1200); uint64_t unp = 5 + c.byte(), unc = c.flag() ? c.byte() : 0; unsigned vary = c.u(4); uint32_t seed = c.u16();
			W.op("append_many(s" + std::to_string(j) + ",n=" + std::to_string(cnt) + ",unp=" + std::to_string(unp) + ",unc=" + std::to_string(unc) + ",vary=" + std::to_string(vary) + ",seed=" + std::to_string(seed) + ")");
			Rng g(seed);
			for (unsigned k = 0; k < cnt; ++k) {
				uint64_t a = unp, b = unc;
				if (vary == 1) { a += g.below(300); b += g.below(3) ? g.below(70000) : 0; } else if (vary == 2) { a += g.below(4); b = g.below(4) ? 0 : b + g.below(5); } else if (vary == 3) { a = 5 + (g.next() >> (20 + g.below(44))); b = g.next() >> (16 + g.below(48)); }
				if (!do_append(W, j, a, b, (k & 63) == 0)) break;
			}
			check_slot(W, j, "after append_many"); count("op_append_many"); break; }
		case 11: case 12: { // stream flags
			int j = W.pick_live(c); lzma_stream_flags f; memset(&f, 0, sizeof f);
			unsigned chk = c.u(16); uint8_t k = c.byte();
			if (k < 90) chk = c.pick<unsigned>({0, 1, 4, 10});
			f.version = 0; f.backward_size = LZMA_VLI_UNKNOWN; f.check = (lzma_check)chk;
			uint8_t v = c.byte();
			if (v < 24) f.version = c.pick<uint32_t>({1, 2, UINT32_MAX});
			else if (v < 90) f.backward_size = 4 * (1 + (uint64_t)c.u16());
			else if (v < 100) f.backward_size = c.pick<uint64_t>({4, LZMA_BACKWARD_SIZE_MAX, LZMA_BACKWARD_SIZE_MAX - 4});
			else if (v < 124) f.backward_size = c.pick<uint64_t>({0, 1, 2, 3, 5, 6, 7, LZMA_BACKWARD_SIZE_MAX + 4, LZMA_BACKWARD_SIZE_MAX + 1, LZMA_VLI_MAX, LZMA_VLI_MAX - 3, UINT64_MAX - 1});
			W.op("flags(s" + std::to_string(j) + ",v=" + std::to_string(f.version) + ",check=" + std::to_string(chk) + ",bs=" + n64(f.backward_size) + ")");
			ix::Res er = W.s[j].m.set_flags(f.version, chk, f.backward_size);
			lzma_ret lr = lzma_index_stream_flags(W.s[j].idx, &f);
			if (lr != to_ret(er)) violation("C13:stream-flags", "lzma_index_stream_flags(version=%u, check=%u, backward_size=%s): library %s, model %s", f.version, chk, x64(f.backward_size).c_str(), drv::retname(lr), drv::retname(to_ret(er)));
			memset(&f, 0xDD, sizeof f); // "the caller doesn't need to keep the flags' data available"
			check_slot(W, j, "after stream_flags"); count(er == ix::RS_OK ? "op_flags_ok" : "op_flags_rejected"); break; }
		case 13: case 14: { // stream padding
			int j = W.pick_live(c); uint8_t k = c.byte(); uint64_t p;
			if (k < 120) p = 4 * (uint64_t)c.u(17); else if (k < 150) p = 4 * (uint64_t)c.u16(); else if (k < 180) p = c.byte(); /* mostly invalid */
			else if (k < 225) { u128 fs = W.s[j].m.file_size() - W.s[j].m.streams.back().padding; uint64_t room = (uint64_t)(ix::VLI_MAX - fs); int d = 4 * ((int)c.u(7) - 4) + (c.chance(40) ? 1 : 0); p = d < 0 ? (room >= (uint64_t)(-d) ? room - (uint64_t)(-d) : 0) : room + (uint64_t)d; if (!(k & 1)) p &= ~(uint64_t)3; }
			else if (k < 240) p = c.pick<uint64_t>({LZMA_VLI_MAX, LZMA_VLI_MAX - 3, LZMA_VLI_MAX + 1, UINT64_MAX, UINT64_MAX - 3, (uint64_t)1 << 62});
			else p = (c.u64() >> c.u(64)) & ~(uint64_t)3;
			W.op("padding(s" + std::to_string(j) + "," + n64(p) + ")");
			ix::Res er = W.s[j].m.set_padding(p);
			lzma_ret lr = lzma_index_stream_padding(W.s[j].idx, p);
			if (lr != to_ret(er)) violation(er == ix::RS_OK ? "C13:stream-padding-rejected" : "C13:stream-padding-limit", "lzma_index_stream_padding(%s): library %s, model %s (file size without it %s)", x64(p).c_str(), drv::retname(lr), drv::retname(to_ret(er)),
				u2s(W.s[j].m.file_size() - W.s[j].m.streams.back().padding).c_str());
			check_slot(W, j, "after stream_padding"); count(er == ix::RS_OK ? "op_padding_ok" : (er == ix::RS_PROG_ERROR ? "op_padding_prog_error" : "op_padding_data_error(limit)")); break; }
		case 15: case 16: case 17: { // cat
			if (W.live_count() < 2) break;
			int a = W.pick_live(c), b = W.pick_live(c); if (a == b) { for (int k = 1; k < 4; ++k) if (W.s[(a + k) & 3].idx) { b = (a + k) & 3; break; } }
			W.op("cat(s" + std::to_string(a) + ",s" + std::to_string(b) + ")");
			Slot &A = W.s[a], &B = W.s[b];
			// (known finding SIG_UNC_TOTAL) an index whose uncompressed total already exceeds LZMA_VLI_MAX makes the uint64 sums in lzma_index_cat wrap
			if (A.over || B.over) { count("cat_skipped_operand_over_vli_max"); break; }
			bool big = A.m.block_count() + B.m.block_count() >= 2;
			uint64_t bstreams = B.m.stream_count();
			ix::Res er = A.m.cat(B.m);
			lzma_ret lr = lzma_index_cat(A.idx, B.idx, AL());
			if (lr == LZMA_MEM_ERROR) harness_bug("cat: LZMA_MEM_ERROR");
			if (lr != to_ret(er)) violation(er == ix::RS_OK ? "C13:cat-rejected" : "C13:cat-limit", "lzma_index_cat: library %s, model %s (file sizes %s + %s, uncompressed %s + %s)", drv::retname(lr), drv::retname(to_ret(er)),
				u2s(A.m.file_size()).c_str(), u2s(B.m.file_size()).c_str(), u2s(A.m.uncompressed_size()).c_str(), u2s(B.m.uncompressed_size()).c_str());
			if (er == ix::RS_OK) {
				A.checks_reliable = A.checks_reliable && B.checks_reliable; A.checks_suspect = A.checks_suspect || B.checks_suspect; A.over = A.over || B.over;
				B.idx = NULL; W.end(b); // consumed: its iterators are invalid
				check_slot(W, a, "after cat");
				if (A.m.block_count() <= 300 || c.chance(64)) full_check_slot(W, a, "after cat", &c);
				count("op_cat_ok"); if (bstreams > 1) count("cat_multi_stream_source"); if (big) nt_op = true;
			} else { check_slot(W, a, "after failed cat (dest)"); check_slot(W, b, "after failed cat (src)");
				if (A.m.block_count() + B.m.block_count() <= 200) { full_check_slot(W, a, "after failed cat (dest)", NULL); full_check_slot(W, b, "after failed cat (src)", NULL); }
				count("op_cat_data_error(limit)"); }
			break; }
		case 18: case 19: { // dup
			int j = W.pick_live(c); int f = W.pick_free(); if (f < 0) break;
			W.op("dup(s" + std::to_string(j) + "->s" + std::to_string(f) + ")");
			lzma_index *d = lzma_index_dup(W.s[j].idx, AL());
			if (!d) { if (g_alp->refused_cap) { count("environment_alloc_cap"); break; } violation("C13:dup-failed", "lzma_index_dup returned NULL although no allocation was refused"); }
			W.s[f].idx = d; W.s[f].m = W.s[j].m; W.s[f].checks_reliable = W.s[j].checks_reliable; W.s[f].over = W.s[j].over; W.s[f].checks_suspect = W.s[j].checks_suspect || W.s[j].m.stream_count() > 1;
			check_slot(W, j, "source after dup");
			// every observable equal to the source, lzma_index_checks first (known defect has its own signature)
			uint32_t cs = lzma_index_checks(W.s[j].idx), cd = lzma_index_checks(d);
			if (cs != cd && W.s[f].checks_reliable) {
				if (!known_finding(SIG_DUP)) violation(SIG_DUP, "lzma_index_checks(): 0x%x on the source (%llu Streams), 0x%x on its lzma_index_dup() copy", cs, (unsigned long long)W.s[j].m.stream_count(), cd);
				W.s[f].checks_reliable = false;
			}
			full_check_slot(W, f, "copy from lzma_index_dup", &c);
			count("op_dup"); if (W.s[j].m.stream_count() > 1) count("dup_multi_stream"); if (W.s[j].m.block_count() >= 2) nt_op = true; break; }
		case 20: case 21: { // encode, decode back
			int j = W.pick_live(c);
			W.op("encode_decode(s" + std::to_string(j) + ")");
			std::vector<uint8_t> bytes = do_encode(W, j, c);
			do_decode(W, bytes, c, "own encoding");
			check_all(W, "after encode/decode"); count("op_encode_decode"); if (W.s[j].m.block_count() >= 2) nt_op = true; break; }
		case 22: { // encode, damage, decode
			int j = W.pick_live(c);
			std::vector<uint8_t> bytes = W.s[j].m.encode();
			std::string mu = mutate_index_bytes(c, bytes);
			W.op("decode_mutated(s" + std::to_string(j) + "," + mu + ")");
			do_decode(W, bytes, c, "mutated encoding");
			count("op_decode_mutated"); break; }
		case 23: { // new iterator
			int j = W.pick_live(c); int k = (int)c.u(4);
			W.op("iter_init(i" + std::to_string(k) + ",s" + std::to_string(j) + ")");
			ItSlot &I = W.it[k]; I = ItSlot(); iter_clear(I.it); I.live = true; I.slot = j; lzma_index_iter_init(&I.it, W.s[j].idx); count("op_iter_init"); break; }
		case 24: case 25: case 26: case 27: { // next
			int k = (int)c.u(4); int mode = (int)c.u(4); unsigned rep = 1 + c.small(40);
			ItSlot &I = W.it[k]; if (!I.live) { int j = W.pick_live(c); I = ItSlot(); iter_clear(I.it); I.live = true; I.slot = j; lzma_index_iter_init(&I.it, W.s[j].idx); W.op("iter_init(i" + std::to_string(k) + ",s" + std::to_string(j) + ")"); }
			W.op("iter_next(i" + std::to_string(k) + ",mode=" + std::to_string(mode) + ",x" + std::to_string(rep) + ")");
			for (unsigned r = 0; r < rep && I.live; ++r) iter_op_next(W, I, mode);
			break; }
		case 28: { int k = (int)c.u(4); ItSlot &I = W.it[k]; if (!I.live) break; W.op("iter_rewind(i" + std::to_string(k) + ")"); lzma_index_iter_rewind(&I.it); I.p = ix::Pos(); I.risk = false; count("op_iter_rewind"); break; }
		case 29: case 30: { // locate
			int k = (int)c.u(4); ItSlot &I = W.it[k];
			if (!I.live) { int j = W.pick_live(c); I = ItSlot(); iter_clear(I.it); I.live = true; I.slot = j; lzma_index_iter_init(&I.it, W.s[j].idx); W.op("iter_init(i" + std::to_string(k) + ",s" + std::to_string(j) + ")"); }
			Slot &S = W.s[I.slot]; u128 tot = S.m.uncompressed_size(); uint64_t t; uint8_t sel = c.byte();
			if (sel < 150 && tot) { uint64_t r = c.u64(); t = tot <= UINT64_MAX ? r % (uint64_t)tot : r; }
			else if (sel < 200) { // a block boundary +-1
				uint64_t nb = S.m.block_count(); uint64_t pick = nb ? c.u32() % nb : 0, kk = 0; u128 off = 0; for (auto &s : S.m.streams) for (auto &r : s.recs) { if (kk++ < pick) off += r.uncompressed; }
				int d = (int)c.u(3) - 1; t = (uint64_t)off + (uint64_t)(int64_t)d; }
			else if (sel < 230) { int d = (int)c.u(5) - 2; t = (uint64_t)tot + (uint64_t)(int64_t)d; }
			else t = c.pick<uint64_t>({0, UINT64_MAX, LZMA_VLI_MAX, LZMA_VLI_MAX + 1});
			W.op("iter_locate(i" + std::to_string(k) + "," + n64(t) + ")");
			ix::Pos p; bool mf = S.m.locate(t, p);
			lzma_index_iter before = I.it;
			lzma_bool lf = lzma_index_iter_locate(&I.it, t);
			if ((bool)lf != mf) violation("C13:locate", "locate(%s): library returns %d, model %d (uncompressed size %s)", x64(t).c_str(), (int)lf, (int)mf, u2s(tot).c_str());
			if (mf) { if (!iter_public_equal(before, I.it)) violation("C13:locate", "locate(%s) failed but modified the iterator", x64(t).c_str()); count("op_locate_past_end"); }
			else { std::string d; if (cmp_info(I.it, S.m.info(p), d)) violation("C13:locate", "locate(%s) -> model stream %lld block %lld: %s", x64(t).c_str(), (long long)p.s + 1, (long long)p.b + 1, d.c_str());
				I.p = p; I.risk = false; count("op_locate_found"); if (S.m.block_count() >= 2) nt_op = true; }
			break; }
		case 31: { // copy an iterator / end an index / full check
			unsigned w = c.u(3);
			if (w == 0) { int a = (int)c.u(4), b = (int)c.u(4); if (!W.it[a].live || a == b) break; W.op("iter_copy(i" + std::to_string(a) + "->i" + std::to_string(b) + ")"); W.it[b] = W.it[a]; count("op_iter_copy"); }
			else if (w == 1) { int j = W.pick_live(c); W.op("end(s" + std::to_string(j) + ")"); W.end(j); count("op_end"); }
			else { int j = W.pick_live(c); W.op("full_check(s" + std::to_string(j) + ")"); full_check_slot(W, j, "explicit", &c); }
			break; }
		}
	}
	// final: everything still alive is compared in full
	for (int j = 0; j < 4; ++j) if (W.s[j].idx) { W.op("final_check(s" + std::to_string(j) + ")"); full_check_slot(W, j, "at the end of the history", &c); if (W.s[j].m.stream_count() > 1) count("final_multi_stream_index"); }
	count("mode_A");
	if (W.nops >= 3 && nt_op) nontrivial(hash_bytes(W.desc.data(), W.desc.size()));
	if (!g_alp->balanced()) { for (auto &x : W.s) if (x.idx) { lzma_index_end(x.idx, AL()); x.idx = NULL; } if (!g_alp->balanced()) violation("C13:leak", "%zu allocations (%llu bytes) still live after every index was freed", g_alp->live.size(), (unsigned long long)g_alp->live_bytes); }
	if (g_alp->unknown_free) violation("C13:leak", "free of a pointer that was not allocated through the allocator");
}

// ---------------------------------------------------------------- Mode B: files
struct BStream { unsigned check = 0; uint64_t padding = 0; std::vector<ix::Record> recs; size_t off_header = 0, off_index = 0, off_footer = 0, off_pad = 0, off_end = 0; uint64_t index_size = 0; };
struct BFile {
	std::vector<BStream> st; std::vector<uint8_t> bytes; std::vector<uint8_t> plain; bool real = false;
	uint64_t layout_hash = 0;
};

static void wr_header(std::vector<uint8_t> &f, size_t at, unsigned check, unsigned reserved = 0) { std::vector<uint8_t> h; ix::put_stream_header(h, check, reserved); memcpy(&f[at], h.data(), 12); }
static void wr_footer(std::vector<uint8_t> &f, size_t at, unsigned check, uint64_t bsize, unsigned reserved = 0) { std::vector<uint8_t> h; ix::put_stream_footer(h, check, bsize, reserved); memcpy(&f[at], h.data(), 12); }

// the index the file-info decoder must produce for streams [0, n) with the last padding replaced
static ix::Index model_of(const BFile &F, size_t n, uint64_t last_padding) {
	ix::Index all;
	for (size_t k = 0; k < n; ++k) {
		ix::Index one;
		for (auto &r : F.st[k].recs) if (one.append(r.unpadded, r.uncompressed) != ix::RS_OK) harness_bug("mode B: generated record not appendable");
		if (one.set_flags(0, F.st[k].check, F.st[k].index_size) != ix::RS_OK) harness_bug("mode B: flags");
		if (one.set_padding(k + 1 == n ? last_padding : F.st[k].padding) != ix::RS_OK) harness_bug("mode B: padding");
		if (k == 0) all = one; else if (all.cat(one) != ix::RS_OK) harness_bug("mode B: model cat");
	}
	return all;
}

static void build_file(Case &c, BFile &F, std::string &desc) {
	F.real = c.chance(100);
	unsigned ns = 1 + c.small(5);
	Rng fill(c.u16() + 1);
	std::vector<size_t> cuts; // real mode: plaintext split points
	Recipe rc;
	unsigned total_blocks_planned = 0;
	std::vector<unsigned> nbs(ns);
	bool bigidx = !F.real && c.chance(8);
	for (unsigned k = 0; k < ns; ++k) { unsigned nb = c.small(40); if (bigidx && k == (ns - 1) / 2) nb = 600 + c.u(700); if (F.real && nb > 12) nb = nb % 13; nbs[k] = nb; total_blocks_planned += nb; }
	if (F.real) {
		rc = draw_recipe(c, 1u << 14); F.plain = expand(rc);
		for (unsigned k = 0; k < total_blocks_planned; ++k) cuts.push_back(F.plain.empty() || c.chance(40) ? (cuts.empty() ? 0 : cuts.back()) : c.u32() % (F.plain.size() + 1));
		std::sort(cuts.begin(), cuts.end());
		if (!cuts.empty()) cuts.back() = F.plain.size(); else F.plain.clear();
	}
	lzma_options_lzma lz; if (lzma_lzma_preset(&lz, 0)) harness_bug("preset"); lz.dict_size = 4096u << c.u(5);
	lzma_options_delta dl; dl.type = LZMA_DELTA_TYPE_BYTE; dl.dist = 1 + c.u(4);
	bool delta = c.chance(60);
	size_t bi = 0, pprev = 0; unsigned compressed_budget = 2; // setting up the LZMA encoder dominates the cost of a case
	desc = std::string("\"real\":") + (F.real ? "true" : "false") + ",\"streams\":[";
	for (unsigned k = 0; k < ns; ++k) {
		BStream S;
		S.check = F.real ? c.pick<unsigned>({0, 1, 4, 10}) : (c.chance(190) ? c.pick<unsigned>({0, 1, 4, 10}) : c.u(16));
		S.padding = 4 * (uint64_t)c.u(17); if (c.chance(10)) S.padding = 4 * (uint64_t)(1990 + c.u(3200));
		S.off_header = F.bytes.size();
		F.bytes.resize(F.bytes.size() + 12); wr_header(F.bytes, S.off_header, S.check);
		uint8_t szclass = c.byte();
		for (unsigned b = 0; b < nbs[k]; ++b) {
			ix::Record r;
			if (F.real) {
				size_t pend = cuts[bi++]; const uint8_t *in = F.plain.data() + pprev; size_t inl = pend - pprev; pprev = pend;
				lzma_filter fl[3]; unsigned nf = 0; if (delta) { fl[nf].id = LZMA_FILTER_DELTA; fl[nf++].options = &dl; } fl[nf].id = LZMA_FILTER_LZMA2; fl[nf++].options = &lz; fl[nf].id = LZMA_VLI_UNKNOWN; fl[nf].options = NULL;
				lzma_block blk; memset(&blk, 0, sizeof blk); blk.version = 0; blk.check = (lzma_check)S.check; blk.filters = fl;
				size_t bound = lzma_block_buffer_bound(inl); if (!bound) harness_bug("block bound");
				size_t at = F.bytes.size(); F.bytes.resize(at + bound); size_t op = at;
				static const uint8_t nothing[1] = {0};
				// most Blocks are stored (LZMA2 uncompressed chunks: no encoder to set up), some really compressed
				lzma_ret er = (compressed_budget && c.chance(56) && compressed_budget--) ? lzma_block_buffer_encode(&blk, AL(), inl ? in : nothing, inl, F.bytes.data(), &op, at + bound)
					: lzma_block_uncomp_encode(&blk, inl ? in : nothing, inl, F.bytes.data(), &op, at + bound);
				if (er != LZMA_OK) harness_bug("lzma_block_buffer_encode/lzma_block_uncomp_encode: %s", drv::retname(er));
				r.unpadded = lzma_block_unpadded_size(&blk); r.uncompressed = blk.uncompressed_size;
				if (blk.uncompressed_size != inl || op - at != (size_t)ix::ceil4(r.unpadded) || lzma_block_total_size(&blk) != op - at) violation("C13:block-sizes", "lzma_block_buffer_encode: wrote %zu bytes, unpadded size %llu, uncompressed %llu for %zu input bytes", op - at, (unsigned long long)r.unpadded, (unsigned long long)blk.uncompressed_size, inl);
				F.bytes.resize(op);
			} else {
				if (szclass < 200 || bigidx) r.unpadded = 5 + fill.below(60); else if (szclass < 240) r.unpadded = 5 + fill.below(3000); else r.unpadded = 5 + fill.below(b < 3 ? 90000 : 300);
				unsigned uk = fill.below(8);
				r.uncompressed = uk == 0 ? 0 : uk < 4 ? fill.below(100000) : uk < 6 ? (fill.next() >> (24 + fill.below(30))) : ((uint64_t)1 << 40) + fill.below(1000);
				if (bigidx) r.uncompressed = ((uint64_t)1 << 36) + fill.below(1u << 30);
				size_t at = F.bytes.size(), len = (size_t)ix::ceil4(r.unpadded); F.bytes.resize(at + len);
				// payload the decoder must never interpret: random bytes with zero runs and look-alikes of the magic bytes sprinkled in
				for (size_t q = 0; q < len; q += 8) { uint64_t v = fill.next(); memcpy(&F.bytes[at + q], &v, std::min<size_t>(8, len - q)); }
				for (size_t q = 0, nsp = 1 + len / 24; q < nsp; ++q) { size_t w = fill.below((uint32_t)len); unsigned kind = fill.below(3);
					if (kind == 0) { size_t l = std::min<size_t>(1 + fill.below(12), len - w); memset(&F.bytes[at + w], 0, l); }
					else if (kind == 1) { static const uint8_t foot[2] = {0x59, 0x5A}; memcpy(&F.bytes[at + w], foot, std::min<size_t>(2, len - w)); }
					else { static const uint8_t head[6] = {0xFD, 0x37, 0x7A, 0x58, 0x5A, 0x00}; memcpy(&F.bytes[at + w], head, std::min<size_t>(6, len - w)); } }
			}
			S.recs.push_back(r);
		}
		if (!F.real && !bigidx && c.rare(50)) {
			// steer the size of this Stream (optionally including its Stream Padding) to a multiple of the file info decoder's 8 KiB
			// read-back window +-32 bytes, so that Stream Headers, Indexes and footers of non-last Streams land on both sides of
			// the window edges (one more filler Block of the size that makes it fit)
			const uint64_t T = 8192ull * (1 + c.u(3)) + 4 * (uint64_t)c.u(17) - 32 - (c.flag() ? 0 : std::min<uint64_t>(S.padding, 4096));
			ix::Index base; for (auto &r : S.recs) if (base.append(r.unpadded, r.uncompressed) != ix::RS_OK) harness_bug("mode B: record not appendable");
			const uint64_t have = base.streams[0].size();
			for (unsigned e = 0; e <= 24 && T > have + 8 + e; e += 4) {
				ix::Record r; r.unpadded = T - have - e; r.uncompressed = fill.below(100000); if (r.unpadded < 5 || (r.unpadded & 3)) continue;
				ix::Index t2 = base; if (t2.append(r.unpadded, r.uncompressed) != ix::RS_OK) break;
				if (t2.streams[0].size() != T) continue;
				size_t at = F.bytes.size(), len = (size_t)r.unpadded; F.bytes.resize(at + len);
				for (size_t q = 0; q < len; q += 8) { uint64_t v = fill.next() | 0x0101010101010101ull; memcpy(&F.bytes[at + q], &v, std::min<size_t>(8, len - q)); }
				S.recs.push_back(r); count("stream_size_steered_to_8KiB_window_edge"); break;
			}
		}
		ix::Index one; for (auto &r : S.recs) if (one.append(r.unpadded, r.uncompressed) != ix::RS_OK) harness_bug("mode B: record not appendable");
		std::vector<uint8_t> ib = one.encode(); S.index_size = ib.size();
		S.off_index = F.bytes.size(); F.bytes.insert(F.bytes.end(), ib.begin(), ib.end());
		S.off_footer = F.bytes.size(); F.bytes.resize(F.bytes.size() + 12); wr_footer(F.bytes, S.off_footer, S.check, S.index_size);
		S.off_pad = F.bytes.size(); F.bytes.resize(F.bytes.size() + S.padding, 0); S.off_end = F.bytes.size();
		if (S.off_pad - S.off_header != (size_t)one.streams[0].size()) harness_bug("mode B: stream size mismatch with model");
		F.layout_hash = hcomb(F.layout_hash, hcomb(hcomb(S.check, S.padding), hash_bytes(S.recs.data(), S.recs.size() * sizeof(ix::Record))));
		if (k < 8) desc += (k ? "," : "") + ("{\"check\":" + std::to_string(S.check) + ",\"blocks\":" + std::to_string(S.recs.size()) + ",\"size\":" + std::to_string(S.off_pad - S.off_header) + ",\"padding\":" + std::to_string(S.padding) + "}");
		F.st.push_back(S);
	}
	desc += "]";
	if (F.real) desc += ",\"plain\":" + rc.describe() + ",\"delta\":" + (delta ? "true" : "false");
}

enum Malform { MF_NONE, MF_FOOTER_MAGIC, MF_BACKWARD_SIZE, MF_PADDING_MOD4, MF_FLAG_MISMATCH, MF_INDEX_CRC, MF_TRUNCATED, MF_META_BITFLIP, MF_PADDING_NONZERO, MF_RESERVED_FLAGS, MF_INDEX_RECORD, MF_FIRST_MAGIC, MF_INDEX_SLACK, MF_N };
static const char *mf_names[] = {"none", "footer-magic", "backward-size", "padding-not-multiple-of-4", "header-footer-flag-mismatch", "index-crc", "truncated", "metadata-bitflip", "padding-nonzero", "reserved-flag-bits", "index-record-changed", "first-header-magic", "backward-size-covers-more-than-the-index"};

// Returns the expectation: valid (and the model to expect) or invalid.
struct Expect { bool valid = true; ix::Index m; bool want_format_error = false; };

static Expect malform(Case &c, BFile &F, int mf, std::string &note) {
	Expect E; size_t ns = F.st.size(); size_t k = c.u((uint32_t)ns); BStream &S = F.st[k]; std::vector<uint8_t> &f = F.bytes; char nb[96];
	E.m = model_of(F, ns, F.st.back().padding);
	switch (mf) {
	case MF_NONE: return E;
	case MF_FOOTER_MAGIC: { size_t p = S.off_footer + 10 + c.u(2); f[p] ^= (uint8_t)(1u << c.u(8)); E.valid = false; snprintf(nb, sizeof nb, "stream %zu byte %zu", k, p); break; }
	case MF_BACKWARD_SIZE: { int64_t d = 4 * (1 + (int64_t)c.u(6)); if (c.flag() && (int64_t)S.index_size - d >= 4) d = -d; wr_footer(f, S.off_footer, S.check, S.index_size + d); E.valid = false; snprintf(nb, sizeof nb, "stream %zu by %lld", k, (long long)d); break; }
	case MF_PADDING_MOD4: { // two paddings that are not multiples of four but add up to one (one only if there is a single Stream)
		unsigned a = 1 + c.u(3); size_t k2 = ns > 1 ? (k + 1 + c.u((uint32_t)ns - 1)) % ns : k; if (k2 < k) std::swap(k, k2);
		f.insert(f.begin() + F.st[k].off_pad, a, 0); if (k2 != k) f.insert(f.begin() + F.st[k2].off_pad + a, 4 - a, 0);
		E.valid = false; snprintf(nb, sizeof nb, "streams %zu,%zu +%u", k, k2, a); break; }
	case MF_FLAG_MISMATCH: { unsigned other = (S.check + 1 + c.u(15)) & 15; if (c.flag()) wr_header(f, S.off_header, other); else wr_footer(f, S.off_footer, other, S.index_size); E.valid = false; snprintf(nb, sizeof nb, "stream %zu check %u vs %u", k, S.check, other); break; }
	case MF_INDEX_CRC: { size_t p = S.off_footer - 4 + c.u(4); f[p] ^= (uint8_t)(1u << c.u(8)); E.valid = false; snprintf(nb, sizeof nb, "stream %zu byte %zu", k, p); break; }
	case MF_TRUNCATED: { size_t t = c.u32() % f.size(); if (c.chance(90)) { t = S.off_pad + 4 * c.u((uint32_t)(S.padding / 4 + 1)); if (t >= f.size()) t = S.off_pad ? S.off_pad - 1 : 0; }
		f.resize(t); E.valid = false;
		for (size_t q = 0; q < ns; ++q) if (t >= F.st[q].off_pad && t <= F.st[q].off_end && ((t - F.st[q].off_pad) & 3) == 0) { E.valid = true; E.m = model_of(F, q + 1, t - F.st[q].off_pad); }
		snprintf(nb, sizeof nb, "at %zu (%s)", t, E.valid ? "stream boundary: still valid" : "invalid"); break; }
	case MF_META_BITFLIP: { unsigned w = c.u(3); size_t lo = w == 0 ? S.off_header : (w == 1 ? S.off_index : S.off_footer), len = w == 1 ? S.index_size : 12; size_t p = lo + c.u32() % len; f[p] ^= (uint8_t)(1u << c.u(8));
		E.valid = false; E.want_format_error = (w == 0 && k == 0 && p < 6); snprintf(nb, sizeof nb, "stream %zu %s byte %zu", k, w == 0 ? "header" : (w == 1 ? "index" : "footer"), p); break; }
	case MF_PADDING_NONZERO: { if (S.padding == 0) { f.insert(f.begin() + S.off_pad, 4, 0); S.padding = 4; } size_t p = S.off_pad + c.u32() % S.padding; f[p] = 1 + c.u(255); E.valid = false; snprintf(nb, sizeof nb, "stream %zu byte %zu", k, p); break; }
	case MF_RESERVED_FLAGS: { unsigned r = 1u << c.u(12); wr_header(f, S.off_header, S.check, r); wr_footer(f, S.off_footer, S.check, S.index_size, r); E.valid = false; snprintf(nb, sizeof nb, "stream %zu bits 0x%x", k, r); break; }
	case MF_INDEX_RECORD: { if (S.recs.empty()) { size_t p = S.off_footer + 10; f[p] ^= 1; E.valid = false; snprintf(nb, sizeof nb, "(no records) footer magic stream %zu", k); break; }
		size_t j = c.u32() % S.recs.size(); ix::Index one; for (size_t q = 0; q < S.recs.size(); ++q) if (one.append(S.recs[q].unpadded + (q == j ? 4 : 0), S.recs[q].uncompressed) != ix::RS_OK) harness_bug("mf index record");
		std::vector<uint8_t> ib = one.encode(); f.erase(f.begin() + S.off_index, f.begin() + S.off_footer); f.insert(f.begin() + S.off_index, ib.begin(), ib.end());
		wr_footer(f, S.off_index + ib.size(), S.check, ib.size()); E.valid = false; snprintf(nb, sizeof nb, "stream %zu record %zu unpadded+4", k, j); break; }
	case MF_INDEX_SLACK: { // a complete Index followed by extra bytes, all covered by Backward Size; Blocks still end where the (longer) field starts
		size_t extra = 4 * (1 + c.u(3)); std::vector<uint8_t> z(extra, c.flag() ? 0 : (uint8_t)(1 + c.u(255)));
		// layout: header | blocks | index | extra | footer  ->  move the Index in front of the extra bytes by shifting: blocks are followed by index directly,
		// so the field start (footer - backward) must equal the Index start: put the extra bytes between Index and Footer
		f.insert(f.begin() + S.off_footer, z.begin(), z.end()); wr_footer(f, S.off_footer + extra, S.check, S.index_size + extra);
		E.valid = false; snprintf(nb, sizeof nb, "stream %zu +%zu bytes", k, extra); break; }
	case MF_FIRST_MAGIC: { size_t p = c.u(6); f[p] ^= (uint8_t)(1u << c.u(8)); E.valid = false; E.want_format_error = true; snprintf(nb, sizeof nb, "byte %zu", p); break; }
	}
	note = nb;
	return E;
}

struct FiRun { lzma_ret ret = LZMA_OK; lzma_index *idx = NULL; uint64_t seeks = 0, calls = 0, raises = 0; bool bound = false; };

// The file-info loop: next_in always points at file[cur]; after LZMA_SEEK_NEEDED cur = seek_pos.
static FiRun run_file_info(const std::vector<uint8_t> &f, size_t chunk, bool short_reads, unsigned finish_mode, uint64_t memlimit, uint32_t seed) {
	FiRun R; Rng g(seed);
	static const uint8_t none[1] = {0};
	const uint8_t *base = f.empty() ? none : f.data(); const uint64_t fsize = f.size();
	lzma_stream s = LZMA_STREAM_INIT; s.allocator = AL();
	lzma_ret ir = lzma_file_info_decoder(&s, &R.idx, memlimit, fsize);
	if (ir != LZMA_OK) harness_bug("lzma_file_info_decoder init: %s", drv::retname(ir));
	uint64_t cur = 0, limit = std::max<uint64_t>(memlimit, 1); bool finishing = false; unsigned idle = 0;
	const uint64_t max_calls = 6 * fsize + 4096;
	const bool whole_first = chunk >= fsize && !short_reads;
	for (;;) {
		lzma_action act = LZMA_RUN;
		size_t give;
		if (finishing) { act = LZMA_FINISH; give = s.avail_in; /* untouched */ }
		else {
			size_t want = short_reads ? 1 + g.below((uint32_t)std::min<size_t>(chunk, 1u << 30)) : chunk;
			give = (size_t)std::min<uint64_t>(want, fsize - cur);
			s.next_in = base + cur; s.avail_in = give;
			if (cur + give == fsize && (finish_mode == 2 || (finish_mode == 1 && g.below(2)))) { act = LZMA_FINISH; finishing = true; }
		}
		const uint8_t *in0 = s.next_in; size_t av0 = s.avail_in; uint64_t ti0 = s.total_in;
		lzma_ret r = lzma_code(&s, act); ++R.calls;
		size_t used = av0 - s.avail_in;
		if (s.avail_in > av0 || s.next_in != in0 + used || s.total_in != ti0 + used) violation("C11:accounting", "file info decoder: avail_in %zu->%zu next_in moved %td total_in %llu->%llu", av0, s.avail_in, s.next_in - in0, (unsigned long long)ti0, (unsigned long long)s.total_in);
		cur += used;
		if (s.next_out != NULL || s.avail_out != 0 || s.total_out != 0) violation("C11:accounting", "file info decoder touched the output side of lzma_stream");
		if (r == LZMA_SEEK_NEEDED) {
			++R.seeks;
			if (s.seek_pos > fsize) violation("C13:fileinfo-seek-beyond-file", "LZMA_SEEK_NEEDED with seek_pos %llu > file size %llu", (unsigned long long)s.seek_pos, (unsigned long long)fsize);
			// index.h: "if the application provides the whole file at once, no external seeking will be required".  Only the call that
			// received the whole file can seek inside it; after an interruption (LZMA_MEMLIMIT_ERROR) liblzma no longer sees the consumed part.
			if (whole_first && R.calls == 1) violation("C13:fileinfo-seek-with-whole-file", "LZMA_SEEK_NEEDED (seek_pos %llu) although the whole file (%llu bytes) was given in one buffer", (unsigned long long)s.seek_pos, (unsigned long long)fsize);
			cur = s.seek_pos; finishing = false; idle = 0; s.avail_in = 0; s.next_in = base + cur;
		} else if (r == LZMA_MEMLIMIT_ERROR) {
			uint64_t need = lzma_memusage(&s), curlim = lzma_memlimit_get(&s);
			if (curlim != limit) violation("C13:fileinfo-memlimit", "lzma_memlimit_get() = %llu, limit in force %llu", (unsigned long long)curlim, (unsigned long long)limit);
			if (need <= limit) violation("C13:fileinfo-memlimit", "LZMA_MEMLIMIT_ERROR with lzma_memusage() %llu <= limit %llu", (unsigned long long)need, (unsigned long long)limit);
			if (lzma_memlimit_set(&s, need) != LZMA_OK) violation("C13:fileinfo-memlimit", "lzma_memlimit_set(%llu) failed after LZMA_MEMLIMIT_ERROR", (unsigned long long)need);
			limit = need; if (++R.raises > 200) { R.bound = true; R.ret = r; break; }
		} else if (r == LZMA_OK) {
			if (used == 0) { if (++idle > 4) { R.bound = true; R.ret = r; break; } } else idle = 0;
		} else if (r == LZMA_BUF_ERROR && !(cur == fsize || finishing)) {
			// documented as non-fatal; we still had input to give: carry on
		} else { R.ret = r; break; }
		if (R.calls > max_calls) { R.bound = true; R.ret = r; break; }
	}
	lzma_end(&s);
	return R;
}

static void decode_blocks(const BFile &F, const lzma_index *idx, Case &c) {
	uint64_t nb = lzma_index_block_count(idx);
	lzma_index_iter it; iter_clear(it); lzma_index_iter_init(&it, idx);
	uint64_t stride = nb > 10 ? 1 + c.u((uint32_t)(nb / 5)) : 1, k = 0;
	while (!lzma_index_iter_next(&it, LZMA_INDEX_ITER_BLOCK)) {
		if (k++ % stride && k != nb) continue;
		uint64_t off = it.block.compressed_file_offset, tsz = it.block.total_size, uo = it.block.uncompressed_file_offset, us = it.block.uncompressed_size;
		if (off + tsz > F.bytes.size() || uo + us > F.plain.size() || !it.stream.flags) violation("C13:fileinfo-block-range", "Block %llu: offsets outside the file (compressed %llu+%llu of %zu, uncompressed %llu+%llu of %zu)", (unsigned long long)it.block.number_in_file,
			(unsigned long long)off, (unsigned long long)tsz, F.bytes.size(), (unsigned long long)uo, (unsigned long long)us, F.plain.size());
		lzma_filter fl[LZMA_FILTERS_MAX + 1]; lzma_block b; memset(&b, 0, sizeof b); b.version = 1; b.check = it.stream.flags->check; b.filters = fl;
		const uint8_t *p = F.bytes.data() + off;
		if (p[0] == 0) violation("C13:fileinfo-block-decode", "Block %llu: compressed_file_offset %llu points at an Index indicator", (unsigned long long)it.block.number_in_file, (unsigned long long)off);
		b.header_size = lzma_block_header_size_decode(p[0]);
		lzma_ret r = b.header_size <= tsz ? lzma_block_header_decode(&b, AL(), p) : LZMA_DATA_ERROR;
		if (r != LZMA_OK) violation("C13:fileinfo-block-decode", "Block %llu: no valid Block Header at compressed_file_offset %llu: %s", (unsigned long long)it.block.number_in_file, (unsigned long long)off, drv::retname(r));
		r = lzma_block_compressed_size(&b, it.block.unpadded_size);
		if (r != LZMA_OK) violation("C13:fileinfo-block-decode", "Block %llu: lzma_block_compressed_size(unpadded %llu): %s", (unsigned long long)it.block.number_in_file, (unsigned long long)it.block.unpadded_size, drv::retname(r));
		std::vector<uint8_t> out((size_t)us + 1); size_t ip = b.header_size, op = 0;
		r = lzma_block_buffer_decode(&b, AL(), p, &ip, (size_t)tsz, out.data(), &op, (size_t)us);
		lzma_filters_free(fl, AL());
		if (r != LZMA_OK || ip != tsz || op != us) violation("C13:fileinfo-block-decode", "Block %llu at %llu: lzma_block_buffer_decode %s, consumed %zu of %llu, produced %zu of %llu", (unsigned long long)it.block.number_in_file, (unsigned long long)off, drv::retname(r), ip, (unsigned long long)tsz, op, (unsigned long long)us);
		if (us && memcmp(out.data(), F.plain.data() + uo, (size_t)us)) violation("C13:fileinfo-block-bytes", "Block %llu: decoded bytes differ from plaintext[%llu..+%llu]", (unsigned long long)it.block.number_in_file, (unsigned long long)uo, (unsigned long long)us);
		if (lzma_block_unpadded_size(&b) != it.block.unpadded_size || b.uncompressed_size != us) violation("C13:fileinfo-block-decode", "Block %llu: sizes after decoding differ from the index", (unsigned long long)it.block.number_in_file);
		count("blocks_decoded_at_index_offsets");
	}
}

static void mode_b(Case &c) {
	BFile F; std::string fdesc;
	build_file(c, F, fdesc);
	int mf = MF_NONE; uint8_t mb = c.byte(); if (mb >= 140) mf = 1 + (mb - 140) % (MF_N - 1);
	std::string note; Expect E = malform(c, F, mf, note);
	// chunking and seek behaviour
	size_t fsz = F.bytes.size(); uint8_t ck = c.byte(); size_t chunk;
	if (ck < 40) chunk = SIZE_MAX; else if (ck < 70) chunk = 1; else if (ck < 130) chunk = 1 + c.u(64); else if (ck < 150) chunk = 8192 + (int)c.u(33) - 16; else if (ck < 170) chunk = fsz ? (fsz > 16 ? fsz - c.u(16) : fsz) : 1; else chunk = 1 + c.len_exp((uint32_t)std::max<size_t>(fsz, 1));
	bool short_reads = c.chance(80); unsigned finish_mode = c.u(3); uint32_t seed = c.u16();
	uint64_t memlimit = UINT64_MAX; uint8_t mlk = c.byte(); if (mlk < 40) memlimit = c.pick<uint64_t>({0, 1, 500, lzma_index_memusage(1, 0), lzma_index_memusage(1, 1), lzma_index_memusage(2, 0), 20000});
	set_desc("{\"mode\":\"B\"," + fdesc + ",\"file_size\":" + std::to_string(fsz) + ",\"malformed\":\"" + mf_names[mf] + "\",\"note\":" + jstr(note) + ",\"chunk\":" + (chunk == SIZE_MAX ? std::string("\"whole\"") : std::to_string(chunk)) + ",\"short_reads\":" + (short_reads ? "true" : "false")
		+ ",\"finish_mode\":" + std::to_string(finish_mode) + ",\"memlimit\":" + (memlimit == UINT64_MAX ? std::string("\"max\"") : std::to_string(memlimit)) + ",\"seed\":" + std::to_string(seed) + "}");
	FiRun R; R = run_file_info(F.bytes, chunk, short_reads, finish_mode, memlimit, seed);
	if (R.ret == LZMA_MEM_ERROR) { // a damaged Backward Size / Index can announce billions of Records: the preallocation is refused by the capped allocator
		if (E.valid) harness_bug("file info decoder: LZMA_MEM_ERROR from the capped allocator on a valid file");
		count("environment_alloc_cap"); if (R.idx) violation("C13:fileinfo-malformed-accepted", "index set on LZMA_MEM_ERROR"); return; }
	if (E.valid) {
		if (R.bound) violation("C04:call-bound", "file info decoder made no progress on a valid file (calls %llu, seeks %llu)", (unsigned long long)R.calls, (unsigned long long)R.seeks);
		if (R.ret != LZMA_STREAM_END) violation("C13:fileinfo-valid-rejected", "valid file: lzma_file_info_decoder ended with %s after %llu calls, %llu seeks", drv::retname(R.ret), (unsigned long long)R.calls, (unsigned long long)R.seeks);
		if (!R.idx) violation("C13:fileinfo-valid-rejected", "LZMA_STREAM_END but *dest_index is NULL");
		if (lzma_index_file_size(R.idx) != F.bytes.size()) violation("C13:fileinfo-index", "lzma_index_file_size() %llu != file size %zu", (unsigned long long)lzma_index_file_size(R.idx), F.bytes.size());
		full_check(R.idx, E.m, true, "index from lzma_file_info_decoder", &c);
		if (F.real) { if (lzma_index_uncompressed_size(R.idx) != F.plain.size() && mf == MF_NONE) violation("C13:fileinfo-index", "uncompressed size %llu != plaintext size %zu", (unsigned long long)lzma_index_uncompressed_size(R.idx), F.plain.size()); decode_blocks(F, R.idx, c); }
		count("file_valid");
	} else {
		if (R.ret == LZMA_STREAM_END) violation("C13:fileinfo-malformed-accepted", "malformed file (%s: %s) accepted: LZMA_STREAM_END, %llu Streams, %llu Blocks", mf_names[mf], note.c_str(), R.idx ? (unsigned long long)lzma_index_stream_count(R.idx) : 0ull, R.idx ? (unsigned long long)lzma_index_block_count(R.idx) : 0ull);
		if (R.bound && !(R.ret == LZMA_OK)) violation("C04:call-bound", "file info decoder on a malformed file (%s): call bound exceeded (calls %llu, seeks %llu, last %s)", mf_names[mf], (unsigned long long)R.calls, (unsigned long long)R.seeks, drv::retname(R.ret));
		if (R.ret == LZMA_OK && !R.bound) harness_bug("file info loop ended with LZMA_OK");
		if (R.ret == LZMA_OK) violation("C13:fileinfo-malformed-no-error", "malformed file (%s: %s): decoder keeps returning LZMA_OK without consuming input", mf_names[mf], note.c_str());
		if (E.want_format_error && R.ret != LZMA_FORMAT_ERROR) violation("C13:fileinfo-error-code", "magic bytes at the beginning of the file are wrong but the decoder returned %s instead of LZMA_FORMAT_ERROR", drv::retname(R.ret));
		if (R.ret == LZMA_PROG_ERROR) violation("C13:fileinfo-error-code", "LZMA_PROG_ERROR on a malformed file (%s: %s) with a protocol-correct caller", mf_names[mf], note.c_str());
		count("file_malformed"); count(std::string("malformed_") + mf_names[mf]); count(std::string("malformed_ret_") + drv::retname(R.ret));
	}
	if (R.idx) lzma_index_end(R.idx, AL());
	count("mode_B"); count(F.real ? "file_real_blocks" : "file_dummy_payload");
	count(R.seeks == 0 ? "seeks_0" : R.seeks <= 2 ? "seeks_1-2" : R.seeks <= 8 ? "seeks_3-8" : "seeks_9+");
	if (chunk == SIZE_MAX && !short_reads) count("whole_file_one_buffer");
	if (short_reads) count("short_reads"); if (R.raises) count("memlimit_raised");
	size_t tb = 0; for (auto &s : F.st) tb += s.recs.size();
	if (F.st.size() >= 2) count("file_multi_stream"); if (tb > 512) count("file_big_index");
	for (auto &s : F.st) if (s.padding >= 8000) { count("file_big_padding"); break; }
	if (F.st.size() >= 2 || tb >= 2) nontrivial(hcomb(hcomb(F.layout_hash, hcomb(mf, hash_bytes(note.data(), note.size()))), hcomb(hcomb(chunk, short_reads), hcomb(seed * 4 + finish_mode, memlimit))));
	if (!g_alp->balanced()) violation("C13:leak", "%zu allocations (%llu bytes) still live after the file info case", g_alp->live.size(), (unsigned long long)g_alp->live_bytes);
}

extern "C" size_t vfresh_max(void) { return 220; }

extern "C" int LLVMFuzzerTestOneInput(const uint8_t *data, size_t size) {
	begin_case("C13");
	Case c(data, size);
	AL();
	unsigned m = c.u(8);
	if (m < 5) mode_a(c); else mode_b(c);
	return 0;
}
